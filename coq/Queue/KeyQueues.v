(* Executable model of the per-key queues of /repo/server/lock.go (lines 10-534):
     LockManagerRingQueue, LockManagerPriorityRingQueue, LockManagerWaitQueue, LockManagerLockQueue
     (+ LockManagerScaleLockQueue = a LockQueue of queue.go, i.e. Slock.Queue.SegQueue.sq, plus a map).

   Conventions
   * A *Lock is a lock id (N); a queue slot is `slot = option N` (None = nil pointer).  The mutable lock fields that
     the queues read or write live in a separate lock store `store = N -> lockrec` (locks are shared heap objects).
   * A Go slice of the code is modelled by its visible part: `slice = (contents, cap)`, len = length contents.
     The code never re-slices beyond len, so array cells at positions >= len are unobservable.
     `append`: in place while len < cap, otherwise reallocation with the capacity computed by `go_next_cap`
     (Go 1.23 runtime.nextslicecap + roundupsize for 8-byte pointer elements; TRUSTED, validated by the harness
     which prints cap() after every push).  The theorems do not depend on the values of go_next_cap.
   * nil slice vs empty slice: `option slice`.
   * Go runtime panics (nil *Lock dereference, negative slice index) are the explicit outcome `Panic`.
   * refCount is a uint8: `refCount--` wraps mod 256; `manager.FreeLock` at 0 is a no-op for a lock whose manager
     field is nil (server/lock.go:855), which is how the harness creates locks. *)
From Coq Require Import List ZArith NArith Bool Lia.
From Slock Require Import Queue.SegQueue.
Import ListNotations.
Open Scope Z_scope.

(* ---------- lock store ---------- *)
Record lockrec : Type := mkLock {
  l_prio : N;          (* command.Rcount if command.TimeoutFlag & TIMEOUT_FLAG_RCOUNT_IS_PRIORITY else 0 *)
  l_timeouted : bool;
  l_ack : N;           (* ackCount, 0xff = not in ack *)
  l_locked : N;
  l_ref : N            (* refCount (uint8) *)
}.
Definition store := N -> lockrec.

Definition new_lock (p : N) : lockrec := mkLock p false 255 1 200.

Definition st_set (st : store) (i : N) (r : lockrec) : store := fun j => if N.eqb j i then r else st j.

(* queuedLock.refCount-- ; (refCount == 0 -> manager.FreeLock: no-op with manager == nil) *)
Definition dec_ref (st : store) (i : N) : store :=
  let r := st i in
  st_set st i (mkLock (l_prio r) (l_timeouted r) (l_ack r) (l_locked r) ((l_ref r + 255) mod 256)%N).

Definition prio_of (st : store) (i : N) : N := l_prio (st i).

(* tombstone predicates of the two compaction loops *)
Definition wait_dead (r : lockrec) : bool := l_timeouted r || negb (l_ack r =? 255)%N.   (* lock.go:434 *)
Definition lock_dead (r : lockrec) : bool := negb (0 <? l_locked r)%N.                   (* lock.go:236 *)

(* ---------- Go slices of *Lock ---------- *)
Record slice : Type := mkSlice { s_data : list slot; s_cap : nat }.

Definition size_classes : list N :=
  [8; 16; 24; 32; 48; 64; 80; 96; 112; 128; 144; 160; 176; 192; 208; 224; 240; 256; 288; 320; 352; 384; 416; 448;
   480; 512; 576; 640; 704; 768; 896; 1024; 1152; 1280; 1408; 1536; 1792; 2048; 2304; 2688; 3072; 3200; 3456; 4096;
   4864; 5376; 6144; 6528; 6784; 6912; 8192; 9472; 9728; 10240; 10880; 12288; 13568; 14336; 16384; 18432; 19072;
   20480; 21760; 24576; 27264; 28672; 32768]%N.

Fixpoint first_class (l : list N) (req : N) : N :=
  match l with
  | [] => req
  | c :: r => if (req <=? c)%N then c else first_class r req
  end.

(* runtime.roundupsize(size, noscan=false), go1.23 *)
Definition roundupsize (size : N) : N :=
  if (size <=? 32760)%N then
    let req := if (512 <? size)%N then (size + 8)%N else size in
    (first_class size_classes req - (req - size))%N
  else ((size + 8191) / 8192 * 8192)%N.

(* capacity after append of ONE element to a full []*Lock of capacity c *)
Definition next_cap_N (c : N) : N :=
  let newcap := if (c =? 0)%N then 1%N
                else if (c <? 256)%N then (c + c)%N
                else (c + (c + 768) / 4)%N in
  (roundupsize (newcap * 8) / 8)%N.

Definition go_next_cap (c : nat) : nat := N.to_nat (next_cap_N (N.of_nat c)).

Definition s_append (s : slice) (x : slot) : slice :=
  mkSlice (s_data s ++ [x])
          (if (length (s_data s) <? s_cap s)%nat then s_cap s else go_next_cap (s_cap s)).

(* ---------- LockManagerRingQueue ---------- *)
Record ring : Type := mkRing { r_q : slice; r_index : nat }.

Definition ring_new (size : nat) : ring := mkRing (mkSlice [] size) 0.

Definition ring_push (r : ring) (x : slot) : ring :=
  let d := s_data (r_q r) in
  let r1 := if (length d =? s_cap (r_q r))%nat && (Nat.div2 (length d) <? r_index r)%nat
            then mkRing (mkSlice (skipn (r_index r) d) (s_cap (r_q r))) 0   (* copy(q, q[index:]); q = q[:len-index] *)
            else r in
  mkRing (s_append (r_q r1) x) (r_index r1).

Definition ring_pop (r : ring) : ring * slot :=
  let d := s_data (r_q r) in
  if (length d <=? r_index r)%nat then (r, None)
  else
    let v := nth (r_index r) d None in
    if (length d <=? S (r_index r))%nat then (mkRing (mkSlice [] (s_cap (r_q r))) 0, v)
    else (mkRing (mkSlice (upd d (r_index r) None) (s_cap (r_q r))) (S (r_index r)), v).

Definition ring_head (r : ring) : slot :=
  let d := s_data (r_q r) in
  if (length d <=? r_index r)%nat then None else nth (r_index r) d None.

Definition ring_iter (r : ring) : list (list slot) :=
  let d := s_data (r_q r) in
  if (r_index r <? length d)%nat then [skipn (r_index r) d] else [].

(* self.queue[self.index].command: nil pointer dereference when the slot is nil *)
Definition ring_maxprio (st : store) (r : ring) : res N :=
  let d := s_data (r_q r) in
  if (length d <=? r_index r)%nat then Ok 0%N
  else match nth (r_index r) d None with
       | None => Panic
       | Some i => Ok (prio_of st i)
       end.

Definition ring_len (r : ring) : Z := Z.of_nat (length (s_data (r_q r))) - Z.of_nat (r_index r).

(* ---------- LockManagerPriorityRingQueue ---------- *)
(* priorityNodes is a plain list: its capacity is never inspected by the code *)
Record pnode : Type := mkPNode { pn_ring : ring; pn_prio : N }.
Record prq : Type := mkPrq { pq_nodes : list pnode; pq_size : nat }.

Definition prq_new (size : nat) : prq := mkPrq [] size.

(* for _, node := range priorityNodes { if node.priority == p { node.ringQueue.Push(lock); return } } *)
Fixpoint pq_push_existing (l : list pnode) (p : N) (x : slot) : option (list pnode) :=
  match l with
  | [] => None
  | n :: r =>
    if (pn_prio n =? p)%N then Some (mkPNode (ring_push (pn_ring n) x) (pn_prio n) :: r)
    else match pq_push_existing r p x with
         | Some r' => Some (n :: r')
         | None => None
         end
  end.

(* the `else` branch (len >= 2): rebuild, inserting before the first node of strictly smaller priority *)
Fixpoint pq_insert_many (l : list pnode) (node : pnode) : list pnode :=
  match l with
  | [] => [node]
  | n :: r => if (pn_prio n <? pn_prio node)%N then node :: n :: r else n :: pq_insert_many r node
  end.

Definition pq_insert (l : list pnode) (node : pnode) : list pnode :=
  match l with
  | [] => [node]
  | [n0] => if (pn_prio node <? pn_prio n0)%N then [n0; node] else [node; n0]
  | _ => pq_insert_many l node
  end.

Definition pq_push (st : store) (q : prq) (x : slot) : res prq :=
  match x with
  | None => Panic                                     (* lock.command on a nil lock *)
  | Some i =>
    let p := prio_of st i in
    match pq_push_existing (pq_nodes q) p x with
    | Some l => Ok (mkPrq l (pq_size q))
    | None => Ok (mkPrq (pq_insert (pq_nodes q) (mkPNode (ring_push (ring_new (pq_size q)) x) p)) (pq_size q))
    end
  end.

Fixpoint pq_pop_nodes (l : list pnode) : list pnode * slot :=
  match l with
  | [] => ([], None)
  | n :: r =>
    let '(rg, v) := ring_pop (pn_ring n) in
    match v with
    | Some _ => (mkPNode rg (pn_prio n) :: r, v)
    | None => let '(r', v') := pq_pop_nodes r in (mkPNode rg (pn_prio n) :: r', v')
    end
  end.

Definition pq_pop (q : prq) : prq * slot :=
  let '(l, v) := pq_pop_nodes (pq_nodes q) in (mkPrq l (pq_size q), v).

Fixpoint pq_head_nodes (l : list pnode) : slot :=
  match l with
  | [] => None
  | n :: r => match ring_head (pn_ring n) with Some i => Some i | None => pq_head_nodes r end
  end.
Definition pq_head (q : prq) : slot := pq_head_nodes (pq_nodes q).

Definition pq_iter (q : prq) : list (list slot) := flat_map (fun n => ring_iter (pn_ring n)) (pq_nodes q).

Fixpoint pq_maxprio_nodes (l : list pnode) : N :=
  match l with
  | [] => 0%N
  | n :: r => match ring_head (pn_ring n) with Some _ => pn_prio n | None => pq_maxprio_nodes r end
  end.
Definition pq_maxprio (q : prq) : N := pq_maxprio_nodes (pq_nodes q).

Definition pq_len (q : prq) : Z := fold_left (fun acc n => acc + ring_len (pn_ring n)) (pq_nodes q) 0.

(* ---------- the shared fastQueue push of LockManagerWaitQueue / LockManagerLockQueue ---------- *)
(* The compaction loop  for i := fastIndex; i < len; i++ { ... }  reads cell i and writes only cells
   currentIndex <= i, so it is a left-to-right pass over fastQueue[fastIndex:]: returns the kept entries
   (= the new fastQueue[:currentIndex]) and the store after the refCount-- of the dropped ones. *)
Fixpoint compact (dead : lockrec -> bool) (st : store) (l : list slot) : list slot * store :=
  match l with
  | [] => ([], st)
  | None :: r => compact dead st r
  | Some i :: r =>
    if dead (st i) then compact dead (dec_ref st i) r
    else let '(k, st') := compact dead st r in (Some i :: k, st')
  end.

Inductive fast_res : Type :=
| FDone (f : slice) (idx : Z) (st : store)     (* pushed into fastQueue *)
| FFull (st : store).                          (* fall through to the ring / scale queue *)

Definition fast_push (dead : lockrec -> bool) (initcap : nat) (st : store) (f : option slice) (idx : Z) (x : slot)
  : res fast_res :=
  match f with
  | None => Ok (FDone (s_append (mkSlice [] initcap) x) idx st)
  | Some s =>
    let d := s_data s in
    let n := length d in
    if (n <? s_cap s)%nat then Ok (FDone (s_append s x) idx st)
    else if Z.of_nat n <=? idx then Ok (FDone (s_append (mkSlice [] (s_cap s)) x) 0 st)
    else if idx <? 0 then Panic                    (* fastQueue[-1] *)
    else
      let '(k, st') := compact dead st (skipn (Z.to_nat idx) d) in
      if (length k <? n)%nat then Ok (FDone (s_append (mkSlice k (s_cap s)) x) 0 st')
      else if (s_cap s <=? 128)%nat then Ok (FDone (s_append s x) idx st')
      else Ok (FFull st')
  end.

(* ---------- LockManagerWaitQueue ---------- *)
Inductive anyring : Type := RNone | RPlain (r : ring) | RPrio (p : prq).   (* ILockManagerRingQueue, nil *)
Record wq : Type := mkWq { w_fast : option slice; w_findex : Z; w_ring : anyring }.

Definition wq_new (priorityQueue : bool) : wq :=
  if priorityQueue then mkWq None (-1) (RPrio (prq_new 16)) else mkWq None 0 RNone.

Definition wq_push (st : store) (q : wq) (x : slot) : res (wq * store) :=
  match w_ring q with
  | RPlain r => Ok (mkWq (w_fast q) (w_findex q) (RPlain (ring_push r x)), st)
  | RPrio p => p' <- pq_push st p x ;; Ok (mkWq (w_fast q) (w_findex q) (RPrio p'), st)
  | RNone =>
    fr <- fast_push wait_dead 8 st (w_fast q) (w_findex q) x ;;
    match fr with
    | FDone f i st' => Ok (mkWq (Some f) i RNone, st')
    | FFull st' => Ok (mkWq (w_fast q) (w_findex q) (RPlain (ring_push (ring_new 64) x)), st')
    end
  end.

(* fastQueue != nil && fastIndex < len(fastQueue) && fastIndex >= 0 *)
Definition wq_fast_active (q : wq) : option (slice * nat) :=
  match w_fast q with
  | Some s => if (w_findex q <? Z.of_nat (length (s_data s))) && (0 <=? w_findex q)
              then Some (s, Z.to_nat (w_findex q)) else None
  | None => None
  end.

Definition anyring_pop (r : anyring) : anyring * slot :=
  match r with
  | RNone => (RNone, None)
  | RPlain r => let '(r', v) := ring_pop r in (RPlain r', v)
  | RPrio p => let '(p', v) := pq_pop p in (RPrio p', v)
  end.

Definition wq_pop (q : wq) : wq * slot :=
  match wq_fast_active q with
  | Some (s, i) =>
    (mkWq (Some (mkSlice (upd (s_data s) i None) (s_cap s))) (w_findex q + 1) (w_ring q), nth i (s_data s) None)
  | None => let '(r', v) := anyring_pop (w_ring q) in (mkWq (w_fast q) (w_findex q) r', v)
  end.

Definition anyring_head (r : anyring) : slot :=
  match r with RNone => None | RPlain r => ring_head r | RPrio p => pq_head p end.

Definition wq_head (q : wq) : slot :=
  match wq_fast_active q with
  | Some (s, i) => nth i (s_data s) None
  | None => anyring_head (w_ring q)
  end.

Definition wq_reset (q : wq) : wq :=
  let f := match w_fast q with
           | Some s => if (8 <? s_cap s)%nat then None
                       else if (0 <? length (s_data s))%nat then Some (mkSlice [] (s_cap s)) else Some s
           | None => None
           end in
  mkWq f 0 RNone.

Definition anyring_iter (r : anyring) : list (list slot) :=
  match r with RNone => [] | RPlain r => ring_iter r | RPrio p => pq_iter p end.

Definition wq_iter (q : wq) : list (list slot) :=
  (match wq_fast_active q with Some (s, i) => [skipn i (s_data s)] | None => [] end) ++ anyring_iter (w_ring q).

Definition wq_maxprio (st : store) (q : wq) : res N :=
  match wq_fast_active q with
  | Some (s, i) => match nth i (s_data s) None with None => Panic | Some j => Ok (prio_of st j) end
  | None => match w_ring q with
            | RNone => Ok 0%N
            | RPlain r => ring_maxprio st r
            | RPrio p => Ok (pq_maxprio p)
            end
  end.

Definition anyring_len (r : anyring) : Z :=
  match r with RNone => 0 | RPlain r => ring_len r | RPrio p => pq_len p end.

Definition wq_len (q : wq) : Z :=
  match w_ring q with
  | RNone =>
    match w_fast q with
    | None => 0
    | Some s => if w_findex q <? 0 then 0 else Z.of_nat (length (s_data s)) - w_findex q
    end
  | r =>
    match w_fast q with
    | None => anyring_len r
    | Some s => if w_findex q <? 0 then anyring_len r else Z.of_nat (length (s_data s)) - w_findex q + anyring_len r
    end
  end.

(* for i := fastIndex; i < len; i++ { ringQueue.Push(fastQueue[i]) } *)
Fixpoint pq_push_all (st : store) (q : prq) (l : list slot) : res prq :=
  match l with
  | [] => Ok q
  | x :: r => q' <- pq_push st q x ;; pq_push_all st q' r
  end.

(* lock := old.Pop(); for lock != nil { new.Push(lock); lock = old.Pop() } *)
Fixpoint drain (fuel : nat) (st : store) (src : anyring) (dst : prq) : res prq :=
  match fuel with
  | O => OutOfFuel
  | S fuel =>
    let '(src', v) := anyring_pop src in
    match v with
    | None => Ok dst
    | Some _ => dst' <- pq_push st dst v ;; drain fuel st src' dst'
    end
  end.

Definition wq_repush (st : store) (q : wq) : res wq :=
  if w_findex q <? 0 then Ok q
  else
    '(p1, f1) <- match wq_fast_active q with
                 | Some (s, i) =>
                   p <- pq_push_all st (prq_new 16) (skipn i (s_data s)) ;;
                   Ok (p, Some (mkSlice [] (s_cap s)))
                 | None => Ok (prq_new 16, w_fast q)
                 end ;;
    p2 <- match w_ring q with
          | RNone => Ok p1
          | r => drain (S (Z.to_nat (anyring_len r))) st r p1
          end ;;
    Ok (mkWq f1 (-1) (RPrio p2)).

(* ---------- LockManagerLockQueue (+ LockManagerScaleLockQueue) ---------- *)
(* maps: LockId -> *Lock with LockId identified with the lock id: a duplicate-free list of ids, kept sorted *)
Record scaleq : Type := mkScale { sc_q : sq; sc_maps : list N }.
Record lq : Type := mkLq { lq_fast : option slice; lq_findex : Z; lq_scale : option scaleq }.

Definition lq_new : lq := mkLq None 0 None.

Fixpoint maps_add (l : list N) (i : N) : list N :=
  match l with
  | [] => [i]
  | j :: r => if (i =? j)%N then l else if (i <? j)%N then i :: l else j :: maps_add r i
  end.
Definition maps_del (l : list N) (i : N) : list N := filter (fun j => negb (j =? i)%N) l.
Definition maps_mem (l : list N) (i : N) : bool := existsb (fun j => (j =? i)%N) l.

(* err := scaleQueue.Push(lock); if err == nil { maps[lock.command.LockId] = lock }   (Push never fails) *)
Definition scale_push (s : scaleq) (x : slot) : res scaleq :=
  q' <- SegQueue.Push (sc_q s) x ;;
  match x with
  | None => Panic                               (* lock.command on a nil lock *)
  | Some i => Ok (mkScale q' (maps_add (sc_maps s) i))
  end.

Definition lq_push (st : store) (q : lq) (x : slot) : res (lq * store) :=
  match lq_scale q with
  | Some s => s' <- scale_push s x ;; Ok (mkLq (lq_fast q) (lq_findex q) (Some s'), st)
  | None =>
    fr <- fast_push lock_dead 6 st (lq_fast q) (lq_findex q) x ;;
    match fr with
    | FDone f i st' => Ok (mkLq (Some f) i None, st')
    | FFull st' =>
      q0 <- SegQueue.new 1 8 256 ;;
      s' <- scale_push (mkScale q0 []) x ;;
      Ok (mkLq (lq_fast q) (lq_findex q) (Some s'), st')
    end
  end.

(* fastQueue != nil && fastIndex < len(fastQueue)   (no >= 0 test here: a negative index would panic) *)
Definition lq_fast_active (q : lq) : option slice :=
  match lq_fast q with
  | Some s => if lq_findex q <? Z.of_nat (length (s_data s)) then Some s else None
  | None => None
  end.

Definition lq_pop (q : lq) : res (lq * slot) :=
  match lq_fast_active q with
  | Some s =>
    v <- lift (zget (s_data s) (lq_findex q)) ;;
    d <- lift (zset (s_data s) (lq_findex q) None) ;;
    Ok (mkLq (Some (mkSlice d (s_cap s))) (lq_findex q + 1) (lq_scale q), v)
  | None =>
    match lq_scale q with
    | Some s => '(q', v) <- SegQueue.Pop (sc_q s) ;; Ok (mkLq (lq_fast q) (lq_findex q) (Some (mkScale q' (sc_maps s))), v)
    | None => Ok (q, None)
    end
  end.

Definition lq_head (q : lq) : res slot :=
  match lq_fast_active q with
  | Some s => lift (zget (s_data s) (lq_findex q))
  | None =>
    match lq_scale q with
    | Some s => SegQueue.Head (sc_q s)
    | None => Ok None
    end
  end.

(* for i := fastIndex; i < len; i++ { lock := fastQueue[i]; if lock.locked > 0 && lock.LockId == id { return lock } } *)
Fixpoint getlock_scan (st : store) (l : list slot) (id : N) : res slot :=
  match l with
  | [] => Ok None
  | None :: _ => Panic                               (* lock.locked on a nil lock *)
  | Some j :: r => if (0 <? l_locked (st j))%N && (j =? id)%N then Ok (Some j) else getlock_scan st r id
  end.

Definition lq_getlock (st : store) (q : lq) (id : N) : res slot :=
  v <- match lq_fast q with
       | Some s =>
         if lq_findex q <? Z.of_nat (length (s_data s)) then
           if lq_findex q <? 0 then Panic else getlock_scan st (skipn (Z.to_nat (lq_findex q)) (s_data s)) id
         else Ok None
       | None => Ok None
       end ;;
  match v with
  | Some _ => Ok v
  | None =>
    match lq_scale q with
    | Some s => Ok (if maps_mem (sc_maps s) id then Some id else None)
    | None => Ok None
    end
  end.

Definition lq_removelock (q : lq) (id : N) : lq :=
  match lq_scale q with
  | Some s => mkLq (lq_fast q) (lq_findex q) (Some (mkScale (sc_q s) (maps_del (sc_maps s) id)))
  | None => q
  end.

(* len(IterNodes()) *)
Definition lq_iternodes (q : lq) : res Z :=
  let first := match lq_fast_active q with
               | Some _ => 1
               | None => match lq_scale q with Some _ => 1 | None => 0 end
               end in
  match lq_scale q with
  | Some s => n <- SegQueue.IterNodes (sc_q s) ;; Ok (first + n)
  | None => Ok first
  end.

Definition lq_iternodequeues (q : lq) (index : Z) : res (list slot) :=
  if index =? 0 then
    match lq_fast_active q with
    | Some s => lift (zslice (s_data s) (lq_findex q) (Z.of_nat (length (s_data s))))
    | None => Ok []
    end
  else
    match lq_scale q with
    | None => Ok []
    | Some s => SegQueue.IterNodeQueues (sc_q s) (index - 1)
    end.

Definition lq_iter_body (st : lq * Z * list (list slot)) : res (lq * Z * list (list slot)) :=
  let '(q, i, acc) := st in
  l <- lq_iternodequeues q i ;; Ok (q, i + 1, acc ++ [l]).

(* for i := range q.IterNodes() { q.IterNodeQueues(int32(i)) } *)
Definition lq_iterall (q : lq) : res (list (list slot)) :=
  n <- lq_iternodes q ;;
  '(_, _, acc) <- iter (Z.to_nat n) lq_iter_body (q, 0, []) ;;
  Ok acc.

Definition lq_resize (q : lq) : res lq :=
  match lq_scale q with
  | Some s =>
    if 8 <=? headNodeIndex (sc_q s) then
      q' <- SegQueue.Resize (sc_q s) ;; Ok (mkLq (lq_fast q) (lq_findex q) (Some (mkScale q' (sc_maps s))))
    else Ok q
  | None => Ok q
  end.

Definition lq_reset (q : lq) : lq :=
  match lq_fast q with
  | Some s =>
    let f := if (6 <? s_cap s)%nat then None
             else if (0 <? length (s_data s))%nat then Some (mkSlice [] (s_cap s)) else Some s in
    mkLq f 0 None
  | None => mkLq None (lq_findex q) None
  end.

Definition lq_len (q : lq) : res Z :=
  match lq_scale q with
  | None =>
    match lq_fast q with
    | None => Ok 0
    | Some s => Ok (Z.of_nat (length (s_data s)) - lq_findex q)
    end
  | Some sc =>
    n <- SegQueue.Len (sc_q sc) ;;
    match lq_fast q with
    | None => Ok n
    | Some s => Ok (Z.of_nat (length (s_data s)) - lq_findex q + n)
    end
  end.

(* ---------- operations, observations, interpreter ---------- *)
Inductive kq : Type := KRing (r : ring) | KPrio (p : prq) | KWait (w : wq) | KLock (l : lq).

Record kstate : Type := mkK { k_q : kq; k_st : store; k_known : list N (* creation order, reversed *) }.

Inductive kop : Type :=
| KPush (x : slot) (prio : N)      (* prio = effective priority given to a lock created by this push *)
| KPop | KHead | KLen | KIter | KMaxPrio | KReset | KRePush | KResize
| KGetLock (id : N) | KRemoveLock (id : N)
| KMarkTimeouted (id : N) | KMarkAck (id : N) | KMarkUnlocked (id : N)
| KDump | KRefs.

Inductive rdump : Type := RD (len cap idx : nat).
Inductive ringdump : Type := RDNone | RDPlain (r : rdump) | RDPrio (l : list (N * rdump)).
Inductive kdump : Type :=
| DRing (r : ringdump)
| DWait (f : option (nat * nat)) (idx : Z) (r : ringdump)
| DLock (f : option (nat * nat)) (idx : Z) (s : option (SegQueue.dump * list N)).

Inductive kobs : Type :=
| KOk (caps : list Z)       (* push: ok + capacities of the slices after the push *)
| KUnit | KSkip | KVal (v : slot) | KInt (n : Z) | KNodes (l : list (list slot)) | KPrioVal (n : N)
| KDumpObs (d : kdump) | KRefsObs (l : list (N * N)).

Definition dump_ring (r : ring) : rdump := RD (length (s_data (r_q r))) (s_cap (r_q r)) (r_index r).
Definition dump_prq (p : prq) : list (N * rdump) := map (fun n => (pn_prio n, dump_ring (pn_ring n))) (pq_nodes p).
Definition dump_anyring (r : anyring) : ringdump :=
  match r with RNone => RDNone | RPlain r => RDPlain (dump_ring r) | RPrio p => RDPrio (dump_prq p) end.
Definition dump_fast (f : option slice) : option (nat * nat) :=
  match f with Some s => Some (length (s_data s), s_cap s) | None => None end.

Definition kq_dump (q : kq) : kdump :=
  match q with
  | KRing r => DRing (RDPlain (dump_ring r))
  | KPrio p => DRing (RDPrio (dump_prq p))
  | KWait w => DWait (dump_fast (w_fast w)) (w_findex w) (dump_anyring (w_ring w))
  | KLock l => DLock (dump_fast (lq_fast l)) (lq_findex l)
                     (match lq_scale l with Some s => Some (SegQueue.Dump (sc_q s), sc_maps s) | None => None end)
  end.

Definition caps_ring (r : ring) : list Z := [Z.of_nat (s_cap (r_q r))].
Definition caps_anyring (r : anyring) : list Z :=
  match r with
  | RNone => []
  | RPlain r => caps_ring r
  | RPrio p => map (fun n => Z.of_nat (s_cap (r_q (pn_ring n)))) (pq_nodes p)
  end.
Definition caps_fast (f : option slice) : list Z :=
  match f with Some s => [Z.of_nat (s_cap s)] | None => [-1] end.
Definition kq_caps (q : kq) : list Z :=
  match q with
  | KRing r => caps_ring r
  | KPrio p => caps_anyring (RPrio p)
  | KWait w => caps_fast (w_fast w) ++ caps_anyring (w_ring w)
  | KLock l => caps_fast (lq_fast l)
  end.

Definition known (k : kstate) (i : N) : bool := existsb (fun j => (j =? i)%N) (k_known k).

Definition mark (k : kstate) (i : N) (f : lockrec -> lockrec) : res (kstate * kobs) :=
  if known k i then Ok (mkK (k_q k) (st_set (k_st k) i (f (k_st k i))) (k_known k), KUnit)
  else Ok (k, KSkip).

Definition kstep (k : kstate) (o : kop) : res (kstate * kobs) :=
  let st := k_st k in
  match o with
  | KPush x prio =>
    (* a lock object is created the first time its id is pushed *)
    let '(st, kn) := match x with
                     | Some i => if known k i then (st, k_known k) else (st_set st i (new_lock prio), i :: k_known k)
                     | None => (st, k_known k)
                     end in
    '(q, st) <- match k_q k with
                | KRing r => Ok (KRing (ring_push r x), st)
                | KPrio p => p' <- pq_push st p x ;; Ok (KPrio p', st)
                | KWait w => '(w', st') <- wq_push st w x ;; Ok (KWait w', st')
                | KLock l => '(l', st') <- lq_push st l x ;; Ok (KLock l', st')
                end ;;
    Ok (mkK q st kn, KOk (kq_caps q))
  | KPop =>
    match k_q k with
    | KRing r => let '(r', v) := ring_pop r in Ok (mkK (KRing r') st (k_known k), KVal v)
    | KPrio p => let '(p', v) := pq_pop p in Ok (mkK (KPrio p') st (k_known k), KVal v)
    | KWait w => let '(w', v) := wq_pop w in Ok (mkK (KWait w') st (k_known k), KVal v)
    | KLock l => '(l', v) <- lq_pop l ;; Ok (mkK (KLock l') st (k_known k), KVal v)
    end
  | KHead =>
    match k_q k with
    | KRing r => Ok (k, KVal (ring_head r))
    | KPrio p => Ok (k, KVal (pq_head p))
    | KWait w => Ok (k, KVal (wq_head w))
    | KLock l => v <- lq_head l ;; Ok (k, KVal v)
    end
  | KLen =>
    match k_q k with
    | KRing r => Ok (k, KInt (ring_len r))
    | KPrio p => Ok (k, KInt (pq_len p))
    | KWait w => Ok (k, KInt (wq_len w))
    | KLock l => n <- lq_len l ;; Ok (k, KInt n)
    end
  | KIter =>
    match k_q k with
    | KRing r => Ok (k, KNodes (ring_iter r))
    | KPrio p => Ok (k, KNodes (pq_iter p))
    | KWait w => Ok (k, KNodes (wq_iter w))
    | KLock l => n <- lq_iterall l ;; Ok (k, KNodes n)
    end
  | KMaxPrio =>
    match k_q k with
    | KRing r => n <- ring_maxprio st r ;; Ok (k, KPrioVal n)
    | KPrio p => Ok (k, KPrioVal (pq_maxprio p))
    | KWait w => n <- wq_maxprio st w ;; Ok (k, KPrioVal n)
    | KLock _ => Ok (k, KSkip)
    end
  | KReset =>
    match k_q k with
    | KWait w => Ok (mkK (KWait (wq_reset w)) st (k_known k), KUnit)
    | KLock l => Ok (mkK (KLock (lq_reset l)) st (k_known k), KUnit)
    | _ => Ok (k, KSkip)
    end
  | KRePush =>
    match k_q k with
    | KWait w => w' <- wq_repush st w ;; Ok (mkK (KWait w') st (k_known k), KUnit)
    | _ => Ok (k, KSkip)
    end
  | KResize =>
    match k_q k with
    | KLock l => l' <- lq_resize l ;; Ok (mkK (KLock l') st (k_known k), KUnit)
    | _ => Ok (k, KSkip)
    end
  | KGetLock id =>
    match k_q k with
    | KLock l => v <- lq_getlock st l id ;; Ok (k, KVal v)
    | _ => Ok (k, KSkip)
    end
  | KRemoveLock id =>
    match k_q k with
    | KLock l => Ok (mkK (KLock (lq_removelock l id)) st (k_known k), KUnit)
    | _ => Ok (k, KSkip)
    end
  | KMarkTimeouted i => mark k i (fun r => mkLock (l_prio r) true (l_ack r) (l_locked r) (l_ref r))
  | KMarkAck i => mark k i (fun r => mkLock (l_prio r) (l_timeouted r) 0 (l_locked r) (l_ref r))
  | KMarkUnlocked i => mark k i (fun r => mkLock (l_prio r) (l_timeouted r) (l_ack r) 0 (l_ref r))
  | KDump => Ok (k, KDumpObs (kq_dump (k_q k)))
  | KRefs => Ok (k, KRefsObs (map (fun i => (i, l_ref (st i))) (rev (k_known k))))
  end.

Fixpoint krun (k : kstate) (ops : list kop) : list kobs * ending :=
  match ops with
  | [] => ([], EDone)
  | o :: r =>
    match kstep k o with
    | Ok (k', ob) => let '(l, e) := krun k' r in (ob :: l, e)
    | Panic => ([], EPanic)
    | OutOfFuel => ([], EFuel)
    end
  end.

Inductive ktype : Type := TRing (size : nat) | TPrio (size : nat) | TWait (priorityQueue : bool) | TLock.

Definition knew (t : ktype) : kq :=
  match t with
  | TRing n => KRing (ring_new n)
  | TPrio n => KPrio (prq_new n)
  | TWait b => KWait (wq_new b)
  | TLock => KLock lq_new
  end.

Definition run_key (t : ktype) (ops : list kop) : list kobs * ending :=
  krun (mkK (knew t) (fun _ => new_lock 0) []) ops.
