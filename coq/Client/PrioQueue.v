(* C19 (PriorityLock clause) — the waiters' priority ring, server/lock.go:86-190 (LockManagerPriorityRingQueue).

   nodes = `priorityNodes`: one FIFO ring per priority value, kept by Push in DESCENDING priority order; Head/Pop scan
   the nodes from the front and take the first element of the first non-empty ring; empty nodes are never removed.
   Hand transcription of Push's three cases (no node / one node / general insertion), Pop and Head.
   Theorem: for every sequence of pushes and pops, Head is an element of maximal priority among all queued elements
   (bigger number = higher priority), and Pop removes exactly that element.
   NOT modelled here: LockManagerWaitQueue's fast-array mode and its one-way switch RePushPriorityRingQueue (taken the
   first time a waiter's priority differs from the head's, lock.go:774-792), skipping of timed-out heads in
   GetWaitLock, and the newcomer window of LockDB.Lock (refuted separately, Properties/C19.v). *)
From Coq Require Import NArith List Bool Lia ZifyN ZifyBool Sorting.Sorted.
Import ListNotations.
Local Open Scope N_scope.

Record elem : Set := mkE { e_id : N; e_prio : N }.
Definition node : Set := (N * list elem)%type.
Definition pq := list node.

(* the `for _, node := range self.priorityNodes { if node.priority == lockPriority {...; return} }` loop *)
Fixpoint push_existing (p : N) (e : elem) (q : pq) : option pq :=
  match q with
  | [] => None
  | (np, r) :: t =>
      if np =? p then Some ((np, r ++ [e]) :: t)
      else match push_existing p e t with Some t' => Some ((np, r) :: t') | None => None end
  end.

(* the len >= 2 branch: insert before the first node with a smaller priority, else append *)
Fixpoint insert_general (n : node) (q : pq) : pq :=
  match q with
  | [] => [n]
  | m :: t => if fst m <? fst n then n :: m :: t else m :: insert_general n t
  end.

Definition push (e : elem) (q : pq) : pq :=
  let p := e_prio e in
  match push_existing p e q with
  | Some q' => q'
  | None =>
      let n := (p, [e]) in
      match q with
      | [] => [n]
      | [m] => if p <? fst m then [m; n] else [n; m]
      | _ => insert_general n q
      end
  end.

Fixpoint head (q : pq) : option elem :=
  match q with
  | [] => None
  | (_, []) :: t => head t
  | (_, e :: _) :: _ => Some e
  end.

Fixpoint pop (q : pq) : option elem * pq :=
  match q with
  | [] => (None, [])
  | (np, []) :: t => let (e, t') := pop t in (e, (np, []) :: t')
  | (np, e :: r) :: t => (Some e, (np, r) :: t)
  end.

Definition elems (q : pq) : list elem := flat_map snd q.

Inductive qop : Set := QPush (e : elem) | QPop.

Definition qstep (q : pq) (o : qop) : pq :=
  match o with QPush e => push e q | QPop => snd (pop q) end.

Definition qrun (q : pq) (ops : list qop) : pq := fold_left qstep ops q.

(* ------------------------------------------------------------------ invariant *)

Definition desc (q : pq) : Prop := StronglySorted (fun a b : node => fst b < fst a) q.
Definition tagged (q : pq) : Prop := Forall (fun n : node => Forall (fun e => e_prio e = fst n) (snd n)) q.
Definition qinv (q : pq) : Prop := desc q /\ tagged q.

Lemma push_existing_none : forall p e q, push_existing p e q = None -> Forall (fun m : node => fst m <> p) q.
Proof.
  induction q as [|[np r] t IH]; cbn [push_existing]; intros H; [constructor|].
  destruct (N.eqb_spec np p); [discriminate|].
  destruct (push_existing p e t); [discriminate|]. constructor; auto.
Qed.

Lemma push_existing_inv : forall p e q q', e_prio e = p -> qinv q -> push_existing p e q = Some q' ->
  qinv q' /\ (forall x, In x (elems q') <-> In x (elems q) \/ x = e) /\ map fst q' = map fst q.
Proof.
  induction q as [|[np r] t IH]; cbn [push_existing]; intros q' Hp [Hd Ht] H; [discriminate|].
  inversion Hd as [|? ? Hd' Hall]; subst. inversion Ht as [|? ? Hn Ht']; subst.
  destruct (N.eqb_spec np (e_prio e)).
  - inversion H; subst. repeat split.
    + constructor; auto.
    + constructor; auto. cbn [snd fst] in *. apply Forall_app; split; auto.
    + unfold elems; cbn [flat_map snd]. rewrite !in_app_iff. cbn [In]. intuition (subst; auto).
    + unfold elems; cbn [flat_map snd]. rewrite !in_app_iff. cbn [In]. intuition (subst; auto).
  - destruct (push_existing (e_prio e) e t) as [t'|] eqn:E; [|discriminate]. inversion H; subst.
    destruct (IH t' eq_refl (conj Hd' Ht') eq_refl) as ([Hd2 Ht2] & Hel & Hm).
    repeat split.
    + constructor; auto. clear - Hall Hm. revert t Hall Hm. induction t' as [|a t' IH]; intros t Hall Hm; [constructor|].
      destruct t as [|b t]; [discriminate|]. cbn [map] in Hm. inversion Hm. inversion Hall; subst.
      constructor; [cbn [fst] in *; lia | eapply IH; eauto].
    + constructor; auto.
    + unfold elems in *; cbn [flat_map snd]. rewrite !in_app_iff. intros [?|?]; [tauto|]. apply Hel in H0. tauto.
    + unfold elems in *; cbn [flat_map snd]. rewrite !in_app_iff. intros [[?|?]|?]; try tauto; right; apply Hel; tauto.
    + cbn [map]. f_equal; auto.
Qed.

Lemma insert_general_inv : forall p e q, e_prio e = p -> qinv q -> Forall (fun m : node => fst m <> p) q ->
  qinv (insert_general (p, [e]) q) /\ (forall x, In x (elems (insert_general (p, [e]) q)) <-> In x (elems q) \/ x = e)
  /\ (forall m, In m (insert_general (p, [e]) q) -> m = (p, [e]) \/ In m q).
Proof.
  induction q as [|m t IH]; intros Hp [Hd Ht] Hne.
  - cbn [insert_general]. repeat split; try (constructor; auto; constructor; auto).
    + cbn. intros [?|[]]; auto.
    + cbn. intros [[]|?]; auto.
    + intros x [<-|[]]; auto.
  - inversion Hd as [|? ? Hd' Hall]; subst. inversion Ht as [|? ? Hn Ht']; subst. inversion Hne as [|? ? Hm Hne']; subst.
    cbn [insert_general fst]. destruct (N.ltb_spec (fst m) (e_prio e)).
    + repeat split.
      * constructor; [constructor; auto|]. constructor; [cbn [fst]; auto|].
        eapply Forall_impl; [|exact Hall]. cbn [fst]; intros; lia.
      * constructor; [cbn; constructor; auto | constructor; auto].
      * unfold elems; cbn [flat_map snd app]. cbn [In]. intros [?|?]; auto.
      * unfold elems; cbn [flat_map snd app]. cbn [In]. intros [?|?]; auto.
      * intros x [<-|?]; auto.
    + destruct (IH eq_refl (conj Hd' Ht') Hne') as ([Hd2 Ht2] & Hel & Hin).
      repeat split.
      * constructor; auto. apply Forall_forall. intros x Hx. apply Hin in Hx. destruct Hx as [->|Hx].
        -- cbn [fst] in *. lia.
        -- eapply Forall_forall in Hall; eauto.
      * constructor; auto.
      * unfold elems in *; cbn [flat_map]. rewrite !in_app_iff. intros [?|?]; [tauto|]. apply Hel in H0; tauto.
      * unfold elems in *; cbn [flat_map]. rewrite !in_app_iff. intros [[?|?]|?]; try tauto; right; apply Hel; tauto.
      * intros x [<-|Hx]; [right; left; auto|]. apply Hin in Hx. destruct Hx; [left|right; right]; auto.
Qed.

Lemma push_inv : forall e q, qinv q -> qinv (push e q) /\ (forall x, In x (elems (push e q)) <-> In x (elems q) \/ x = e).
Proof.
  intros e q Hi. unfold push. destruct (push_existing (e_prio e) e q) as [q'|] eqn:E.
  - destruct (push_existing_inv _ _ _ _ eq_refl Hi E) as (A & B & _). split; auto.
  - pose proof (push_existing_none _ _ _ E) as Hne.
    destruct q as [|m [|m2 t]].
    + destruct (insert_general_inv (e_prio e) e [] eq_refl Hi Hne) as (A & B & _). split; auto.
    + (* the one-node case agrees with the general insertion *)
      destruct (insert_general_inv (e_prio e) e [m] eq_refl Hi Hne) as (A & B & _).
      cbn [insert_general fst] in A, B. inversion Hne; subst.
      destruct (N.ltb_spec (e_prio e) (fst m)); destruct (N.ltb_spec (fst m) (e_prio e)); try lia; split; auto.
    + destruct (insert_general_inv (e_prio e) e (m :: m2 :: t) eq_refl Hi Hne) as (A & B & _). split; auto.
Qed.

Lemma pop_inv : forall q, qinv q -> qinv (snd (pop q)) /\ fst (pop q) = head q /\
  (forall x, In x (elems q) <-> In x (elems (snd (pop q))) \/ Some x = head q /\ fst (pop q) = Some x)
  /\ map fst (snd (pop q)) = map fst q.
Proof.
  induction q as [|[np r] t IH]; intros [Hd Ht].
  - cbn. repeat split; auto; try constructor. intros [[]|[? ?]]; discriminate.
  - inversion Hd as [|? ? Hd' Hall]; subst. inversion Ht as [|? ? Hn Ht']; subst.
    destruct r as [|e r].
    + cbn [pop head]. destruct (IH (conj Hd' Ht')) as ([Hd2 Ht2] & Hh & Hel & Hm).
      destruct (pop t) as [o t'] eqn:E. cbn [fst snd] in *. repeat split; auto.
      * constructor; auto. clear - Hall Hm. revert t Hall Hm. induction t' as [|a t' IH]; intros t Hall Hm; [constructor|].
        destruct t as [|b t]; [discriminate|]. cbn [map] in Hm. inversion Hm. inversion Hall; subst.
        constructor; [cbn [fst] in *; lia | eapply IH; eauto].
      * constructor; auto.
      * unfold elems in *; cbn [flat_map snd app]. apply Hel.
      * unfold elems in *; cbn [flat_map snd app]. apply Hel.
      * cbn [map]. f_equal; auto.
    + cbn [pop head fst snd]. repeat split; auto.
      * constructor; auto.
      * constructor; auto. cbn [snd fst] in *. inversion Hn; auto.
      * unfold elems; cbn [flat_map snd app In]. intros [<-|H]; [right; auto | left; auto].
      * unfold elems; cbn [flat_map snd app In]. intros [H|[H _]]; [right; auto | inversion H; left; auto].
Qed.

(* under the invariant the head has maximal priority *)
Lemma head_max : forall q e, qinv q -> head q = Some e -> forall x, In x (elems q) -> e_prio x <= e_prio e.
Proof.
  induction q as [|[np r] t IH]; intros e [Hd Ht] Hh x Hx; [discriminate|].
  inversion Hd as [|? ? Hd' Hall]; subst. inversion Ht as [|? ? Hn Ht']; subst.
  unfold elems in Hx; cbn [flat_map snd] in Hx. apply in_app_or in Hx.
  destruct r as [|e0 r].
  - destruct Hx as [[]|Hx]. eapply IH; eauto. split; auto.
  - cbn [head] in Hh. inversion Hh; subst e0. cbn [snd fst] in Hn.
    assert (He : e_prio e = np) by (inversion Hn; auto).
    destruct Hx as [Hx|Hx].
    + eapply Forall_forall in Hn; eauto. lia.
    + (* x sits in a later node: strictly smaller priority *)
      change (In x (elems t)) in Hx. unfold elems in Hx. apply in_flat_map in Hx. destruct Hx as (m & Hm & Hxm).
      eapply Forall_forall in Hall; eauto. eapply Forall_forall in Ht'; eauto. eapply Forall_forall in Ht'; eauto.
      cbn [fst] in *. lia.
Qed.

Lemma qinv_run : forall ops q, qinv q -> qinv (qrun q ops).
Proof.
  induction ops as [|o ops IH]; intros q Hi; [exact Hi|].
  cbn [qrun fold_left]. apply IH. destruct o as [e|]; cbn [qstep].
  - apply push_inv; auto.
  - apply pop_inv; auto.
Qed.

Lemma qinv_nil : qinv [].
Proof. split; constructor. Qed.

(* For every sequence of pushes and pops: Head (what the wake-up pass serves next) has maximal priority among everything
   queued, Pop returns exactly Head and removes only it. *)
Theorem priority_ring_head_is_max : forall ops e, let q := qrun [] ops in
  head q = Some e ->
  (forall x, In x (elems q) -> e_prio x <= e_prio e) /\
  fst (pop q) = Some e /\
  (forall x, In x (elems q) <-> In x (elems (snd (pop q))) \/ x = e).
Proof.
  intros ops e q Hh. pose proof (qinv_run ops [] qinv_nil) as Hi. fold q in Hi.
  destruct (pop_inv q Hi) as (_ & Hp & Hel & _).
  repeat split.
  - eapply head_max; eauto.
  - congruence.
  - intros Hx. apply Hel in Hx. destruct Hx as [Hx|[Hx _]]; [left; auto | right; congruence].
  - intros [Hx | ->]; apply Hel; [left; auto | right; split; congruence].
Qed.

Lemma head_none_empty : forall q, head q = None -> elems q = [].
Proof.
  induction q as [|[np r] t IH]; [reflexivity|]. destruct r; cbn [head]; [|discriminate].
  intros H. unfold elems; cbn [flat_map snd app]. apply IH; auto.
Qed.
