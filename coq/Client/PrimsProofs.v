(* C19 — proofs about the abstract acceptance model (all operation sequences, by induction over op lists). *)
From Coq Require Import NArith List Bool Lia ZifyN ZifyBool.
From Slock Require Import Gen.GenClient Client.Prims.
Import ListNotations.
Local Open Scope N_scope.

(* ------------------------------------------------------------------ generic facts *)

Lemma locked_app : forall s h, locked (s ++ [h]) = locked s + h_depth h.
Proof. induction s; intros; cbn [locked app]; [lia | rewrite IHs; lia]. Qed.

Lemma run_app : forall ops1 ops2 s, run s (ops1 ++ ops2) = run (run s ops1) ops2.
Proof. intros; unfold run; apply fold_left_app. Qed.

Lemma run_cons : forall o ops s, run s (o :: ops) = run (step s o) ops.
Proof. reflexivity. Qed.

Lemma find_some_in : forall id s h, find id s = Some h -> In h s /\ h_id h = id.
Proof.
  induction s as [|x r IH]; cbn [find]; intros h H; [discriminate|].
  destruct (N.eqb_spec (h_id x) id).
  - inversion H; subst; split; [left|]; auto.
  - destruct (IH _ H); split; [right|]; auto.
Qed.

Lemma in_remove : forall id s h, In h (remove id s) -> In h s.
Proof.
  induction s as [|x r IH]; cbn [remove]; intros h H; [auto|].
  destruct (h_id x =? id); [right; auto|].
  destruct H; [left; auto | right; auto].
Qed.

Lemma forall_remove : forall (P : hold -> Prop) id s, Forall P s -> Forall P (remove id s).
Proof. intros P id s H; apply Forall_forall; intros h Hin; apply in_remove in Hin; eapply Forall_forall; eauto. Qed.

Lemma forall_upd : forall (P : hold -> Prop) id f s, Forall P s -> (forall h, P h -> P (f h)) -> Forall P (upd id f s).
Proof.
  induction s as [|x r IH]; cbn [upd]; intros H Hf; [constructor|].
  inversion H; subst. destruct (h_id x =? id); constructor; auto.
Qed.

(* when every hold has depth 1, `locked` is the number of holds *)
Definition depth1 (s : kstate) := Forall (fun h => h_depth h = 1) s.

Lemma locked_depth1 : forall s, depth1 s -> locked s = N.of_nat (length s).
Proof.
  induction s as [|x r IH]; intros H; [reflexivity|].
  inversion H; subst. cbn [locked length]. rewrite IH by assumption. lia.
Qed.

Lemma locked_remove_le : forall id s, locked (remove id s) <= locked s.
Proof.
  induction s as [|x r IH]; cbn [remove locked]; [lia|].
  destruct (h_id x =? id); cbn [locked]; lia.
Qed.

Lemma length_remove_le : forall id s, (length (remove id s) <= length s)%nat.
Proof.
  induction s as [|x r IH]; cbn [remove length]; [lia|].
  destruct (h_id x =? id); cbn [length]; lia.
Qed.

Lemma locked_zero_nil : forall s, Forall (fun h => 1 <= h_depth h) s -> locked s = 0 -> s = [].
Proof.
  destruct s as [|x r]; intros H H0; [reflexivity|].
  inversion H; subst. cbn [locked] in H0. lia.
Qed.

(* ------------------------------------------------------------------ admissible: the branches of doLock *)

Lemma admissible_free : forall c r, admissible 0 c r = true.
Proof. reflexivity. Qed.

Lemma admissible_count0 : forall l c, admissible l c 0 = (l =? 0).
Proof. intros; unfold admissible. destruct (l =? 0); reflexivity. Qed.

Lemma admissible_bounded : forall l c r, l <> 0 -> r < 0xffff -> admissible l c r = true -> l <= c /\ l <= r.
Proof.
  intros l c r Hl Hr. unfold admissible.
  destruct (N.eqb_spec l 0); [contradiction|].
  destruct (N.eqb_spec r 0); [discriminate|].
  destruct (N.leb_spec 0xffff l).
  - destruct (0x7fffffff <=? l); [discriminate|].
    destruct (N.eqb_spec r 0xffff); [lia | rewrite andb_false_r; discriminate].
  - intros HA; apply andb_true_iff in HA; destruct HA as [HA1 HA2].
    apply N.leb_le in HA1, HA2; lia.
Qed.

(* the code's explicit unlimited branch: at >= 0xffff outstanding holds, two 0xffff-Counts are still accepted *)
Lemma admissible_unlimited_branch : forall l, 0xffff <= l -> l < 0x7fffffff -> admissible l 0xffff 0xffff = true.
Proof.
  intros l H1 H2. unfold admissible.
  destruct (N.eqb_spec l 0); [lia|]. cbn [N.eqb].
  destruct (N.leb_spec 0xffff l); [|lia].
  destruct (N.leb_spec 0x7fffffff l); [lia|]. reflexivity.
Qed.

Lemma admissible_hard_stop : forall l c r, 0x7fffffff <= l -> admissible l c r = false.
Proof.
  intros l c r H. unfold admissible.
  destruct (N.eqb_spec l 0); [lia|].
  destruct (r =? 0); [reflexivity|].
  destruct (N.leb_spec 0xffff l); [|lia].
  destruct (N.leb_spec 0x7fffffff l); [reflexivity|lia].
Qed.

Lemma admissible_readers_below : forall l, l <> 0 -> l < 0xffff -> admissible l 0xffff 0xffff = true.
Proof.
  intros l H0 H1. unfold admissible.
  destruct (N.eqb_spec l 0); [contradiction|]. cbn [N.eqb].
  destruct (N.leb_spec 0xffff l); [lia|].
  apply andb_true_iff; split; apply N.leb_le; lia.
Qed.

(* ------------------------------------------------------------------ capacity: every request on the key uses Count c *)

Definition cap_op (c : N) (o : op) : Prop :=
  match o with
  | OLock r => r_count r = c /\ (r_rcount r = 0 \/ r_prio r = true) /\ r_exp0 r = false
  | _ => True
  end.

Definition capinv (c : N) (s : kstate) : Prop :=
  depth1 s /\ Forall (fun h => h_count h = c) s /\ locked s <= c + 1.

Lemma cap_step : forall c s o, c < 0xffff -> capinv c s -> cap_op c o -> capinv c (step s o).
Proof.
  intros c s o Hc (Hd & Hcnt & Hb) Hop.
  destruct o as [r | id rc p | p]; cbn [step].
  - destruct Hop as (Hrc & Hre & He). unfold try_lock.
    destruct (find (r_id r) s) as [h|] eqn:Hf.
    + destruct (find_some_in _ _ _ Hf) as [Hin Hid].
      assert (Hd1 : h_depth h = 1) by (eapply Forall_forall in Hd; eauto).
      destruct (r_update r).
      * cbn [fst]. repeat split.
        -- apply forall_upd; auto.
        -- apply forall_upd; auto.
        -- (* locked unchanged: depth is preserved by the update *)
           clear - Hb. revert Hb. generalize (c + 1). induction s as [|x t IH]; cbn [upd locked]; intros; [lia|].
           destruct (h_id x =? r_id r); cbn [locked h_depth]; [lia|].
           specialize (IH (n - h_depth x)). lia.
      * replace ((h_depth h <? 255) && (h_depth h <=? r_rcount r) && negb (r_prio r)) with false.
        { cbn [fst]; repeat split; auto. }
        rewrite Hd1. destruct Hre as [H0 | Hp]; [rewrite H0 | rewrite Hp]; cbn; try reflexivity.
        rewrite andb_false_r; reflexivity.
    + destruct (negb (if locked s =? 0 then r_wait_unlock r else false) && admissible (locked s) (cur_count s) (r_count r)) eqn:Ha.
      * rewrite He. cbn [fst]. apply andb_true_iff in Ha; destruct Ha as [_ Ha]. rewrite Hrc in Ha.
        repeat split.
        -- apply Forall_app; split; auto.
        -- apply Forall_app; split; auto.
        -- rewrite locked_app; cbn [h_depth].
           destruct (N.eq_dec (locked s) 0) as [H0|H0]; [lia|].
           apply admissible_bounded in Ha; auto; lia.
      * cbn [fst]; repeat split; auto.
  - unfold unlock. destruct (find id s) as [h|] eqn:Hf; [|cbn [fst]; repeat split; auto].
    destruct (find_some_in _ _ _ Hf) as [Hin Hid].
    assert (Hd1 : h_depth h = 1) by (eapply Forall_forall in Hd; eauto).
    rewrite Hd1. change (1 <? 1) with false. cbn [andb fst].
    repeat split; try (apply forall_remove; auto).
    pose proof (locked_remove_le id s); lia.
  - unfold unlock_head. destruct s as [|x t]; [cbn [fst]; repeat split; auto|].
    unfold unlock. destruct (find (h_id x) (x :: t)) as [h|] eqn:Hf; [|cbn [fst]; repeat split; auto].
    destruct (find_some_in _ _ _ Hf) as [Hin Hid].
    assert (Hd1 : h_depth h = 1) by (eapply Forall_forall in Hd; eauto).
    rewrite Hd1. change (1 <? 1) with false. cbn [andb fst].
    repeat split; try (apply forall_remove; auto).
    pose proof (locked_remove_le (h_id x) (x :: t)); lia.
Qed.

Lemma cap_run : forall c ops s, c < 0xffff -> capinv c s -> Forall (cap_op c) ops -> capinv c (run s ops).
Proof.
  induction ops as [|o ops IH]; intros s Hc Hi Hf; [exact Hi|].
  inversion Hf; subst. rewrite run_cons. apply IH; auto. apply cap_step; auto.
Qed.

Lemma capinv_nil : forall c, capinv c [].
Proof. intros; repeat split; try constructor. cbn; lia. Qed.

(* at most c+1 outstanding holds, at any time, for every operation sequence *)
Theorem capacity_bound : forall c ops, c < 0xffff -> Forall (cap_op c) ops ->
  locked (run [] ops) <= c + 1 /\ N.of_nat (length (run [] ops)) <= c + 1.
Proof.
  intros c ops Hc Hf. destruct (cap_run c ops [] Hc (capinv_nil c) Hf) as (Hd & _ & Hb).
  split; [exact Hb|]. rewrite <- locked_depth1; auto.
Qed.

(* ------------------------------------------------------------------ Semaphore / Flow / Lock / PriorityLock instances *)

Lemma semaphore_count_pred : forall n, 1 <= n -> semaphore_count n = n - 1.
Proof. intros n H; unfold semaphore_count. destruct (N.ltb_spec 0 n); [reflexivity | lia]. Qed.

Lemma flow_count_pred : forall n, 1 <= n -> flow_count n = n - 1.
Proof. intros n H; unfold flow_count. destruct (N.ltb_spec 0 n); [reflexivity | lia]. Qed.

Definition semaphore_op (n : N) (o : op) : Prop :=
  match o with
  | OLock r => r_count r = semaphore_count n /\ r_rcount r = semaphore_rcount /\ r_prio r = false /\ r_exp0 r = false
  | _ => True
  end.

Definition flow_op (n : N) (o : op) : Prop :=
  match o with
  | OLock r => r_count r = flow_count n /\ r_rcount r = flow_rcount /\ r_prio r = false /\ r_exp0 r = false
  | _ => True
  end.

Definition lock_op (o : op) : Prop :=
  match o with
  | OLock r => r_count r = lock_count /\ r_rcount r = lock_rcount /\ r_prio r = false /\ r_exp0 r = false
  | _ => True
  end.

(* PriorityLock: Count as stored by NewPriorityLock, Rcount = the priority, priority flag taken from the generated timeout word *)
Definition prio_flag_of (timeout_word : N) : bool := N.testbit timeout_word 20. (* bit 4 of the TimeoutFlag half-word = 0x0010 *)

Definition prioritylock_op (o : op) : Prop :=
  match o with
  | OLock r => r_count r = prioritylock_count /\ (exists p, r_rcount r = prioritylock_rcount p)
               /\ (exists t, r_prio r = prio_flag_of (prioritylock_timeout t)) /\ r_exp0 r = false
  | _ => True
  end.

Lemma prioritylock_sets_priority_flag : forall t, prio_flag_of (prioritylock_timeout t) = true.
Proof.
  intros t. unfold prio_flag_of, prioritylock_timeout. rewrite N.lor_spec.
  replace (N.testbit (N.shiftl (16 mod 4294967296) 16) 20) with true by (vm_compute; reflexivity).
  apply orb_true_r.
Qed.

Lemma timeout_flag_rcount_is_priority_bit : timeout_flag_rcount_is_priority = 2 ^ 4.
Proof. reflexivity. Qed.

Theorem semaphore_bound : forall n ops, 1 <= n -> n <= 0xffff -> Forall (semaphore_op n) ops ->
  locked (run [] ops) <= n /\ N.of_nat (length (run [] ops)) <= n.
Proof.
  intros n ops H1 H2 Hf.
  assert (Hc : semaphore_count n = n - 1) by (apply semaphore_count_pred; auto).
  destruct (capacity_bound (n - 1) ops) as [A B]; [lia| |split; lia].
  eapply Forall_impl; [|exact Hf]. intros [r| |]; cbn; auto.
  intros (Hx & Hy & Hz & Hw). rewrite Hx, Hc. repeat split; auto.
Qed.

Theorem flow_bound : forall n ops, 1 <= n -> n <= 0xffff -> Forall (flow_op n) ops ->
  locked (run [] ops) <= n /\ N.of_nat (length (run [] ops)) <= n.
Proof.
  intros n ops H1 H2 Hf.
  assert (Hc : flow_count n = n - 1) by (apply flow_count_pred; auto).
  destruct (capacity_bound (n - 1) ops) as [A B]; [lia| |split; lia].
  eapply Forall_impl; [|exact Hf]. intros [r| |]; cbn; auto.
  intros (Hx & Hy & Hz & Hw). rewrite Hx, Hc. repeat split; auto.
Qed.

Theorem lock_exclusive : forall ops, Forall lock_op ops ->
  locked (run [] ops) <= 1 /\ (length (run [] ops) <= 1)%nat.
Proof.
  intros ops Hf.
  destruct (capacity_bound 0 ops) as [A B]; [lia| |split; lia].
  eapply Forall_impl; [|exact Hf]. intros [r| |]; cbn; auto.
  intros (Hx & Hy & Hz & Hw). repeat split; auto.
Qed.

Theorem prioritylock_exclusive : forall ops, Forall prioritylock_op ops ->
  locked (run [] ops) <= 1 /\ (length (run [] ops) <= 1)%nat.
Proof.
  intros ops Hf.
  destruct (capacity_bound 0 ops) as [A B]; [lia| |split; lia].
  eapply Forall_impl; [|exact Hf]. intros [r| |]; cbn; auto.
  intros (Hx & _ & (t & Ht) & Hw). repeat split; auto.
  right. rewrite Ht. apply prioritylock_sets_priority_flag.
Qed.

(* ------------------------------------------------------------------ unlock = removal when every depth is 1 *)

Lemma unlock_depth1 : forall s id rc p, depth1 s ->
  fst (unlock s id rc p) = s \/ fst (unlock s id rc p) = remove id s.
Proof.
  intros s id rc p Hd. unfold unlock. destruct (find id s) as [h|] eqn:Hf; [|left; reflexivity].
  destruct (find_some_in _ _ _ Hf) as [Hin _].
  assert (Hd1 : h_depth h = 1) by (eapply Forall_forall in Hd; eauto).
  rewrite Hd1. change (1 <? 1) with false. cbn [andb fst]. right; reflexivity.
Qed.

Lemma unlock_head_depth1 : forall s p, depth1 s ->
  fst (unlock_head s p) = s \/ exists id, fst (unlock_head s p) = remove id s.
Proof.
  intros s p Hd. unfold unlock_head. destruct s as [|x t]; [left; reflexivity|].
  destruct (unlock_depth1 (x :: t) (h_id x) (h_rcount x) p Hd) as [H|H]; [left; auto | right; eauto].
Qed.

(* ------------------------------------------------------------------ RWLock *)

Definition reader_req (r : req) : Prop :=
  r_count r = rwlock_reader_count /\ r_rcount r = rwlock_reader_rcount /\ r_prio r = false /\ r_exp0 r = false /\ r_update r = false.
Definition writer_req (r : req) : Prop :=
  r_count r = rwlock_writer_count /\ r_rcount r = rwlock_writer_rcount /\ r_prio r = false /\ r_exp0 r = false /\ r_update r = false.
Definition rw_op (o : op) : Prop :=
  match o with OLock r => reader_req r \/ writer_req r | _ => True end.

Definition rwinv (s : kstate) : Prop :=
  depth1 s /\ Forall (fun h => h_count h = rwlock_writer_count \/ h_count h = rwlock_reader_count) s
  /\ (forall h, In h s -> h_count h = rwlock_writer_count -> s = [h]).

Lemma rw_req_counts : forall r, reader_req r \/ writer_req r ->
  (r_count r = rwlock_writer_count \/ r_count r = rwlock_reader_count) /\ r_rcount r = 0 /\ r_prio r = false /\ r_exp0 r = false /\ r_update r = false.
Proof. intros r [(A&B&C&D&E)|(A&B&C&D&E)]; repeat split; auto. Qed.

Lemma rwinv_remove : forall id s, rwinv s -> rwinv (remove id s).
Proof.
  intros id s (Hd & Hc & Hw). repeat split; try (apply forall_remove; auto).
  intros h Hin Hcnt. pose proof (in_remove _ _ _ Hin) as Hin0.
  specialize (Hw h Hin0 Hcnt). subst s. cbn [remove] in *.
  destruct (h_id h =? id); [destruct Hin | reflexivity].
Qed.

(* with a writer among the holds every rw request of a non-holder is refused by doLock *)
Lemma writer_blocks_acceptance : forall c, c = rwlock_writer_count \/ c = rwlock_reader_count -> admissible 1 rwlock_writer_count c = false.
Proof. intros c [->| ->]; reflexivity. Qed.

Lemma rw_try_lock_holder_refused : forall s r h, depth1 s -> find (r_id r) s = Some h -> r_rcount r = 0 -> r_update r = false ->
  try_lock s r = (s, Refused).
Proof.
  intros s r h Hd Hf H0 Hu. unfold try_lock. rewrite Hf, Hu.
  destruct (find_some_in _ _ _ Hf) as [Hin _].
  assert (Hd1 : h_depth h = 1) by (eapply Forall_forall in Hd; eauto).
  rewrite Hd1, H0. reflexivity.
Qed.

Lemma rw_step : forall s o, rwinv s -> rw_op o -> rwinv (step s o).
Proof.
  intros s o Hi Hop. pose proof Hi as (Hd & Hc & Hw).
  destruct o as [r | id rc p | p]; cbn [step].
  - destruct (rw_req_counts r Hop) as (Hcnt & Hrc & Hp & He & Hu).
    destruct (find (r_id r) s) as [h|] eqn:Hf.
    + erewrite rw_try_lock_holder_refused; eauto.
    + unfold try_lock. rewrite Hf, He.
      destruct (negb (if locked s =? 0 then r_wait_unlock r else false) && admissible (locked s) (cur_count s) (r_count r)) eqn:Ha;
        [|exact Hi].
      apply andb_true_iff in Ha; destruct Ha as [_ Ha]. cbn [fst].
      assert (Hnw : forall h, In h s -> h_count h <> rwlock_writer_count).
      { intros h Hin Hcw. specialize (Hw h Hin Hcw). subst s.
        assert (h_depth h = 1) by (inversion Hd; auto).
        cbn [locked cur_count] in Ha. rewrite H, Hcw in Ha. replace (1 + 0) with 1 in Ha by reflexivity.
        rewrite writer_blocks_acceptance in Ha; [discriminate | exact Hcnt]. }
      repeat split.
      * apply Forall_app; split; auto.
      * apply Forall_app; split; auto.
      * intros h Hin Hcw. apply in_app_or in Hin. destruct Hin as [Hin|Hin].
        -- exfalso; eapply Hnw; eauto.
        -- destruct Hin as [<-|[]]. cbn [h_count] in Hcw.
           (* the newcomer is a writer: Count 0 is accepted only on a free key *)
           rewrite Hcw in Ha. change rwlock_writer_count with 0 in Ha. rewrite admissible_count0 in Ha.
           apply N.eqb_eq in Ha. apply locked_zero_nil in Ha; [subst s; reflexivity|].
           eapply Forall_impl; [|exact Hd]. cbn; intros; lia.
  - destruct (unlock_depth1 s id rc p Hd) as [-> | ->]; [exact Hi | apply rwinv_remove; exact Hi].
  - destruct (unlock_head_depth1 s p Hd) as [-> | [id ->]]; [exact Hi | apply rwinv_remove; exact Hi].
Qed.

Lemma rw_run : forall ops s, rwinv s -> Forall rw_op ops -> rwinv (run s ops).
Proof.
  induction ops as [|o ops IH]; intros s Hi Hf; [exact Hi|].
  inversion Hf; subst. rewrite run_cons. apply IH; auto. apply rw_step; auto.
Qed.

Lemma rwinv_nil : rwinv [].
Proof. repeat split; try constructor. intros h []. Qed.

(* a writer, once it holds, is the only holder *)
Theorem rwlock_writer_alone : forall ops h, Forall rw_op ops ->
  In h (run [] ops) -> h_count h = rwlock_writer_count -> run [] ops = [h].
Proof. intros ops h Hf Hin Hc. destruct (rw_run ops [] rwinv_nil Hf) as (_ & _ & Hw). auto. Qed.

(* a writer is granted only when nothing at all is held *)
Theorem rwlock_writer_accepted_only_when_free : forall ops r, Forall rw_op ops -> writer_req r ->
  snd (try_lock (run [] ops) r) = Granted -> run [] ops = [].
Proof.
  intros ops r Hf Hwr Hg. destruct (rw_run ops [] rwinv_nil Hf) as (Hd & _ & _).
  set (s := run [] ops) in *. destruct Hwr as (Hc & Hrc & Hp & He & Hu).
  destruct (find (r_id r) s) as [h|] eqn:Hfd.
  - erewrite rw_try_lock_holder_refused in Hg; eauto. discriminate.
  - unfold try_lock in Hg. rewrite Hfd, He, Hc in Hg. change rwlock_writer_count with 0 in Hg.
    rewrite admissible_count0 in Hg.
    destruct (N.eqb_spec (locked s) 0) as [H0|H0].
    + apply locked_zero_nil; auto. eapply Forall_impl; [|exact Hd]. cbn; intros; lia.
    + rewrite andb_false_r in Hg. discriminate.
Qed.

(* while a writer holds, every reader and writer request is refused *)
Theorem rwlock_writer_excludes_all : forall ops h r, Forall rw_op ops ->
  In h (run [] ops) -> h_count h = rwlock_writer_count -> reader_req r \/ writer_req r ->
  try_lock (run [] ops) r = (run [] ops, Refused).
Proof.
  intros ops h r Hf Hin Hc Hr. pose proof (rw_run ops [] rwinv_nil Hf) as (Hd & _ & Hw).
  set (s := run [] ops) in *. specialize (Hw h Hin Hc).
  destruct (rw_req_counts r Hr) as (Hcnt & Hrc & Hp & He & Hu).
  destruct (find (r_id r) s) as [x|] eqn:Hfd.
  - eapply rw_try_lock_holder_refused; eauto.
  - unfold try_lock. rewrite Hfd. rewrite Hw in *.
    assert (h_depth h = 1) by (inversion Hd; auto).
    cbn [locked cur_count]. rewrite H, Hc. replace (1 + 0) with 1 by reflexivity.
    change (1 =? 0) with false. cbn [negb andb]. rewrite writer_blocks_acceptance; auto.
Qed.

(* readers are accepted together, as long as no writer holds and fewer than 0xffff holds are outstanding *)
Theorem rwlock_readers_share : forall ops r, Forall rw_op ops ->
  (forall h, In h (run [] ops) -> h_count h = rwlock_reader_count) -> locked (run [] ops) < 0xffff ->
  reader_req r -> find (r_id r) (run [] ops) = None -> r_wait_unlock r = false ->
  try_lock (run [] ops) r = (run [] ops ++ [mkHold (r_id r) 1 rwlock_reader_count rwlock_reader_rcount], Granted).
Proof.
  intros ops r Hf Hall Hlt (Hc & Hrc & Hp & He & Hu) Hfd Hwu.
  set (s := run [] ops) in *. unfold try_lock. rewrite Hfd, He, Hwu, Hc, Hrc.
  replace (if locked s =? 0 then false else false) with false by (destruct (locked s =? 0); reflexivity).
  cbn [negb andb].
  destruct (N.eq_dec (locked s) 0) as [H0|H0].
  - rewrite H0. reflexivity.
  - destruct s as [|x t]; [cbn in H0; lia|].
    cbn [cur_count]. rewrite (Hall x) by (left; reflexivity).
    change rwlock_reader_count with 0xffff. rewrite admissible_readers_below; auto.
Qed.

(* the code's unlimited-readers branch, stated precisely: with only reader holds (Count 0xffff) outstanding, a further reader
   is still granted when 0xffff <= locked < 0x7fffffff, i.e. with MORE than Count+1 = 65536 holds outstanding;
   from 0x7fffffff on everything is refused *)
Theorem rwlock_unlimited_readers_branch : forall s r, s <> [] ->
  (forall h, In h s -> h_count h = rwlock_reader_count) ->
  reader_req r -> find (r_id r) s = None ->
  (0xffff <= locked s -> locked s < 0x7fffffff -> snd (try_lock s r) = Granted) /\
  (0x7fffffff <= locked s -> snd (try_lock s r) = Refused).
Proof.
  intros s r Hne Hall (Hc & Hrc & Hp & He & Hu) Hfd.
  destruct s as [|x t]; [contradiction|].
  unfold try_lock. rewrite Hfd, He, Hc. cbn [cur_count]. rewrite (Hall x) by (left; reflexivity).
  change rwlock_reader_count with 0xffff. split.
  - intros H1 H2. destruct (N.eqb_spec (locked (x :: t)) 0); [lia|].
    cbn [negb andb]. rewrite admissible_unlimited_branch; auto.
  - intros H1. destruct (N.eqb_spec (locked (x :: t)) 0); [lia|].
    cbn [negb andb]. rewrite admissible_hard_stop; auto.
Qed.

(* ------------------------------------------------------------------ RLock (re-entrant) *)

Definition rl_mk (a : N) : req := mkReq a rlock_count rlock_rcount false false false false.

Definition rl_req (a : N) (r : req) : Prop :=
  r_id r = a /\ r_count r = rlock_count /\ r_rcount r = rlock_rcount /\ r_prio r = false /\ r_exp0 r = false
  /\ r_wait_unlock r = false /\ r_update r = false.

Definition rl_op (o : op) : Prop :=
  match o with
  | OLock r => rl_req (r_id r) r
  | OUnlock _ rc p => rc = rlock_rcount /\ p = false
  | OUnlockHead _ => False
  end.

Definition rl_hold (a d : N) : hold := mkHold a d rlock_count rlock_rcount.

Definition rlinv (s : kstate) : Prop :=
  s = [] \/ exists a d, s = [rl_hold a d] /\ 1 <= d /\ d <= 0xff.

Lemma rl_mk_req : forall a, rl_req a (rl_mk a).
Proof. intros; repeat split. Qed.

Lemma rl_lock_free : forall a r, rl_req a r -> try_lock [] r = ([rl_hold a 1], Granted).
Proof.
  unfold rl_hold.
  intros a r (Hid & Hc & Hrc & Hp & He & Hw & Hu). unfold try_lock. cbn [find locked cur_count].
  rewrite He, Hc, Hrc, Hid, Hw. reflexivity.
Qed.

Lemma rl_lock_holder : forall a d r, rl_req a r -> 1 <= d -> d < 0xff ->
  try_lock [rl_hold a d] r = ([rl_hold a (d + 1)], Granted).
Proof.
  unfold rl_hold.
  intros a d r (Hid & Hc & Hrc & Hp & He & Hw & Hu) H1 H2. unfold try_lock. cbn [find rl_hold h_id].
  rewrite Hid, N.eqb_refl, Hu, He, Hp, Hc, Hrc. cbn [h_depth upd h_id]. rewrite N.eqb_refl.
  change rlock_rcount with 255.
  destruct (N.ltb_spec d 255); [|lia]. destruct (N.leb_spec d 255); [|lia]. reflexivity.
Qed.

Lemma rl_lock_holder_limit : forall a r, rl_req a r -> try_lock [rl_hold a 0xff] r = ([rl_hold a 0xff], Refused).
Proof.
  unfold rl_hold.
  intros a r (Hid & Hc & Hrc & Hp & He & Hw & Hu). unfold try_lock. cbn [find rl_hold h_id].
  rewrite Hid, N.eqb_refl, Hu. reflexivity.
Qed.

Lemma rl_lock_other : forall a b d r, rl_req b r -> b <> a -> 1 <= d ->
  try_lock [rl_hold a d] r = ([rl_hold a d], Refused).
Proof.
  unfold rl_hold.
  intros a b d r (Hid & Hc & Hrc & Hp & He & Hw & Hu) Hne H1. unfold try_lock. cbn [find rl_hold h_id].
  rewrite Hid. destruct (N.eqb_spec a b); [congruence|].
  cbn [locked h_depth cur_count h_count]. rewrite Hc. change rlock_count with 0.
  rewrite admissible_count0. destruct (N.eqb_spec (d + 0) 0); [lia|]. reflexivity.
Qed.

Lemma rl_unlock_holder : forall a d, 1 <= d ->
  unlock [rl_hold a d] a rlock_rcount false = (if 1 <? d then [rl_hold a (d - 1)] else [], true).
Proof.
  unfold rl_hold.
  intros a d H1. unfold unlock. cbn [find rl_hold h_id]. rewrite N.eqb_refl. cbn [h_depth].
  change (0 <? rlock_rcount) with true. cbn [negb]. rewrite !andb_true_r.
  destruct (1 <? d); cbn [upd remove h_id]; rewrite N.eqb_refl; reflexivity.
Qed.

Lemma rl_unlock_other : forall a b d rc p, b <> a -> unlock [rl_hold a d] b rc p = ([rl_hold a d], false).
Proof.
  unfold rl_hold.
  intros a b d rc p Hne. unfold unlock. cbn [find rl_hold h_id].
  destruct (N.eqb_spec a b); [congruence|]. reflexivity.
Qed.

Lemma rl_step : forall s o, rlinv s -> rl_op o -> rlinv (step s o).
Proof.
  intros s o Hi Hop. destruct o as [r | id rc p | p]; cbn [step]; [| |destruct Hop].
  - destruct Hi as [-> | (a & d & -> & H1 & H2)].
    + erewrite rl_lock_free; eauto. right; exists (r_id r), 1; repeat split; lia.
    + destruct (N.eq_dec (r_id r) a) as [<-|Hne].
      * destruct (N.eq_dec d 0xff) as [->|Hd].
        -- erewrite rl_lock_holder_limit; eauto. right; exists (r_id r), 0xff; repeat split; lia.
        -- erewrite rl_lock_holder; eauto; [|lia]. right; exists (r_id r), (d + 1); repeat split; lia.
      * erewrite rl_lock_other; eauto. right; exists a, d; repeat split; lia.
  - destruct Hop as [-> ->]. destruct Hi as [-> | (a & d & -> & H1 & H2)]; [left; reflexivity|].
    destruct (N.eq_dec id a) as [->|Hne].
    + rewrite rl_unlock_holder by assumption. cbn [fst].
      destruct (N.ltb_spec 1 d); [right; exists a, (d - 1); repeat split; lia | left; reflexivity].
    + rewrite rl_unlock_other by assumption. right; exists a, d; repeat split; lia.
Qed.

Lemma rl_run : forall ops s, rlinv s -> Forall rl_op ops -> rlinv (run s ops).
Proof.
  induction ops as [|o ops IH]; intros s Hi Hf; [exact Hi|].
  inversion Hf; subst. rewrite run_cons. apply IH; auto. apply rl_step; auto.
Qed.

(* only the holder's LockId re-enters: whenever some RLock object holds the key, it is the only hold, its depth is within
   1..0xff, every other object's Lock is refused, and the holder's own Lock is granted (depth + 1) below depth 0xff *)
Theorem rlock_only_holder_reenters : forall ops h, Forall rl_op ops -> In h (run [] ops) ->
  run [] ops = [h] /\ h = rl_hold (h_id h) (h_depth h) /\ 1 <= h_depth h /\ h_depth h <= 0xff /\
  forall b r, rl_req b r ->
    (b <> h_id h -> try_lock (run [] ops) r = (run [] ops, Refused)) /\
    (b = h_id h -> h_depth h < 0xff -> try_lock (run [] ops) r = ([rl_hold (h_id h) (h_depth h + 1)], Granted)).
Proof.
  intros ops h Hf Hin. destruct (rl_run ops [] (or_introl eq_refl) Hf) as [E | (a & d & E & H1 & H2)];
    rewrite E in *; [destruct Hin|].
  destruct Hin as [<-|[]]. cbn [rl_hold h_id h_depth]. repeat split; auto.
  - intros Hne. eapply rl_lock_other; eauto.
  - intros -> Hlt. eapply rl_lock_holder; eauto.
Qed.

(* operations of other RLock objects *)
Definition other_op (a : N) (o : op) : Prop :=
  rl_op o /\ match o with OLock r => r_id r <> a | OUnlock id _ _ => id <> a | OUnlockHead _ => False end.

Lemma others_noop : forall a d g, 1 <= d -> Forall (other_op a) g -> run [rl_hold a d] g = [rl_hold a d].
Proof.
  induction g as [|o g IH]; intros H1 Hf; [reflexivity|].
  inversion Hf as [|? ? [Hop Hne] Hf']; subst. rewrite run_cons.
  replace (step [rl_hold a d] o) with [rl_hold a d]; [apply IH; auto|].
  destruct o as [r | id rc p | p]; cbn [step]; [| |destruct Hne].
  - erewrite rl_lock_other; eauto.
  - rewrite rl_unlock_other; auto.
Qed.

Fixpoint nest (a : N) (gaps : list (list op)) : list op :=
  match gaps with [] => [] | g :: t => g ++ OLock (rl_mk a) :: nest a t end.

Fixpoint unnest (a : N) (gaps : list (list op)) : list op :=
  match gaps with [] => [] | g :: t => g ++ OUnlock a rlock_rcount false :: unnest a t end.

Lemma nest_depth : forall a gaps d, Forall (Forall (other_op a)) gaps -> 1 <= d -> d + N.of_nat (length gaps) <= 0xff ->
  run [rl_hold a d] (nest a gaps) = [rl_hold a (d + N.of_nat (length gaps))].
Proof.
  induction gaps as [|g t IH]; intros d Hf H1 H2.
  - cbn [nest length run fold_left N.of_nat]. rewrite N.add_0_r. reflexivity.
  - inversion Hf; subst. cbn [nest]. rewrite run_app, others_noop by assumption.
    rewrite run_cons. cbn [step]. cbn [length] in H2.
    rewrite (rl_lock_holder a d (rl_mk a)) by (try apply rl_mk_req; lia). cbn [fst].
    rewrite IH by (auto; cbn [length] in *; lia). f_equal. f_equal. cbn [length]. lia.
Qed.

Lemma unnest_depth : forall a gaps d, Forall (Forall (other_op a)) gaps -> 1 <= d -> N.of_nat (length gaps) <= d ->
  run [rl_hold a d] (unnest a gaps) = if N.of_nat (length gaps) =? d then [] else [rl_hold a (d - N.of_nat (length gaps))].
Proof.
  induction gaps as [|g t IH]; intros d Hf H1 H2.
  - cbn [unnest length run fold_left N.of_nat]. destruct (N.eqb_spec 0 d); [lia|]. rewrite N.sub_0_r. reflexivity.
  - inversion Hf; subst. cbn [unnest]. rewrite run_app, others_noop by assumption.
    rewrite run_cons. cbn [step]. rewrite rl_unlock_holder by assumption. cbn [fst]. cbn [length] in *.
    destruct (N.ltb_spec 1 d).
    + rewrite IH by (auto; lia).
      destruct (N.eqb_spec (N.of_nat (length t)) (d - 1)); destruct (N.eqb_spec (N.of_nat (S (length t))) d); try lia; auto.
      f_equal. f_equal. lia.
    + assert (d = 1) by lia. subst d. destruct t; [|cbn [length] in H2; lia]. reflexivity.
Qed.

(* as many unlocks as locks: an RLock object that took the key k times (k <= 0xff), with arbitrary operations of other
   RLock objects interleaved everywhere, still holds it (at depth k - j) after j < k unlocks and has released it after
   exactly k unlocks *)
Theorem rlock_balanced_unlocks : forall a g0 gaps1 gaps2,
  Forall (other_op a) g0 -> Forall (Forall (other_op a)) gaps1 -> Forall (Forall (other_op a)) gaps2 ->
  let k := 1 + N.of_nat (length gaps1) in
  let j := N.of_nat (length gaps2) in
  k <= 0xff -> j <= k ->
  run [rl_hold a 1] (g0 ++ nest a gaps1 ++ unnest a gaps2) = if j =? k then [] else [rl_hold a (k - j)].
Proof.
  intros a g0 gaps1 gaps2 H0 Hf1 Hf2 k j Hk Hj. subst k j.
  rewrite run_app, others_noop by (auto; lia).
  rewrite run_app, nest_depth by (auto; lia).
  apply unnest_depth; auto; lia.
Qed.

(* the first Lock on the free key *)
Lemma rlock_first_lock : forall a, run [] [OLock (rl_mk a)] = [rl_hold a 1].
Proof. reflexivity. Qed.

(* ------------------------------------------------------------------ Event.Wait *)

(* bit 9 of the TimeoutFlag half-word = TIMEOUT_FLAG_LOCK_WAIT_WHEN_UNLOCK = 0x0200 *)
Definition wait_unlock_flag_of (timeout_word : N) : bool := N.testbit timeout_word 25.

Lemma timeout_flag_lock_wait_when_unlock_bit : timeout_flag_lock_wait_when_unlock = 2 ^ 9.
Proof. reflexivity. Qed.

Lemma event_clearmode_wait_sets_flag : forall t, wait_unlock_flag_of (event_clearmode_wait_timeout t) = true.
Proof.
  intros t. unfold wait_unlock_flag_of, event_clearmode_wait_timeout. rewrite N.lor_spec.
  replace (N.testbit 33554432 25) with true by (vm_compute; reflexivity). apply orb_true_r.
Qed.

Definition event_wait_setmode_req (t : N) (r : req) : Prop :=
  r_count r = event_setmode_wait_count /\ r_exp0 r = (event_setmode_wait_expried =? 0) /\ r_update r = false.

Definition event_wait_clearmode_req (t : N) (r : req) : Prop :=
  r_count r = event_clearmode_wait_count /\ r_exp0 r = (event_clearmode_wait_expried =? 0)
  /\ r_wait_unlock r = wait_unlock_flag_of (event_clearmode_wait_timeout t) /\ r_update r = false.

(* Event.Wait, both modes.  A granted Wait never leaves a hold behind.
   default-set mode  (cleared = the event lock holds the key): a Wait of a non-holder is granted only on a free key.
   default-clear mode (set = the event lock holds the key): a Wait of a non-holder is granted only on a held key. *)
Theorem event_wait_acceptance : forall s r t, find (r_id r) s = None ->
  (event_wait_setmode_req t r -> fst (try_lock s r) = s /\ (snd (try_lock s r) = Granted -> locked s = 0)) /\
  (event_wait_clearmode_req t r -> fst (try_lock s r) = s /\ (snd (try_lock s r) = Granted -> locked s <> 0)).
Proof.
  intros s r t Hfd. split.
  - intros (Hc & He & Hu). unfold try_lock. rewrite Hfd, He, Hc.
    change (event_setmode_wait_expried =? 0) with true. change event_setmode_wait_count with 0.
    rewrite admissible_count0.
    destruct (negb (if locked s =? 0 then r_wait_unlock r else false) && (locked s =? 0)) eqn:Ha; cbn [fst snd]; split; auto.
    + intros _. apply andb_true_iff in Ha. destruct Ha as [_ Ha]. apply N.eqb_eq; exact Ha.
    + discriminate.
  - intros (Hc & He & Hw & Hu). unfold try_lock. rewrite Hfd, He, Hw, event_clearmode_wait_sets_flag.
    change (event_clearmode_wait_expried =? 0) with true.
    destruct (N.eqb_spec (locked s) 0) as [H0|H0]; cbn [negb andb fst snd].
    + split; [reflexivity | discriminate].
    + destruct (admissible (locked s) (cur_count s) (r_count r)); cbn [fst snd]; split; auto.
Qed.

(* ------------------------------------------------------------------ PriorityLock hand-over: the newcomer window
   LockDB.Lock forces `waited := false` whenever locked = 0 and the request does not carry the wait-when-unlock flag
   (db.go:2163-2176).  Between an UnLock releasing the shard mutex and wakeUpWaitLocks re-taking it, locked = 0 while
   waiters are still queued (lockManager.waited = true): a newcomer is then accepted whatever its priority.
   Stated for both values of the regenerated switch (so the statement follows the source if the window is closed). *)
Theorem priority_newcomer_window :
  (lock_newcomer_checks_wait_queue = false ->
     (* refutation of the hand-over clause: waiters queued, key momentarily free, newcomer NOT above the waiting maximum *)
     newcomer_accepted 0 true false (prio_flag_of (prioritylock_timeout 5)) false true prioritylock_count prioritylock_count = true)
  /\
  (lock_newcomer_checks_wait_queue = true ->
     forall pf cur c, newcomer_accepted 0 true false pf false true cur c = false).
Proof.
  unfold newcomer_accepted. split; intros ->; [reflexivity|].
  intros pf cur c. cbn. rewrite andb_false_r. reflexivity.
Qed.

(* outside that window (key held) a newcomer that is not strictly above the waiting maximum is never accepted *)
Lemma priority_newcomer_waits_when_held : forall l cur c pf hl, l <> 0 ->
  newcomer_accepted l true false pf false hl cur c = false.
Proof.
  intros l cur c pf hl Hl. unfold newcomer_accepted. destruct (N.eqb_spec l 0); [contradiction|].
  cbn. rewrite andb_false_r. reflexivity.
Qed.

(* ------------------------------------------------------------------ Event.Wait of a default-clear event and the wake-up pass
   A queued Wait is served by wakeUpWaitLocks with doLock only: on a FREE key doLock answers true, so a wake-up pass that is
   still walking the queue after a Clear hands "success" to a Wait although the event is clear — unless the pass re-checks the
   wait-when-unlock flag (regenerated switch). *)
Theorem event_wait_wake_pass : forall t r, event_wait_clearmode_req t r ->
  (wake_pass_rechecks_wait_when_unlock = false -> wake_grant [] r = true) /\
  (wake_pass_rechecks_wait_when_unlock = true -> forall s, wake_grant s r = true -> locked s <> 0).
Proof.
  intros t r (Hc & He & Hw & Hu). unfold wake_grant. split; intros ->.
  - reflexivity.
  - intros s H. rewrite Hw, event_clearmode_wait_sets_flag in H. cbn [andb] in H.
    destruct (N.eqb_spec (locked s) 0); [cbn in H; discriminate | assumption].
Qed.

(* default-set events are safe under wake-up passes whatever the switch: Count 0 is only ever served on a free key *)
Lemma event_wait_setmode_wake : forall t s r, event_wait_setmode_req t r -> wake_grant s r = true -> locked s = 0.
Proof.
  intros t s r (Hc & _) H. unfold wake_grant in H. apply andb_true_iff in H. destruct H as [_ H].
  rewrite Hc in H. change event_setmode_wait_count with 0 in H. rewrite admissible_count0 in H. apply N.eqb_eq; exact H.
Qed.
