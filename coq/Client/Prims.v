(* C19 — abstract per-key acceptance model for the packaged client primitives.

   State of one key = the list of outstanding holds in grant order (head = the oldest hold = LockManager.currentLock,
   server/lock.go AddLock/RemoveLock).  Each hold carries the LockId, its re-entrant depth (Lock.locked) and the
   Count / Rcount of the command currently attached to it (UpdateLockedLock replaces the command on re-entry).

   `admissible` is a HAND transcription of LockDB.doLock (server/db.go:2517-2549), without the
   TIMEOUT_FLAG_LESS_LOCK_VERSION_IS_LOCK_SUCCED clauses (that flag only turns a `true` into `false`).
   `try_lock` / `unlock` follow LockDB.Lock (db.go:2023-2253) and LockDB.UnLock (db.go:2339-2511) for the flag subset
   the client primitives use.  What is abstracted: the wait queue (a waiter that is granted later is a `try_lock` at
   grant time — wakeUpWaitLocks calls the same doLock), `lockManager.waited` for keys that are held (it can only turn
   an acceptance into a refusal), expiry/timeouts (an expiry is an `OUnlock`-like removal; theorems quantify over
   arbitrary releases), acks, data, AOF.  The integrator proves `admissible` equal to the translator-generated doLock and
   connects this model to the engine model as a refinement (DESIGN §5 C01/C19). *)
From Coq Require Import NArith List Bool.
From Slock Require Import Gen.GenClient.
Import ListNotations.
Local Open Scope N_scope.

(* ------------------------------------------------------------------ doLock *)

(* arguments: (locked, Count of the oldest hold, Count of the request) *)
Definition admissible (locked cur_count req_count : N) : bool :=
  if locked =? 0 then true
  else if req_count =? 0 then false
  else if 0xffff <=? locked then
         if 0x7fffffff <=? locked then false
         else (cur_count =? 0xffff) && (req_count =? 0xffff)
  else (locked <=? cur_count) && (locked <=? req_count).

(* ------------------------------------------------------------------ state *)

Record hold : Set := mkHold { h_id : N; h_depth : N; h_count : N; h_rcount : N }.

Definition kstate := list hold.

Fixpoint locked (s : kstate) : N :=
  match s with [] => 0 | h :: r => h_depth h + locked r end.

Definition cur_count (s : kstate) : N :=
  match s with [] => 0 | h :: _ => h_count h end.

Fixpoint find (id : N) (s : kstate) : option hold :=
  match s with
  | [] => None
  | h :: r => if h_id h =? id then Some h else find id r
  end.

(* apply f to the (first) hold with this id *)
Fixpoint upd (id : N) (f : hold -> hold) (s : kstate) : kstate :=
  match s with
  | [] => []
  | h :: r => if h_id h =? id then f h :: r else h :: upd id f r
  end.

Fixpoint remove (id : N) (s : kstate) : kstate :=
  match s with
  | [] => []
  | h :: r => if h_id h =? id then r else h :: remove id r
  end.

(* ------------------------------------------------------------------ requests *)

Record req : Set := mkReq {
  r_id : N; r_count : N; r_rcount : N;
  r_prio : bool;        (* TIMEOUT_FLAG_RCOUNT_IS_PRIORITY: Rcount is a priority, not a re-entry budget *)
  r_exp0 : bool;        (* Expried = 0: a grant is reported but nothing is held (Event.Wait) *)
  r_wait_unlock : bool; (* TIMEOUT_FLAG_LOCK_WAIT_WHEN_UNLOCK: on a free key the request waits instead of being granted *)
  r_update : bool       (* LOCK_FLAG_UPDATE_WHEN_LOCKED: if this LockId already holds, only its command is replaced *)
}.

Inductive outcome : Set := Granted | Updated | Refused.

Definition try_lock (s : kstate) (r : req) : kstate * outcome :=
  match find (r_id r) s with
  | Some h =>
      if r_update r then
        (upd (r_id r) (fun h => mkHold (h_id h) (h_depth h) (r_count r) (r_rcount r)) s, Updated)
      else if (h_depth h <? 0xff) && (h_depth h <=? r_rcount r) && negb (r_prio r) then
        if r_exp0 r then (s, Granted)
        else (upd (r_id r) (fun h => mkHold (h_id h) (h_depth h + 1) (r_count r) (r_rcount r)) s, Granted)
      else (s, Refused)
  | None =>
      let waited := if locked s =? 0 then r_wait_unlock r else false in
      if negb waited && admissible (locked s) (cur_count s) (r_count r) then
        if r_exp0 r then (s, Granted)
        else (s ++ [mkHold (r_id r) 1 (r_count r) (r_rcount r)], Granted)
      else (s, Refused)
  end.

(* UNLOCK of LockId id whose command carries Rcount rc and the priority flag prio *)
Definition unlock (s : kstate) (id rc : N) (prio : bool) : kstate * bool :=
  match find id s with
  | None => (s, false)
  | Some h =>
      if (1 <? h_depth h) && (0 <? rc) && negb prio
      then (upd id (fun h => mkHold (h_id h) (h_depth h - 1) (h_count h) (h_rcount h)) s, true)
      else (remove id s, true)
  end.

(* UNLOCK with UNLOCK_FLAG_UNLOCK_FIRST_LOCK_WHEN_UNLOCKED and the zero LockId (Semaphore.Release): the oldest hold,
   with that hold's own Rcount / flags copied into the command (db.go:2354-2372) *)
Definition unlock_head (s : kstate) (head_prio : bool) : kstate * bool :=
  match s with
  | [] => (s, false)
  | h :: _ => unlock s (h_id h) (h_rcount h) head_prio
  end.

Inductive op : Set :=
| OLock (r : req)
| OUnlock (id rc : N) (prio : bool)
| OUnlockHead (prio : bool).

Definition step (s : kstate) (o : op) : kstate :=
  match o with
  | OLock r => fst (try_lock s r)
  | OUnlock id rc p => fst (unlock s id rc p)
  | OUnlockHead p => fst (unlock_head s p)
  end.

Definition run (s : kstate) (ops : list op) : kstate := fold_left step ops s.

Definition holds_id (id : N) (s : kstate) : bool :=
  match find id s with Some _ => true | None => false end.

(* ------------------------------------------------------------------ the newcomer test of LockDB.Lock (db.go:2023, 2163-2180)
   arguments: locked, lockManager.waited, the request's wait-when-unlock flag, its priority flag, doCheckLockWaitPriority's
   answer, "the live head of the wait queue is a plain waiter (no wait-when-unlock flag)", Count of the oldest hold, Count of
   the request.  On a free key the code forces waited := false for a plain request; `lock_newcomer_checks_wait_queue`
   (regenerated: does LockDB.Lock call GetWaitLock?) switches in the variant that keeps it true while plain waiters queue. *)
Definition newcomer_accepted (lck : N) (mgr_waited wait_unlock prio_flag higher_than_waiting head_live_plain : bool)
                             (cur req_count : N) : bool :=
  let waited := if lck =? 0
                then wait_unlock || (lock_newcomer_checks_wait_queue && mgr_waited && head_live_plain)
                else mgr_waited in
  (negb waited || (prio_flag && higher_than_waiting)) && admissible lck cur req_count.

(* ------------------------------------------------------------------ what a wake-up pass does with the head waiter r
   (wakeUpWaitLocks: GetWaitLock, doLock, wakeUpWaitLock).  The pass does not look at the wait-when-unlock flag unless
   the source mentions it there (`wake_pass_rechecks_wait_when_unlock`, regenerated). *)
Definition wake_grant (s : kstate) (r : req) : bool :=
  negb (wake_pass_rechecks_wait_when_unlock && (locked s =? 0) && r_wait_unlock r)
  && admissible (locked s) (cur_count s) (r_count r).
