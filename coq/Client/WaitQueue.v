(* C19 — one key with its WAIT QUEUE: arrival, timeout / cancellation of queued requests, release, wake-up pass.

   Extends the per-key model of Prims.v (state = outstanding holds) by the part of LockManager that Prims.v abstracts:
     ws_queue  = LockManager.waitLocks in SERVICE ORDER (the order GetWaitLock / Pop yield: descending priority, FIFO among
                 equals — LockManagerWaitQueue fast array for one priority, LockManagerPriorityRingQueue otherwise, PrioQueue.v);
                 w_dead = Lock.timeouted (set by doTimeOut, cancelWaitLock, and by wakeUpWaitLock when it serves a request);
     ws_waited = LockManager.waited, the flag that makes wakeUpWaitLocks look at the queue at all.
   Hand transcription (server/lock.go AddWaitLock, GetWaitLock; server/db.go Lock (newcomer path), doTimeOut / cancelWaitLock
   (waiter branches), UnLock, wakeUpWaitLocks, wakeUpWaitLock) for requests whose LockId holds nothing — which is what
   every waiter of the packaged primitives is.  Five switches regenerated from server/db.go (Gen/GenClient.v) make the
   model follow the source: is `waited` cleared by doTimeOut / cancelWaitLock only under `GetWaitLock() == nil`
   (timeout_/cancel_clears_waited_only_on_empty_queue), and do doTimeOut / cancelWaitLock / UnLock call wakeUpWaitLocks
   (timeout_/cancel_/unlock_runs_wake_pass).

   What the server must supply for the client-level hand-over theorems is exactly the engine-level "no lost wake-up":
   every step that ends a hold or removes a queued request leaves a wake-up pass pending, and the pass runs to a point
   where the queue is empty or its live head is refused by doLock.  Over the engine model this is
   coq/Properties/C04.v: C04_unlock_pending, C04_timeout_pending, C04_cancel_pending, C04_expried_pending (a pass is
   returned), C04_wake_pass_within_fuel (it terminates) and C04_wake_done_meaning / C04_finish_ends_done (where it
   stops).  Here it enters as the explicit hypothesis `no_lost_wakeup` (the three *_runs_wake_pass switches), not by
   import (the engine cone is large and owned by others); the second hypothesis `waited_guard` is the flag discipline. *)
From Coq Require Import NArith List Bool Lia ZifyN ZifyBool Sorting.Sorted.
From Slock Require Import Gen.GenClient Client.Prims.
Import ListNotations.
Local Open Scope N_scope.

Record waiter : Set := mkW { w_req : req; w_pri : N; w_dead : bool }.

Record wstate : Set := mkWS { ws_holds : kstate; ws_queue : list waiter; ws_waited : bool }.

Definition w0 : wstate := mkWS [] [] false.

(* AddWaitLock: behind every queued request of the same or a higher priority *)
Fixpoint enqueue (w : waiter) (q : list waiter) : list waiter :=
  match q with
  | [] => [w]
  | x :: t => if w_pri x <? w_pri w then w :: x :: t else x :: enqueue w t
  end.

(* GetWaitLock: tombstoned heads are popped; what remains starts with a live request *)
Fixpoint get_wait (q : list waiter) : list waiter :=
  match q with
  | [] => []
  | w :: t => if w_dead w then get_wait t else q
  end.

Definition live (q : list waiter) : list waiter := filter (fun w => negb (w_dead w)) q.

(* wakeUpWaitLock: the served request gets a hold unless Expried = 0 *)
Definition grant (s : kstate) (r : req) : kstate :=
  if r_exp0 r then s else s ++ [mkHold (r_id r) 1 (r_count r) (r_rcount r)].

(* the loop of wakeUpWaitLocks: (holds, remaining queue, requests served in order) *)
Fixpoint serve (s : kstate) (q : list waiter) : kstate * list waiter * list waiter :=
  match q with
  | [] => (s, [], [])
  | w :: t =>
      if w_dead w then serve s t
      else if wake_grant s (w_req w) then
             let '(s', q', g) := serve (grant s (w_req w)) t in (s', q', w :: g)
           else (s, q, [])
  end.

Definition wake_pass (st : wstate) : wstate * list waiter :=
  if ws_waited st then
    let '(s', q', g) := serve (ws_holds st) (ws_queue st) in
    (mkWS s' q' (match q' with [] => false | _ :: _ => true end), g)
  else (st, []).

(* doTimeOut / cancelWaitLock mark the queued request *)
Definition kill (id : N) (q : list waiter) : list waiter :=
  map (fun w => if (r_id (w_req w) =? id) && negb (w_dead w) then mkW (w_req w) (w_pri w) true else w) q.

(* the waiter branch of doTimeOut / cancelWaitLock.  guarded = the source clears `waited` only under
   `GetWaitLock() == nil`; otherwise nothing is known and the model lets the flag be cleared *)
Definition leave_queue (guarded runs_pass : bool) (st : wstate) (id : N) : wstate * list waiter :=
  let q2 := get_wait (kill id (ws_queue st)) in
  let wt := if guarded then match q2 with [] => false | _ :: _ => ws_waited st end else false in
  let st1 := mkWS (ws_holds st) q2 wt in
  if runs_pass then wake_pass st1 else (st1, []).

(* UnLock: Prims.unlock / unlock_head on the holds, then the pass *)
Definition release (runs_pass : bool) (st : wstate) (res : kstate * bool) : wstate * list waiter :=
  let st1 := mkWS (fst res) (ws_queue st) (ws_waited st) in
  if snd res && runs_pass then wake_pass st1 else (st1, []).

(* LockDB.Lock for a LockId that holds nothing (db.go: local `waited`, doCheckLockWaitPriority = outranks, doLock,
   requireWakeup := lockManager.waited, AddWaitLock when Timeout > 0 = willwait) *)
Definition arrive (st : wstate) (r : req) (pri : N) (willwait outranks : bool) : wstate * list waiter :=
  match find (r_id r) (ws_holds st) with
  | Some _ => (st, [])
  | None =>
      let s := ws_holds st in
      let waited := if locked s =? 0 then r_wait_unlock r else ws_waited st in
      if (negb waited || (r_prio r && outranks)) && admissible (locked s) (cur_count s) (r_count r) then
        let st1 := mkWS (grant s r) (ws_queue st) (ws_waited st) in
        if ws_waited st then wake_pass st1 else (st1, [])
      else if willwait then (mkWS s (enqueue (mkW r pri false) (ws_queue st)) true, [])
      else (st, [])
  end.

Inductive wop : Set :=
| WArrive (r : req) (pri : N) (willwait outranks : bool)
| WTimeout (id : N)
| WCancel (id : N)
| WUnlock (id rc : N) (prio : bool)
| WUnlockHead (prio : bool).

(* gt / gc: the two guard switches, explicit so that the necessity of the guard can be stated *)
Definition wstep_out (gt gc : bool) (st : wstate) (o : wop) : wstate * list waiter :=
  match o with
  | WArrive r pri ww outr => arrive st r pri ww outr
  | WTimeout id => leave_queue gt timeout_runs_wake_pass st id
  | WCancel id => leave_queue gc cancel_runs_wake_pass st id
  | WUnlock id rc p => release unlock_runs_wake_pass st (unlock (ws_holds st) id rc p)
  | WUnlockHead p => release unlock_runs_wake_pass st (unlock_head (ws_holds st) p)
  end.

Definition wstep_g (gt gc : bool) (st : wstate) (o : wop) : wstate := fst (wstep_out gt gc st o).
Definition wrun_g (gt gc : bool) (st : wstate) (ops : list wop) : wstate := fold_left (wstep_g gt gc) ops st.

(* the model with the switches of the source *)
Definition wstep (st : wstate) (o : wop) : wstate :=
  wstep_g timeout_clears_waited_only_on_empty_queue cancel_clears_waited_only_on_empty_queue st o.
Definition wserved (st : wstate) (o : wop) : list waiter :=
  snd (wstep_out timeout_clears_waited_only_on_empty_queue cancel_clears_waited_only_on_empty_queue st o).
Definition wrun (st : wstate) (ops : list wop) : wstate := fold_left wstep ops st.

(* the two hypotheses of the hand-over theorems *)
Definition waited_guard : Prop :=
  timeout_clears_waited_only_on_empty_queue = true /\ cancel_clears_waited_only_on_empty_queue = true.
Definition no_lost_wakeup : Prop :=
  unlock_runs_wake_pass = true /\ timeout_runs_wake_pass = true /\ cancel_runs_wake_pass = true.

(* ------------------------------------------------------------------ invariant *)

Definition by_prio (q : list waiter) : Prop := StronglySorted (fun a b : waiter => w_pri b <= w_pri a) q.

(* I1: a live queued request implies `waited` (otherwise no pass would ever look at it); I2: service order *)
Definition winv (st : wstate) : Prop :=
  (live (ws_queue st) <> [] -> ws_waited st = true) /\ by_prio (ws_queue st).

(* nothing left to do for a pass: no live request, or the live head is refused by doLock *)
Definition quiescent (st : wstate) : Prop :=
  match live (ws_queue st) with
  | [] => True
  | w :: _ => wake_grant (ws_holds st) (w_req w) = false
  end.

Lemma live_cons_dead : forall w t, w_dead w = true -> live (w :: t) = live t.
Proof. intros w t H. unfold live. cbn [filter]. rewrite H. reflexivity. Qed.

Lemma live_cons_live : forall w t, w_dead w = false -> live (w :: t) = w :: live t.
Proof. intros w t H. unfold live. cbn [filter]. rewrite H. reflexivity. Qed.

Lemma by_prio_tail : forall w t, by_prio (w :: t) -> by_prio t.
Proof. intros w t H. inversion H; assumption. Qed.

Lemma live_get_wait : forall q, live (get_wait q) = live q.
Proof.
  induction q as [|w t IH]; [reflexivity|]. cbn [get_wait]. destruct (w_dead w) eqn:D; [|reflexivity].
  rewrite IH, live_cons_dead; auto.
Qed.

Lemma get_wait_nil_live : forall q, get_wait q = [] -> live q = [].
Proof. intros q H. rewrite <- live_get_wait, H. reflexivity. Qed.

Lemma get_wait_head_live : forall q w t, get_wait q = w :: t -> w_dead w = false.
Proof.
  induction q as [|x r IH]; cbn [get_wait]; intros w t H; [discriminate|].
  destruct (w_dead x) eqn:D; [eauto|]. inversion H; subst; assumption.
Qed.

Lemma by_prio_get_wait : forall q, by_prio q -> by_prio (get_wait q).
Proof.
  induction q as [|w t IH]; intros H; [exact H|]. cbn [get_wait]. destruct (w_dead w); [|exact H].
  apply IH. eapply by_prio_tail; eauto.
Qed.

Lemma kill_pri : forall id q, map w_pri (kill id q) = map w_pri q.
Proof.
  intros id q. unfold kill. rewrite map_map. apply map_ext. intros w.
  destruct ((r_id (w_req w) =? id) && negb (w_dead w)); reflexivity.
Qed.

Lemma by_prio_map : forall q q', map w_pri q' = map w_pri q -> by_prio q -> by_prio q'.
Proof.
  induction q as [|w t IH]; intros q' Hm H.
  - destruct q'; [constructor | discriminate].
  - destruct q' as [|w' t']; [discriminate|]. cbn [map] in Hm. inversion Hm as [[Hw Ht]].
    inversion H as [|? ? Hs Hall]; subst. constructor; [eapply IH; eauto|].
    clear - Hall Hw Ht. revert t Hall Ht. induction t' as [|y t' IH]; intros t Hall Ht; [constructor|].
    destruct t as [|x t]; [discriminate|]. cbn [map] in Ht. inversion Ht. inversion Hall; subst.
    constructor; [lia | eapply IH; eauto].
Qed.

Lemma live_kill_sub : forall id q, live (kill id q) = [] \/ live q <> [].
Proof.
  induction q as [|w t IH]; [left; reflexivity|]. cbn [kill map].
  destruct (w_dead w) eqn:D.
  - rewrite andb_false_r. rewrite !live_cons_dead by assumption. exact IH.
  - right. rewrite live_cons_live by assumption. discriminate.
Qed.

Lemma enqueue_by_prio : forall w q, by_prio q -> by_prio (enqueue w q).
Proof.
  induction q as [|x t IH]; intros H.
  - cbn. constructor; constructor.
  - cbn [enqueue]. inversion H as [|? ? Hs Hall]; subst. destruct (N.ltb_spec (w_pri x) (w_pri w)) as [Hlt|Hge].
    + constructor; [exact H|]. constructor; [lia|]. eapply Forall_impl; [|exact Hall]. cbn; intros; lia.
    + constructor; [apply IH; exact Hs|]. clear - Hall Hge. induction t as [|y t IHt]; cbn [enqueue].
      * constructor; [exact Hge | constructor].
      * inversion Hall; subst. destruct (w_pri y <? w_pri w); constructor; auto; constructor; auto.
Qed.

(* ------------------------------------------------------------------ the pass *)

Lemma serve_spec : forall q s s' q' g, serve s q = (s', q', g) ->
  live q = g ++ live q' /\
  (by_prio q -> by_prio q') /\
  (q' = [] \/ exists w t, q' = w :: t /\ w_dead w = false /\ wake_grant s' (w_req w) = false).
Proof.
  induction q as [|w t IH]; intros s s' q' g H; cbn [serve] in H.
  - inversion H; subst. repeat split; auto.
  - destruct (w_dead w) eqn:D.
    + destruct (IH _ _ _ _ H) as (A & B & C). rewrite live_cons_dead by assumption.
      repeat split; auto. intros Hp; apply B; eapply by_prio_tail; eauto.
    + destruct (wake_grant s (w_req w)) eqn:G.
      * destruct (serve (grant s (w_req w)) t) as [[s1 q1] g1] eqn:E. inversion H; subst.
        destruct (IH _ _ _ _ E) as (A & B & C). rewrite live_cons_live by assumption.
        repeat split; auto; [cbn [app]; f_equal; exact A|]. intros Hp; apply B; eapply by_prio_tail; eauto.
      * inversion H; subst. repeat split; auto. right. exists w, t. auto.
Qed.

Lemma wake_pass_inv : forall st, winv st -> winv (fst (wake_pass st)).
Proof.
  intros st [I1 I2]. unfold wake_pass. destruct (ws_waited st) eqn:W;
    [|cbn [fst]; split; [intros HL; rewrite W; apply I1; exact HL | exact I2]].
  destruct (serve (ws_holds st) (ws_queue st)) as [[s' q'] g] eqn:E. cbn [fst].
  destruct (serve_spec _ _ _ _ _ E) as (A & B & C). split; cbn [ws_queue ws_waited].
  - destruct q'; [intros H; exfalso; apply H; reflexivity | reflexivity].
  - apply B; exact I2.
Qed.

(* after a pass that ran (waited = true), or on a key whose flag covers its waiters, nothing is left to do *)
Lemma wake_pass_quiescent : forall st, winv st -> quiescent (fst (wake_pass st)).
Proof.
  intros st [I1 I2]. unfold wake_pass, quiescent. destruct (ws_waited st) eqn:W.
  - destruct (serve (ws_holds st) (ws_queue st)) as [[s' q'] g] eqn:E. cbn [fst ws_queue ws_holds].
    destruct (serve_spec _ _ _ _ _ E) as (_ & _ & [-> | (w & t & -> & D & G)]); [exact I|].
    rewrite live_cons_live by assumption. exact G.
  - cbn [fst]. destruct (live (ws_queue st)) eqn:L; [exact I|].
    assert (false = true) by (apply I1; discriminate). discriminate.
Qed.

(* what a pass serves is a prefix, in service order, of the live queue *)
Lemma wake_pass_served : forall st, ws_waited st = true ->
  live (ws_queue st) = snd (wake_pass st) ++ live (ws_queue (fst (wake_pass st))).
Proof.
  intros st W. unfold wake_pass. rewrite W.
  destruct (serve (ws_holds st) (ws_queue st)) as [[s' q'] g] eqn:E. cbn [fst snd ws_queue].
  destruct (serve_spec _ _ _ _ _ E) as (A & _ & _). exact A.
Qed.

(* ------------------------------------------------------------------ every step keeps the invariant (guarded flag) *)

Lemma leave_queue_inv : forall rp st id, winv st -> winv (fst (leave_queue true rp st id)).
Proof.
  intros rp st id [I1 I2]. unfold leave_queue.
  assert (Hinv : winv (mkWS (ws_holds st) (get_wait (kill id (ws_queue st)))
                        (match get_wait (kill id (ws_queue st)) with [] => false | _ :: _ => ws_waited st end))).
  { split; cbn [ws_queue ws_waited].
    - intros HL. rewrite live_get_wait in HL.
      destruct (get_wait (kill id (ws_queue st))) eqn:Q.
      + apply get_wait_nil_live in Q. contradiction.
      + apply I1. destruct (live_kill_sub id (ws_queue st)); [contradiction | assumption].
    - apply by_prio_get_wait. eapply by_prio_map; [apply kill_pri | exact I2]. }
  destruct rp; [apply wake_pass_inv; exact Hinv | exact Hinv].
Qed.

Lemma release_inv : forall rp st res, winv st -> winv (fst (release rp st res)).
Proof.
  intros rp st res [I1 I2]. unfold release.
  assert (Hinv : winv (mkWS (fst res) (ws_queue st) (ws_waited st))) by (split; auto).
  destruct (snd res && rp); [apply wake_pass_inv; exact Hinv | exact Hinv].
Qed.

Lemma arrive_inv : forall st r pri ww outr, winv st -> winv (fst (arrive st r pri ww outr)).
Proof.
  intros st r pri ww outr [I1 I2]. unfold arrive. destruct (find (r_id r) (ws_holds st)); [split; auto|].
  match goal with |- context [if ?c then _ else _] => destruct c end.
  - assert (Hinv : winv (mkWS (grant (ws_holds st) r) (ws_queue st) (ws_waited st))) by (split; auto).
    destruct (ws_waited st) eqn:W; [apply wake_pass_inv; exact Hinv|]. cbn [fst]. split; cbn [ws_queue ws_waited]; auto.
  - destruct ww; cbn [fst]; [|split; auto]. split; cbn [ws_queue ws_waited]; [reflexivity|]. apply enqueue_by_prio; exact I2.
Qed.

Lemma wstep_inv : forall st o, winv st -> winv (wstep_g true true st o).
Proof.
  intros st o H. unfold wstep_g. destruct o; cbn [wstep_out].
  - apply arrive_inv; exact H.
  - apply leave_queue_inv; exact H.
  - apply leave_queue_inv; exact H.
  - apply release_inv; exact H.
  - apply release_inv; exact H.
Qed.

Lemma winv_w0 : winv w0.
Proof. split; [intros H; exfalso; apply H; reflexivity | constructor]. Qed.

Lemma wrun_g_inv : forall ops st, winv st -> winv (wrun_g true true st ops).
Proof.
  induction ops as [|o ops IH]; intros st H; [exact H|]. cbn [wrun_g fold_left]. apply IH. apply wstep_inv; exact H.
Qed.

Lemma wrun_app : forall ops1 ops2 st, wrun st (ops1 ++ ops2) = wrun (wrun st ops1) ops2.
Proof. intros; unfold wrun; apply fold_left_app. Qed.

(* ---- T1: with the guarded flag discipline, in every reachable state (any arrivals, timeouts, cancellations, releases,
   in any order) the flag covers the live waiters and the queue is in service order *)
Theorem waited_flag_covers_live_waiters : waited_guard -> forall ops, winv (wrun w0 ops).
Proof.
  intros [Gt Gc] ops. unfold wrun, wstep. rewrite Gt, Gc. apply (wrun_g_inv ops w0 winv_w0).
Qed.

(* ---- T2: the next release serves the queue.  In every reachable state — in particular after any number of waiters
   timed out or were cancelled — a successful unlock is followed by a pass that serves a prefix of the live queue in
   service order and stops only when no live request is left or the live head is refused by doLock *)
Theorem release_serves_queue_head : waited_guard -> no_lost_wakeup -> forall ops o,
  let st := wrun w0 ops in
  match o with
  | WUnlock id rc p => snd (unlock (ws_holds st) id rc p) = true
  | WUnlockHead p => snd (unlock_head (ws_holds st) p) = true
  | _ => False
  end ->
  live (ws_queue st) = wserved st o ++ live (ws_queue (wstep st o)) /\ quiescent (wstep st o).
Proof.
  intros G [Hu _] ops o st Hok. pose proof (waited_flag_covers_live_waiters G ops) as [I1 I2]. fold st in I1, I2.
  unfold wserved, wstep, wstep_g.
  assert (Hgen : forall res, snd res = true ->
            live (ws_queue st) = snd (release unlock_runs_wake_pass st res) ++ live (ws_queue (fst (release unlock_runs_wake_pass st res)))
            /\ quiescent (fst (release unlock_runs_wake_pass st res))).
  { intros res Hr. unfold release. rewrite Hr, Hu. cbn [andb].
    set (st1 := mkWS (fst res) (ws_queue st) (ws_waited st)).
    assert (Hinv : winv st1) by (split; auto).
    split; [|apply wake_pass_quiescent; exact Hinv].
    destruct (ws_waited st) eqn:W.
    - apply (wake_pass_served st1). reflexivity.
    - unfold wake_pass, st1. cbn [ws_waited fst snd app ws_queue]. reflexivity. }
  destruct o; try contradiction; cbn [wstep_out]; apply Hgen; exact Hok.
Qed.

(* ------------------------------------------------------------------ specialisations: timeout, then release *)

(* a pass on a key whose flag is set serves the live head when doLock accepts it *)
Lemma serve_head : forall q s w rest, live q = w :: rest -> wake_grant s (w_req w) = true ->
  exists s' q' g, serve s q = (s', q', w :: g).
Proof.
  induction q as [|x t IH]; intros s w rest HL HG; [discriminate|]. cbn [serve].
  destruct (w_dead x) eqn:D.
  - rewrite live_cons_dead in HL by assumption. eapply IH; eauto.
  - rewrite live_cons_live in HL by assumption. inversion HL; subst x.
    rewrite HG. destruct (serve (grant s (w_req w)) t) as [[s1 q1] g1]. eauto.
Qed.

Lemma admissible_cur0 : forall l c, l <> 0 -> admissible l 0 c = false.
Proof.
  intros l c Hl. unfold admissible.
  destruct (N.eqb_spec l 0); [contradiction|].
  destruct (c =? 0); [reflexivity|].
  destruct (0xffff <=? l); [destruct (0x7fffffff <=? l); reflexivity|].
  assert (H : (l <=? 0) = false) by (apply N.leb_gt; lia). rewrite H. reflexivity.
Qed.

(* the pass stops behind a served request whose hold fills the key (Count 0 hold: nobody else is accepted) *)
Lemma serve_stops_full : forall q s, cur_count s = 0 -> locked s <> 0 ->
  serve s q = (s, get_wait q, []).
Proof.
  induction q as [|x t IH]; intros s Hc Hl; [reflexivity|]. cbn [serve get_wait].
  destruct (w_dead x); [apply IH; auto|].
  unfold wake_grant. rewrite Hc, admissible_cur0 by assumption. rewrite andb_false_r. reflexivity.
Qed.

Definition plain_waiter (w : waiter) : Prop :=
  r_exp0 (w_req w) = false /\ r_wait_unlock (w_req w) = false.

(* ---- Lock (Count lock_count = 0 for everybody): ops arbitrary, then waiter `id` times out, then the only holder unlocks:
   the FIFO head of the remaining live waiters gets the lock, alone *)
Theorem lock_handover_after_timeout : waited_guard -> no_lost_wakeup -> forall ops id h w rest,
  let st := wrun w0 (ops ++ [WTimeout id]) in
  ws_holds st = [h] -> h_depth h = 1 ->
  live (ws_queue st) = w :: rest -> plain_waiter w -> r_count (w_req w) = lock_count ->
  forall rc p,
  let o := WUnlock (h_id h) rc p in
  ws_holds (wstep st o) = [mkHold (r_id (w_req w)) 1 lock_count (r_rcount (w_req w))] /\
  wserved st o = [w] /\ live (ws_queue (wstep st o)) = rest.
Proof.
  intros G [Hu Hrest] ops id h w rest st Hh Hd HL [Hx Hwu] Hc rc p o.
  pose proof (waited_flag_covers_live_waiters G (ops ++ [WTimeout id])) as [I1 I2]. fold st in I1, I2.
  assert (W : ws_waited st = true) by (apply I1; rewrite HL; discriminate).
  assert (Hun : unlock (ws_holds st) (h_id h) rc p = ([], true)).
  { rewrite Hh. unfold unlock. cbn [find]. rewrite N.eqb_refl. rewrite Hd. cbn [N.ltb N.compare andb].
    change (1 <? 1) with false. cbn [andb remove]. rewrite N.eqb_refl. reflexivity. }
  unfold o, wserved, wstep, wstep_g. cbn [wstep_out]. rewrite Hun. unfold release. cbn [fst snd]. rewrite Hu. cbn [andb].
  unfold wake_pass. cbn [ws_waited ws_holds ws_queue]. rewrite W.
  assert (HG : wake_grant [] (w_req w) = true).
  { unfold wake_grant, admissible. cbn [locked]. rewrite Hwu. rewrite !andb_false_r. reflexivity. }
  (* unfold one step of the loop at the live head *)
  assert (Hs : exists q1, serve [] (ws_queue st) = ([mkHold (r_id (w_req w)) 1 lock_count (r_rcount (w_req w))], q1, [w])
                          /\ live q1 = rest).
  { clear - HL HG Hx Hc. revert HL. generalize (ws_queue st) as q. induction q as [|x t IH]; intros HL; [discriminate|].
    cbn [serve]. destruct (w_dead x) eqn:D.
    - rewrite live_cons_dead in HL by assumption. apply IH; exact HL.
    - rewrite live_cons_live in HL by assumption. inversion HL; subst x. rewrite HG.
      unfold grant. rewrite Hx. cbn [app]. rewrite Hc.
      rewrite (serve_stops_full t [mkHold (r_id (w_req w)) 1 lock_count (r_rcount (w_req w))]);
        [| reflexivity | cbn; discriminate].
      exists (get_wait t). split; [reflexivity|]. rewrite live_get_wait. first [assumption | reflexivity]. }
  destruct Hs as (q1 & Hs & Hq1). rewrite Hs. cbn [fst snd ws_holds ws_queue]. auto.
Qed.

Lemma admissible_uniform : forall l c, l <= c -> c < 0xffff -> admissible l c c = true.
Proof.
  intros l c Hl Hc. unfold admissible.
  destruct (N.eqb_spec l 0); [reflexivity|].
  destruct (N.eqb_spec c 0); [lia|].
  assert (H1 : (0xffff <=? l) = false) by (apply N.leb_gt; lia). rewrite H1.
  assert (H2 : (l <=? c) = true) by (apply N.leb_le; lia). rewrite H2. reflexivity.
Qed.

(* ---- Semaphore(n) / MaxConcurrentFlow(n) (one Count for everybody, every hold of depth 1, at most n of them): ops
   arbitrary, then a waiter times out, then Release (unlock of the oldest hold): the FIFO head of the remaining live
   waiters is the first request served *)
Theorem semaphore_handover_after_timeout : waited_guard -> no_lost_wakeup -> forall n ops id w rest,
  1 <= n -> n <= 0xffff ->
  let st := wrun w0 (ops ++ [WTimeout id]) in
  Forall (fun h => h_count h = semaphore_count n /\ h_depth h = 1) (ws_holds st) ->
  ws_holds st <> [] -> locked (ws_holds st) <= n ->
  live (ws_queue st) = w :: rest -> plain_waiter w -> r_count (w_req w) = semaphore_count n ->
  forall p, exists more, wserved st (WUnlockHead p) = w :: more.
Proof.
  intros G [Hu _] n ops id w rest Hn1 Hn2 st Hall Hne Hlk HL [Hx Hwu] Hc p.
  pose proof (waited_flag_covers_live_waiters G (ops ++ [WTimeout id])) as [I1 I2]. fold st in I1, I2.
  assert (W : ws_waited st = true) by (apply I1; rewrite HL; discriminate).
  assert (Hcnt : semaphore_count n = n - 1).
  { unfold semaphore_count. assert (H : (0 <? n) = true) by (apply N.ltb_lt; lia). rewrite H. reflexivity. }
  destruct (ws_holds st) as [|h s1] eqn:Hs; [contradiction|].
  inversion Hall as [|? ? [Hhc Hhd] Hall1]; subst.
  assert (Hun : unlock_head (h :: s1) p = (s1, true)).
  { unfold unlock_head, unlock. cbn [find]. rewrite N.eqb_refl. rewrite Hhd. change (1 <? 1) with false.
    cbn [andb remove]. rewrite N.eqb_refl. reflexivity. }
  unfold wserved. cbn [wstep_out]. rewrite Hs, Hun. unfold release. cbn [fst snd]. rewrite Hu. cbn [andb].
  unfold wake_pass. cbn [ws_waited ws_holds ws_queue]. rewrite W.
  assert (HG : wake_grant s1 (w_req w) = true).
  { unfold wake_grant. rewrite Hwu, !andb_false_r. cbn [negb andb]. rewrite Hc.
    cbn [locked] in Hlk. rewrite Hhd in Hlk.
    destruct s1 as [|h1 s2].
    - reflexivity.
    - inversion Hall1 as [|? ? [Hc1 _] _]; subst. cbn [cur_count]. rewrite Hc1. apply admissible_uniform; rewrite Hcnt; lia. }
  destruct (serve_head _ _ _ _ HL HG) as (s' & q' & g & E). rewrite E. cbn [snd]. eauto.
Qed.

Lemma live_head_max : forall q w rest, by_prio q -> live q = w :: rest -> Forall (fun x => w_pri x <= w_pri w) (live q).
Proof.
  induction q as [|x t IH]; intros w rest Hp HL; [discriminate|].
  destruct (w_dead x) eqn:D.
  - rewrite live_cons_dead in * by assumption. eapply IH; eauto. eapply by_prio_tail; eauto.
  - rewrite live_cons_live in * by assumption. inversion HL; subst x. constructor; [lia|].
    inversion Hp as [|? ? _ Hall]; subst. apply Forall_forall. intros y Hy.
    unfold live in Hy. apply filter_In in Hy. destruct Hy as [Hy _]. eapply Forall_forall in Hall; eauto.
Qed.

(* ---- PriorityLock (and every exclusive primitive): ops arbitrary, then a waiter times out, then a release that frees
   the key: the request served first is the head of the live queue, and no live waiter has a higher priority *)
Theorem prioritylock_handover_after_timeout : waited_guard -> no_lost_wakeup -> forall ops id w rest hid rc p,
  let st := wrun w0 (ops ++ [WTimeout id]) in
  unlock (ws_holds st) hid rc p = ([], true) ->
  live (ws_queue st) = w :: rest -> r_wait_unlock (w_req w) = false ->
  (exists more, wserved st (WUnlock hid rc p) = w :: more) /\
  Forall (fun x => w_pri x <= w_pri w) (live (ws_queue st)).
Proof.
  intros G [Hu _] ops id w rest hid rc p st Hun HL Hwu.
  pose proof (waited_flag_covers_live_waiters G (ops ++ [WTimeout id])) as [I1 I2]. fold st in I1, I2.
  assert (W : ws_waited st = true) by (apply I1; rewrite HL; discriminate).
  split; [|eapply live_head_max; eauto].
  unfold wserved. cbn [wstep_out]. rewrite Hun. unfold release. cbn [fst snd]. rewrite Hu. cbn [andb].
  unfold wake_pass. cbn [ws_waited ws_holds ws_queue]. rewrite W.
  assert (HG : wake_grant [] (w_req w) = true).
  { unfold wake_grant, admissible. cbn [locked]. rewrite Hwu, !andb_false_r. reflexivity. }
  destruct (serve_head _ _ _ _ HL HG) as (s' & q' & g & E). rewrite E. cbn [snd]. eauto.
Qed.

(* requests that hold nothing once served (Event.Wait) and that doLock accepts are ALL served by one pass *)
Lemma serve_all : forall q s,
  (forall w, In w (live q) -> r_exp0 (w_req w) = true /\ wake_grant s (w_req w) = true) ->
  serve s q = (s, [], live q).
Proof.
  induction q as [|x t IH]; intros s H; [reflexivity|]. cbn [serve].
  destruct (w_dead x) eqn:D.
  - rewrite live_cons_dead in * by assumption. apply IH; exact H.
  - rewrite live_cons_live in * by assumption. destruct (H x (or_introl eq_refl)) as [Hx HG]. rewrite HG.
    unfold grant. rewrite Hx. rewrite IH; [reflexivity|]. intros w Hw. apply H. right; exact Hw.
Qed.

Lemma wake_pass_all : forall st,
  (live (ws_queue st) <> [] -> ws_waited st = true) ->
  (forall w, In w (live (ws_queue st)) -> r_exp0 (w_req w) = true /\ wake_grant (ws_holds st) (w_req w) = true) ->
  snd (wake_pass st) = live (ws_queue st) /\ live (ws_queue (fst (wake_pass st))) = [] /\
  ws_holds (fst (wake_pass st)) = ws_holds st.
Proof.
  intros st I1 H. unfold wake_pass. destruct (ws_waited st) eqn:W.
  - rewrite (serve_all _ _ H). cbn [fst snd ws_queue ws_holds]. auto.
  - cbn [fst snd]. destruct (live (ws_queue st)) eqn:L; [auto|].
    assert (false = true) by (apply I1; discriminate). discriminate.
Qed.

(* ---- Event: ops arbitrary, then a Wait times out, then Set: EVERY remaining live Wait is served by the pass.
   default-set mode: the cleared event is one hold, Set is its unlock, Waits carry Count 0 / Expried 0 and no flag;
   default-clear mode: the key is free, Waits carry the wait-when-unlock flag, Count event_clearmode_wait_count and
   Expried 0, Set is the arrival of the event lock (Count event_clearmode_eventlock_count) *)
Theorem event_set_releases_all_after_timeout : waited_guard -> no_lost_wakeup -> forall ops id,
  let st := wrun w0 (ops ++ [WTimeout id]) in
  (forall hid rc p,
     unlock (ws_holds st) hid rc p = ([], true) ->
     (forall w, In w (live (ws_queue st)) -> r_exp0 (w_req w) = true /\ r_wait_unlock (w_req w) = false) ->
     wserved st (WUnlock hid rc p) = live (ws_queue st) /\ live (ws_queue (wstep st (WUnlock hid rc p))) = [])
  /\
  (forall r pri ww outr,
     ws_holds st = [] -> r_count r = event_clearmode_eventlock_count -> r_exp0 r = false -> r_wait_unlock r = false ->
     (forall w, In w (live (ws_queue st)) -> r_exp0 (w_req w) = true /\ r_count (w_req w) = event_clearmode_wait_count) ->
     wserved st (WArrive r pri ww outr) = live (ws_queue st) /\ live (ws_queue (wstep st (WArrive r pri ww outr))) = []).
Proof.
  intros G [Hu _] ops id st.
  pose proof (waited_flag_covers_live_waiters G (ops ++ [WTimeout id])) as [I1 I2]. fold st in I1, I2.
  split.
  - intros hid rc p Hun Hw. unfold wserved, wstep, wstep_g. cbn [wstep_out]. rewrite Hun. unfold release.
    cbn [fst snd]. rewrite Hu. cbn [andb].
    destruct (wake_pass_all (mkWS [] (ws_queue st) (ws_waited st))) as (A & B & _); cbn [ws_queue ws_waited ws_holds]; auto.
    intros w Hin. destruct (Hw w Hin) as [Hx Hwu]. split; [exact Hx|].
    unfold wake_grant, admissible. cbn [locked]. rewrite Hwu, !andb_false_r. reflexivity.
  - intros r pri ww outr Hh Hrc Hrx Hrw Hw. unfold wserved, wstep, wstep_g. cbn [wstep_out]. unfold arrive.
    rewrite Hh. cbn [find locked N.eqb]. rewrite Hrw. cbn [negb orb andb]. unfold admissible at 1. cbn [N.eqb].
    unfold grant. rewrite Hrx. cbn [app].
    set (s1 := [mkHold (r_id r) 1 (r_count r) (r_rcount r)]).
    assert (Hall : forall w, In w (live (ws_queue st)) -> r_exp0 (w_req w) = true /\ wake_grant s1 (w_req w) = true).
    { intros w Hin. destruct (Hw w Hin) as [Hx Hc]. split; [exact Hx|].
      unfold wake_grant, s1. cbn [locked cur_count h_depth h_count]. rewrite Hc, Hrc.
      change (1 + 0 =? 0) with false. rewrite andb_false_r. cbn [andb negb]. reflexivity. }
    destruct (ws_waited st) eqn:W.
    + destruct (wake_pass_all (mkWS s1 (ws_queue st) true)) as (A & B & _); cbn [ws_queue ws_waited ws_holds]; auto.
    + cbn [fst snd ws_queue]. destruct (live (ws_queue st)) eqn:L; [auto|].
      assert (false = true) by (apply I1; discriminate). discriminate.
Qed.

Lemma live_kill_in : forall id q w, In w (live (kill id q)) -> In w (live q).
Proof.
  induction q as [|x t IH]; intros w H; [exact H|]. cbn [kill map] in H. fold (kill id t) in H.
  destruct (w_dead x) eqn:D.
  - rewrite andb_false_r in H. rewrite live_cons_dead in * by assumption. apply IH; exact H.
  - rewrite live_cons_live by assumption. rewrite andb_true_r in H. destruct (r_id (w_req x) =? id).
    + rewrite live_cons_dead in H by reflexivity. right. apply IH; exact H.
    + rewrite live_cons_live in H by assumption. destruct H as [<-|H]; [left; reflexivity | right; apply IH; exact H].
Qed.

(* ---- default-clear Event, pass as it is (no re-check of the wait-when-unlock flag): the pass run by doTimeOut when ONE
   Wait times out on a CLEAR event (key free) serves every other queued Wait — known finding, second trigger *)
Theorem event_clearmode_wait_timeout_serves_other_waits : waited_guard -> no_lost_wakeup ->
  wake_pass_rechecks_wait_when_unlock = false -> forall ops id,
  let st := wrun w0 ops in
  ws_holds st = [] ->
  (forall w, In w (live (ws_queue st)) -> r_exp0 (w_req w) = true) ->
  wserved st (WTimeout id) = live (kill id (ws_queue st)) /\ ws_holds (wstep st (WTimeout id)) = [].
Proof.
  intros [Gt Gc] (_ & Ht & _) Hsw ops id st Hh Hx.
  pose proof (waited_flag_covers_live_waiters (conj Gt Gc) ops) as [I1 I2]. fold st in I1, I2.
  unfold wserved, wstep, wstep_g. cbn [wstep_out]. rewrite Gt, Ht. unfold leave_queue. cbv beta iota zeta.
  set (q2 := get_wait (kill id (ws_queue st))).
  assert (HL : live q2 = live (kill id (ws_queue st))) by apply live_get_wait.
  destruct (wake_pass_all (mkWS (ws_holds st) q2 (match q2 with [] => false | _ :: _ => ws_waited st end))) as (A & B & C);
    cbn [ws_queue ws_waited ws_holds].
  - intros Hne. destruct q2 eqn:Q; [exfalso; apply Hne; reflexivity|]. apply I1.
    rewrite HL in Hne. destruct (live_kill_sub id (ws_queue st)); [contradiction | assumption].
  - intros w Hin. rewrite HL in Hin. apply live_kill_in in Hin. split; [apply Hx; exact Hin|].
    rewrite Hh. unfold wake_grant, admissible. rewrite Hsw. cbn [locked andb negb N.eqb]. reflexivity.
  - split; [rewrite A; exact HL | rewrite C; exact Hh].
Qed.

(* ---- the guard is necessary: if the waiter branch of doTimeOut may clear `waited` while a live request is still
   queued, a holder (LockId 1), two waiters (2, 3), waiter 2 timing out and the holder unlocking leave the key FREE with
   waiter 3 still queued, acceptable to doLock, and no flag that would make any later pass look at it *)
Theorem handover_needs_the_timeout_guard :
  let lk i := mkReq i lock_count lock_rcount false false false false in
  let st3 := fst (arrive (fst (arrive (fst (arrive w0 (lk 1) 0 true false)) (lk 2) 0 true false)) (lk 3) 0 true false) in
  let st4 := fst (leave_queue false true st3 2) in
  let out5 := release true st4 (unlock (ws_holds st4) 1 0 false) in
  ws_holds st3 = [mkHold 1 1 0 0] /\ map (fun w => r_id (w_req w)) (live (ws_queue st3)) = [2; 3] /\
  map (fun w => r_id (w_req w)) (live (ws_queue st4)) = [3] /\ ws_waited st4 = false /\
  ws_holds (fst out5) = [] /\ snd out5 = [] /\ map (fun w => r_id (w_req w)) (live (ws_queue (fst out5))) = [3] /\
  wake_grant (ws_holds (fst out5)) (lk 3) = true /\ ~ quiescent (fst out5) /\
  (* with the guard the same history hands the key to waiter 3 *)
  let st4g := fst (leave_queue true true st3 2) in
  map (fun w => r_id (w_req w)) (snd (release true st4g (unlock (ws_holds st4g) 1 0 false))) = [3].
Proof.
  cbv zeta. repeat split; try (vm_compute; reflexivity).
  vm_compute. discriminate.
Qed.
