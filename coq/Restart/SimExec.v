(* C07 - general simulation, part 1: symbolic execution of the engine model on the sub-language.
   Effects of AddExpried / the grant path / the release path / doExpried on an arbitrary database, stated at the level
   of `aget (store _)` / `aget (mgrs _)` (extensional view), and the path equations of lock_step / unlock_step for
   the simple commands (no show/update/concurrent-check/data flags, no timeout flags, no wait, seconds or minutes unit). *)
From Coq Require Import String ZifyN ZifyBool ZifyNat.
From Slock Require Import Engine.Types Engine.Queues Engine.Timers Engine.Engine Engine.Engine2 Restart.Recover Restart.SimBase.
Open Scope N_scope.

Ltac csplit := repeat match goal with |- _ /\ _ => split end.

Lemma mgr_data_none m : m_data m = None -> m <| m_data := None |> = m.
Proof. destruct m; cbn. intros ->. reflexivity. Qed.
Lemma lock_data_none l : l_data l = None -> l <| l_data := None |> = l.
Proof. destruct l; cbn. intros ->. reflexivity. Qed.

Lemma next_updl s r f : next (updl s r f) = next s. Proof. unfold updl. destruct (aget (store s) r); reflexivity. Qed.
Lemma next_updm s k f : next (updm s k f) = next s. Proof. unfold updm. destruct (aget (mgrs s) k); reflexivity. Qed.

(* ------------------------------------------------------------------ effect frame: only record r and manager k may change *)
Record eff (s s' : db) (r k : N) : Prop := mkEff {
  ef_l : forall r', r' <> r -> aget (store s') r' = aget (store s) r';
  ef_m : forall k', k' <> k -> aget (mgrs s') k' = aget (mgrs s) k';
  ef_awf : awf (store s) -> awf (store s');
  ef_same : same_scalars s s';
  ef_next : next s' = next s }.

Lemma eff_refl s r k : eff s s r k. Proof. split; auto. apply same_refl. Qed.
Lemma eff_trans a b c r k : eff a b r k -> eff b c r k -> eff a c r k.
Proof.
  intros [A1 A2 A3 A4 A5] [B1 B2 B3 B4 B5]. split.
  - intros r' H. rewrite B1, A1; auto.
  - intros k' H. rewrite B2, A2; auto.
  - auto.
  - eapply same_trans; eauto.
  - congruence.
Qed.
Lemma eff_updl s r f k : eff s (updl s r f) r k.
Proof.
  split.
  - intros r' H. apply aget_updl_other. congruence.
  - intros. rewrite mgrs_updl. reflexivity.
  - apply awf_updl.
  - apply same_updl.
  - apply next_updl.
Qed.
Lemma eff_updm s r f k : eff s (updm s k f) r k.
Proof.
  split.
  - intros. rewrite store_updm. reflexivity.
  - intros k' H. apply aget_updm_other. congruence.
  - rewrite store_updm. auto.
  - apply same_updm.
  - apply next_updm.
Qed.
Lemma eff_ewheel s x r k : eff s (s <| ewheel := x |>) r k.
Proof. split; auto. split; reflexivity. Qed.
Lemma eff_elong s x r k : eff s (s <| elong := x |>) r k.
Proof. split; auto. split; reflexivity. Qed.
Lemma eff_bump s f r k : eff s (bump f s) r k.
Proof. split; auto. split; reflexivity. Qed.

(* the fields of a lock record that the wheels / sweeps never change *)
Definition core_eq (l l' : lockrec) : Prop :=
  l_key l' = l_key l /\ l_cmd l' = l_cmd l /\ l_data l' = l_data l /\ l_start l' = l_start l /\ l_eT l' = l_eT l
  /\ l_locked l' = l_locked l /\ l_ack l' = l_ack l /\ l_aoftime l' = l_aoftime l.
Lemma core_eq_refl l : core_eq l l. Proof. repeat split. Qed.
Lemma core_eq_trans a b c : core_eq a b -> core_eq b c -> core_eq a c.
Proof. unfold core_eq. intuition congruence. Qed.

(* ------------------------------------------------------------------ AddExpried *)
(* who may write: the leader for a hold that does not come from the log; a hold already marked persisted is silent *)
Definition emit_mode (s : db) (l : lockrec) : Prop :=
  (leader s = true /\ has (c_flag (l_cmd l)) LOCK_FLAG_FROM_AOF = false) \/ l_isaof l = true.

(* the LOCK record AofChannel.Push builds for hold l at time ctime (no value frame) *)
Definition lock_rec_of (l : lockrec) (ctime : Z) (oref : option ref) : aofrec :=
  let lc := l_cmd l in
  let st := (ctime - l_start l)%Z in
  mkAof true (N.land (c_flag lc) 18) (c_lockid lc) (c_key lc)
    (N.lor 0 (N.lor (if has (c_tflag lc) TF_REQUIRE_ACKED then AOF_FLAG_REQUIRE_ACKED else 0)
             (N.lor (if has (c_tflag lc) TF_PRIORITY then AOF_FLAG_RCOUNT_IS_PRIORITY else 0) 0)))
    ctime (if (st <? 0)%Z || (65535 <=? st)%Z then 65535 else Z.to_N st)
    (c_eflag lc) (aof_expried_time lc (l_eT l) ctime) (c_count lc) (c_rcount lc) None oref.

Definition ctime_of (s : db) (l : lockrec) : Z := if (now s <? l_eT l)%Z then now s else l_eT l.

Lemma push_lock_aof_spec s k r l m :
  aget (store s) r = Some l -> aget (mgrs s) k = Some m -> l_data l = None -> m_data m = None ->
  leader s = true -> has (c_flag (l_cmd l)) LOCK_FLAG_FROM_AOF = false ->
  exists s',
    push_lock_aof s k r 0 = (s', [EAof (lock_rec_of l (ctime_of s l)
                                         (if has (c_tflag (l_cmd l)) TF_REQUIRE_ACKED then Some r else None))]) /\
    eff s s' r k /\ aget (mgrs s') k = Some m /\ aget (store s') r = Some (l <| l_isaof := true |>).
Proof.
  intros Hr Hm Hd Hmd Hl Hf. unfold push_lock_aof. rewrite Hl. cbn [negb].
  rewrite (getl_some _ _ _ Hr), Hf, (getm_some _ _ _ Hm), Hmd, Hd. cbn [aof_lock_data].
  set (s1 := updm s k (fun m0 => m0 <| m_data := None |>)).
  assert (M1 : aget (mgrs s1) k = Some m).
  { subst s1. rewrite (aget_updm_same _ _ _ _ Hm). rewrite mgr_data_none; auto. }
  assert (R1 : aget (store s1) r = Some l) by (subst s1; rewrite store_updm; exact Hr).
  set (s2 := updl s1 r (fun l0 => l0 <| l_data := None |>)).
  assert (R2 : aget (store s2) r = Some l).
  { subst s2. rewrite (aget_updl_same _ _ _ _ R1). rewrite lock_data_none; auto. }
  assert (M2 : aget (mgrs s2) k = Some m) by (subst s2; rewrite mgrs_updl; exact M1).
  assert (E2 : eff s s2 r k).
  { eapply eff_trans; [apply eff_updm|apply eff_updl]. }
  eexists. split.
  - unfold mk_aofrec. rewrite (getl_some _ _ _ R2).
    assert (N2 : now s2 = now s) by (apply (ss_now _ _ (ef_same _ _ _ _ E2))). rewrite N2.
    reflexivity.
  - split; [eapply eff_trans; [exact E2|apply eff_updl]|].
    split; [rewrite mgrs_updl; exact M2|].
    apply aget_updl_same. exact R2.
Qed.

Lemma add_expried_spec s k r l m :
  aget (store s) r = Some l -> aget (mgrs s) k = Some m -> (checkE s <= l_eT l)%Z ->
  l_data l = None -> m_data m = None -> l_locked l = 1 -> emit_mode s l ->
  exists s' ev l',
    add_expried s k r = (s', ev) /\
    eff s s' r k /\
    aget (mgrs s') k = Some m /\
    aget (store s') r = Some l' /\ core_eq l l' /\ l_expried l' = false /\
    ((ev = [] /\ l_isaof l' = l_isaof l) \/
     (leader s = true /\ l_isaof l = false /\ l_isaof l' = true /\
      ev = [EAof (lock_rec_of l (ctime_of s l) (if has (c_tflag (l_cmd l)) TF_REQUIRE_ACKED then Some r else None))])).
Proof.
  intros Hr Hm Hc Hd Hmd Hlk Hmode.
  unfold add_expried.
  set (s1 := updl s r (fun l0 => l0 <| l_expried := false |>)).
  assert (R1 : aget (store s1) r = Some (l <| l_expried := false |>)) by (apply aget_updl_same; exact Hr).
  assert (E1 : eff s s1 r k) by apply eff_updl.
  rewrite (getl_some _ _ _ R1).
  (* the wheel / long-table insertion *)
  set (s2 := if QUEUE_MAX_WAIT <? l_ecc (l <| l_expried := false |>) then _ else _).
  assert (H2 : exists l2, aget (store s2) r = Some l2 /\ core_eq l l2 /\ l_expried l2 = false /\ l_isaof l2 = l_isaof l
                          /\ eff s s2 r k).
  { subst s2. destruct (QUEUE_MAX_WAIT <? l_ecc (l <| l_expried := false |>)).
    - assert (C : (l_eT (l <| l_expried := false |>) <? checkE s1)%Z = false).
      { cbn [l_eT set]. rewrite (ss_checkE _ _ (ef_same _ _ _ _ E1)). lia. }
      rewrite C. eexists. split.
      { cbn [store set]. apply aget_updl_same. exact R1. }
      split; [repeat split|]. split; [reflexivity|]. split; [reflexivity|].
      eapply eff_trans; [exact E1|]. eapply eff_trans; [apply eff_updl|apply eff_elong].
    - eexists. split.
      { apply aget_updl_same. cbn [store set]. exact R1. }
      split; [repeat split|]. split; [reflexivity|]. split; [reflexivity|].
      eapply eff_trans; [exact E1|]. eapply eff_trans; [apply eff_ewheel|apply eff_updl]. }
  destruct H2 as (l2 & R2 & C2 & X2 & A2 & E2).
  assert (M2 : aget (mgrs s2) k = Some m).
  { destruct (aget (mgrs s2) k) eqn:G.
    - (* the insertion never touches managers *)
      clear -G Hm s1. subst s2 s1.
      destruct (QUEUE_MAX_WAIT <? l_ecc (l <| l_expried := false |>)); cbn [mgrs set] in G;
        rewrite ?mgrs_updl in G; cbn [mgrs set] in G; rewrite ?mgrs_updl in G; congruence.
    - clear -G Hm s1. subst s2 s1.
      destruct (QUEUE_MAX_WAIT <? l_ecc (l <| l_expried := false |>)); cbn [mgrs set] in G;
        rewrite ?mgrs_updl in G; cbn [mgrs set] in G; rewrite ?mgrs_updl in G; congruence. }
  clearbody s2. rewrite (getl_some _ _ _ R2).
  destruct C2 as (K1 & K2 & K3 & K4 & K5 & K6 & K7 & K8).
  destruct (negb (l_isaof l2) && negb (l_aoftime l2 =? 255) && (Z.of_N (l_aoftime l2) <=? now s2 - l_start l2)%Z) eqn:P.
  - (* due: one LOCK record (depth 1) *)
    rewrite K6, Hlk. change (N.to_nat 1) with 1%nat. cbn [repeat_push_lock_aof].
    assert (Ia : l_isaof l2 = false) by (destruct (l_isaof l2); [discriminate|reflexivity]).
    assert (Hlead : leader s = true /\ has (c_flag (l_cmd l)) LOCK_FLAG_FROM_AOF = false).
    { destruct Hmode as [H|H]; [exact H|congruence]. }
    destruct Hlead as [Hl Hf].
    destruct (push_lock_aof_spec s2 k r l2 m R2 M2) as (s3 & P3 & E3 & M3 & R3).
    { congruence. } { exact Hmd. } { rewrite (ss_leader _ _ (ef_same _ _ _ _ E2)). exact Hl. } { rewrite K2. exact Hf. }
    rewrite P3. exists s3. eexists. eexists. split; [reflexivity|].
    split; [eapply eff_trans; eauto|]. split; [exact M3|]. split; [exact R3|].
    split; [repeat split; cbn [l_key l_cmd l_data l_start l_eT l_locked l_ack l_aoftime set]; assumption|].
    split; [exact X2|]. right. split; [exact Hl|]. split; [congruence|]. split; [reflexivity|].
    rewrite app_nil_r. unfold lock_rec_of, ctime_of. rewrite K2, K4, K5, (ss_now _ _ (ef_same _ _ _ _ E2)). reflexivity.
  - exists s2, [], l2. split; [reflexivity|]. split; [exact E2|]. split; [exact M2|]. split; [exact R2|].
    split; [repeat split; assumption|]. split; [exact X2|]. left. split; [reflexivity|exact A2].
Qed.

(* ------------------------------------------------------------------ the simple commands *)
Definition lock_simple (c : cmd) : Prop :=
  c_lock c = true /\ (c_flag c = 0 \/ c_flag c = 4) /\ c_tflag c = 0 /\ c_timeout c = 0
  /\ has (c_eflag c) EF_MILLISECOND = false /\ c_data c = None.
(* the two modes of use: a client command on the leader; a replayed (FROM_AOF) command during the load *)
Definition mode_ok (s : db) (fl : N) : Prop := (leader s = true /\ fl = 0) \/ (leader s = false /\ fl = 4).
Definition key_free (s : db) (k : N) : Prop :=
  match aget (mgrs s) k with None => True | Some m => m_locked m = 0 /\ m_cur m = None /\ m_waited m = false end.
Definition ensure_mgr (s : db) (k : N) : db :=
  match aget (mgrs s) k with
  | Some _ => s
  | None => bump (fun n => n <| n_key := (n_key n + 1)%Z |>) (setm s k new_mgr)
  end.

Lemma ensure_mgr_spec s k :
  aget (mgrs (ensure_mgr s k)) k = Some (getm s k) /\ store (ensure_mgr s k) = store s /\
  (forall k', k' <> k -> aget (mgrs (ensure_mgr s k)) k' = aget (mgrs s) k') /\
  same_scalars s (ensure_mgr s k) /\ next (ensure_mgr s k) = next s.
Proof.
  unfold ensure_mgr, getm. destruct (aget (mgrs s) k) eqn:E.
  - repeat split; auto.
  - repeat split; auto. + cbn. rewrite N.eqb_refl. reflexivity.
    + intros k' H. cbn [mgrs bump updc setm set]. rewrite aget_aset. destruct (k =? k') eqn:E2; auto.
      apply N.eqb_eq in E2. congruence.
Qed.

Definition grant_path (s : db) (conn : N) (c : cmd) : db * list event * option wake :=
  let k := c_key c in
  let s0 := ensure_mgr s k in
  let '(s1, r) := new_lock s0 k conn c in
  let s2 := updm (add_lock s1 k r) k (fun m => m <| m_locked := add32 (m_locked m) 1 |>) in
  let '(s3, aev) := add_expried s2 k r in
  let s5 := bump (fun n => n <| n_lock := (n_lock n + 1)%Z |> <| n_locked := (n_locked n + 1)%Z |>)
                 (updl s3 r (fun l => l <| l_refc := add8 (l_refc l) 1 |>)) in
  (s5, [EGrant k r true (m_locked (getm s1 k)) (cur_count s1 k) (c_count c)] ++ [] ++ aev
       ++ [reply conn c R_SUCCED (m_locked (getm s5 k)) (l_locked (getl s5 r)) (data_of s2 k)], None).

Lemma has0 x : has 0 x = false. Proof. reflexivity. Qed.

Lemma new_lock_getm s k conn c s1 r : new_lock s k conn c = (s1, r) ->
  getm s1 k = match aget (mgrs s) k with Some m => m <| m_ref := add32 (m_ref m) 1 |> | None => new_mgr end.
Proof.
  unfold new_lock. intros H. inv H. unfold getm. rewrite aget_updm, N.eqb_refl. cbn [mgrs set].
  destruct (aget (mgrs s) k); reflexivity.
Qed.

Lemma lock_step_grant s conn c :
  lock_simple c -> mode_ok s (c_flag c) -> 0 < c_expried c -> key_free s (c_key c) ->
  lock_step s conn c = grant_path s conn c.
Proof.
  intros (Hl & Hf & Ht & Hto & Hms & Hd) Hm He Hk.
  destruct (ensure_mgr_spec s (c_key c)) as (G0 & _ & _ & GS & _).
  assert (G : m_locked (getm s (c_key c)) = 0 /\ m_cur (getm s (c_key c)) = None /\ m_waited (getm s (c_key c)) = false).
  { unfold key_free in Hk. unfold getm. destruct (aget (mgrs s) (c_key c)); auto. }
  destruct G as (G1 & G2 & G3).
  unfold lock_step, grant_path. fold (ensure_mgr s (c_key c)). cbv zeta.
  assert (F8 : has (c_flag c) LOCK_FLAG_CONCURRENT_CHECK = false) by (destruct Hf as [-> | ->]; reflexivity).
  assert (F32 : has_data_flag c = false) by (unfold has_data_flag; destruct Hf as [-> | ->]; reflexivity).
  assert (F4 : negb (leader s) && negb (has (c_flag c) LOCK_FLAG_FROM_AOF) = false).
  { destruct Hm as [[-> ->] | [-> ->]]; reflexivity. }
  rewrite F8. cbn [andb].
  rewrite (ss_leader _ _ GS), F4, (getm_some _ _ _ G0), G1.
  change (0 <? 0) with false. cbv iota.
  rewrite Ht, !has0. cbv iota beta.
  destruct (new_lock (ensure_mgr s (c_key c)) (c_key c) conn c) as [s1 r] eqn:EN.
  pose proof (new_lock_getm _ _ _ _ _ _ EN) as GM. rewrite G0 in GM.
  assert (DL : do_lock s1 (c_key c) r = true).
  { unfold do_lock. rewrite GM. cbn [m_locked set]. rewrite G1. reflexivity. }
  rewrite DL. cbn [negb orb andb].
  assert (E0 : (0 <? c_expried c) = true) by lia. rewrite E0.
  rewrite Ht, !has0. cbn [andb]. rewrite F32, Hms, GM. cbn [m_waited set]. rewrite G3.
  destruct (add_expried _ _ _) as [s3 aev]. reflexivity.
Qed.

Lemma lock_rec_of_core l l' t o : core_eq l l' -> lock_rec_of l' t o = lock_rec_of l t o.
Proof. intros (K1 & K2 & K3 & K4 & K5 & K6 & K7 & K8). unfold lock_rec_of. rewrite K2, K4, K5. reflexivity. Qed.

Lemma aofs_of_app a b : aofs_of (a ++ b) = aofs_of a ++ aofs_of b.
Proof. unfold aofs_of. apply flat_map_app. Qed.

Lemma grant_path_spec s conn c :
  lock_simple c -> mode_ok s (c_flag c) -> key_free s (c_key c) ->
  aget (store s) (next s) = None -> m_data (getm s (c_key c)) = None ->
  (checkE s <= expiry_deadline c (now s))%Z -> (now s < expiry_deadline c (now s))%Z ->
  exists s' ev l' m',
    grant_path s conn c = (s', ev, None) /\
    aget (store s') (next s) = Some l' /\
    l_key l' = c_key c /\ l_cmd l' = c /\ l_data l' = None /\ l_start l' = now s /\
    l_eT l' = expiry_deadline c (now s) /\ l_locked l' = 1 /\ l_ack l' = 255 /\ l_expried l' = false /\
    (forall r', r' <> next s -> aget (store s') r' = aget (store s) r') /\
    (forall k', k' <> c_key c -> aget (mgrs s') k' = aget (mgrs s) k') /\
    (awf (store s) -> awf (store s')) /\ same_scalars s s' /\ next s' = next s + 1 /\
    aget (mgrs s') (c_key c) = Some m' /\ m_cur m' = Some (next s) /\ m_locked m' = 1 /\
    m_locks m' = m_locks (getm s (c_key c)) /\ m_wait m' = m_wait (getm s (c_key c)) /\ m_waited m' = false /\
    m_data m' = None /\ m_ref m' = add32 (m_ref (getm s (c_key c))) 1 /\
    ((aofs_of ev = [] /\ l_isaof l' = has (c_flag c) LOCK_FLAG_FROM_AOF) \/
     (leader s = true /\ c_flag c = 0 /\ l_isaof l' = true /\ aofs_of ev = [lock_rec_of l' (now s) None])).
Proof.
  intros (Hl & Hf & Ht & Hto & Hms & Hd) Hm Hk Hfresh Hmd Hce Hne.
  set (k := c_key c) in *. set (r := next s) in *.
  destruct (ensure_mgr_spec s k) as (M0 & ST0 & FR0 & SS0 & NX0).
  assert (G : m_locked (getm s k) = 0 /\ m_cur (getm s k) = None /\ m_waited (getm s k) = false).
  { unfold key_free in Hk. unfold getm. destruct (aget (mgrs s) k); auto. }
  destruct G as (G1 & G2 & G3).
  set (m0 := getm s k) in *.
  unfold grant_path. fold k. set (s0 := ensure_mgr s k) in *. cbv zeta.
  (* new_lock *)
  unfold new_lock. rewrite NX0. fold r. rewrite Ht, !has0.
  set (l0 := mkLock k c conn None (now s0) 0%Z (timeout_deadline c (now s0)) false 1 1 0 0 255 true true 0 false).
  set (s1 := updm (s0 <| store := aset (store s0) r l0 |> <| next := r + 1 |>) k (fun m => m <| m_ref := add32 (m_ref m) 1 |>)).
  assert (R1 : aget (store s1) r = Some l0).
  { subst s1. rewrite store_updm. cbn [store set]. rewrite aget_aset, N.eqb_refl. reflexivity. }
  assert (FR1 : forall r', r' <> r -> aget (store s1) r' = aget (store s) r').
  { intros r' Hr. subst s1. rewrite store_updm. cbn [store set]. rewrite aget_aset, ST0.
    destruct (r =? r') eqn:E; auto. apply N.eqb_eq in E. congruence. }
  set (m1 := m0 <| m_ref := add32 (m_ref m0) 1 |>).
  assert (M1 : aget (mgrs s1) k = Some m1).
  { subst s1. rewrite aget_updm, N.eqb_refl. cbn [mgrs set]. rewrite M0. reflexivity. }
  assert (FM1 : forall k', k' <> k -> aget (mgrs s1) k' = aget (mgrs s) k').
  { intros k' Hk'. subst s1. rewrite aget_updm_other by congruence. cbn [mgrs set]. apply FR0. exact Hk'. }
  assert (W1 : awf (store s) -> awf (store s1)).
  { intros W. subst s1. rewrite store_updm. cbn [store set]. apply awf_aset. rewrite ST0. exact W. }
  assert (SS1 : same_scalars s s1).
  { eapply same_trans; [exact SS0|]. eapply same_trans; [|apply same_updm]. split; reflexivity. }
  assert (NX1 : next s1 = r + 1) by (subst s1; rewrite next_updm; reflexivity).
  clearbody s1.
  (* add_lock *)
  unfold add_lock. rewrite (getl_some _ _ _ R1), (getm_some _ _ _ M1).
  replace (l_cmd l0) with c by reflexivity. rewrite Ht, !has0.
  replace (m_cur m1) with (@None ref) by (symmetry; exact G2).
  set (eT := expiry_deadline c (now s1)).
  set (l2a := l0 <| l_start := now s1 |> <| l_eT := eT |> <| l_ecc := initial_ecc c eT (now s1) |>
                 <| l_aoftime := aoftime_of s1 c |> <| l_locked := 1 |>
                 <| l_refc := add8 (l_refc (l0 <| l_start := now s1 |> <| l_eT := eT |> <| l_ecc := initial_ecc c eT (now s1) |>)) 1 |>).
  set (l2 := if has (c_flag c) LOCK_FLAG_FROM_AOF then l2a <| l_isaof := true |> else l2a).
  match goal with |- context [add_expried ?x k r] => set (s2 := x) end.
  set (m2 := m1 <| m_cur := Some r |> <| m_locked := add32 (m_locked m1) 1 |>).
  assert (R2 : aget (store s2) r = Some l2).
  { subst s2. rewrite !store_updm. cbn [store setl set]. rewrite aget_aset, N.eqb_refl. reflexivity. }
  assert (FR2 : forall r', r' <> r -> aget (store s2) r' = aget (store s) r').
  { intros r' Hr. subst s2. rewrite !store_updm. cbn [store setl set]. rewrite aget_aset.
    destruct (r =? r') eqn:E; [apply N.eqb_eq in E; congruence|]. apply FR1. exact Hr. }
  assert (M2 : aget (mgrs s2) k = Some m2).
  { subst s2. rewrite aget_updm, N.eqb_refl, aget_updm, N.eqb_refl. cbn [mgrs setl set]. rewrite M1. reflexivity. }
  assert (FM2 : forall k', k' <> k -> aget (mgrs s2) k' = aget (mgrs s) k').
  { intros k' Hk'. subst s2. rewrite !aget_updm_other by congruence. cbn [mgrs setl set]. apply FM1. exact Hk'. }
  assert (W2 : awf (store s) -> awf (store s2)).
  { intros W. subst s2. rewrite !store_updm. cbn [store setl set]. apply awf_aset. apply W1. exact W. }
  assert (SS2 : same_scalars s s2).
  { eapply same_trans; [exact SS1|]. eapply same_trans; [apply same_setl|]. eapply same_trans; apply same_updm. }
  assert (NX2 : next s2 = r + 1) by (subst s2; rewrite !next_updm; exact NX1).
  assert (EQT : eT = expiry_deadline c (now s)) by (subst eT; rewrite (ss_now _ _ SS1); reflexivity).
  assert (L2 : l_key l2 = k /\ l_cmd l2 = c /\ l_data l2 = None /\ l_start l2 = now s /\ l_eT l2 = eT /\ l_locked l2 = 1
               /\ l_ack l2 = 255 /\ l_isaof l2 = has (c_flag c) LOCK_FLAG_FROM_AOF).
  { subst l2. destruct (has (c_flag c) LOCK_FLAG_FROM_AOF); cbn; rewrite (ss_now _ _ SS1); repeat split. }
  destruct L2 as (A1 & A2 & A3 & A4 & A5 & A6 & A7 & A8).
  clearbody s2 l2.
  (* add_expried *)
  destruct (add_expried_spec s2 k r l2 m2 R2 M2) as (s3 & aev & l3 & P3 & E3 & M3 & R3 & C3 & X3 & EM3).
  { rewrite (ss_checkE _ _ SS2), A5, EQT. exact Hce. } { exact A3. } { exact Hmd. } { exact A6. }
  { unfold emit_mode. rewrite A2, A8. destruct Hm as [[H1 H2]|[H1 H2]].
    - left. split; [rewrite (ss_leader _ _ SS2); exact H1|rewrite H2; reflexivity].
    - right. rewrite H2. reflexivity. }
  rewrite P3.
  set (s4 := updl s3 r (fun l => l <| l_refc := add8 (l_refc l) 1 |>)).
  set (l4 := l3 <| l_refc := add8 (l_refc l3) 1 |>).
  assert (R4 : aget (store s4) r = Some l4) by (exact (aget_updl_same s3 r _ l3 R3)).
  assert (E4 : eff s2 s4 r k) by (eapply eff_trans; [exact E3|apply eff_updl]).
  assert (M4 : aget (mgrs s4) k = Some m2) by (subst s4; rewrite mgrs_updl; exact M3).
  destruct C3 as (K1 & K2 & K3 & K4 & K5 & K6 & K7 & K8).
  eexists. eexists. exists l4, m2. split; [reflexivity|].
  split; [exact R4|].
  subst l4. cbn [l_key l_cmd l_data l_start l_eT l_locked l_ack l_expried l_isaof set].
  split; [congruence|]. split; [congruence|]. split; [congruence|]. split; [congruence|]. split; [congruence|].
  split; [congruence|]. split; [congruence|]. split; [exact X3|].
  split. { intros r' Hr. cbn [store bump updc set]. rewrite (ef_l _ _ _ _ E4 r' Hr). apply FR2. exact Hr. }
  split. { intros k' Hk'. cbn [mgrs bump updc set]. rewrite (ef_m _ _ _ _ E4 k' Hk'). apply FM2. exact Hk'. }
  split. { intros W. cbn [store bump updc set]. apply (ef_awf _ _ _ _ E4). apply W2. exact W. }
  split. { eapply same_trans; [exact SS2|]. eapply same_trans; [apply (ef_same _ _ _ _ E4)|apply same_bump]. }
  split. { cbn [next bump updc set]. rewrite (ef_next _ _ _ _ E4). exact NX2. }
  split; [exact M4|].
  subst m2 m1. cbn [m_cur m_locked m_locks m_wait m_waited m_data m_ref set].
  split; [reflexivity|]. split; [rewrite G1; reflexivity|]. split; [reflexivity|]. split; [reflexivity|].
  split; [exact G3|]. split; [exact Hmd|]. split; [reflexivity|].
  rewrite !aofs_of_app. cbn [aofs_of flat_map app].
  destruct EM3 as [[-> Hi]|(Hld & Hi0 & Hi1 & ->)].
  - left. split; [reflexivity|]. rewrite Hi. exact A8.
  - right. split; [rewrite <- (ss_leader _ _ SS2); exact Hld|].
    assert (Hfl : c_flag c = 0).
    { destruct Hf as [H|H]; auto. rewrite A8, H in Hi0. discriminate. }
    split; [exact Hfl|]. split; [exact Hi1|]. cbn [app]. f_equal.
    rewrite A2, Ht, has0.
    assert (CT : ctime_of s2 l2 = now s).
    { unfold ctime_of. rewrite (ss_now _ _ SS2), A5, EQT. assert ((now s <? expiry_deadline c (now s))%Z = true) by lia.
      rewrite H. reflexivity. }
    rewrite CT. unfold lock_rec_of.
    cbn [l_cmd l_start l_eT set]. rewrite K2, K4, K5. reflexivity.
Qed.

(* ------------------------------------------------------------------ UNLOCK records, RemoveLock, FreeLock *)
Definition unlock_rec_of (l : lockrec) (lc : cmd) (uc : option cmd) (aofflag : N) (ctime : Z) (oref : option ref) : aofrec :=
  let st := (ctime - l_start l)%Z in
  mkAof false 0 (c_lockid lc) (c_key lc)
    (N.lor aofflag (N.lor (if has (c_tflag lc) TF_REQUIRE_ACKED then AOF_FLAG_REQUIRE_ACKED else 0)
             (N.lor (if has (c_tflag lc) TF_PRIORITY then AOF_FLAG_RCOUNT_IS_PRIORITY else 0) 0)))
    ctime (if (st <? 0)%Z || (65535 <=? st)%Z then 65535 else Z.to_N st)
    (c_eflag lc) (aof_expried_time lc (l_eT l) ctime)
    (match uc with Some u => c_count u | None => c_count lc end)
    (match uc with Some u => c_rcount u | None => 0 end) None oref.

Lemma push_unlock_aof_spec s k r l m lc uc isaof fl :
  aget (store s) r = Some l -> aget (mgrs s) k = Some m -> l_data l = None -> m_data m = None ->
  leader s = true -> (match uc with Some u => has (c_flag u) UNLOCK_FLAG_FROM_AOF | None => false end) = false ->
  exists s',
    push_unlock_aof s k r lc uc isaof fl =
      (s', [EAof (unlock_rec_of l lc uc fl (ctime_of s l) (if has (c_tflag lc) TF_REQUIRE_ACKED then Some r else None))]) /\
    eff s s' r k /\ aget (mgrs s') k = Some m /\ aget (store s') r = Some (l <| l_isaof := isaof |>).
Proof.
  intros Hr Hm Hd Hmd Hl Hf. unfold push_unlock_aof. rewrite Hl, Hf. cbn [negb].
  rewrite (getl_some _ _ _ Hr), (getm_some _ _ _ Hm), Hmd, Hd. cbn [aof_lock_data].
  set (s1 := updm s k (fun m0 => m0 <| m_data := None |>)).
  assert (M1 : aget (mgrs s1) k = Some m).
  { subst s1. rewrite (aget_updm_same _ _ _ _ Hm). rewrite mgr_data_none; auto. }
  assert (R1 : aget (store s1) r = Some l) by (subst s1; rewrite store_updm; exact Hr).
  set (s2 := updl s1 r (fun l0 => l0 <| l_data := None |>)).
  assert (R2 : aget (store s2) r = Some l).
  { subst s2. rewrite (aget_updl_same _ _ _ _ R1). rewrite lock_data_none; auto. }
  assert (M2 : aget (mgrs s2) k = Some m) by (subst s2; rewrite mgrs_updl; exact M1).
  assert (E2 : eff s s2 r k).
  { eapply eff_trans; [apply eff_updm|apply eff_updl]. }
  eexists. split.
  - unfold mk_aofrec. rewrite (getl_some _ _ _ R2).
    assert (N2 : now s2 = now s) by (apply (ss_now _ _ (ef_same _ _ _ _ E2))). rewrite N2.
    reflexivity.
  - split; [eapply eff_trans; [exact E2|apply eff_updl]|].
    split; [rewrite mgrs_updl; exact M2|].
    apply aget_updl_same. exact R2.
Qed.

Lemma push_unlock_aof_follower s k r lc uc isaof fl : leader s = false -> push_unlock_aof s k r lc uc isaof fl = (s, []).
Proof. intros H. unfold push_unlock_aof. rewrite H. reflexivity. Qed.

(* RemoveLock of the current (only) holder of a key without holder queue *)
Lemma remove_lock_cur s k r l m :
  aget (store s) r = Some l -> aget (mgrs s) k = Some m -> m_cur m = Some r -> m_locks m = None ->
  let s' := remove_lock s k r in
  eff s s' r k /\
  aget (store s') r = Some (l <| l_locked := 0 |> <| l_ack := 255 |> <| l_refc := dec8 (l_refc l) |>) /\
  aget (mgrs s') k = Some (m <| m_cur := None |>).
Proof.
  intros Hr Hm Hc Hq. unfold remove_lock.
  set (s1 := updl s r (fun l0 => l0 <| l_locked := 0 |> <| l_ack := 255 |>)).
  assert (R1 : aget (store s1) r = Some (l <| l_locked := 0 |> <| l_ack := 255 |>)) by (exact (aget_updl_same s r _ l Hr)).
  assert (M1 : aget (mgrs s1) k = Some m) by (subst s1; rewrite mgrs_updl; exact Hm).
  rewrite (getm_some _ _ _ M1), Hc, N.eqb_refl, Hq.
  set (s2 := updl s1 r (fun l0 => l0 <| l_refc := dec8 (l_refc l0) |>)).
  assert (R2 : aget (store s2) r = Some (l <| l_locked := 0 |> <| l_ack := 255 |> <| l_refc := dec8 (l_refc l) |>)).
  { subst s2. rewrite (aget_updl_same _ _ _ _ R1). reflexivity. }
  assert (M2 : aget (mgrs s2) k = Some m) by (subst s2; rewrite mgrs_updl; exact M1).
  cbv zeta. split; [|split].
  - eapply eff_trans; [apply eff_updl|]. eapply eff_trans; [apply eff_updl|apply eff_updm].
  - rewrite store_updm. exact R2.
  - apply aget_updm_same. exact M2.
Qed.

Lemma free_lock_spec s r l m :
  aget (store s) r = Some l -> aget (mgrs s) (l_key l) = Some m ->
  let s' := free_lock s r in
  aget (store s') r = None /\ (forall r', r' <> r -> aget (store s') r' = aget (store s) r') /\
  aget (mgrs s') (l_key l) = Some (m <| m_ref := dec32 (m_ref m) |>) /\
  (forall k', k' <> l_key l -> aget (mgrs s') k' = aget (mgrs s) k') /\
  (awf (store s) -> awf (store s')) /\ same_scalars s s' /\ next s' = next s.
Proof.
  intros Hr Hm. unfold free_lock. rewrite Hr. cbv zeta.
  split; [rewrite store_updm; cbn [store set]; apply aget_adel_same|].
  split. { intros r' H. rewrite store_updm. cbn [store set]. rewrite aget_adel_other; auto. }
  split. { rewrite aget_updm, N.eqb_refl. cbn [mgrs set]. rewrite Hm. reflexivity. }
  split. { intros k' H. rewrite aget_updm_other by congruence. reflexivity. }
  split. { intros W. rewrite store_updm. cbn [store set]. apply awf_adel. exact W. }
  split. { eapply same_trans; [|apply same_updm]. split; reflexivity. }
  rewrite next_updm. reflexivity.
Qed.

Lemma remove_mgr_spec s k :
  let s' := remove_mgr_if_unref s k in
  store s' = store s /\
  aget (mgrs s') k = match aget (mgrs s) k with Some m => if m_ref m =? 0 then None else Some m | None => None end /\
  (forall k', k' <> k -> aget (mgrs s') k' = aget (mgrs s) k') /\ same_scalars s s' /\ next s' = next s.
Proof.
  unfold remove_mgr_if_unref. destruct (aget (mgrs s) k) as [m|] eqn:E.
  - destruct (m_ref m =? 0).
    + cbn. split; [reflexivity|]. split; [apply aget_adel_same|]. split; [intros; apply aget_adel_other; auto|].
      split; [split; reflexivity|reflexivity].
    + cbv zeta. rewrite E. repeat split; auto.
  - cbv zeta. rewrite E. repeat split; auto.
Qed.

(* ------------------------------------------------------------------ the release core: optional UNLOCK record, RemoveLock *)
Definition emit_u (s : db) (uc : option cmd) : Prop :=
  leader s = false \/
  (leader s = true /\ (match uc with Some u => has (c_flag u) UNLOCK_FLAG_FROM_AOF | None => false end) = false).

Definition dead_of (l l' : lockrec) : Prop :=
  l_locked l' = 0 /\ l_ack l' = 255 /\ l_key l' = l_key l /\ l_cmd l' = l_cmd l /\ l_data l' = l_data l
  /\ l_expried l' = l_expried l /\ l_start l' = l_start l /\ l_eT l' = l_eT l.

Lemma unlock_core_spec s k r l m lc uc fl :
  aget (store s) r = Some l -> aget (mgrs s) k = Some m -> m_cur m = Some r -> m_locks m = None ->
  l_data l = None -> m_data m = None -> emit_u s uc ->
  exists s3 aev l4,
    (if l_isaof l then push_unlock_aof s k r lc uc false fl else (s, [])) = (s3, aev) /\
    eff s (remove_lock s3 k r) r k /\
    aget (store (remove_lock s3 k r)) r = Some l4 /\ dead_of l l4 /\
    aget (mgrs (remove_lock s3 k r)) k = Some (m <| m_cur := None |>) /\
    aev = (if l_isaof l && leader s
           then [EAof (unlock_rec_of l lc uc fl (ctime_of s l) (if has (c_tflag lc) TF_REQUIRE_ACKED then Some r else None))]
           else []).
Proof.
  intros Hr Hm Hc Hq Hd Hmd Hmode.
  assert (H3 : exists s3 aev l3,
     (if l_isaof l then push_unlock_aof s k r lc uc false fl else (s, [])) = (s3, aev) /\
     eff s s3 r k /\ aget (store s3) r = Some l3 /\ aget (mgrs s3) k = Some m /\
     (l3 = l \/ l3 = l <| l_isaof := false |>) /\
     aev = (if l_isaof l && leader s
           then [EAof (unlock_rec_of l lc uc fl (ctime_of s l) (if has (c_tflag lc) TF_REQUIRE_ACKED then Some r else None))]
           else [])).
  { destruct (l_isaof l) eqn:Ia.
    - destruct Hmode as [Hf|[Hl Hf]].
      + rewrite (push_unlock_aof_follower _ _ _ _ _ _ _ Hf), Hf. exists s, [], l. csplit; auto. apply eff_refl.
      + destruct (push_unlock_aof_spec s k r l m lc uc false fl Hr Hm Hd Hmd Hl Hf) as (s3 & P & E & M & R).
        rewrite P, Hl. exists s3. eexists. eexists. csplit; eauto.
    - exists s, [], l. csplit; auto. apply eff_refl. }
  destruct H3 as (s3 & aev & l3 & P3 & E3 & R3 & M3 & L3 & EV).
  destruct (remove_lock_cur s3 k r l3 m R3 M3 Hc Hq) as (E4 & R4 & M4).
  exists s3, aev. eexists. split; [exact P3|]. split; [eapply eff_trans; eauto|]. split; [exact R4|].
  split; [|split; [exact M4|exact EV]].
  destruct L3 as [-> | ->]; repeat split.
Qed.

(* ------------------------------------------------------------------ dropping a reference of a record (unref + RemoveLockManager) *)
Definition unref_rm (s : db) (r k : N) : db :=
  let s1 := unref s r in
  if match aget (store s1) r with None => true | Some _ => false end then remove_mgr_if_unref s1 k else s1.

Definition dropped (s' : db) (r k : N) (l : lockrec) (m : mgr) : Prop :=
  (exists l', aget (store s') r = Some l' /\ dead_of l l' /\ aget (mgrs s') k = Some m)
  \/ (aget (store s') r = None /\
      aget (mgrs s') k = if dec32 (m_ref m) =? 0 then None else Some (m <| m_ref := dec32 (m_ref m) |>)).

Lemma free_rm_spec s r k l m :
  aget (store s) r = Some l -> l_key l = k -> aget (mgrs s) k = Some m ->
  let s' := remove_mgr_if_unref (free_lock s r) k in
  eff s s' r k /\ aget (store s') r = None /\
  aget (mgrs s') k = if dec32 (m_ref m) =? 0 then None else Some (m <| m_ref := dec32 (m_ref m) |>).
Proof.
  intros Hr Hk Hm. subst k.
  destruct (free_lock_spec s r l m Hr Hm) as (F1 & F2 & F3 & F4 & F5 & F6 & F7).
  destruct (remove_mgr_spec (free_lock s r) (l_key l)) as (G1 & G2 & G3 & G4 & G5).
  cbv zeta in *. split; [|split].
  - split.
    + intros r' H. rewrite G1. apply F2. exact H.
    + intros k' H. rewrite G3 by exact H. apply F4. exact H.
    + intros W. rewrite G1. apply F5. exact W.
    + eapply same_trans; eauto.
    + congruence.
  - rewrite G1. exact F1.
  - rewrite G2, F3. cbn [m_ref set]. reflexivity.
Qed.

Lemma unref_rm_spec s r k l m :
  aget (store s) r = Some l -> l_key l = k -> aget (mgrs s) k = Some m -> l_locked l = 0 -> l_ack l = 255 ->
  eff s (unref_rm s r k) r k /\ dropped (unref_rm s r k) r k l m.
Proof.
  intros Hr Hk Hm Hz Ha. unfold unref_rm, unref. rewrite Hr. cbv zeta.
  set (l1 := l <| l_refc := dec8 (l_refc l) |>).
  assert (R1 : aget (store (setl s r l1)) r = Some l1) by (cbn [store setl set]; rewrite aget_aset, N.eqb_refl; reflexivity).
  assert (M1 : aget (mgrs (setl s r l1)) k = Some m) by exact Hm.
  assert (E1 : eff s (setl s r l1) r k).
  { split; auto.
    - intros r' H. cbn [store setl set]. rewrite aget_aset. destruct (r =? r') eqn:E; auto. apply N.eqb_eq in E. congruence.
    - intros W. cbn [store setl set]. apply awf_aset. exact W.
    - apply same_setl. }
  destruct (dec8 (l_refc l) =? 0).
  - destruct (free_rm_spec (setl s r l1) r k l1 m R1 Hk M1) as (E2 & R2 & M2). cbv zeta in *.
    assert (X : aget (store (free_lock (setl s r l1) r)) r = None).
    { destruct (free_lock_spec (setl s r l1) r l1 m R1) as (F1 & _); [subst k; exact M1|exact F1]. }
    rewrite X. split; [eapply eff_trans; eauto|]. right. split; assumption.
  - rewrite R1. split; [exact E1|]. left. exists l1. split; [exact R1|]. split; [|exact M1].
    subst l1. repeat split; assumption.
Qed.

(* ------------------------------------------------------------------ release of the only holder of a key *)
Definition mgr_released (m m1 : mgr) : Prop :=
  m_cur m1 = None /\ m_locked m1 = 0 /\ m_locks m1 = m_locks m /\ m_wait m1 = m_wait m /\ m_waited m1 = m_waited m
  /\ m_data m1 = m_data m /\ m_ref m1 = m_ref m.

Definition released (s s' : db) (r k : N) (l : lockrec) (m : mgr) : Prop :=
  eff s s' r k /\
  exists l1 m1, dead_of (l <| l_expried := true |>) l1 /\ mgr_released m m1 /\ dropped s' r k l1 m1.

Lemma dead_of_trans a b c : dead_of a b -> dead_of b c -> dead_of a c.
Proof. unfold dead_of. intuition congruence. Qed.

Lemma dead_of_self a b : dead_of a b -> dead_of b b.
Proof. unfold dead_of. intuition congruence. Qed.

Lemma remove_long_expried_spec s r t k l :
  aget (store s) r = Some l ->
  exists l', aget (store (remove_long_expried s r t)) r = Some l' /\ core_eq l l' /\ l_expried l' = l_expried l
             /\ l_isaof l' = l_isaof l /\ eff s (remove_long_expried s r t) r k
             /\ mgrs (remove_long_expried s r t) = mgrs s.
Proof.
  intros Hr. unfold remove_long_expried. destruct (aget (elong s) (lkey t)) as [q|].
  - eexists. split; [apply aget_updl_same; cbn [store set]; exact Hr|].
    split; [repeat split|]. split; [reflexivity|]. split; [reflexivity|].
    split; [eapply eff_trans; [apply eff_elong|apply eff_updl]|]. rewrite mgrs_updl. reflexivity.
  - eexists. split; [apply aget_updl_same; exact Hr|].
    split; [repeat split|]. split; [reflexivity|]. split; [reflexivity|].
    split; [apply eff_updl|]. rewrite mgrs_updl. reflexivity.
Qed.

Lemma eff_dropped_bump s' f r k l m : dropped s' r k l m -> dropped (bump f s') r k l m.
Proof. intros H. exact H. Qed.

Lemma release_hold_spec s k conn c r l m :
  aget (store s) r = Some l -> aget (mgrs s) k = Some m -> m_cur m = Some r -> m_locks m = None -> m_locked m = 0 ->
  l_data l = None -> m_data m = None -> l_key l = k -> has_udata_flag c = false -> emit_u s (Some c) ->
  exists s' ev,
    release_hold s k conn c r 1 = (s', ev) /\
    released s s' r k l m /\
    aofs_of ev = (if l_isaof l && leader s
                  then [unlock_rec_of l (l_cmd l) (Some c) 0 (ctime_of s l)
                          (if has (c_tflag (l_cmd l)) TF_REQUIRE_ACKED then Some r else None)]
                  else []).
Proof.
  intros Hr Hm Hc Hq Hz Hd Hmd Hk Hu Hmode. unfold release_hold.
  rewrite (getl_some _ _ _ Hr), Hu.
  set (s1 := updl s r (fun l0 => l0 <| l_expried := true |>)).
  set (l1 := l <| l_expried := true |>).
  assert (R1 : aget (store s1) r = Some l1) by (exact (aget_updl_same s r _ l Hr)).
  assert (E1 : eff s s1 r k) by apply eff_updl.
  assert (M1 : aget (mgrs s1) k = Some m) by (subst s1; rewrite mgrs_updl; exact Hm).
  assert (MR : mgr_released m (m <| m_cur := None |>)).
  { repeat split; cbn [m_cur m_locked m_locks m_wait m_waited m_data m_ref set]; auto. }
  assert (Hmode1 : forall s2, leader s2 = leader s -> emit_u s2 (Some c)).
  { intros s2 H. unfold emit_u in *. rewrite H. exact Hmode. }
  rewrite (getl_some _ _ _ R1).
  destruct (l_long l1).
  - destruct (remove_long_expried_spec s1 r (l_eT l1) k l1 R1) as (l2 & R2 & C2 & X2 & I2 & E2 & MM2).
    set (s2 := remove_long_expried s1 r (l_eT l1)) in *.
    assert (M2 : aget (mgrs s2) k = Some m) by (rewrite MM2; exact M1).
    destruct C2 as (K1 & K2 & K3 & K4 & K5 & K6 & K7 & K8).
    destruct (unlock_core_spec s2 k r l2 m (l_cmd l) (Some c) 0 R2 M2 Hc Hq) as (s3 & aev & l4 & P3 & E4 & R4 & D4 & M4 & EV).
    { rewrite K3. exact Hd. } { exact Hmd. }
    { apply Hmode1. rewrite (ss_leader _ _ (ef_same _ _ _ _ E2)), (ss_leader _ _ (ef_same _ _ _ _ E1)). reflexivity. }
    rewrite (getl_some _ _ _ R2). rewrite P3.
    set (s4 := remove_lock s3 k r) in *.
    assert (E04 : eff s s4 r k) by (eapply eff_trans; [exact E1|]; eapply eff_trans; eauto).
    assert (D04 : dead_of l1 l4).
    { destruct D4 as (D1 & D2 & D3 & D4 & D5 & D6 & D7 & D8). repeat split; congruence. }
    assert (EV' : aev = (if l_isaof l && leader s
                  then [EAof (unlock_rec_of l (l_cmd l) (Some c) 0 (ctime_of s l)
                          (if has (c_tflag (l_cmd l)) TF_REQUIRE_ACKED then Some r else None))]
                  else [])).
    { rewrite EV, I2. subst l1. cbn [l_isaof set].
      rewrite (ss_leader _ _ (ef_same _ _ _ _ E2)), (ss_leader _ _ (ef_same _ _ _ _ E1)).
      destruct (l_isaof l && leader s); [|reflexivity].
      unfold unlock_rec_of, ctime_of. rewrite K4, K5. cbn [l_start l_eT set].
      rewrite (ss_now _ _ (ef_same _ _ _ _ E2)), (ss_now _ _ (ef_same _ _ _ _ E1)). reflexivity. }
    rewrite (getl_some _ _ _ R4).
    destruct (l_refc l4 =? 0).
    + destruct (free_rm_spec s4 r k l4 (m <| m_cur := None |>) R4) as (E5 & R5 & M5).
      { destruct D4 as (_ & _ & D3 & _). rewrite D3, K1. exact Hk. } { exact M4. }
      cbv zeta in *. eexists. eexists. split; [reflexivity|]. split.
      * split; [eapply eff_trans; [exact E04|]; eapply eff_trans; [exact E5|apply eff_bump]|].
        exists l4, (m <| m_cur := None |>). split; [exact D04|]. split; [exact MR|]. right.
        cbn [store mgrs bump updc set]. split; [exact R5|exact M5].
      * rewrite !aofs_of_app, EV'. cbn [aofs_of flat_map app]. destruct (l_isaof l && leader s); reflexivity.
    + eexists. eexists. split; [reflexivity|]. split.
      * split; [eapply eff_trans; [exact E04|apply eff_bump]|].
        exists l4, (m <| m_cur := None |>). split; [exact D04|]. split; [exact MR|]. left.
        exists l4. cbn [store mgrs bump updc set]. split; [exact R4|]. split; [|exact M4]. exact (dead_of_self _ _ D04).
      * rewrite !aofs_of_app, EV'. cbn [aofs_of flat_map app]. destruct (l_isaof l && leader s); reflexivity.
  - destruct (unlock_core_spec s1 k r l1 m (l_cmd l) (Some c) 0 R1 M1 Hc Hq) as (s3 & aev & l4 & P3 & E4 & R4 & D4 & M4 & EV).
    { exact Hd. } { exact Hmd. } { apply Hmode1. rewrite (ss_leader _ _ (ef_same _ _ _ _ E1)). reflexivity. }
    rewrite P3. set (s4 := remove_lock s3 k r) in *.
    eexists. eexists. split; [reflexivity|]. split.
    + split; [eapply eff_trans; [exact E1|]; eapply eff_trans; [exact E4|apply eff_bump]|].
      exists l4, (m <| m_cur := None |>). split; [exact D4|]. split; [exact MR|]. left.
      exists l4. cbn [store mgrs bump updc set]. split; [exact R4|]. split; [|exact M4]. exact (dead_of_self _ _ D4).
    + rewrite !aofs_of_app, EV. subst l1. cbn [l_isaof set aofs_of flat_map app].
      rewrite (ss_leader _ _ (ef_same _ _ _ _ E1)).
      destruct (l_isaof l && leader s); [|reflexivity]. cbn [aofs_of flat_map app].
      unfold unlock_rec_of, ctime_of. cbn [l_start l_eT set]. rewrite (ss_now _ _ (ef_same _ _ _ _ E1)). reflexivity.
Qed.

(* ------------------------------------------------------------------ UnLock: path equations *)
Definition unlock_simple (c : cmd) : Prop :=
  has (c_flag c) UNLOCK_FLAG_FIRST = false /\ has (c_flag c) UNLOCK_FLAG_CANCEL_WAIT = false /\ has_udata_flag c = false.
Definition umode (s : db) (c : cmd) : Prop := negb (leader s) && negb (has (c_flag c) UNLOCK_FLAG_FROM_AOF) = false.

Definition unlock_err (s : db) : db := bump (fun n => n <| n_unlockerr := (n_unlockerr n + 1)%Z |>) s.

Lemma unlock_step_err s conn c :
  unlock_simple c -> umode s c ->
  (match aget (mgrs s) (c_key c) with
   | None => True
   | Some m => m_locked m = 0 \/
               (m_locks m = None /\ exists cur, m_cur m = Some cur /\ c_lockid (l_cmd (getl s cur)) <> c_lockid c)
   end) ->
  exists ev, unlock_step s conn c = (unlock_err s, ev, None) /\ aofs_of ev = [].
Proof.
  intros (U1 & U2 & U3) Hm H. unfold unlock_step, unlock_err. unfold umode in Hm.
  destruct (aget (mgrs s) (c_key c)) as [m|] eqn:E.
  - rewrite Hm. destruct H as [H|(Hq & cur & Hc & Hne)].
    + rewrite H. change (0 =? 0) with true. cbv iota. rewrite U2. eexists. split; reflexivity.
    + destruct (m_locked m =? 0); [rewrite U2; eexists; split; reflexivity|].
      unfold get_locked_lock. rewrite Hc, Hq.
      assert (X : (c_lockid (l_cmd (getl s cur)) =? c_lockid c) = false) by (apply N.eqb_neq; exact Hne).
      rewrite X, U1, U2. eexists. split; reflexivity.
  - eexists. split; reflexivity.
Qed.

Definition release_path (s : db) (conn : N) (c : cmd) (r : ref) : db * list event * option wake :=
  let k := c_key c in
  let s1 := updm s k (fun m => m <| m_locked := sub32 (m_locked m) 1 |>) in
  let '(s2, ev) := release_hold s1 k conn c r 1 in
  (s2, ev, Some (mkWake k (Some conn))).

Lemma unlock_step_release s conn c m r :
  umode s c -> aget (mgrs s) (c_key c) = Some m -> m_locked m = 1 -> m_cur m = Some r ->
  c_lockid (l_cmd (getl s r)) = c_lockid c -> l_ack (getl s r) = 255 -> l_locked (getl s r) = 1 ->
  unlock_step s conn c = release_path s conn c r.
Proof.
  intros Hm E Hl Hc Hid Ha Hd. unfold unlock_step, release_path, umode in *. rewrite E, Hm, Hl.
  change (1 =? 0) with false. cbv iota. unfold get_locked_lock. rewrite Hc, Hid, N.eqb_refl, Ha.
  change (negb (255 =? 255)) with false. cbv iota. rewrite Hd. change (1 <? 1) with false. cbv iota.
  reflexivity.
Qed.

(* the wake-up pass after a step on a key without waiters does nothing *)
Lemma finish_nowait s ev k conn :
  (match aget (mgrs s) k with Some m => m_waited m = false | None => True end) ->
  finish (s, ev, Some (mkWake k conn)) = (s, ev ++ []).
Proof.
  intros H. unfold finish. cbn [w_key]. unfold wake_fuel. cbn [run_wake]. unfold wake_iter. cbn [w_key].
  destruct (aget (mgrs s) k) as [m|]; [rewrite H|]; reflexivity.
Qed.

(* ------------------------------------------------------------------ Lock on a held key (exclusive request, no wait) *)
Definition refuse_state (s : db) (conn : N) (c : cmd) : db :=
  let k := c_key c in
  let '(s1, r) := new_lock s k conn c in
  remove_mgr_if_unref (free_lock s1 r) k.

Lemma lock_step_refused s conn c m cur :
  lock_simple c -> mode_ok s (c_flag c) -> c_count c = 0 ->
  aget (mgrs s) (c_key c) = Some m -> m_locked m = 1 -> m_cur m = Some cur -> m_locks m = None -> m_waited m = false ->
  c_lockid (l_cmd (getl s cur)) <> c_lockid c ->
  exists ev, lock_step s conn c = (refuse_state s conn c, ev, None) /\ aofs_of ev = [].
Proof.
  intros (Hl & Hf & Ht & Hto & Hms & Hd) Hm Hcnt E Hlk Hc Hq Hw Hne.
  unfold lock_step, refuse_state. cbv zeta.
  assert (F8 : has (c_flag c) LOCK_FLAG_CONCURRENT_CHECK = false) by (destruct Hf as [-> | ->]; reflexivity).
  assert (F1 : has (c_flag c) LOCK_FLAG_SHOW = false) by (destruct Hf as [-> | ->]; reflexivity).
  assert (F4 : negb (leader s) && negb (has (c_flag c) LOCK_FLAG_FROM_AOF) = false).
  { destruct Hm as [[-> ->] | [-> ->]]; reflexivity. }
  rewrite F8. cbn [andb]. rewrite E, F4, (getm_some _ _ _ E), Hlk.
  change (0 <? 1) with true. cbv iota. rewrite F1. cbn [andb]. cbv iota.
  unfold get_locked_lock. rewrite Hc, Hq.
  assert (X : (c_lockid (l_cmd (getl s cur)) =? c_lockid c) = false) by (apply N.eqb_neq; exact Hne).
  rewrite X, Hw. cbv iota beta.
  destruct (new_lock s (c_key c) conn c) as [s1 r] eqn:EN.
  pose proof (new_lock_getm _ _ _ _ _ _ EN) as GM. rewrite E in GM.
  assert (GL : c_count (l_cmd (getl s1 r)) = 0).
  { unfold new_lock in EN. injection EN as <- <-. unfold getl. rewrite store_updm. cbn [store set].
    rewrite aget_aset, N.eqb_refl. cbn [l_cmd]. exact Hcnt. }
  assert (DL : do_lock s1 (c_key c) r = false).
  { unfold do_lock. rewrite GM, GL. cbn [m_locked set]. rewrite Hlk. reflexivity. }
  rewrite DL, Hto. cbn [negb orb andb]. change (0 <? 0) with false. cbn [andb]. cbv iota.
  eexists. split; reflexivity.
Qed.

Lemma lock_step_same s conn c m cur :
  lock_simple c -> mode_ok s (c_flag c) -> c_rcount c = 0 ->
  aget (mgrs s) (c_key c) = Some m -> m_locked m = 1 -> m_cur m = Some cur ->
  c_lockid (l_cmd (getl s cur)) = c_lockid c -> l_ack (getl s cur) = 255 -> l_locked (getl s cur) = 1 ->
  exists ev, lock_step s conn c = (s, ev, None) /\ aofs_of ev = [].
Proof.
  intros (Hl & Hf & Ht & Hto & Hms & Hd) Hm Hrc E Hlk Hc Hid Ha Hdp.
  unfold lock_step. cbv zeta.
  assert (F8 : has (c_flag c) LOCK_FLAG_CONCURRENT_CHECK = false) by (destruct Hf as [-> | ->]; reflexivity).
  assert (F1 : has (c_flag c) LOCK_FLAG_SHOW = false) by (destruct Hf as [-> | ->]; reflexivity).
  assert (F2 : has (c_flag c) LOCK_FLAG_UPDATE = false) by (destruct Hf as [-> | ->]; reflexivity).
  assert (F4 : negb (leader s) && negb (has (c_flag c) LOCK_FLAG_FROM_AOF) = false).
  { destruct Hm as [[-> ->] | [-> ->]]; reflexivity. }
  rewrite F8. cbn [andb]. rewrite E, F4, (getm_some _ _ _ E), Hlk.
  change (0 <? 1) with true. cbv iota. rewrite F1. cbn [andb]. cbv iota.
  unfold get_locked_lock. rewrite Hc, Hid, N.eqb_refl, Ha. change (negb (255 =? 255)) with false. cbv iota.
  rewrite F2, Hdp, Hrc. change ((1 <? 255) && (1 <=? 0)) with false. cbn [andb]. cbv iota.
  eexists. split; reflexivity.
Qed.

(* create-and-free of a record on a key whose manager exists and is referenced: nothing changes (extensionally) *)
Lemma mgr_ext m m' :
  m_ref m = m_ref m' -> m_locked m = m_locked m' -> m_cur m = m_cur m' -> m_data m = m_data m' ->
  m_locks m = m_locks m' -> m_wait m = m_wait m' -> m_waited m = m_waited m' -> m = m'.
Proof. destruct m, m'; cbn; intros; subst; reflexivity. Qed.

Lemma dec_add32 x : x + 1 < 4294967296 -> dec32 (add32 x 1) = x.
Proof.
  intros H. unfold dec32, sub32, add32.
  rewrite (N.mod_small (x + 1)) by lia. change (1 mod 4294967296) with 1.
  replace (x + 1 + 4294967296 - 1) with (x + 1 * 4294967296) by lia. rewrite N.mod_add by lia. apply N.mod_small. lia.
Qed.

Lemma mgr_ref_restore m : m_ref m + 1 < 4294967296 ->
  m <| m_ref := add32 (m_ref m) 1 |> <| m_ref := dec32 (m_ref (m <| m_ref := add32 (m_ref m) 1 |>)) |> = m.
Proof.
  intros H. apply mgr_ext; cbn [m_ref m_locked m_cur m_data m_locks m_wait m_waited set]; auto. apply dec_add32, H.
Qed.

Lemma refuse_state_spec s conn c m :
  aget (mgrs s) (c_key c) = Some m -> aget (store s) (next s) = None -> m_ref m + 1 < 4294967296 -> m_ref m <> 0 ->
  let s' := refuse_state s conn c in
  (forall r, aget (store s') r = aget (store s) r) /\ (forall k, aget (mgrs s') k = aget (mgrs s) k) /\
  (awf (store s) -> awf (store s')) /\ same_scalars s s' /\ next s' = next s + 1.
Proof.
  intros Hm Hfresh Hb Hnz. unfold refuse_state, new_lock. cbv zeta.
  set (k := c_key c) in *. set (r := next s).
  match goal with |- context [aset (store s) r ?x] => set (l0 := x) end.
  set (s1 := updm (s <| store := aset (store s) r l0 |> <| next := r + 1 |>) k (fun m0 => m0 <| m_ref := add32 (m_ref m0) 1 |>)).
  set (m1 := m <| m_ref := add32 (m_ref m) 1 |>).
  assert (R1 : aget (store s1) r = Some l0).
  { subst s1. rewrite store_updm. cbn [store set]. rewrite aget_aset, N.eqb_refl. reflexivity. }
  assert (M1 : aget (mgrs s1) k = Some m1) by (subst s1; rewrite aget_updm, N.eqb_refl; cbn [mgrs set]; rewrite Hm; reflexivity).
  assert (K0 : l_key l0 = k) by reflexivity.
  destruct (free_rm_spec s1 r k l0 m1 R1 K0 M1) as (E & R2 & M2). cbv zeta in E, R2, M2.
  assert (Z : (dec32 (m_ref m1) =? 0) = false).
  { apply N.eqb_neq. subst m1. cbn [m_ref set]. rewrite (dec_add32 _ Hb). exact Hnz. }
  rewrite Z in M2. 
  assert (M2' : aget (mgrs (remove_mgr_if_unref (free_lock s1 r) k)) k = Some m).
  { rewrite M2. f_equal. subst m1. apply mgr_ext; cbn [m_ref m_locked m_cur m_data m_locks m_wait m_waited set]; auto.
    apply dec_add32, Hb. }
  clear M2. rename M2' into M2.
  csplit.
  - intros r'. destruct (N.eq_dec r' r) as [->|Hne]; [rewrite R2; symmetry; exact Hfresh|].
    rewrite (ef_l _ _ _ _ E) by exact Hne. subst s1. rewrite store_updm. cbn [store set]. rewrite aget_aset.
    destruct (r =? r') eqn:Q; [apply N.eqb_eq in Q; congruence|reflexivity].
  - intros k'. destruct (N.eq_dec k' k) as [->|Hne]; [rewrite M2; symmetry; exact Hm|].
    rewrite (ef_m _ _ _ _ E) by exact Hne. subst s1. rewrite aget_updm_other by congruence. reflexivity.
  - intros W. apply (ef_awf _ _ _ _ E). subst s1. rewrite store_updm. cbn [store set]. apply awf_aset. exact W.
  - eapply same_trans; [|apply (ef_same _ _ _ _ E)]. subst s1. eapply same_trans; [|apply same_updm]. split; reflexivity.
  - rewrite (ef_next _ _ _ _ E). subst s1. rewrite next_updm. reflexivity.
Qed.
