(* C07 - general simulation, part 5 (writer side): the invariant of the original run on the sub-language.
   WS s   : shape + leader + empty timeout structures + exact manager reference counts + per-record term facts
   WL s L : the ledger L (replay of the records written so far) lists exactly the persisted holds of s
   and their preservation by the effects of Restart/SimExec.v. *)
From Coq Require Import String ZifyN ZifyBool ZifyNat.
From Slock Require Import Engine.Types Engine.Queues Engine.Timers Engine.Engine Engine.Engine2 Restart.Recover
  Restart.RestartProofs Restart.SimBase Restart.SimExec Restart.SimInv.
Open Scope N_scope.

Definition B32 : N := 4294967296.

Lemma dec32_pos x : 1 <= x -> x < B32 -> dec32 x = x - 1.
Proof.
  unfold B32. intros H1 H2. unfold dec32, sub32. change (1 mod 4294967296) with 1.
  replace (x + 4294967296 - 1) with ((x - 1) + 1 * 4294967296) by lia. rewrite N.mod_add by lia. apply N.mod_small. lia.
Qed.
Lemma add32_small x : x + 1 < B32 -> add32 x 1 = x + 1.
Proof. unfold B32, add32. intros H. apply N.mod_small. exact H. Qed.

(* ------------------------------------------------------------------ exact reference counts of the key managers *)
Definition Cnt (s : db) : Prop :=
  (forall k m, aget (mgrs s) k = Some m -> N.to_nat (m_ref m) = key_cnt k (store s)) /\
  (forall r l, aget (store s) r = Some l -> aget (mgrs s) (l_key l) <> None).

Lemma cnt_ext s s' :
  awf (store s) -> awf (store s') -> Cnt s ->
  (forall r, aget (store s') r = aget (store s) r) -> (forall k, aget (mgrs s') k = aget (mgrs s) k) -> Cnt s'.
Proof.
  intros W W' [C1 C2] Hs Hm. split.
  - intros k m H. rewrite Hm in H. rewrite (key_cnt_ext k _ _ W W' Hs). apply C1. exact H.
  - intros r l H. rewrite Hs in H. rewrite Hm. apply (C2 r l H).
Qed.

(* record r replaced by a record of the same key; managers unchanged up to their reference count *)
Lemma cnt_core s s' r k l l' :
  awf (store s) -> Cnt s -> eff s s' r k ->
  aget (store s) r = Some l -> aget (store s') r = Some l' -> l_key l' = l_key l ->
  (forall m, aget (mgrs s) k = Some m -> exists m', aget (mgrs s') k = Some m' /\ m_ref m' = m_ref m) ->
  (forall m', aget (mgrs s') k = Some m' -> exists m, aget (mgrs s) k = Some m /\ m_ref m' = m_ref m) ->
  Cnt s'.
Proof.
  intros W [C1 C2] E Hr Hr' Hk Hm1 Hm2. pose proof (ef_awf _ _ _ _ E W) as W'.
  assert (KC : forall k0, key_cnt k0 (store s') = key_cnt k0 (store s)).
  { intros k0. pose proof (key_cnt_frame k0 _ _ r W W' (ef_l _ _ _ _ E)) as F. rewrite Hr, Hr' in F. cbn [oget] in F.
    unfold kind in F. rewrite Hk in F. lia. }
  split.
  - intros k0 m0 H0. rewrite KC. destruct (N.eq_dec k0 k) as [->|Hne].
    + destruct (Hm2 _ H0) as (m & Hm & Hrf). rewrite Hrf. apply C1. exact Hm.
    + rewrite (ef_m _ _ _ _ E) in H0 by exact Hne. apply C1. exact H0.
  - intros r0 l0 H0. destruct (N.eq_dec r0 r) as [->|Hne].
    + rewrite Hr' in H0. injection H0 as <-. rewrite Hk. pose proof (C2 r l Hr) as X.
      destruct (N.eq_dec (l_key l) k) as [Ek|Nk].
      * rewrite Ek in *. destruct (aget (mgrs s) k) as [m|] eqn:Em; [|congruence].
        destruct (Hm1 m eq_refl) as (m' & -> & _). discriminate.
      * rewrite (ef_m _ _ _ _ E) by exact Nk. exact X.
    + rewrite (ef_l _ _ _ _ E) in H0 by exact Hne. pose proof (C2 r0 l0 H0) as X.
      destruct (N.eq_dec (l_key l0) k) as [Ek|Nk].
      * rewrite Ek in *. destruct (aget (mgrs s) k) as [m|] eqn:Em; [|congruence].
        destruct (Hm1 m eq_refl) as (m' & -> & _). discriminate.
      * rewrite (ef_m _ _ _ _ E) by exact Nk. exact X.
Qed.

(* record r of key k loses a reference: it stays, or it is freed and the manager loses one reference / is removed *)
Lemma cnt_dropped s s' r k l m m1 :
  awf (store s) -> Cnt s -> eff s s' r k -> aget (store s) r = Some l -> l_key l = k ->
  aget (mgrs s) k = Some m -> m_ref m1 = m_ref m -> m_ref m < B32 ->
  ((exists l', aget (store s') r = Some l' /\ l_key l' = k /\ aget (mgrs s') k = Some m1) \/
   (aget (store s') r = None /\
    aget (mgrs s') k = if dec32 (m_ref m1) =? 0 then None else Some (m1 <| m_ref := dec32 (m_ref m1) |>))) ->
  Cnt s'.
Proof.
  intros W [C1 C2] E Hr Hk Hm Href Hb D. pose proof (ef_awf _ _ _ _ E W) as W'.
  pose proof (C1 k m Hm) as Cm. pose proof (key_cnt_pos k _ r l Hr Hk) as Pk.
  assert (KC : forall k0, (key_cnt k0 (store s') + kind k0 l = key_cnt k0 (store s) + oget (kind k0) (aget (store s') r))%nat).
  { intros k0. pose proof (key_cnt_frame k0 _ _ r W W' (ef_l _ _ _ _ E)) as F. rewrite Hr in F. exact F. }
  assert (Kk : kind k l = 1%nat) by (unfold kind; rewrite Hk, N.eqb_refl; reflexivity).
  assert (Kn : forall k0, k0 <> k -> kind k0 l = O).
  { intros k0 H. unfold kind. rewrite Hk. destruct (k =? k0) eqn:Q; [apply N.eqb_eq in Q; congruence|reflexivity]. }
  destruct D as [(l' & Hr' & Hk' & Hm')|(Hr' & Hm')].
  - (* stays *)
    apply (cnt_core s s' r k l l' W (conj C1 C2) E Hr Hr'); [congruence| |].
    + intros m0 H0. rewrite Hm in H0. injection H0 as <-. exists m1. split; assumption.
    + intros m0 H0. rewrite Hm' in H0. injection H0 as <-. exists m. split; assumption.
  - (* freed *)
    assert (Dec : dec32 (m_ref m1) = m_ref m - 1) by (rewrite Href; apply dec32_pos; lia).
    split.
    + intros k0 m0 H0. specialize (KC k0). rewrite Hr' in KC. cbn [oget] in KC.
      destruct (N.eq_dec k0 k) as [->|Hne].
      * rewrite Hm' in H0. destruct (dec32 (m_ref m1) =? 0); [discriminate|]. injection H0 as <-.
        cbn [m_ref set]. rewrite Dec. lia.
      * rewrite (ef_m _ _ _ _ E) in H0 by exact Hne. rewrite (Kn k0 Hne) in KC. rewrite (C1 k0 m0 H0). lia.
    + intros r0 l0 H0. destruct (N.eq_dec r0 r) as [->|Hne]; [congruence|].
      pose proof H0 as H0'. rewrite (ef_l _ _ _ _ E) in H0 by exact Hne. pose proof (C2 r0 l0 H0) as X.
      destruct (N.eq_dec (l_key l0) k) as [Ek|Nk].
      * rewrite Ek, Hm'. destruct (dec32 (m_ref m1) =? 0) eqn:Z; [|discriminate].
        exfalso. apply N.eqb_eq in Z. specialize (KC k). rewrite Hr', Kk in KC. cbn [oget] in KC.
        pose proof (key_cnt_pos k _ r0 l0 H0' Ek). lia.
      * rewrite (ef_m _ _ _ _ E) by exact Nk. exact X.
Qed.

(* a fresh record of key k with a new reference of the manager *)
Lemma cnt_grant s s' k l' m' :
  awf (store s) -> awf (store s') -> Cnt s -> aget (store s) (next s) = None ->
  aget (store s') (next s) = Some l' -> l_key l' = k ->
  (forall r', r' <> next s -> aget (store s') r' = aget (store s) r') ->
  (forall k', k' <> k -> aget (mgrs s') k' = aget (mgrs s) k') ->
  aget (mgrs s') k = Some m' -> m_ref m' = add32 (m_ref (getm s k)) 1 ->
  m_ref (getm s k) + 1 < B32 ->
  Cnt s'.
Proof.
  intros W W' [C1 C2] Hfresh Hr' Hk FR FM Hm' Href Hb.
  assert (KC : forall k0, (key_cnt k0 (store s') = key_cnt k0 (store s) + kind k0 l')%nat).
  { intros k0. pose proof (key_cnt_frame k0 _ _ (next s) W W' FR) as F. rewrite Hfresh, Hr' in F. cbn [oget] in F. lia. }
  assert (G : N.to_nat (m_ref (getm s k)) = key_cnt k (store s)).
  { unfold getm. destruct (aget (mgrs s) k) as [m|] eqn:Em; [apply (C1 k m Em)|].
    cbn. symmetry. apply key_cnt_zero; [|exact W]. intros r l H Ek. apply (C2 r l H). rewrite Ek. exact Em. }
  split.
  - intros k0 m0 H0. rewrite KC. destruct (N.eq_dec k0 k) as [->|Hne].
    + rewrite Hm' in H0. injection H0 as <-. rewrite Href, (add32_small _ Hb). unfold kind. rewrite Hk, N.eqb_refl. lia.
    + rewrite FM in H0 by exact Hne. unfold kind. rewrite Hk. destruct (k =? k0) eqn:Q; [apply N.eqb_eq in Q; congruence|].
      rewrite (C1 k0 m0 H0). lia.
  - intros r0 l0 H0. destruct (N.eq_dec r0 (next s)) as [->|Hne].
    + rewrite Hr' in H0. injection H0 as <-. rewrite Hk, Hm'. discriminate.
    + rewrite FR in H0 by exact Hne. destruct (N.eq_dec (l_key l0) k) as [Ek|Nk].
      * rewrite Ek, Hm'. discriminate.
      * rewrite FM by exact Nk. apply (C2 r0 l0 H0).
Qed.

Lemma key_cnt_two k st r1 l1 r2 l2 :
  awf st -> aget st r1 = Some l1 -> aget st r2 = Some l2 -> r1 <> r2 -> l_key l1 = k -> l_key l2 = k ->
  (2 <= key_cnt k st)%nat.
Proof.
  intros W H1 H2 Hne K1 K2. rewrite key_cnt_eq. pose proof (asum_adel (kind k) st r1 W) as A. rewrite H1 in A.
  cbn [oget] in A. assert (kind k l1 = 1%nat) by (unfold kind; rewrite K1, N.eqb_refl; reflexivity).
  assert (G : aget (adel st r1) r2 = Some l2) by (rewrite aget_adel_other; auto).
  pose proof (key_cnt_pos k _ r2 l2 G K2) as P. rewrite key_cnt_eq in P. lia.
Qed.

(* ------------------------------------------------------------------ the state part of the writer invariant *)
Definition wrec (s : db) (l : lockrec) : Prop :=
  c_flag (l_cmd l) = 0 /\ c_count (l_cmd l) = 0 /\ c_rcount (l_cmd l) = 0 /\ unit_seconds (c_eflag (l_cmd l))
  /\ 0 < c_expried (l_cmd l) <= 65534
  /\ (l_locked l = 1 -> (0 <= l_start l <= now s)%Z /\ l_eT l = (l_start l + Z.of_N (c_expried (l_cmd l)) + 1)%Z).

Record WS (s : db) : Prop := mkWS {
  ws_shape : Shape s;
  ws_leader : leader s = true;
  ws_tw : twheel s = [];
  ws_tl : tlong s = [];
  ws_check : (checkE s <= now s + 1)%Z;
  ws_now : (0 <= now s)%Z;
  ws_cnt : Cnt s;
  ws_rec : forall r l, aget (store s) r = Some l -> wrec s l }.

Lemma ws_ref_bound s k m : WS s -> aget (mgrs s) k = Some m -> m_ref m <= next s.
Proof.
  intros H Hm. destruct (ws_cnt _ H) as [C1 _]. pose proof (C1 k m Hm) as E.
  pose proof (key_cnt_le k (store s)) as L.
  pose proof (awf_length_bound (store s) (next s) (sh_awf _ (ws_shape _ H)) (sh_lt _ (ws_shape _ H))). lia.
Qed.

Lemma getm_ref_bound s k : WS s -> m_ref (getm s k) <= next s.
Proof.
  intros H. unfold getm. destruct (aget (mgrs s) k) as [m|] eqn:E; [apply (ws_ref_bound s k m H E)|cbn; lia].
Qed.

Lemma shape_ext2 s s' :
  Shape s -> awf (store s') -> (forall r, aget (store s') r = aget (store s) r) ->
  (forall k, aget (mgrs s') k = aget (mgrs s) k) -> next s <= next s' -> Shape s'.
Proof.
  intros H W Hs Hm Hn. split.
  - exact W.
  - intros r l Hr. rewrite Hs in Hr. pose proof (sh_lt _ H _ _ Hr). lia.
  - intros r l Hr. rewrite Hs in Hr. pose proof (sh_rec _ H _ _ Hr) as X. unfold rec_shape in *. rewrite Hm. exact X.
  - intros k m Hk. rewrite Hm in Hk. pose proof (sh_mgr _ H _ _ Hk) as X. unfold mgr_shape in *.
    destruct (m_cur m); [|exact X]. rewrite Hs. exact X.
Qed.

Lemma wrec_now s s' l : now s' = now s -> wrec s l -> wrec s' l.
Proof. intros E H. unfold wrec in *. rewrite E. exact H. Qed.

Lemma ws_scalars s s' :
  WS s -> same_scalars s s' -> Shape s' -> Cnt s' -> (forall r l, aget (store s') r = Some l -> wrec s l) -> WS s'.
Proof.
  intros H SS Hsh Hc Hr. split; auto.
  - rewrite (ss_leader _ _ SS). apply (ws_leader _ H).
  - rewrite (ss_twheel _ _ SS). apply (ws_tw _ H).
  - rewrite (ss_tlong _ _ SS). apply (ws_tl _ H).
  - rewrite (ss_checkE _ _ SS), (ss_now _ _ SS). apply (ws_check _ H).
  - rewrite (ss_now _ _ SS). apply (ws_now _ H).
  - intros r l H0. apply (wrec_now s s' l (ss_now _ _ SS)). apply (Hr r l H0).
Qed.

Lemma ws_ext s s' :
  WS s -> awf (store s') -> (forall r, aget (store s') r = aget (store s) r) ->
  (forall k, aget (mgrs s') k = aget (mgrs s) k) -> next s <= next s' -> same_scalars s s' -> WS s'.
Proof.
  intros H W Hs Hm Hn SS. apply (ws_scalars s s' H SS).
  - apply (shape_ext2 s s' (ws_shape _ H)); auto.
  - apply (cnt_ext s s'); auto. apply (sh_awf _ (ws_shape _ H)). apply (ws_cnt _ H).
  - intros r l Hr. rewrite Hs in Hr. apply (ws_rec _ H r l Hr).
Qed.

(* record r keeps its core fields and its expried flag; managers unchanged *)
Lemma shape_core s s' r k l l' :
  Shape s -> eff s s' r k -> aget (store s) r = Some l -> aget (store s') r = Some l' ->
  core_eq l l' -> l_expried l' = l_expried l -> aget (mgrs s') k = aget (mgrs s) k -> Shape s'.
Proof.
  intros H E Hr Hr' (K1 & K2 & K3 & K4 & K5 & K6 & K7 & K8) Hx Hmk.
  assert (MM : forall k0, aget (mgrs s') k0 = aget (mgrs s) k0).
  { intros k0. destruct (N.eq_dec k0 k) as [->|Hne]; [exact Hmk|apply (ef_m _ _ _ _ E); exact Hne]. }
  split.
  - apply (ef_awf _ _ _ _ E), (sh_awf _ H).
  - intros r0 l0 H0. rewrite (ef_next _ _ _ _ E). destruct (N.eq_dec r0 r) as [->|Hne].
    + apply (sh_lt _ H _ _ Hr).
    + rewrite (ef_l _ _ _ _ E) in H0 by exact Hne. apply (sh_lt _ H _ _ H0).
  - intros r0 l0 H0. destruct (N.eq_dec r0 r) as [->|Hne].
    + rewrite Hr' in H0. injection H0 as <-. pose proof (sh_rec _ H _ _ Hr) as X. unfold rec_shape in *.
      rewrite K1, K2, K3, K6, K7, Hx, MM. exact X.
    + rewrite (ef_l _ _ _ _ E) in H0 by exact Hne. pose proof (sh_rec _ H _ _ H0) as X. unfold rec_shape in *.
      rewrite MM. exact X.
  - intros k0 m0 H0. rewrite MM in H0. pose proof (sh_mgr _ H _ _ H0) as X. unfold mgr_shape in *.
    destruct (m_cur m0) as [rc|]; [|exact X]. destruct X as (X1 & X2 & X3 & X4 & lc & Hc & Hkc & Hlc). csplit; auto.
    destruct (N.eq_dec rc r) as [->|Hne].
    + rewrite Hr in Hc. injection Hc as <-. exists l'. csplit; auto; congruence.
    + exists lc. csplit; auto. rewrite (ef_l _ _ _ _ E); auto.
Qed.

Lemma ws_core s s' r k l l' :
  WS s -> eff s s' r k -> aget (store s) r = Some l -> aget (store s') r = Some l' ->
  core_eq l l' -> l_expried l' = l_expried l -> aget (mgrs s') k = aget (mgrs s) k -> WS s'.
Proof.
  intros H E Hr Hr' C Hx Hmk. pose proof C as (K1 & K2 & K3 & K4 & K5 & K6 & K7 & K8).
  apply (ws_scalars s s' H (ef_same _ _ _ _ E)).
  - apply (shape_core s s' r k l l'); auto. apply (ws_shape _ H).
  - apply (cnt_core s s' r k l l'); auto.
    + apply (sh_awf _ (ws_shape _ H)). + apply (ws_cnt _ H).
    + intros m Hm. exists m. rewrite Hmk. auto.
    + intros m' Hm'. exists m'. rewrite <- Hmk. auto.
  - intros r0 l0 H0. destruct (N.eq_dec r0 r) as [->|Hne].
    + rewrite Hr' in H0. injection H0 as <-. pose proof (ws_rec _ H r l Hr) as X. unfold wrec in *.
      rewrite K2, K4, K5, K6. exact X.
    + rewrite (ef_l _ _ _ _ E) in H0 by exact Hne. apply (ws_rec _ H r0 l0 H0).
Qed.

Lemma ws_dropped s s' r k l m :
  WS s -> next s < B32 -> aget (store s) r = Some l -> l_key l = k -> l_locked l = 0 -> aget (mgrs s) k = Some m ->
  eff s s' r k -> dropped s' r k l m -> WS s'.
Proof.
  intros H Hb Hr Hk Hz Hm E D.
  pose proof (ws_shape _ H) as Hsh. pose proof (sh_awf _ Hsh) as W. pose proof (ws_cnt _ H) as HC.
  pose proof (ws_ref_bound s k m H Hm) as Rb.
  assert (Rm : N.to_nat (m_ref m) = key_cnt k (store s)) by (apply (proj1 HC); exact Hm).
  apply (ws_scalars s s' H (ef_same _ _ _ _ E)).
  - apply (shape_dropped s s' r k l m); auto.
    intros Z. destruct (m_cur m) as [rc|] eqn:Ec; [|reflexivity]. exfalso.
    destruct (sh_mgr _ Hsh _ _ Hm) as (_ & _ & _ & B4). rewrite Ec in B4. destruct B4 as (_ & lc & Hc & Hkc & Hlc).
    assert (rc <> r) by (intros ->; rewrite Hr in Hc; injection Hc as <-; lia).
    pose proof (key_cnt_two k _ rc lc r l W Hc Hr H0 Hkc Hk).
    assert (1 <= m_ref m) by lia. rewrite dec32_pos in Z by lia. lia.
  - apply (cnt_dropped s s' r k l m m); auto; [lia|].
    destruct D as [(l' & R' & D' & M')|D]; [left|right; exact D].
    exists l'. csplit; auto. destruct D' as (_ & _ & D3 & _). congruence.
  - intros r0 l0 H0. destruct (N.eq_dec r0 r) as [->|Hne].
    + destruct D as [(l' & R' & D' & M')|(R' & _)]; [|congruence]. rewrite R' in H0. injection H0 as <-.
      destruct D' as (D1 & D2 & D3 & D4 & D5 & D6 & D7 & D8). pose proof (ws_rec _ H r l Hr) as X. unfold wrec in *.
      rewrite D4. destruct X as (X1 & X2 & X3 & X4 & (X5 & X6) & _). csplit; auto; intros; lia.
    + rewrite (ef_l _ _ _ _ E) in H0 by exact Hne. apply (ws_rec _ H r0 l0 H0).
Qed.

Lemma ws_released s s' r k l m :
  WS s -> next s < B32 -> aget (store s) r = Some l -> l_key l = k -> l_locked l = 1 -> aget (mgrs s) k = Some m ->
  released s s' r k l m -> WS s'.
Proof.
  intros H Hb Hr Hk Hl Hm REL. pose proof REL as (E & l1 & m1 & D1 & MR & D).
  pose proof (ws_shape _ H) as Hsh. pose proof (sh_awf _ Hsh) as W. pose proof (ws_cnt _ H) as HC.
  pose proof (ws_ref_bound s k m H Hm) as Rb.
  destruct D1 as (E1 & E2 & E3 & E4 & E5 & E6 & E7 & E8). cbn [l_key l_cmd l_data l_expried l_start l_eT set] in *.
  apply (ws_scalars s s' H (ef_same _ _ _ _ E)).
  - apply (shape_released s s' r k l m); auto.
  - apply (cnt_dropped s s' r k l m m1); auto; [apply MR|lia|].
    destruct D as [(l' & R' & D' & M')|D]; [left|right; exact D].
    exists l'. csplit; auto. destruct D' as (_ & _ & D3 & _). congruence.
  - intros r0 l0 H0. destruct (N.eq_dec r0 r) as [->|Hne].
    + destruct D as [(l' & R' & D' & M')|(R' & _)]; [|congruence]. rewrite R' in H0. injection H0 as <-.
      destruct D' as (D1 & D2 & D3 & D4 & D5 & D6 & D7 & D8). pose proof (ws_rec _ H r l Hr) as X. unfold wrec in *.
      rewrite D4, E4. destruct X as (X1 & X2 & X3 & X4 & (X5 & X6) & _). csplit; auto; intros; lia.
    + rewrite (ef_l _ _ _ _ E) in H0 by exact Hne. apply (ws_rec _ H r0 l0 H0).
Qed.

Lemma expiry_deadline_seconds c t : unit_seconds (c_eflag c) -> expiry_deadline c t = (t + Z.of_N (c_expried c) + 1)%Z.
Proof. intros (U1 & U2 & U3). unfold expiry_deadline. rewrite U1, U2, U3. reflexivity. Qed.

Lemma ws_grant s s' c l' m' :
  WS s -> next s + 1 < B32 -> lock_simple c -> key_free s (c_key c) ->
  c_flag c = 0 -> c_count c = 0 -> c_rcount c = 0 -> unit_seconds (c_eflag c) -> 0 < c_expried c <= 65534 ->
  aget (store s') (next s) = Some l' ->
  l_key l' = c_key c -> l_cmd l' = c -> l_data l' = None -> l_start l' = now s ->
  l_eT l' = expiry_deadline c (now s) -> l_locked l' = 1 -> l_ack l' = 255 -> l_expried l' = false ->
  (forall r', r' <> next s -> aget (store s') r' = aget (store s) r') ->
  (forall k', k' <> c_key c -> aget (mgrs s') k' = aget (mgrs s) k') ->
  (awf (store s) -> awf (store s')) -> same_scalars s s' -> next s' = next s + 1 ->
  aget (mgrs s') (c_key c) = Some m' -> m_cur m' = Some (next s) -> m_locked m' = 1 ->
  m_locks m' = m_locks (getm s (c_key c)) -> m_waited m' = false -> m_data m' = None ->
  m_ref m' = add32 (m_ref (getm s (c_key c))) 1 ->
  WS s'.
Proof.
  intros H Hb Hs Hkf F1 F2 F3 F4 F5 R L1 L2 L3 L4 L5 L6 L7 L8 FR FM W SS NX M M1 M2 M3 M5 M6 M7.
  pose proof (ws_shape _ H) as Hsh.
  apply (ws_scalars s s' H SS).
  - apply (shape_grant s s' c l' m'); auto.
  - apply (cnt_grant s s' (c_key c) l' m'); auto.
    + apply (sh_awf _ Hsh). + apply W, (sh_awf _ Hsh). + apply (ws_cnt _ H). + apply (shape_fresh s Hsh).
    + pose proof (getm_ref_bound s (c_key c) H). lia.
  - intros r0 l0 H0. destruct (N.eq_dec r0 (next s)) as [->|Hne].
    + rewrite R in H0. injection H0 as <-. unfold wrec. rewrite L2, L4, L5, (expiry_deadline_seconds c _ F4).
      pose proof (ws_now _ H). csplit; auto; try lia.
    + rewrite FR in H0 by exact Hne. apply (ws_rec _ H r0 l0 H0).
Qed.

(* ------------------------------------------------------------------ the ledger part *)
Definition rec_matches (e : aofrec) (l : lockrec) : Prop :=
  exists ct, e = lock_rec_of l ct None /\ (l_start l <= ct < l_eT l)%Z.

Definition pheld (s : db) (r : ref) (l : lockrec) : Prop :=
  aget (store s) r = Some l /\ l_locked l = 1 /\ l_isaof l = true.

Record WL (s : db) (L : ledger) : Prop := mkWL {
  wl_a : forall k e, aget L k = Some e -> exists r l, pheld s r l /\ l_key l = k /\ rec_matches e l;
  wl_b : forall r l, pheld s r l -> aget L (l_key l) <> None }.

Lemma rec_matches_core e l l' : core_eq l l' -> rec_matches e l -> rec_matches e l'.
Proof.
  intros C (ct & -> & Hct). exists ct. split; [symmetry; apply lock_rec_of_core; exact C|].
  destruct C as (K1 & K2 & K3 & K4 & K5 & _). rewrite K4, K5. exact Hct.
Qed.

(* the persisted holds and their matching records are carried over unchanged *)
Lemma wl_frame s s' L :
  WL s L ->
  (forall r l, pheld s r l -> exists l', pheld s' r l' /\ l_key l' = l_key l /\ forall e, rec_matches e l -> rec_matches e l') ->
  (forall r l', pheld s' r l' -> exists l, pheld s r l /\ l_key l = l_key l') ->
  WL s' L.
Proof.
  intros [A B] F G. split.
  - intros k e He. destruct (A k e He) as (r & l & P & Hk & Hm). destruct (F r l P) as (l' & P' & Hk' & Hm').
    exists r, l'. csplit; auto. congruence.
  - intros r l' P'. destruct (G r l' P') as (l & P & Hk). rewrite <- Hk. apply (B r l P).
Qed.

(* hold r of key k becomes persisted with LOCK record e *)
Lemma wl_add s s' L r l' e :
  WL s L -> pheld s' r l' -> rec_matches e l' -> a_key e = l_key l' -> a_lock e = true ->
  (forall r0 l0, r0 <> r -> pheld s r0 l0 -> exists l0', pheld s' r0 l0' /\ l_key l0' = l_key l0 /\ forall e, rec_matches e l0 -> rec_matches e l0') ->
  (forall r0 l0', r0 <> r -> pheld s' r0 l0' -> exists l0, pheld s r0 l0 /\ l_key l0 = l_key l0') ->
  (forall l, ~ pheld s r l) ->
  WL s' (lstep L e).
Proof.
  intros [A B] P' Hm Hk Hlk F G Hnot. unfold lstep. rewrite Hlk, Hk. split.
  - intros k e0. rewrite aget_aset. destruct (l_key l' =? k) eqn:E.
    + apply N.eqb_eq in E. intros Q. injection Q as <-. exists r, l'. auto.
    + intros He. destruct (A k e0 He) as (r0 & l0 & P0 & Hk0 & Hm0).
      assert (r0 <> r) by (intros ->; apply (Hnot l0 P0)).
      destruct (F r0 l0 H P0) as (l0' & P0' & Hk0' & Hm0'). exists r0, l0'. csplit; auto. congruence.
  - intros r0 l0' P0'. rewrite aget_aset. destruct (l_key l' =? l_key l0') eqn:E; [discriminate|].
    destruct (N.eq_dec r0 r) as [->|Hne].
    + destruct P' as (R1 & _). destruct P0' as (R2 & _). rewrite R1 in R2. injection R2 as <-. rewrite N.eqb_refl in E. discriminate.
    + destruct (G r0 l0' Hne P0') as (l0 & P0 & Hk0). rewrite <- Hk0. apply (B r0 l0 P0).
Qed.

(* persisted hold r of key k is released with UNLOCK record u *)
Lemma wl_del s s' L r l u :
  WL s L -> pheld s r l -> a_lock u = false -> a_key u = l_key l -> a_lockid u = c_lockid (l_cmd l) ->
  (forall r0 l0, r0 <> r -> pheld s r0 l0 -> l_key l0 <> l_key l) ->
  (forall r0 l0, r0 <> r -> pheld s r0 l0 -> exists l0', pheld s' r0 l0' /\ l_key l0' = l_key l0 /\ forall e, rec_matches e l0 -> rec_matches e l0') ->
  (forall r0 l0', pheld s' r0 l0' -> r0 <> r /\ exists l0, pheld s r0 l0 /\ l_key l0 = l_key l0') ->
  WL s' (lstep L u).
Proof.
  intros [A B] P Hlk Hk Hid Huniq F G.
  assert (HL : exists e, aget L (l_key l) = Some e /\ a_lockid e = a_lockid u).
  { destruct (aget L (l_key l)) as [e|] eqn:Ee; [|exfalso; apply (B r l P Ee)].
    exists e. split; [reflexivity|]. destruct (A _ _ Ee) as (r1 & l1 & P1 & Hk1 & (ct & -> & _)).
    assert (r1 = r). { destruct (N.eq_dec r1 r) as [|Hne]; auto. exfalso. apply (Huniq r1 l1 Hne P1 Hk1). }
    subst r1. destruct P as (R1 & _). destruct P1 as (R2 & _). rewrite R1 in R2. injection R2 as <-.
    unfold lock_rec_of. cbn [a_lockid]. congruence. }
  destruct HL as (e & He & Hide).
  unfold lstep. rewrite Hlk, Hk, He. apply N.eqb_eq in Hide. rewrite Hide. split.
  - intros k e0. rewrite aget_adel. destruct (l_key l =? k) eqn:E; [discriminate|]. intros He0.
    destruct (A k e0 He0) as (r0 & l0 & P0 & Hk0 & Hm0).
    assert (r0 <> r).
    { intros ->. destruct P as (R1 & _). destruct P0 as (R2 & _). rewrite R1 in R2. injection R2 as <-.
      apply N.eqb_neq in E. congruence. }
    destruct (F r0 l0 H P0) as (l0' & P0' & Hk0' & Hm0'). exists r0, l0'. csplit; auto. congruence.
  - intros r0 l0' P0'. destruct (G r0 l0' P0') as (Hne & l0 & P0 & Hk0).
    rewrite aget_adel. destruct (l_key l =? l_key l0') eqn:E.
    + exfalso. apply N.eqb_eq in E. apply (Huniq r0 l0 Hne P0). congruence.
    + rewrite <- Hk0. apply (B r0 l0 P0).
Qed.
