(* C07 - general simulation, part 5 (writer side): the invariant of the original run on the sub-language.
   WS s   : shape + leader + empty timeout structures + exact manager reference counts + per-record term facts
   WL s L : the ledger L (replay of the records written so far) lists exactly the persisted holds of s
   and their preservation by the effects of Restart/SimExec.v. *)
From Coq Require Import String ZifyN ZifyBool ZifyNat.
From Slock Require Import Engine.Types Engine.Queues Engine.Timers Engine.Engine Engine.Engine2 Restart.Recover
  Restart.RestartProofs Restart.SimBase Restart.SimExec Restart.SimInv.
Open Scope N_scope.

Definition B32 : N := 4294967296.

Lemma dec32_pos x : 1 <= x -> x < B32 -> dec32 x = x - 1.
Proof.
  unfold B32. intros H1 H2. unfold dec32, sub32. change (1 mod 4294967296) with 1.
  replace (x + 4294967296 - 1) with ((x - 1) + 1 * 4294967296) by lia. rewrite N.mod_add by lia. apply N.mod_small. lia.
Qed.
Lemma add32_small x : x + 1 < B32 -> add32 x 1 = x + 1.
Proof. unfold B32, add32. intros H. apply N.mod_small. exact H. Qed.

(* ------------------------------------------------------------------ exact reference counts of the key managers *)
Definition Cnt (s : db) : Prop :=
  (forall k m, aget (mgrs s) k = Some m -> N.to_nat (m_ref m) = key_cnt k (store s)) /\
  (forall r l, aget (store s) r = Some l -> aget (mgrs s) (l_key l) <> None).

Lemma cnt_ext s s' :
  awf (store s) -> awf (store s') -> Cnt s ->
  (forall r, aget (store s') r = aget (store s) r) -> (forall k, aget (mgrs s') k = aget (mgrs s) k) -> Cnt s'.
Proof.
  intros W W' [C1 C2] Hs Hm. split.
  - intros k m H. rewrite Hm in H. rewrite (key_cnt_ext k _ _ W W' Hs). apply C1. exact H.
  - intros r l H. rewrite Hs in H. rewrite Hm. apply (C2 r l H).
Qed.

(* record r replaced by a record of the same key; managers unchanged up to their reference count *)
Lemma cnt_core s s' r k l l' :
  awf (store s) -> Cnt s -> eff s s' r k ->
  aget (store s) r = Some l -> aget (store s') r = Some l' -> l_key l' = l_key l ->
  (forall m, aget (mgrs s) k = Some m -> exists m', aget (mgrs s') k = Some m' /\ m_ref m' = m_ref m) ->
  (forall m', aget (mgrs s') k = Some m' -> exists m, aget (mgrs s) k = Some m /\ m_ref m' = m_ref m) ->
  Cnt s'.
Proof.
  intros W [C1 C2] E Hr Hr' Hk Hm1 Hm2. pose proof (ef_awf _ _ _ _ E W) as W'.
  assert (KC : forall k0, key_cnt k0 (store s') = key_cnt k0 (store s)).
  { intros k0. pose proof (key_cnt_frame k0 _ _ r W W' (ef_l _ _ _ _ E)) as F. rewrite Hr, Hr' in F. cbn [oget] in F.
    unfold kind in F. rewrite Hk in F. lia. }
  split.
  - intros k0 m0 H0. rewrite KC. destruct (N.eq_dec k0 k) as [->|Hne].
    + destruct (Hm2 _ H0) as (m & Hm & Hrf). rewrite Hrf. apply C1. exact Hm.
    + rewrite (ef_m _ _ _ _ E) in H0 by exact Hne. apply C1. exact H0.
  - intros r0 l0 H0. destruct (N.eq_dec r0 r) as [->|Hne].
    + rewrite Hr' in H0. injection H0 as <-. rewrite Hk. pose proof (C2 r l Hr) as X.
      destruct (N.eq_dec (l_key l) k) as [Ek|Nk].
      * rewrite Ek in *. destruct (aget (mgrs s) k) as [m|] eqn:Em; [|congruence].
        destruct (Hm1 m eq_refl) as (m' & -> & _). discriminate.
      * rewrite (ef_m _ _ _ _ E) by exact Nk. exact X.
    + rewrite (ef_l _ _ _ _ E) in H0 by exact Hne. pose proof (C2 r0 l0 H0) as X.
      destruct (N.eq_dec (l_key l0) k) as [Ek|Nk].
      * rewrite Ek in *. destruct (aget (mgrs s) k) as [m|] eqn:Em; [|congruence].
        destruct (Hm1 m eq_refl) as (m' & -> & _). discriminate.
      * rewrite (ef_m _ _ _ _ E) by exact Nk. exact X.
Qed.

(* record r of key k loses a reference: it stays, or it is freed and the manager loses one reference / is removed *)
Lemma cnt_dropped s s' r k l m m1 :
  awf (store s) -> Cnt s -> eff s s' r k -> aget (store s) r = Some l -> l_key l = k ->
  aget (mgrs s) k = Some m -> m_ref m1 = m_ref m -> m_ref m < B32 ->
  ((exists l', aget (store s') r = Some l' /\ l_key l' = k /\ aget (mgrs s') k = Some m1) \/
   (aget (store s') r = None /\
    aget (mgrs s') k = if dec32 (m_ref m1) =? 0 then None else Some (m1 <| m_ref := dec32 (m_ref m1) |>))) ->
  Cnt s'.
Proof.
  intros W [C1 C2] E Hr Hk Hm Href Hb D. pose proof (ef_awf _ _ _ _ E W) as W'.
  pose proof (C1 k m Hm) as Cm. pose proof (key_cnt_pos k _ r l Hr Hk) as Pk.
  assert (KC : forall k0, (key_cnt k0 (store s') + kind k0 l = key_cnt k0 (store s) + oget (kind k0) (aget (store s') r))%nat).
  { intros k0. pose proof (key_cnt_frame k0 _ _ r W W' (ef_l _ _ _ _ E)) as F. rewrite Hr in F. exact F. }
  assert (Kk : kind k l = 1%nat) by (unfold kind; rewrite Hk, N.eqb_refl; reflexivity).
  assert (Kn : forall k0, k0 <> k -> kind k0 l = O).
  { intros k0 H. unfold kind. rewrite Hk. destruct (k =? k0) eqn:Q; [apply N.eqb_eq in Q; congruence|reflexivity]. }
  destruct D as [(l' & Hr' & Hk' & Hm')|(Hr' & Hm')].
  - (* stays *)
    apply (cnt_core s s' r k l l' W (conj C1 C2) E Hr Hr'); [congruence| |].
    + intros m0 H0. rewrite Hm in H0. injection H0 as <-. exists m1. split; assumption.
    + intros m0 H0. rewrite Hm' in H0. injection H0 as <-. exists m. split; assumption.
  - (* freed *)
    assert (Dec : dec32 (m_ref m1) = m_ref m - 1) by (rewrite Href; apply dec32_pos; lia).
    split.
    + intros k0 m0 H0. specialize (KC k0). rewrite Hr' in KC. cbn [oget] in KC.
      destruct (N.eq_dec k0 k) as [->|Hne].
      * rewrite Hm' in H0. destruct (dec32 (m_ref m1) =? 0); [discriminate|]. injection H0 as <-.
        cbn [m_ref set]. rewrite Dec. lia.
      * rewrite (ef_m _ _ _ _ E) in H0 by exact Hne. rewrite (Kn k0 Hne) in KC. rewrite (C1 k0 m0 H0). lia.
    + intros r0 l0 H0. destruct (N.eq_dec r0 r) as [->|Hne]; [congruence|].
      pose proof H0 as H0'. rewrite (ef_l _ _ _ _ E) in H0 by exact Hne. pose proof (C2 r0 l0 H0) as X.
      destruct (N.eq_dec (l_key l0) k) as [Ek|Nk].
      * rewrite Ek, Hm'. destruct (dec32 (m_ref m1) =? 0) eqn:Z; [|discriminate].
        exfalso. apply N.eqb_eq in Z. specialize (KC k). rewrite Hr', Kk in KC. cbn [oget] in KC.
        pose proof (key_cnt_pos k _ r0 l0 H0' Ek). lia.
      * rewrite (ef_m _ _ _ _ E) by exact Nk. exact X.
Qed.

(* a fresh record of key k with a new reference of the manager *)
Lemma cnt_grant s s' k l' m' :
  awf (store s) -> awf (store s') -> Cnt s -> aget (store s) (next s) = None ->
  aget (store s') (next s) = Some l' -> l_key l' = k ->
  (forall r', r' <> next s -> aget (store s') r' = aget (store s) r') ->
  (forall k', k' <> k -> aget (mgrs s') k' = aget (mgrs s) k') ->
  aget (mgrs s') k = Some m' -> m_ref m' = add32 (m_ref (getm s k)) 1 ->
  m_ref (getm s k) + 1 < B32 ->
  Cnt s'.
Proof.
  intros W W' [C1 C2] Hfresh Hr' Hk FR FM Hm' Href Hb.
  assert (KC : forall k0, (key_cnt k0 (store s') = key_cnt k0 (store s) + kind k0 l')%nat).
  { intros k0. pose proof (key_cnt_frame k0 _ _ (next s) W W' FR) as F. rewrite Hfresh, Hr' in F. cbn [oget] in F. lia. }
  assert (G : N.to_nat (m_ref (getm s k)) = key_cnt k (store s)).
  { unfold getm. destruct (aget (mgrs s) k) as [m|] eqn:Em; [apply (C1 k m Em)|].
    cbn. symmetry. apply key_cnt_zero; [|exact W]. intros r l H Ek. apply (C2 r l H). rewrite Ek. exact Em. }
  split.
  - intros k0 m0 H0. rewrite KC. destruct (N.eq_dec k0 k) as [->|Hne].
    + rewrite Hm' in H0. injection H0 as <-. rewrite Href, (add32_small _ Hb). unfold kind. rewrite Hk, N.eqb_refl. lia.
    + rewrite FM in H0 by exact Hne. unfold kind. rewrite Hk. destruct (k =? k0) eqn:Q; [apply N.eqb_eq in Q; congruence|].
      rewrite (C1 k0 m0 H0). lia.
  - intros r0 l0 H0. destruct (N.eq_dec r0 (next s)) as [->|Hne].
    + rewrite Hr' in H0. injection H0 as <-. rewrite Hk, Hm'. discriminate.
    + rewrite FR in H0 by exact Hne. destruct (N.eq_dec (l_key l0) k) as [Ek|Nk].
      * rewrite Ek, Hm'. discriminate.
      * rewrite FM by exact Nk. apply (C2 r0 l0 H0).
Qed.
