(* C07 - general simulation, part 6: pure facts about record streams.
   `wb L recs`: the stream is well bracketed w.r.t. the ledger (a LOCK record arrives on a key without entry; an UNLOCK
   record closes the entry of its key, same LockId, same absolute deadline unless written at / after the deadline).
   A well-bracketed stream of seconds-unit records written before the restart satisfies the replay discipline of the
   reader side, and the filtered ledger is the unfiltered ledger restricted to the entries whose deadline lies after
   the restart (LoadAofFile drops a LOCK record and the UNLOCK record of the same hold together). *)
From Coq Require Import String ZifyN ZifyBool ZifyNat.
From Slock Require Import Engine.Types Engine.Queues Engine.Timers Engine.Engine Engine.Engine2 Restart.Recover
  Restart.RestartProofs Restart.SimBase Restart.SimExec Restart.SimInv Restart.SimReader.
Open Scope N_scope.

Definition lock_wf (r : aofrec) : Prop :=
  lock_rec_plain r /\ unit_seconds (a_eflag r) /\ 0 < a_etime r < 65536.
Definition unlock_wf (e r : aofrec) : Prop :=
  unlock_rec_plain r /\ unit_seconds (a_eflag r) /\ a_etime r < 65536 /\
  (0 < a_etime r -> (a_ctime r + Z.of_N (a_etime r) = a_ctime e + Z.of_N (a_etime e))%Z).

Definition wb_rec (L : ledger) (r : aofrec) : Prop :=
  if a_lock r then aget L (a_key r) = None /\ lock_wf r
  else exists e, aget L (a_key r) = Some e /\ a_lockid e = a_lockid r /\ unlock_wf e r.

Fixpoint wb (L : ledger) (recs : list aofrec) : Prop :=
  match recs with
  | [] => True
  | r :: rest => wb_rec L r /\ wb (lstep L r) rest
  end.

Lemma wb_app a : forall L b, wb L (a ++ b) <-> wb L a /\ wb (fold_left lstep a L) b.
Proof.
  induction a as [|r a IH]; intros L b; cbn [app wb fold_left]; [tauto|]. rewrite IH. tauto.
Qed.

(* expiry filter and remaining term of a seconds-unit record *)
Lemma load_skip_seconds r wall : unit_seconds (a_eflag r) ->
  load_skip r wall = (0 <? a_etime r) && (a_ctime r + Z.of_N (a_etime r) <=? wall)%Z.
Proof. intros (U1 & U2 & U3). unfold load_skip. rewrite U1, U2, U3. reflexivity. Qed.

Lemma remaining_seconds r dbnow :
  unit_seconds (a_eflag r) -> 0 < a_etime r < 65536 -> (a_ctime r <= dbnow)%Z -> (dbnow < a_ctime r + Z.of_N (a_etime r))%Z ->
  Z.of_N (cmd_expried_time r dbnow) = (a_ctime r + Z.of_N (a_etime r) - dbnow)%Z.
Proof.
  intros (U1 & U2 & U3) He Hc Hd. unfold cmd_expried_time, cmd_expried_time_fx. rewrite U1, U2, U3.
  assert (E1 : (0 <? a_etime r) = true) by lia. rewrite E1.
  assert (E2 : (0 <=? dbnow - a_ctime r)%Z = true) by lia. rewrite E2.
  assert (E3 : Z.to_N (dbnow - a_ctime r) mod 65536 = Z.to_N (dbnow - a_ctime r)) by (apply N.mod_small; lia). rewrite E3.
  assert (E4 : (Z.to_N (dbnow - a_ctime r) <? a_etime r) = true) by lia. rewrite E4. lia.
Qed.

Lemma rearm_seconds r dbnow : lock_rec_plain r -> unit_seconds (a_eflag r) ->
  rearm_deadline r dbnow = (dbnow + Z.of_N (cmd_expried_time r dbnow) + 1)%Z.
Proof.
  intros Hp (U1 & U2 & U3). unfold rearm_deadline. rewrite (load_cmd_lock r dbnow Hp). unfold expiry_deadline.
  cbn [c_eflag c_expried]. rewrite U1, U2, U3. reflexivity.
Qed.

(* ledger entries: LOCK records written before T *)
Definition Lwf (T : Z) (L : ledger) : Prop := forall k e, aget L k = Some e -> lock_wf e /\ (a_ctime e <= T)%Z.

Definition live_of (wall : Z) (o : option aofrec) : option aofrec :=
  match o with Some e => if load_skip e wall then None else Some e | None => None end.

Lemma wb_replay T wall dbnow recs :
  (T <= dbnow)%Z -> (dbnow <= wall)%Z ->
  forall L Lf,
    Lwf T L -> (forall k, aget Lf k = live_of wall (aget L k)) ->
    wb L recs -> Forall (fun r => (a_ctime r <= T)%Z) recs ->
    replay_ok wall dbnow Lf recs /\
    Lwf T (fold_left lstep recs L) /\
    (forall k, aget (fold_left (lstep_f wall) recs Lf) k = live_of wall (aget (fold_left lstep recs L) k)).
Proof.
  intros HT HW. induction recs as [|r recs IH]; intros L Lf HL HF Hwb Hct; cbn [fold_left replay_ok]; [auto|].
  cbn [wb] in Hwb. destruct Hwb as [Hr Hwb]. inversion Hct as [|? ? Hc Hct']; subst.
  assert (Step : (if load_skip r wall then True
                  else if a_lock r
                       then lock_rec_plain r /\ aget Lf (a_key r) = None /\ 0 < cmd_expried_time r dbnow
                            /\ (dbnow < rearm_deadline r dbnow)%Z
                       else unlock_rec_plain r) /\
                 Lwf T (lstep L r) /\ (forall k, aget (lstep_f wall Lf r) k = live_of wall (aget (lstep L r) k))).
  { unfold wb_rec in Hr. unfold lstep_f, lstep. destruct (a_lock r) eqn:El.
    - destruct Hr as (Hn & Hp & Hu & He).
      assert (HL' : Lwf T (aset L (a_key r) r)).
      { intros k e. rewrite aget_aset. destruct (a_key r =? k); [|apply HL].
        intros Q. injection Q as <-. split; [exact (conj Hp (conj Hu He))|exact Hc]. }
      rewrite (load_skip_seconds r wall Hu).
      destruct ((0 <? a_etime r) && (a_ctime r + Z.of_N (a_etime r) <=? wall)%Z) eqn:Sk.
      + split; [exact I|]. split; [exact HL'|]. intros k. rewrite aget_aset, HF. destruct (a_key r =? k) eqn:E; [|reflexivity].
        apply N.eqb_eq in E; subst k. rewrite Hn. cbn [live_of]. rewrite (load_skip_seconds r wall Hu), Sk. reflexivity.
      + assert (Hd : (dbnow < a_ctime r + Z.of_N (a_etime r))%Z) by lia.
        pose proof (remaining_seconds r dbnow Hu He ltac:(lia) Hd) as Rm.
        split; [|split; [exact HL'|]].
        * split; [exact Hp|]. split; [rewrite HF, Hn; reflexivity|]. split; [lia|].
          rewrite (rearm_seconds r dbnow Hp Hu). lia.
        * intros k. rewrite !aget_aset. destruct (a_key r =? k) eqn:E; [|apply HF].
          cbn [live_of]. rewrite (load_skip_seconds r wall Hu), Sk. reflexivity.
    - destruct Hr as (e & He & Hid & Hp & Hu & Hb & Hsum). rewrite He. apply N.eqb_eq in Hid. rewrite Hid.
      destruct (HL _ _ He) as ((Hpe & Hue & Hee) & Hce).
      assert (HL' : Lwf T (adel L (a_key r))).
      { intros k e0. rewrite aget_adel. destruct (a_key r =? k); [discriminate|apply HL]. }
      rewrite (load_skip_seconds r wall Hu).
      destruct ((0 <? a_etime r) && (a_ctime r + Z.of_N (a_etime r) <=? wall)%Z) eqn:Sk.
      + split; [exact I|]. split; [exact HL'|]. intros k. rewrite aget_adel, HF. destruct (a_key r =? k) eqn:E; [|reflexivity].
        apply N.eqb_eq in E; subst k. rewrite He. cbn [live_of]. rewrite (load_skip_seconds e wall Hue).
        assert (X : (0 <? a_etime e) && (a_ctime e + Z.of_N (a_etime e) <=? wall)%Z = true).
        { apply andb_prop in Sk. destruct Sk as [S1 S2]. specialize (Hsum ltac:(lia)). apply andb_true_intro. split; lia. }
        rewrite X. reflexivity.
      + split; [exact Hp|]. split; [exact HL'|]. intros k.
        pose proof (HF (a_key r)) as HFk. rewrite He in HFk. cbn [live_of] in HFk.
        destruct (load_skip e wall) eqn:Se.
        * rewrite HFk. rewrite aget_adel, HF. destruct (a_key r =? k) eqn:E; [|reflexivity].
          apply N.eqb_eq in E; subst k. rewrite He. cbn [live_of]. rewrite Se. reflexivity.
        * rewrite HFk, Hid. rewrite !aget_adel, HF. destruct (a_key r =? k); reflexivity. }
  destruct Step as (S1 & S2 & S3).
  destruct (IH (lstep L r) (lstep_f wall Lf r) S2 S3 Hwb Hct') as (I1 & I2 & I3).
  split; [split; assumption|]. split; assumption.
Qed.

Lemma Lwf_nil T : Lwf T []. Proof. intros k e H. discriminate. Qed.

Corollary wb_replay_nil T wall dbnow recs :
  (T <= dbnow)%Z -> (dbnow <= wall)%Z -> wb [] recs -> Forall (fun r => (a_ctime r <= T)%Z) recs ->
  replay_ok wall dbnow [] recs /\
  (forall k, aget (ledger_at wall recs) k = live_of wall (aget (ledger_of recs) k)).
Proof.
  intros HT HW Hwb Hct.
  destruct (wb_replay T wall dbnow recs HT HW [] [] (Lwf_nil T) (fun k => eq_refl) Hwb Hct) as (A & _ & C).
  split; assumption.
Qed.
