(* C07 - restart model.  A stopped leader is started again on its data directory: LoadAndInit reads the persisted
   record stream (server/aof.go:1199-1264), LoadAofFile drops the records whose term has already run out against the
   WALL clock (aof.go:1478-1536), AofChannel.HandleLoad turns every remaining record into a lock / unlock command
   (aof.go:994-1030) whose Expried is the remaining lifetime computed by GetLockCommandExpriedTime against the DB clock
   (aof.go:2176-2207), and feeds it to LockDB.Lock / UnLock with the FROM_AOF flag - here: to the engine model
   `step (AReq ...)` of coq/Engine on a fresh database.

   Input of the model = the `EAof` events of a run of the engine model, in order (AofChannel = order-preserving
   channel; file layer / rotation / compaction = identity on the record list: properties C08 and C16). *)
From Coq Require Import String.
From Slock Require Import Engine.Types Engine.Queues Engine.Timers Engine.Engine Engine.Engine2.
From Slock Require Export Restart.FixFlags.
Open Scope N_scope.

(* ------------------------------------------------------------------ the persisted stream of a run *)
Definition aofs_of (evs : list event) : list aofrec :=
  flat_map (fun e => match e with EAof r => [r] | _ => [] end) evs.

Definition records_of (tr : list (list event)) : list aofrec := flat_map aofs_of tr.

(* ------------------------------------------------------------------ (a) LoadAofFile: expiry filter, wall clock.
   Applies to every record type (the Go code does not look at CommandType). *)
Definition load_skip (r : aofrec) (wall : Z) : bool :=
  if has (a_eflag r) EF_MILLISECOND then (a_ctime r + Z.of_N (a_etime r / 1000) <=? wall)%Z
  else if has (a_eflag r) EF_MINUTE then (a_ctime r + Z.of_N (a_etime r) * 60 <=? wall)%Z
  else if negb (has (a_eflag r) EF_UNLIMITED) then
    (0 <? a_etime r) && (a_ctime r + Z.of_N (a_etime r) <=? wall)%Z
  else false.

(* ------------------------------------------------------------------ Aof.GetLockCommandExpriedTime (db clock) *)
Definition elapsed_minutes (e : Z) : Z :=
  let m := (e / 60)%Z in if (e <? 60)%Z || negb (e mod 60 =? 0)%Z then (m + 1)%Z else m.

(* `fix_ms`: source switch (Restart/FixFlags.v, derived from the text of server/aof.go by checks/C07.py):
   false = the millisecond unit returns ExpriedTime unchanged (pinned tree); true = proposed_fixes/c07_ms_remaining.diff *)
Definition cmd_expried_time_fx (fix_ms : bool) (r : aofrec) (dbnow : Z) : N :=
  if has (a_eflag r) EF_UNLIMITED then a_etime r
  else if has (a_eflag r) EF_MILLISECOND then
    if fix_ms then
      let e := (dbnow - a_ctime r)%Z in
      if (0 <=? e)%Z then
        let e := if a_start r =? 65535 then e else (e + Z.of_N (a_start r))%Z in
        if (e * 1000 <? Z.of_N (a_etime r))%Z then a_etime r - Z.to_N (e * 1000) mod 65536 else 0
      else a_etime r
    else a_etime r
  else if has (a_eflag r) EF_MINUTE then
    let e := (dbnow - a_ctime r)%Z in
    if (0 <=? e)%Z then
      let m16 := Z.to_N (elapsed_minutes e) mod 65536 in
      if m16 <? a_etime r then a_etime r - m16 else 0
    else a_etime r
  else if 0 <? a_etime r then
    let e := (dbnow - a_ctime r)%Z in
    if (0 <=? e)%Z then
      let e16 := Z.to_N e mod 65536 in
      if e16 <? a_etime r then a_etime r - e16 else 0
    else a_etime r
  else a_etime r.

Definition cmd_expried_time : aofrec -> Z -> N := cmd_expried_time_fx fix_ms_remaining.

(* ------------------------------------------------------------------ (b) AofChannel.HandleLoad: the command *)
Definition load_cmd (r : aofrec) (dbnow : Z) : cmd :=
  let tf := N.lor (if has (a_aofflag r) AOF_FLAG_REQUIRE_ACKED then TF_REQUIRE_ACKED else 0)
                  (if has (a_aofflag r) AOF_FLAG_RCOUNT_IS_PRIORITY then TF_PRIORITY else 0) in
  let fl := N.lor (N.lor (a_flag r) LOCK_FLAG_FROM_AOF)
                  (if has (a_aofflag r) AOF_FLAG_CONTAINS_DATA then LOCK_FLAG_CONTAINS_DATA else 0) in
  mkCmd (a_lock r) 0 fl (a_lockid r) (a_key r) tf 0 (a_eflag r) (cmd_expried_time r dbnow) (a_count r) (a_rcount r)
        (if has (a_aofflag r) AOF_FLAG_CONTAINS_DATA then a_data r else None).

Definition LOAD_CONN : N := 0.

Definition load_rec (wall : Z) (s : db) (r : aofrec) : db :=
  if load_skip r wall then s else fst (step s (AReq LOAD_CONN (load_cmd r (now s)))).

(* while the records are replayed the node is in STATE_INIT (not leader); updateState(STATE_LEADER) follows *)
Definition load_db (dbnow : Z) (aoft : N) : db := init_db dbnow aoft <| leader := false |>.

Definition recover_at (aoft : N) (recs : list aofrec) (wall dbnow : Z) : db :=
  fold_left (load_rec wall) recs (load_db dbnow aoft) <| leader := true |>.

(* restart at time now' (wall clock and fresh DB clock agree; default Config.DBLockAofTime = 1) *)
Definition recover (recs : list aofrec) (now' : Z) : db := recover_at 1 recs now' now'.

(* ------------------------------------------------------------------ census of holds *)
Record hold := mkHold {
  h_key : N; h_lockid : N; h_depth : N; h_count : N; h_rcount : N; h_deadline : Z; h_value : option bytes;
  h_isaof : bool; h_start : Z; h_eflag : N; h_aoftime : N
}.

Definition hold_of (s : db) (l : lockrec) : hold :=
  mkHold (l_key l) (c_lockid (l_cmd l)) (l_locked l) (c_count (l_cmd l)) (c_rcount (l_cmd l)) (l_eT l)
         (data_of s (l_key l)) (l_isaof l) (l_start l) (c_eflag (l_cmd l)) (l_aoftime l).

Definition hold_leb (a b : hold) : bool :=
  (h_key a <? h_key b) || ((h_key a =? h_key b) && (h_lockid a <=? h_lockid b)).

Fixpoint hinsert (h : hold) (l : list hold) : list hold :=
  match l with
  | [] => [h]
  | x :: r => if hold_leb h x then h :: l else x :: hinsert h r
  end.
Definition hsort (l : list hold) : list hold := fold_right hinsert [] l.

(* every lock record with a positive depth is a hold (waiters and released records have depth 0) *)
Definition raw_holds (s : db) : list hold :=
  flat_map (fun '(_, l) => if 0 <? l_locked l then [hold_of s l] else []) (store s).

Definition holds_full (s : db) : list hold := hsort (raw_holds s).

Definition holds_of (s : db) : list (N * N * N * N * N * Z * option bytes) :=
  map (fun h => (h_key h, h_lockid h, h_depth h, h_count h, h_rcount h, h_deadline h, h_value h)) (holds_full s).

(* ------------------------------------------------------------------ the whole pipeline for one database *)
Definition run_and_recover (t0 : Z) (aoft : N) (acts : list action) (wall dbnow : Z) : db * list aofrec * db :=
  let '(s, tr) := run (init_db t0 aoft) acts in
  let recs := records_of tr in
  (s, recs, recover_at aoft recs wall dbnow).

(* ------------------------------------------------------------------ two restarts on one data directory:
   run 1 (acts1) on a fresh leader -> stop -> restart at (wall1, dbnow1) -> run 2 (acts2) on the restarted leader ->
   stop -> second restart at (wall2, dbnow2).  The log is append-only across the restart: the records of run 2 follow
   the records of run 1 (LoadAndInit reads them, nothing is rewritten; compaction = identity, property C16).
   The holds restored by the first restart keep the replayed command (Flag has LOCK_FLAG_FROM_AOF): whether their
   release in run 2 is written to the log is decided by LockManager.PushUnLockAof on the UNLOCK command's flag
   (Engine/Timers.push_unlock_aof), not on the hold's. *)
Definition two_restarts (t0 : Z) (aoft : N) (acts1 : list action) (wall1 dbnow1 : Z) (acts2 : list action) (wall2 dbnow2 : Z)
  : db * db * db * list aofrec * db :=
  let '(s, tr1) := run (init_db t0 aoft) acts1 in
  let recs1 := records_of tr1 in
  let s1 := recover_at aoft recs1 wall1 dbnow1 in
  let '(s2, tr2) := run s1 acts2 in
  let recs2 := recs1 ++ records_of tr2 in
  (s, s1, s2, recs2, recover_at aoft recs2 wall2 dbnow2).
