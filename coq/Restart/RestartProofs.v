(* C07 - proofs about the restart model (Restart/Recover.v). *)
From Coq Require Import String ZifyN ZifyBool.
From Slock Require Import Engine.Types Engine.Queues Engine.Timers Engine.Engine Engine.Engine2 Restart.Recover.
Open Scope Z_scope.

Ltac Zify.zify_post_hook ::= Z.div_mod_to_equations.

(* ------------------------------------------------------------------ units *)
Definition unit_seconds (ef : N) : Prop :=
  has ef EF_UNLIMITED = false /\ has ef EF_MILLISECOND = false /\ has ef EF_MINUTE = false.
Definition unit_minutes (ef : N) : Prop :=
  has ef EF_UNLIMITED = false /\ has ef EF_MILLISECOND = false /\ has ef EF_MINUTE = true.
Definition unit_millis (ef : N) : Prop :=
  has ef EF_UNLIMITED = false /\ has ef EF_MILLISECOND = true.

(* the deadline LockManager.GetOrNewLock / AddLock computes for a command with terms (ef, expried) taken at `start` *)
Definition deadline_of (ef expried : N) (start : Z) : Z :=
  expiry_deadline (mkCmd true 0 0 0 0 0 0 ef expried 0 0 None) start.

Lemma expiry_deadline_terms c start : expiry_deadline c start = deadline_of (c_eflag c) (c_expried c) start.
Proof. reflexivity. Qed.

(* what AofChannel.Push writes (GetAofLockExpriedTime) only depends on the flags, Expried, eT and CommandTime *)
Definition etime_of (ef expried : N) (eT ctime : Z) : N :=
  aof_expried_time (mkCmd true 0 0 0 0 0 0 ef expried 0 0 None) eT ctime.

Lemma aof_expried_time_terms c eT ctime : aof_expried_time c eT ctime = etime_of (c_eflag c) (c_expried c) eT ctime.
Proof. reflexivity. Qed.

(* a record as far as the conversions look at it *)
Definition conv_rec (ef : N) (etime : N) (ctime : Z) (start : N) : aofrec :=
  mkAof true 0 0 0 0 ctime start ef etime 0 0 None None.

Lemma cmd_expried_time_fx_fields fx r dbnow :
  cmd_expried_time_fx fx r dbnow = cmd_expried_time_fx fx (conv_rec (a_eflag r) (a_etime r) (a_ctime r) (a_start r)) dbnow.
Proof. reflexivity. Qed.

Lemma load_skip_fields r wall :
  load_skip r wall = load_skip (conv_rec (a_eflag r) (a_etime r) (a_ctime r) (a_start r)) wall.
Proof. reflexivity. Qed.

(* ------------------------------------------------------------------ (a) seconds: the hold is re-armed with deadline' = deadline + 1 *)
Lemma conv_seconds fx ef expried eT ctime now' st :
  unit_seconds ef -> 0 <= ctime ->
  0 < eT - ctime < 65536 ->                 (* the record was written while the hold was live *)
  ctime <= now' < eT ->                     (* restart after the record was written, before the deadline *)
  let r := conv_rec ef (etime_of ef expried eT ctime) ctime st in
  load_skip r now' = false /\
  (0 < cmd_expried_time_fx fx r now')%N /\
  deadline_of ef (cmd_expried_time_fx fx r now') now' = eT + 1.
Proof.
  intros (Hu & Hm & Hmin) Hc Hd Hn r. subst r.
  unfold load_skip, cmd_expried_time_fx, deadline_of, expiry_deadline, etime_of, aof_expried_time, conv_rec; cbn [a_eflag a_etime a_ctime a_start c_eflag c_expried].
  rewrite Hu, Hm, Hmin. cbn [negb].
  assert (E1 : (0 <? eT) = true) by lia. rewrite E1.
  assert (E2 : (0 <? eT - ctime) = true) by lia. rewrite E2.
  assert (E3 : (Z.to_N (eT - ctime) mod 65536)%N = Z.to_N (eT - ctime)) by (apply N.mod_small; lia). rewrite E3.
  assert (E4 : (0 <? Z.to_N (eT - ctime))%N = true) by lia. rewrite E4.
  assert (E5 : (0 <=? now' - ctime) = true) by lia. rewrite E5.
  assert (E6 : (Z.to_N (now' - ctime) mod 65536)%N = Z.to_N (now' - ctime)) by (apply N.mod_small; lia). rewrite E6.
  assert (E7 : (Z.to_N (now' - ctime) <? Z.to_N (eT - ctime))%N = true) by lia. rewrite E7.
  repeat split; try lia.
Qed.

(* after the deadline the filter drops the record *)
Lemma conv_seconds_expired ef expried eT ctime now' st :
  unit_seconds ef -> 0 <= ctime -> 0 < eT - ctime < 65536 -> eT <= now' ->
  load_skip (conv_rec ef (etime_of ef expried eT ctime) ctime st) now' = true.
Proof.
  intros (Hu & Hm & Hmin) Hc Hd Hn.
  unfold load_skip, etime_of, aof_expried_time, conv_rec; cbn [a_eflag a_etime a_ctime c_eflag c_expried].
  rewrite Hu, Hm, Hmin. cbn [negb].
  assert (E1 : (0 <? eT) = true) by lia. rewrite E1.
  assert (E2 : (0 <? eT - ctime) = true) by lia. rewrite E2.
  assert (E3 : (Z.to_N (eT - ctime) mod 65536)%N = Z.to_N (eT - ctime)) by (apply N.mod_small; lia). rewrite E3.
  apply andb_true_intro; split; lia.
Qed.

(* ------------------------------------------------------------------ (a) minutes: within one unit (60 s) *)
Lemma elapsed_minutes_bounds e : 0 <= e -> e <= 60 * elapsed_minutes e <= e + 60 /\ 1 <= elapsed_minutes e.
Proof.
  intros He. unfold elapsed_minutes.
  destruct (e <? 60) eqn:A; destruct (e mod 60 =? 0) eqn:B; cbn [orb negb]; lia.
Qed.

Lemma etime_minutes_bounds ef expried eT ctime :
  unit_minutes ef -> 0 < eT - ctime -> eT - ctime <= 60 * 65535 ->
  let E := Z.of_N (etime_of ef expried eT ctime) in
  eT - ctime <= 60 * E <= eT - ctime + 59.
Proof.
  intros (Hu & Hm & Hmin) Hd Hb. cbv zeta.
  unfold etime_of, aof_expried_time; cbn [c_eflag c_expried]. rewrite Hu, Hm, Hmin.
  destruct ((60 <=? eT - ctime) && ((eT - ctime) mod 60 =? 0))%bool eqn:A.
  - apply andb_prop in A. destruct A as [A1 A2].
    rewrite N.mod_small by lia. lia.
  - assert (E2 : (0 <? eT - ctime) = true) by lia. rewrite E2.
    assert (Hq : (eT - ctime) / 60 < 65535 \/ ((eT - ctime) / 60 = 65535 /\ (eT - ctime) mod 60 = 0)) by lia.
    destruct Hq as [Hq | [Hq1 Hq2]].
    + rewrite (N.mod_small (Z.to_N ((eT - ctime) / 60))) by lia.
      rewrite N.mod_small by lia.
      apply andb_false_iff in A. lia.
    + apply andb_false_iff in A. lia.
Qed.

Lemma conv_minutes fx ef expried eT ctime now' st :
  unit_minutes ef ->
  0 < eT - ctime -> eT - ctime <= 60 * 65535 ->
  ctime <= now' ->
  let r := conv_rec ef (etime_of ef expried eT ctime) ctime st in
  let x := cmd_expried_time_fx fx r now' in
  load_skip r now' = false ->              (* kept by LoadAofFile's filter *)
  ((0 < x)%N -> eT - 59 <= deadline_of ef x now' <= eT + 60) /\
  (x = 0%N -> eT - now' <= 60).          (* dropped only in its last minute *)
Proof.
  intros Hunit Hd Hb Hn r x Hk.
  pose proof (etime_minutes_bounds ef expried eT ctime Hunit Hd Hb) as HE. cbv zeta in HE.
  destruct Hunit as (Hu & Hm & Hmin).
  subst x r. revert Hk.
  unfold load_skip, cmd_expried_time_fx, deadline_of, expiry_deadline, conv_rec; cbn [a_eflag a_etime a_ctime a_start c_eflag c_expried].
  rewrite Hu, Hm, Hmin.
  set (E := etime_of ef expried eT ctime) in *.
  intros Hk. apply Z.leb_gt in Hk.
  assert (E5 : (0 <=? now' - ctime) = true) by lia. rewrite E5.
  pose proof (elapsed_minutes_bounds (now' - ctime) ltac:(lia)) as [Hm1 Hm2].
  set (m := elapsed_minutes (now' - ctime)) in *.
  assert (Hs : m < 65536) by lia.
  rewrite (N.mod_small (Z.to_N m)) by lia.
  destruct (Z.to_N m <? E)%N eqn:C; split; intros; try lia.
Qed.

(* ------------------------------------------------------------------ (a) milliseconds *)
(* pinned source: the full term again.  Witness: 60 000 ms taken at 1000 (deadline 1061), record written at once,
   restart at 1050: the new deadline is 1111 *)
Lemma refuted_ms :
  exists ef expried start now',
    unit_millis ef /\
    let eT := deadline_of ef expried start in
    let r := conv_rec ef (etime_of ef expried eT start) start 0 in
    start <= now' < eT /\ load_skip r now' = false /\
    deadline_of ef (cmd_expried_time_fx false r now') now' - eT = 50.
Proof.
  exists 1280%N, 60000%N, 1000, 1050. vm_compute. repeat split; discriminate.
Qed.

(* repaired source (proposed_fixes/c07_ms_remaining.diff): the deadline is kept exactly *)
Lemma conv_ms_repaired ef expried start ctime now' :
  unit_millis ef -> (expried < 65536)%N ->
  let eT := deadline_of ef expried start in
  0 <= ctime - start < 65535 -> ctime <= now' -> now' + 1 < eT ->
  let r := conv_rec ef (etime_of ef expried eT ctime) ctime (Z.to_N (ctime - start)) in
  (0 < cmd_expried_time_fx true r now')%N /\
  deadline_of ef (cmd_expried_time_fx true r now') now' = eT.
Proof.
  intros (Hu & Hm) Hx eT Hs Hn Hl r. subst r eT.
  unfold cmd_expried_time_fx, deadline_of, expiry_deadline, etime_of, aof_expried_time, conv_rec in *;
    cbn [a_eflag a_etime a_ctime a_start c_eflag c_expried] in *.
  rewrite Hu, Hm in *.
  assert (E5 : (0 <=? now' - ctime) = true) by lia. rewrite E5.
  assert (E6 : (Z.to_N (ctime - start) =? 65535)%N = false) by lia. rewrite E6.
  rewrite Z2N.id by lia.
  replace (now' - ctime + (ctime - start)) with (now' - start) by lia.
  assert (E7 : ((now' - start) * 1000 <? Z.of_N expried) = true) by lia. rewrite E7.
  rewrite N.mod_small by lia.
  split; [lia|].
  replace (Z.of_N ((expried - Z.to_N ((now' - start) * 1000)) / 1000))
    with (Z.of_N (expried / 1000) - (now' - start)) by lia.
  lia.
Qed.

(* ------------------------------------------------------------------ (b) emission rules *)
Open Scope N_scope.

Lemma store_updm s k f : store (updm s k f) = store s.
Proof. unfold updm, setm. destruct (aget (mgrs s) k); reflexivity. Qed.

Lemma getl_updm s k f r : getl (updm s k f) r = getl s r.
Proof. unfold getl. rewrite store_updm. reflexivity. Qed.

Lemma aget_store_updl s r f l : aget (store s) r = Some l -> aget (store (updl s r f)) r = Some (f l).
Proof. intros H. unfold updl, setl. rewrite H. cbn. rewrite N.eqb_refl. reflexivity. Qed.

Lemma getl_updl s r f l : aget (store s) r = Some l -> getl (updl s r f) r = f l.
Proof. intros H. unfold getl. rewrite (aget_store_updl s r f l H). reflexivity. Qed.

Lemma getl_some s r l : aget (store s) r = Some l -> getl s r = l.
Proof. intros H. unfold getl. rewrite H. reflexivity. Qed.

Lemma leader_updl s r f : leader (updl s r f) = leader s.
Proof. unfold updl, setl. destruct (aget (store s) r); reflexivity. Qed.
Lemma leader_updm s k f : leader (updm s k f) = leader s.
Proof. unfold updm, setm. destruct (aget (mgrs s) k); reflexivity. Qed.
Lemma now_updl s r f : now (updl s r f) = now s.
Proof. unfold updl, setl. destruct (aget (store s) r); reflexivity. Qed.

(* LockManager.PushLockAof on the leader, for a hold that does not itself come from the log: exactly one LOCK record
   carrying the hold's LockId / key / Count / Rcount, and the hold is marked persisted *)
Lemma push_lock_aof_emits s k r fl l :
  leader s = true -> aget (store s) r = Some l -> has (c_flag (l_cmd l)) LOCK_FLAG_FROM_AOF = false ->
  exists s' rec,
    push_lock_aof s k r fl = (s', [EAof rec]) /\
    a_lock rec = true /\ a_lockid rec = c_lockid (l_cmd l) /\ a_key rec = c_key (l_cmd l) /\
    a_count rec = c_count (l_cmd l) /\ a_rcount rec = c_rcount (l_cmd l) /\ a_eflag rec = c_eflag (l_cmd l) /\
    (exists l', aget (store s') r = Some l' /\ l_isaof l' = true /\ l_cmd l' = l_cmd l /\ l_locked l' = l_locked l
                /\ l_start l' = l_start l /\ l_aoftime l' = l_aoftime l /\ l_eT l' = l_eT l) /\
    leader s' = true /\ now s' = now s.
Proof.
  intros Hl Hr Hf. unfold push_lock_aof. rewrite Hl. cbn [negb].
  rewrite (getl_some s r l Hr). rewrite Hf.
  destruct (aof_lock_data true (m_data (getm s k)) (l_data l)) as [[data cur'] ld'].
  set (s1 := updm s k (fun m => m <| m_data := cur' |>)).
  assert (H1 : aget (store s1) r = Some l) by (subst s1; rewrite store_updm; exact Hr).
  set (s2 := updl s1 r (fun l0 => l0 <| l_data := ld' |>)).
  assert (H2 : aget (store s2) r = Some (l <| l_data := ld' |>)) by (subst s2; apply aget_store_updl; exact H1).
  eexists. eexists. split; [reflexivity|].
  repeat split; try reflexivity.
  - eexists. split. { apply (aget_store_updl s2 r _ _ H2). } repeat split; reflexivity.
  - rewrite leader_updl. subst s2. rewrite leader_updl. subst s1. rewrite leader_updm. exact Hl.
  - rewrite now_updl. subst s2. rewrite now_updl. subst s1. unfold updm, setm. destruct (aget (mgrs s) k); reflexivity.
Qed.

(* the wheel / long-table insertion of AddExpried, without its persistence test *)
Definition insert_expried (s : db) (r : ref) : db :=
  let s := updl s r (fun l => l <| l_expried := false |>) in
  let l := getl s r in
  if QUEUE_MAX_WAIT <? l_ecc l then
    let eT := if (l_eT l <? checkE s)%Z then checkE s else l_eT l in
    let s := updl s r (fun l => l <| l_eT := eT |> <| l_long := true |>) in
    s <| elong := wheel_push (elong s) (lkey eT) r |>
  else
    let d0 := (checkE s + Z.of_N (l_ecc l))%Z in
    let d := if (l_eT l <? d0)%Z then (if (l_eT l <? checkE s)%Z then checkE s else l_eT l) else d0 in
    let s := s <| ewheel := wheel_push (ewheel s) (slot_of d) r |> in
    updl s r (fun l => l <| l_long := false |>).

Definition persist_due (s : db) (l : lockrec) : bool :=
  negb (l_isaof l) && negb (l_aoftime l =? 255) && (Z.of_N (l_aoftime l) <=? now s - l_start l)%Z.

Lemma add_expried_split s k r :
  add_expried s k r =
  let s1 := insert_expried s r in
  if persist_due s1 (getl s1 r) then repeat_push_lock_aof (N.to_nat (l_locked (getl s1 r))) s1 k r else (s1, []).
Proof. reflexivity. Qed.

Lemma insert_expried_fields s r l :
  aget (store s) r = Some l ->
  exists l', aget (store (insert_expried s r)) r = Some l' /\
    l_isaof l' = l_isaof l /\ l_aoftime l' = l_aoftime l /\ l_start l' = l_start l /\ l_locked l' = l_locked l /\
    l_cmd l' = l_cmd l /\ now (insert_expried s r) = now s /\ leader (insert_expried s r) = leader s.
Proof.
  intros Hr. unfold insert_expried.
  set (s0 := updl s r (fun l0 => l0 <| l_expried := false |>)).
  assert (H0 : aget (store s0) r = Some (l <| l_expried := false |>)) by (apply aget_store_updl; exact Hr).
  rewrite (getl_some s0 r _ H0).
  assert (N0 : now s0 = now s) by apply now_updl.
  assert (L0 : leader s0 = leader s) by apply leader_updl.
  destruct (QUEUE_MAX_WAIT <? l_ecc (l <| l_expried := false |>)).
  - eexists. split.
    { cbn [store set]. apply (aget_store_updl s0 r _ _ H0). }
    repeat split; try reflexivity.
    + cbn. rewrite now_updl. exact N0.
    + cbn. rewrite leader_updl. exact L0.
  - eexists. split.
    { apply aget_store_updl. cbn. exact H0. }
    repeat split; try reflexivity.
    + rewrite now_updl. cbn. exact N0.
    + rewrite leader_updl. cbn. exact L0.
Qed.

(* never-persist (aofTime 0xff), already persisted, or younger than the delay: AddExpried writes nothing *)
Lemma add_expried_silent s k r l :
  aget (store s) r = Some l ->
  l_aoftime l = 255 \/ l_isaof l = true \/ (now s - l_start l < Z.of_N (l_aoftime l))%Z ->
  snd (add_expried s k r) = [].
Proof.
  intros Hr Hc. rewrite add_expried_split. cbv zeta.
  destruct (insert_expried_fields s r l Hr) as (l' & H' & Ha & Ht & Hs & Hd & Hcmd & Hn & Hl).
  rewrite (getl_some _ r l' H').
  assert (E : persist_due (insert_expried s r) l' = false).
  { unfold persist_due. rewrite Ha, Ht, Hs, Hn. destruct Hc as [Hc | [Hc | Hc]].
    - rewrite Hc. cbn [N.eqb Pos.eqb negb]. rewrite andb_false_r. reflexivity.
    - rewrite Hc. reflexivity.
    - apply andb_false_intro2. lia. }
  rewrite E. reflexivity.
Qed.

(* persist-immediately (aofTime 0) or old enough: the first expiry-wheel insertion on the leader writes the LOCK record
   of a depth-1 hold and marks it persisted *)
Lemma add_expried_emits s k r l :
  leader s = true -> aget (store s) r = Some l ->
  l_isaof l = false -> l_aoftime l <> 255 -> (Z.of_N (l_aoftime l) <= now s - l_start l)%Z ->
  l_locked l = 1 -> has (c_flag (l_cmd l)) LOCK_FLAG_FROM_AOF = false ->
  exists s' rec,
    add_expried s k r = (s', [EAof rec]) /\
    a_lock rec = true /\ a_lockid rec = c_lockid (l_cmd l) /\ a_key rec = c_key (l_cmd l) /\
    a_count rec = c_count (l_cmd l) /\ a_rcount rec = c_rcount (l_cmd l) /\
    (exists l', aget (store s') r = Some l' /\ l_isaof l' = true).
Proof.
  intros Hl Hr Hi Ht Hage Hd Hf. rewrite add_expried_split. cbv zeta.
  destruct (insert_expried_fields s r l Hr) as (l' & H' & Ha & Hta & Hs & Hdd & Hcmd & Hn & Hld).
  rewrite (getl_some _ r l' H').
  assert (E : persist_due (insert_expried s r) l' = true).
  { unfold persist_due. rewrite Ha, Hta, Hs, Hn, Hi. cbn [negb andb].
    apply andb_true_intro. split; [|lia]. apply negb_true_iff. apply N.eqb_neq. exact Ht. }
  rewrite E, Hdd, Hd. change (N.to_nat 1) with 1%nat. cbn [repeat_push_lock_aof].
  destruct (push_lock_aof_emits (insert_expried s r) k r 0 l') as (s' & rec & Hp & R1 & R2 & R3 & R4 & R5 & R6 & (l2 & Hl2 & Hi2 & _) & _).
  { rewrite Hld. exact Hl. } { exact H'. } { rewrite Hcmd. exact Hf. }
  rewrite Hp. exists s', rec. rewrite Hcmd in *.
  split; [rewrite app_nil_r; reflexivity|]. repeat split; try assumption. exists l2. split; assumption.
Qed.

(* ------------------------------------------------------------------ structure of recover *)
Lemma recover_fold_app wall s a b :
  fold_left (load_rec wall) (a ++ b) s = fold_left (load_rec wall) b (fold_left (load_rec wall) a s).
Proof. apply fold_left_app. Qed.

(* a restart after every persisted term has run out holds nothing *)
Lemma recover_all_skipped aoft recs wall dbnow :
  (forall r, In r recs -> load_skip r wall = true) ->
  holds_of (recover_at aoft recs wall dbnow) = [].
Proof.
  intros H.
  assert (E : fold_left (load_rec wall) recs (load_db dbnow aoft) = load_db dbnow aoft).
  { generalize (load_db dbnow aoft). induction recs as [|r rs IH]; intros s0; [reflexivity|].
    cbn [fold_left]. unfold load_rec at 2. rewrite (H r (or_introl eq_refl)).
    apply IH. intros r' Hr'. apply H. right. exact Hr'. }
  unfold recover_at. rewrite E. reflexivity.
Qed.

(* ------------------------------------------------------------------ refutations through the whole model (engine run ->
   record stream -> recover), witnesses by vm_compute; each is replayed on the real code by checks/C07.py (corpus/C07) *)
Definition lockc (req flag lockid key tflag timeout eflag expried count rcount : N) : cmd :=
  mkCmd true req flag lockid key tflag timeout eflag expried count rcount None.
Definition unlockc (req flag lockid key count rcount : N) : cmd :=
  mkCmd false req flag lockid key 0 0 0 0 count rcount None.

Fixpoint ticks (n : nat) : list action :=
  match n with O => [] | S n' => AAdvance 1 :: ASweepT :: ASweepE :: ticks n' end.

(* corpus/C07/04: unlimited hold, re-locked with 10 s terms, unlocked; 12 s later the released hold is held again *)
Definition hist_released : list action :=
  [AReq 1 (lockc 2 0 102 259 0 1 16640 10 65535 0); AReq 2 (lockc 11 0 102 259 0 5 4096 10 1 2);
   AReq 2 (unlockc 19 0 102 259 0 0); AAdvance 9; ASweepT; ASweepE].

Lemma refuted_released_hold_restored :
  exists t0 aoft acts now',
    let '(s, recs, s') := run_and_recover t0 aoft acts now' now' in
    (now s <= now')%Z /\ holds_of s = [] /\
    holds_of s' = [(259, 102, 1, 65535, 0, MAXT, None)].
Proof. exists 1000%Z, 5, hist_released, 1012%Z. vm_compute. repeat split; discriminate. Qed.

(* corpus/C07/05: 10 s hold re-locked with 60 min terms, one level released: a live persisted hold is lost *)
Definition hist_lost : list action :=
  [AReq 1 (lockc 10 0 106 70001 0 5 0 10 3 0); AAdvance 3; AReq 1 (lockc 21 0 106 70001 0 1 64 60 0 1);
   AReq 1 (unlockc 28 0 106 70001 0 1); AAdvance 5; ASweepT; ASweepE].

Lemma refuted_live_hold_lost :
  exists t0 aoft acts now',
    let '(s, recs, s') := run_and_recover t0 aoft acts now' now' in
    (now s <= now')%Z /\
    (exists h, holds_full s = [h] /\ h_isaof h = true /\ h_depth h = 1 /\ (now' + 3000 < h_deadline h)%Z) /\
    holds_of s' = [].
Proof.
  exists 1000%Z, 0, hist_lost, 1011%Z. vm_compute. split; [discriminate|]. split; [|reflexivity].
  eexists. split; [reflexivity|]. repeat split.
Qed.

(* corpus/C07/02: configured delay 50 s, sweeps every second: the hold is re-checked for the last time 43 s after the
   grant and is never persisted: 60 s old, 140 s left, no record, nothing restored *)
Definition hist_horizon : list action :=
  AReq 1 (lockc 1 0 101 7 0 0 0 200 0 0) :: ticks 45 ++ [AAdvance 15; ASweepT; ASweepE].

Lemma refuted_delay_horizon :
  exists t0 aoft acts now',
    let '(s, recs, s') := run_and_recover t0 aoft acts now' now' in
    now s = now' /\
    (exists h, holds_full s = [h] /\ h_isaof h = false /\ h_aoftime h = aoft /\
               (Z.of_N aoft <= now s - h_start h)%Z /\ (now' + 100 < h_deadline h)%Z) /\
    recs = [] /\ holds_of s' = [].
Proof.
  exists 1000%Z, 50, hist_horizon, 1060%Z. vm_compute. split; [reflexivity|]. split; [|split; reflexivity].
  eexists. split; [reflexivity|]. repeat split; discriminate.
Qed.
