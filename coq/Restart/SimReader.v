(* C07 - general simulation, part 3 (reader side): the replay of a record stream by LoadAofFile / HandleLoad on a fresh
   database in STATE_INIT computes exactly the filtered ledger, for every record list that satisfies the replay
   discipline `replay_ok` (every kept LOCK record arrives while its key is free in the ledger, is a plain record and
   has a positive remaining term).  Induction over the record list (recover is a fold); no sweeps happen during a load. *)
From Coq Require Import String ZifyN ZifyBool ZifyNat.
From Slock Require Import Engine.Types Engine.Queues Engine.Timers Engine.Engine Engine.Engine2 Restart.Recover
  Restart.SimBase Restart.SimExec Restart.SimInv.
Open Scope N_scope.

(* plain records: what AofChannel.Push writes for commands without show/update flags, acknowledgements, priorities,
   value frames; no millisecond unit (not in the engine model) *)
Definition lock_rec_plain (r : aofrec) : Prop :=
  a_flag r = 0 /\ has (a_aofflag r) AOF_FLAG_REQUIRE_ACKED = false /\ has (a_aofflag r) AOF_FLAG_RCOUNT_IS_PRIORITY = false
  /\ has (a_aofflag r) AOF_FLAG_CONTAINS_DATA = false /\ has (a_eflag r) EF_MILLISECOND = false.
Definition unlock_rec_plain (r : aofrec) : Prop :=
  a_flag r = 0 /\ has (a_aofflag r) AOF_FLAG_CONTAINS_DATA = false.

(* the deadline a restart at DB time dbnow arms for LOCK record e *)
Definition rearm_deadline (e : aofrec) (dbnow : Z) : Z := expiry_deadline (load_cmd e dbnow) dbnow.

Fixpoint replay_ok (wall dbnow : Z) (L : ledger) (recs : list aofrec) : Prop :=
  match recs with
  | [] => True
  | r :: rest =>
      (if load_skip r wall then True
       else if a_lock r
            then lock_rec_plain r /\ aget L (a_key r) = None /\ 0 < cmd_expried_time r dbnow
                 /\ (dbnow < rearm_deadline r dbnow)%Z
            else unlock_rec_plain r)
      /\ replay_ok wall dbnow (lstep_f wall L r) rest
  end.

Definition entry_tuple (dbnow : Z) (e : aofrec) : htuple :=
  (a_key e, a_lockid e, 1, a_count e, a_rcount e, rearm_deadline e dbnow, None).

Lemma load_cmd_lock r t : lock_rec_plain r ->
  load_cmd r t = mkCmd (a_lock r) 0 4 (a_lockid r) (a_key r) 0 0 (a_eflag r) (cmd_expried_time r t) (a_count r) (a_rcount r) None.
Proof. intros (F & A1 & A2 & A3 & _). unfold load_cmd. rewrite F, A1, A2, A3. reflexivity. Qed.

Lemma load_cmd_unlock r t : unlock_rec_plain r ->
  c_flag (load_cmd r t) = 4 /\ c_lock (load_cmd r t) = a_lock r /\ c_key (load_cmd r t) = a_key r
  /\ c_lockid (load_cmd r t) = a_lockid r.
Proof. intros (F & A3). unfold load_cmd. rewrite F, A3. repeat split. Qed.

(* ------------------------------------------------------------------ the relation database <-> ledger *)
Record RL (d : db) (L : ledger) (dbnow : Z) : Prop := mkRL {
  rl_a : forall k e, aget L k = Some e ->
         exists r l, aget (store d) r = Some l /\ l_locked l = 1 /\ l_key l = k /\ c_lockid (l_cmd l) = a_lockid e
                     /\ c_count (l_cmd l) = a_count e /\ c_rcount (l_cmd l) = a_rcount e /\ l_eT l = rearm_deadline e dbnow;
  rl_b : forall r l, aget (store d) r = Some l -> l_locked l = 1 -> aget L (l_key l) <> None }.

Record RInv (d : db) (L : ledger) (dbnow : Z) : Prop := mkRInv {
  ri_shape : Shape d;
  ri_leader : leader d = false;
  ri_now : now d = dbnow;
  ri_check : (checkE d <= dbnow)%Z;
  ri_rl : RL d L dbnow;
  ri_keyed : ledger_keyed L }.

Lemma rinv_init dbnow aoft : RInv (load_db dbnow aoft) [] dbnow.
Proof.
  split.
  - split; cbn; try (intros; discriminate). constructor.
  - reflexivity.
  - reflexivity.
  - cbn. lia.
  - split; cbn; intros; discriminate.
  - apply keyed_nil.
Qed.

(* ------------------------------------------------------------------ release path on a shaped database *)
Lemma release_path_spec s conn c r l m :
  Shape s -> aget (store s) r = Some l -> l_locked l = 1 -> l_key l = c_key c -> aget (mgrs s) (c_key c) = Some m ->
  has_udata_flag c = false -> emit_u s (Some c) ->
  exists s' ev,
    release_path s conn c r = (s', ev, Some (mkWake (c_key c) (Some conn))) /\
    released s s' r (c_key c) l m /\
    aofs_of ev = (if l_isaof l && leader s
                  then [unlock_rec_of l (l_cmd l) (Some c) 0 (ctime_of s l)
                          (if has (c_tflag (l_cmd l)) TF_REQUIRE_ACKED then Some r else None)]
                  else []).
Proof.
  intros H Hr Hl Hk Hm Hu Hmode. set (k := c_key c) in *.
  assert (Hc : m_cur m = Some r). { apply (shape_held_cur s r l m H Hr Hl). rewrite Hk. exact Hm. }
  destruct (sh_rec _ H _ _ Hr) as (A1 & A2 & A3 & A4 & _).
  destruct (sh_mgr _ H _ _ Hm) as (B1 & B2 & B3 & B4). rewrite Hc in B4. destruct B4 as (B4 & _).
  unfold release_path. fold k. cbv zeta.
  set (s1 := updm s k (fun m0 => m0 <| m_locked := sub32 (m_locked m0) 1 |>)).
  set (m1 := m <| m_locked := sub32 (m_locked m) 1 |>).
  assert (M1 : aget (mgrs s1) k = Some m1) by (exact (aget_updm_same s k _ m Hm)).
  assert (R1 : aget (store s1) r = Some l) by (subst s1; rewrite store_updm; exact Hr).
  assert (E1 : eff s s1 r k) by apply eff_updm.
  destruct (release_hold_spec s1 k conn c r l m1 R1 M1) as (s2 & ev & P & (E2 & l2 & m2 & D2 & MR2 & DR2) & EV); auto.
  { subst m1. cbn [m_locked set]. rewrite B4. reflexivity. }
  { unfold emit_u in *. rewrite (ss_leader _ _ (ef_same _ _ _ _ E1)). exact Hmode. }
  rewrite P. exists s2, ev. split; [reflexivity|]. split.
  - split; [eapply eff_trans; eauto|]. exists l2, m2. split; [exact D2|]. split; [|exact DR2].
    destruct MR2 as (Q1 & Q2 & Q3 & Q4 & Q5 & Q6 & Q7). repeat split; auto.
  - rewrite EV. unfold ctime_of. rewrite (ss_leader _ _ (ef_same _ _ _ _ E1)), (ss_now _ _ (ef_same _ _ _ _ E1)). reflexivity.
Qed.

(* ------------------------------------------------------------------ one record *)
Lemma step_areq s conn c : step s (AReq conn c) = finish (if c_lock c then lock_step s conn c else unlock_step s conn c).
Proof. reflexivity. Qed.

Lemma rinv_lock d L dbnow wall r :
  RInv d L dbnow -> load_skip r wall = false -> a_lock r = true ->
  lock_rec_plain r -> aget L (a_key r) = None -> 0 < cmd_expried_time r dbnow -> (dbnow < rearm_deadline r dbnow)%Z ->
  RInv (load_rec wall d r) (lstep_f wall L r) dbnow.
Proof.
  intros [H Hld Hnow Hchk [Ha Hb] Hkey] Hskip Hlock Hplain Hfree Hpos Hdl.
  unfold load_rec, lstep_f, lstep. rewrite Hskip, Hlock. rewrite Hnow.
  set (c := load_cmd r dbnow).
  assert (Ec : c = mkCmd true 0 4 (a_lockid r) (a_key r) 0 0 (a_eflag r) (cmd_expried_time r dbnow) (a_count r) (a_rcount r) None).
  { subst c. rewrite (load_cmd_lock r dbnow Hplain), Hlock. reflexivity. }
  assert (Hsimple : lock_simple c).
  { rewrite Ec. unfold lock_simple. cbn. destruct Hplain as (_ & _ & _ & _ & X). csplit; auto. }
  assert (Hkc : c_key c = a_key r) by (rewrite Ec; reflexivity).
  assert (Hmode : mode_ok d (c_flag c)) by (right; rewrite Ec; split; [exact Hld|reflexivity]).
  assert (Hpos' : 0 < c_expried c) by (rewrite Ec; exact Hpos).
  assert (Hkf : key_free d (c_key c)).
  { apply (shape_key_free d _ H). intros r0 l0 H0 Hl0 Hk0. apply (Hb r0 l0 H0 Hl0). rewrite Hk0, Hkc. exact Hfree. }
  rewrite step_areq. replace (c_lock c) with true by (rewrite Ec; reflexivity).
  rewrite (lock_step_grant d LOAD_CONN c Hsimple Hmode Hpos' Hkf).
  destruct (grant_path_spec d LOAD_CONN c Hsimple Hmode Hkf (shape_fresh d H) (proj1 (getm_shape_data d (c_key c) H)))
    as (s' & ev & l' & m' & P & R & L1 & L2 & L3 & L4 & L5 & L6 & L7 & L8 & FR & FM & W & SS & NX & M & M1 & M2 & M3 & M4 & M5 & M6 & M7 & EM).
  { rewrite Hnow. unfold rearm_deadline in Hdl. fold c in Hdl. lia. }
  { rewrite Hnow. exact Hdl. }
  rewrite P. cbn [finish fst].
  split.
  - apply (shape_grant d s' c l' m'); auto.
  - rewrite (ss_leader _ _ SS). exact Hld.
  - rewrite (ss_now _ _ SS). exact Hnow.
  - rewrite (ss_checkE _ _ SS). exact Hchk.
  - split.
    + intros k e. rewrite aget_aset. destruct (a_key r =? k) eqn:E.
      * apply N.eqb_eq in E. intros Q. injection Q as <-. exists (next d), l'. rewrite L2, L1, L5, Hnow. rewrite Ec at 2 3 4.
        cbn [c_lockid c_count c_rcount]. csplit; auto; try congruence.
      * intros Q. destruct (Ha k e Q) as (r0 & l0 & H0 & Z). exists r0, l0. split; [|exact Z].
        rewrite FR; [exact H0|]. intros ->. rewrite (shape_fresh d H) in H0. discriminate.
    + intros r0 l0 H0 Hl0. rewrite aget_aset. destruct (a_key r =? l_key l0) eqn:E; [discriminate|].
      destruct (N.eq_dec r0 (next d)) as [->|Hne].
      * rewrite R in H0. injection H0 as <-. rewrite L1, Hkc, N.eqb_refl in E. discriminate.
      * rewrite FR in H0 by exact Hne. apply (Hb r0 l0 H0 Hl0).
  - pose proof (keyed_lstep L r Hkey) as X. unfold lstep in X. rewrite Hlock in X. exact X.
Qed.

Lemma finish_none s ev : finish (s, ev, None) = (s, ev).
Proof. reflexivity. Qed.

Lemma shape_nowait s k : Shape s -> match aget (mgrs s) k with Some m => m_waited m = false | None => True end.
Proof. intros H. destruct (aget (mgrs s) k) as [m|] eqn:E; auto. apply (sh_mgr _ H _ _ E). Qed.

Lemma rinv_unlock d L dbnow wall r :
  RInv d L dbnow -> load_skip r wall = false -> a_lock r = false -> unlock_rec_plain r ->
  RInv (load_rec wall d r) (lstep_f wall L r) dbnow.
Proof.
  intros [H Hld Hnow Hchk [Ha Hb] Hkey] Hskip Hlock Hplain.
  unfold load_rec, lstep_f, lstep. rewrite Hskip, Hlock, Hnow.
  set (c := load_cmd r dbnow).
  destruct (load_cmd_unlock r dbnow Hplain) as (Cf & Cl & Ck & Ci). fold c in Cf, Cl, Ck, Ci.
  assert (Hus : unlock_simple c). { unfold unlock_simple, has_udata_flag. rewrite Cf. repeat split. }
  assert (Hum : umode d c). { unfold umode. rewrite Cf, Hld. reflexivity. }
  rewrite step_areq, Cl, Hlock.
  assert (Hrel : forall e, aget L (a_key r) = Some e -> a_lockid e = a_lockid r ->
                 RInv (fst (finish (unlock_step d LOAD_CONN c))) (adel L (a_key r)) dbnow).
  { intros e He Hid. destruct (Ha _ _ He) as (r0 & l0 & H0 & Hl0 & Hk0 & Hi0 & _).
    destruct (sh_rec _ H _ _ H0) as (A1 & A2 & A3 & A4 & [[Z _]|(_ & _ & m & Hm & Hcur)]); [lia|].
    rewrite Hk0, <- Ck in Hm.
    destruct (sh_mgr _ H _ _ Hm) as (B1 & B2 & B3 & B4). rewrite Hcur in B4. destruct B4 as (B4 & _).
    rewrite (unlock_step_release d LOAD_CONN c m r0 Hum Hm B4 Hcur);
      try (rewrite (getl_some _ _ _ H0)); auto; try congruence.
    destruct (release_path_spec d LOAD_CONN c r0 l0 m H H0 Hl0) as (s' & ev & P & REL & EV); auto.
    { apply Hus. } { left. exact Hld. }
    rewrite P.
    assert (H' : Shape s'). { apply (shape_released d s' r0 (c_key c) l0 m); auto; congruence. }
    rewrite (finish_nowait s' ev (c_key c) (Some LOAD_CONN) (shape_nowait s' (c_key c) H')). cbn [fst].
    destruct REL as (E & l1 & m1 & D1 & MR & DR).
    assert (Hdead : forall lx, aget (store s') r0 = Some lx -> l_locked lx = 0).
    { intros lx Hx. destruct DR as [(l' & R' & D' & _)|(R' & _)]; [|congruence].
      rewrite R' in Hx. injection Hx as <-. apply D'. }
    split; auto.
    - rewrite (ss_leader _ _ (ef_same _ _ _ _ E)). exact Hld.
    - rewrite (ss_now _ _ (ef_same _ _ _ _ E)). exact Hnow.
    - rewrite (ss_checkE _ _ (ef_same _ _ _ _ E)). exact Hchk.
    - split.
      + intros k e'. rewrite aget_adel. destruct (a_key r =? k) eqn:Ek; [discriminate|]. intros Q.
        destruct (Ha k e' Q) as (r1 & l1' & H1 & Z). exists r1, l1'. split; [|exact Z].
        rewrite (ef_l _ _ _ _ E); [exact H1|]. intros ->. rewrite H0 in H1. injection H1 as <-.
        destruct Z as (_ & Zk & _). apply N.eqb_neq in Ek. congruence.
      + intros r1 l1' H1 Hl1. assert (Hne : r1 <> r0). { intros ->. specialize (Hdead _ H1). lia. }
        rewrite (ef_l _ _ _ _ E) in H1 by exact Hne. rewrite aget_adel.
        destruct (a_key r =? l_key l1') eqn:Ek; [|apply (Hb r1 l1' H1 Hl1)].
        exfalso. apply N.eqb_eq in Ek. apply Hne. apply (shape_held_unique d r1 l1' r0 l0 H H1 H0); try lia; congruence.
    - intros k e'. rewrite aget_adel. destruct (a_key r =? k); [discriminate|]. apply Hkey. }
  assert (Herr : (forall e, aget L (a_key r) = Some e -> a_lockid e <> a_lockid r) ->
                 RInv (fst (finish (unlock_step d LOAD_CONN c))) L dbnow).
  { intros Hne.
    destruct (unlock_step_err d LOAD_CONN c Hus Hum) as (ev & P & _).
    { destruct (aget (mgrs d) (c_key c)) as [m|] eqn:Em; [|exact I].
      destruct (sh_mgr _ H _ _ Em) as (B1 & B2 & B3 & B4). destruct (m_cur m) as [cur|] eqn:Ecur; [|left; exact B4].
      right. split; [exact B1|]. exists cur. split; [reflexivity|].
      destruct B4 as (_ & lc & Hc & Hkc & Hlc). rewrite (getl_some _ _ _ Hc).
      destruct (aget L (a_key r)) as [e|] eqn:Ee.
      - destruct (Ha _ _ Ee) as (r1 & l1 & H1 & Hl1 & Hk1 & Hi1 & _).
        assert (r1 = cur). { apply (shape_held_unique d r1 l1 cur lc H H1 Hc); try lia; congruence. }
        subst r1. rewrite H1 in Hc. injection Hc as <-. rewrite Hi1, Ci. apply Hne. reflexivity.
      - exfalso. apply (Hb cur lc Hc Hlc). rewrite Hkc, Ck. exact Ee. }
    rewrite P, finish_none. cbn [fst]. split; auto.
    - apply (shape_ext d); auto.
    - split; [exact Ha|exact Hb]. }
  destruct (aget L (a_key r)) as [e|] eqn:Ee.
  - destruct (a_lockid e =? a_lockid r) eqn:Ei.
    + apply N.eqb_eq in Ei. apply (Hrel e eq_refl Ei).
    + apply N.eqb_neq in Ei. apply Herr. intros e' Q. injection Q as <-. exact Ei.
  - apply Herr. intros e' Q. discriminate.
Qed.

(* ------------------------------------------------------------------ the whole load *)
Lemma rinv_fold wall dbnow recs : forall d L,
  RInv d L dbnow -> replay_ok wall dbnow L recs ->
  RInv (fold_left (load_rec wall) recs d) (fold_left (lstep_f wall) recs L) dbnow.
Proof.
  induction recs as [|r recs IH]; intros d L HI HR; cbn [fold_left]; [exact HI|].
  cbn [replay_ok] in HR. destruct HR as [H1 H2].
  apply IH; [|exact H2].
  destruct (load_skip r wall) eqn:Es.
  - unfold load_rec, lstep_f. rewrite Es. exact HI.
  - destruct (a_lock r) eqn:El.
    + destruct H1 as (P & F & X & Y). apply rinv_lock; auto.
    + apply rinv_unlock; auto.
Qed.

Lemma holds_of_leader s b : holds_of (s <| leader := b |>) = holds_of s.
Proof. reflexivity. Qed.

(* Reader-side theorem: the census of the restarted database is the (sorted, duplicate-free) rendering of the filtered
   ledger: one hold per ledger entry, same key / LockId / Count / Rcount, depth 1, the re-armed deadline, no value. *)
Theorem sim_reader aoft recs wall dbnow :
  replay_ok wall dbnow [] recs ->
  ssorted tk (holds_of (recover_at aoft recs wall dbnow)) /\
  forall t, In t (holds_of (recover_at aoft recs wall dbnow)) <->
            exists k e, aget (ledger_at wall recs) k = Some e /\ t = entry_tuple dbnow e.
Proof.
  intros HR. unfold recover_at. rewrite holds_of_leader.
  pose proof (rinv_fold wall dbnow recs _ _ (rinv_init dbnow aoft) HR) as [H Hld Hnow Hchk [Ha Hb] Hkey].
  fold (ledger_at wall recs) in *. set (d := fold_left (load_rec wall) recs (load_db dbnow aoft)) in *.
  split; [apply holds_of_sorted; exact H|].
  intros t. rewrite (holds_of_in d t H). split.
  - intros (r & l & Hr & Hl & ->).
    destruct (aget (ledger_at wall recs) (l_key l)) as [e|] eqn:Ee; [|exfalso; apply (Hb r l Hr Hl Ee)].
    exists (l_key l), e. split; [exact Ee|].
    destruct (Ha _ _ Ee) as (r1 & l1 & H1 & Hl1 & Hk1 & Hi1 & Hc1 & Hrc1 & Hd1).
    assert (r1 = r) by (apply (shape_held_unique d r1 l1 r l H H1 Hr); try lia; congruence). subst r1.
    rewrite Hr in H1. injection H1 as <-.
    unfold tuple_of, hold_of, entry_tuple. cbn [h_key h_lockid h_depth h_count h_rcount h_deadline h_value].
    rewrite (shape_value_none d _ H), Hl, Hi1, Hc1, Hrc1, Hd1. destruct (Hkey _ _ Ee) as [-> _]. reflexivity.
  - intros (k & e & Ee & ->). destruct (Ha _ _ Ee) as (r1 & l1 & H1 & Hl1 & Hk1 & Hi1 & Hc1 & Hrc1 & Hd1).
    exists r1, l1. csplit; auto.
    unfold tuple_of, hold_of, entry_tuple. cbn [h_key h_lockid h_depth h_count h_rcount h_deadline h_value].
    rewrite (shape_value_none d _ H), Hl1, Hi1, Hc1, Hrc1, Hd1, Hk1. destruct (Hkey _ _ Ee) as [-> _]. reflexivity.
Qed.
