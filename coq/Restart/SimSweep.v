(* C07 - general simulation, part 4: doExpried and the expiry / timeout sweeps on a shaped leader database. *)
From Coq Require Import String ZifyN ZifyBool ZifyNat.
From Slock Require Import Engine.Types Engine.Queues Engine.Timers Engine.Engine Engine.Engine2 Restart.Recover
  Restart.SimBase Restart.SimExec Restart.SimInv.
Open Scope N_scope.

Lemma do_expried_absent s r : aget (store s) r = None -> exists ev, do_expried s r = (s, ev, None) /\ aofs_of ev = [].
Proof. intros H. unfold do_expried. rewrite H. eexists. split; reflexivity. Qed.

Lemma do_expried_dead s r l : aget (store s) r = Some l -> l_expried l = true ->
  do_expried s r = (unref_rm s r (l_key l), [], None).
Proof. intros H X. unfold do_expried. rewrite H, X. reflexivity. Qed.

Lemma do_expried_held s r l m :
  Shape s -> leader s = true -> aget (store s) r = Some l -> l_expried l = false -> aget (mgrs s) (l_key l) = Some m ->
  exists s' ev,
    do_expried s r = (s', ev, Some (mkWake (l_key l) None)) /\
    released s s' r (l_key l) l m /\
    aofs_of ev = (if l_isaof l
                  then [unlock_rec_of l (l_cmd l) None AOF_FLAG_EXPRIED (ctime_of s l)
                          (if has (c_tflag (l_cmd l)) TF_REQUIRE_ACKED then Some r else None)]
                  else []).
Proof.
  intros H Hld Hr Hx Hm. set (k := l_key l) in *.
  destruct (sh_rec _ H _ _ Hr) as (A1 & A2 & A3 & A4 & [[_ Z]|(Hl & _ & m' & Hm' & Hc)]); [congruence|].
  fold k in Hm'. rewrite Hm in Hm'. injection Hm' as <-.
  destruct (sh_mgr _ H _ _ Hm) as (B1 & B2 & B3 & B4). rewrite Hc in B4. destruct B4 as (B4 & _).
  unfold do_expried. rewrite Hr, Hx, Hld. cbn [negb andb]. cbv iota. fold k. rewrite Hl.
  set (s1 := updl s r (fun l0 => l0 <| l_expried := true |>)).
  set (l1 := l <| l_expried := true |>).
  assert (R1 : aget (store s1) r = Some l1) by (exact (aget_updl_same s r _ l Hr)).
  assert (M1 : aget (mgrs s1) k = Some m) by (subst s1; rewrite mgrs_updl; exact Hm).
  set (s2 := updm s1 k (fun m0 => m0 <| m_locked := sub32 (m_locked m0) 1 |>)).
  set (m2 := m <| m_locked := sub32 (m_locked m) 1 |>).
  assert (M2 : aget (mgrs s2) k = Some m2) by (exact (aget_updm_same s1 k _ m M1)).
  assert (R2 : aget (store s2) r = Some l1) by (subst s2; rewrite store_updm; exact R1).
  assert (E2 : eff s s2 r k) by (eapply eff_trans; [apply eff_updl|apply eff_updm]).
  destruct (unlock_core_spec s2 k r l1 m2 (l_cmd l) None AOF_FLAG_EXPRIED R2 M2) as (s3 & aev & l4 & P3 & E4 & R4 & D4 & M4 & EV); auto.
  { right. split; [|reflexivity]. rewrite (ss_leader _ _ (ef_same _ _ _ _ E2)). exact Hld. }
  rewrite (getl_some _ _ _ R2). rewrite P3.
  set (s4 := remove_lock s3 k r) in *.
  set (m4 := m2 <| m_cur := None |>) in *.
  destruct D4 as (D1 & D2 & D3 & D4 & D5 & D6 & D7 & D8).
  assert (K4 : l_key l4 = k) by (rewrite D3; reflexivity).
  destruct (unref_rm_spec s4 r k l4 m4 R4 K4 M4 D1 D2) as (E5 & DR5).
  fold (unref_rm s4 r k).
  eexists. eexists. split; [reflexivity|]. split.
  - split.
    + eapply eff_trans; [exact E2|]. eapply eff_trans; [exact E4|]. eapply eff_trans; [exact E5|apply eff_bump].
    + exists l4, m4. split; [repeat split; assumption|]. split.
      * subst m4 m2. repeat split; cbn [m_cur m_locked m_locks m_wait m_waited m_data m_ref set]; auto. rewrite B4. reflexivity.
      * exact DR5.
  - rewrite !aofs_of_app, EV. subst l1. cbn [l_isaof set aofs_of flat_map app].
    rewrite (ss_leader _ _ (ef_same _ _ _ _ E2)), Hld, andb_true_r.
    destruct (l_isaof l); [|reflexivity]. cbn [aofs_of flat_map app].
    unfold unlock_rec_of, ctime_of. cbn [l_start l_eT set]. rewrite (ss_now _ _ (ef_same _ _ _ _ E2)). reflexivity.
Qed.
