(* C07 - general simulation, part 0: library.
   - association-map facts (the amap section is a copy of the stable part of Engine/InvBase.v, which is still being
     extended by its owner; nothing here depends on Engine/Inv*.v)
   - projections of the database through the primitive updates of Engine/Queues.v
   - insertion sort of the census (Recover.hsort): sortedness, membership, uniqueness of sorted duplicate-free lists
   - the abstract persisted-holds ledger: what a restart SHOULD compute from the record stream. *)
From Coq Require Import String ZifyN ZifyBool ZifyNat Sorting.Sorted Permutation.
From Slock Require Import Engine.Types Engine.Queues Engine.Timers Engine.Engine Engine.Engine2 Restart.Recover.
Open Scope N_scope.

Ltac inv H := inversion H; subst; clear H.

(* ------------------------------------------------------------------ association maps *)
Definition awf {V} (m : amap V) : Prop := NoDup (map fst m).

Section AM.
  Context {V : Type}.
  Implicit Types m : amap V.

  Lemma in_fst_adel m k k' : In k' (map fst (adel m k)) <-> In k' (map fst m) /\ k' <> k.
  Proof.
    induction m as [|[k0 v] t IH]; simpl; [tauto|].
    destruct (k0 =? k) eqn:E.
    - apply N.eqb_eq in E; subst. rewrite IH. split; [tauto|intros [[?|?] ?]; [congruence|tauto]].
    - apply N.eqb_neq in E. simpl. rewrite IH. split; [intros [?|?]; [subst; tauto|tauto]|tauto].
  Qed.
  Lemma awf_adel m k : awf m -> awf (adel m k).
  Proof.
    unfold awf. induction m as [|[k0 v] t IH]; simpl; auto. intros H. inversion H; subst.
    destruct (k0 =? k); simpl; auto. constructor; auto. rewrite in_fst_adel. tauto.
  Qed.
  Lemma awf_aset m k v : awf m -> awf (aset m k v).
  Proof.
    intros H. unfold aset, awf. simpl. constructor; [rewrite in_fst_adel; tauto|apply awf_adel; auto].
  Qed.
  Lemma awf_nil : awf (@nil (N * V)).
  Proof. constructor. Qed.
  Lemma aget_none_iff m k : aget m k = None <-> ~ In k (map fst m).
  Proof.
    induction m as [|[k0 v] t IH]; simpl; [tauto|].
    destruct (k0 =? k) eqn:E.
    - apply N.eqb_eq in E. split; [discriminate|tauto].
    - apply N.eqb_neq in E. rewrite IH. tauto.
  Qed.
  Lemma aget_in m k v : aget m k = Some v -> In (k, v) m.
  Proof.
    induction m as [|[k0 v0] t IH]; simpl; [discriminate|].
    destruct (k0 =? k) eqn:E; [apply N.eqb_eq in E; intros; left; congruence|auto].
  Qed.
  Lemma in_aget m k v : awf m -> In (k, v) m -> aget m k = Some v.
  Proof.
    unfold awf. induction m as [|[k0 v0] t IH]; simpl; [tauto|]. intros H [Hi|Hi]; inversion H; subst.
    - inversion Hi; subst. rewrite N.eqb_refl. reflexivity.
    - destruct (k0 =? k) eqn:E; auto. apply N.eqb_eq in E; subst. exfalso. apply H2.
      change k with (fst (k, v)). apply in_map. auto.
  Qed.
  Lemma adel_none m k : aget m k = None -> adel m k = m.
  Proof.
    induction m as [|[k0 v0] t IH]; simpl; auto. destruct (k0 =? k); [discriminate|]. intros; f_equal; auto.
  Qed.
  Lemma aget_aset m k k' v : aget (aset m k v) k' = if k =? k' then Some v else aget m k'.
  Proof.
    destruct (k =? k') eqn:E.
    - apply N.eqb_eq in E; subst. apply aget_aset_same.
    - apply N.eqb_neq in E. apply aget_aset_other; auto.
  Qed.
  Lemma aget_adel m k k' : aget (adel m k) k' = if k =? k' then None else aget m k'.
  Proof.
    destruct (k =? k') eqn:E.
    - apply N.eqb_eq in E; subst. apply aget_adel_same.
    - apply N.eqb_neq in E. apply aget_adel_other; auto.
  Qed.

  (* sums over a map *)
  Definition asum (f : V -> nat) (m : amap V) : nat := fold_right (fun kv a => Nat.add (f (snd kv)) a) O m.
  Definition oget (f : V -> nat) (o : option V) : nat := match o with Some v => f v | None => O end.

  Lemma asum_adel f m k : awf m -> (asum f (adel m k) + oget f (aget m k) = asum f m)%nat.
  Proof.
    unfold awf. induction m as [|[k0 v0] t IH]; simpl; auto. intros H; inversion H; subst.
    destruct (k0 =? k) eqn:E.
    - apply N.eqb_eq in E; subst. rewrite adel_none by (apply aget_none_iff; auto). simpl. lia.
    - simpl. rewrite <- IH; auto. lia.
  Qed.
  Lemma asum_aset f m k v : awf m -> (asum f (aset m k v) + oget f (aget m k) = f v + asum f m)%nat.
  Proof. intros H. unfold aset. simpl. pose proof (asum_adel f m k H). lia. Qed.
  Lemma asum_le_length f m : (forall v, f v <= 1)%nat -> (asum f m <= length m)%nat.
  Proof. intros H. induction m as [|[k0 v0] t IH]; simpl; auto. specialize (H v0). lia. Qed.
  Lemma asum_pos f m k v : aget m k = Some v -> (f v <= asum f m)%nat.
  Proof.
    induction m as [|[k0 v0] t IH]; simpl; [discriminate|]. destruct (k0 =? k).
    - intros E; inversion E; subst. lia.
    - intros E. specialize (IH E). lia.
  Qed.
  Lemma asum_zero_none f m k v : asum f m = O -> aget m k = Some v -> f v = O.
  Proof. intros H0 H. pose proof (asum_pos f m k v H). lia. Qed.
End AM.

Lemma nodup_bound (l : list N) n : NoDup l -> (forall x, In x l -> x < n) -> N.of_nat (length l) <= n.
Proof.
  intros H H0.
  assert (H1 : incl l (map N.of_nat (seq 0 (N.to_nat n)))).
  { intros x Hx. apply in_map_iff. exists (N.to_nat x). split; [lia|]. apply in_seq. specialize (H0 x Hx). lia. }
  apply NoDup_incl_length in H1; auto. rewrite map_length, seq_length in H1. lia.
Qed.

Lemma awf_length_bound {V} (m : amap V) n : awf m -> (forall k v, aget m k = Some v -> k < n) -> N.of_nat (length m) <= n.
Proof.
  intros W H. rewrite <- (map_length fst m). apply nodup_bound; auto.
  intros x Hx. apply in_map_iff in Hx. destruct Hx as [[k v] [<- Hi]]. apply (H k v). apply in_aget; auto.
Qed.

(* number of lock records of key k in the store (= LockManager.refCount, clause W1 of the writer invariant) *)
Definition key_cnt (k : N) (st : amap lockrec) : nat := asum (fun l => if N.eqb (l_key l) k then 1%nat else O) st.

Lemma key_cnt_le k st : (key_cnt k st <= length st)%nat.
Proof. apply asum_le_length. intros v. destruct (l_key v =? k); lia. Qed.

(* ------------------------------------------------------------------ projections through the primitives *)
Lemma store_updl s r f :
  store (updl s r f) = match aget (store s) r with Some l => aset (store s) r (f l) | None => store s end.
Proof. unfold updl, setl. destruct (aget (store s) r); reflexivity. Qed.
Lemma aget_updl s r f r' :
  aget (store (updl s r f)) r' = if r =? r' then option_map f (aget (store s) r') else aget (store s) r'.
Proof.
  rewrite store_updl. destruct (r =? r') eqn:E.
  - apply N.eqb_eq in E; subst r'. destruct (aget (store s) r) eqn:G.
    + rewrite aget_aset, N.eqb_refl. reflexivity.
    + rewrite G. reflexivity.
  - destruct (aget (store s) r) eqn:G; auto. rewrite aget_aset, E. reflexivity.
Qed.
Lemma aget_updl_same s r f l : aget (store s) r = Some l -> aget (store (updl s r f)) r = Some (f l).
Proof. intros H. rewrite aget_updl, N.eqb_refl, H. reflexivity. Qed.
Lemma aget_updl_other s r f r' : r <> r' -> aget (store (updl s r f)) r' = aget (store s) r'.
Proof. intros H. rewrite aget_updl. destruct (r =? r') eqn:E; auto. apply N.eqb_eq in E. congruence. Qed.
Lemma awf_updl s r f : awf (store s) -> awf (store (updl s r f)).
Proof. intros H. rewrite store_updl. destruct (aget (store s) r); auto. apply awf_aset; auto. Qed.

Lemma mgrs_updl s r f : mgrs (updl s r f) = mgrs s. Proof. unfold updl. destruct (aget (store s) r); reflexivity. Qed.
Lemma store_updm s k f : store (updm s k f) = store s. Proof. unfold updm. destruct (aget (mgrs s) k); reflexivity. Qed.
Lemma aget_updm s k f k' :
  aget (mgrs (updm s k f)) k' = if k =? k' then option_map f (aget (mgrs s) k') else aget (mgrs s) k'.
Proof.
  unfold updm, setm. destruct (k =? k') eqn:E.
  - apply N.eqb_eq in E; subst k'. destruct (aget (mgrs s) k) eqn:G.
    + cbn [mgrs set]. rewrite aget_aset, N.eqb_refl. reflexivity.
    + rewrite G. reflexivity.
  - destruct (aget (mgrs s) k) eqn:G; auto. cbn [mgrs set]. rewrite aget_aset, E. reflexivity.
Qed.
Lemma aget_updm_same s k f m : aget (mgrs s) k = Some m -> aget (mgrs (updm s k f)) k = Some (f m).
Proof. intros H. rewrite aget_updm, N.eqb_refl, H. reflexivity. Qed.
Lemma aget_updm_other s k f k' : k <> k' -> aget (mgrs (updm s k f)) k' = aget (mgrs s) k'.
Proof. intros H. rewrite aget_updm. destruct (k =? k') eqn:E; auto. apply N.eqb_eq in E. congruence. Qed.

Lemma getl_some s r l : aget (store s) r = Some l -> getl s r = l.
Proof. intros H. unfold getl. rewrite H. reflexivity. Qed.
Lemma getm_some s k m : aget (mgrs s) k = Some m -> getm s k = m.
Proof. intros H. unfold getm. rewrite H. reflexivity. Qed.
Lemma getm_none s k : aget (mgrs s) k = None -> getm s k = new_mgr.
Proof. intros H. unfold getm. rewrite H. reflexivity. Qed.
Lemma getl_updm s k f r : getl (updm s k f) r = getl s r.
Proof. unfold getl. rewrite store_updm. reflexivity. Qed.
Lemma getm_updl s r f k : getm (updl s r f) k = getm s k.
Proof. unfold getm. rewrite mgrs_updl. reflexivity. Qed.

(* scalar fields *)
Record same_scalars (s s' : db) : Prop := mkSame {
  ss_now : now s' = now s; ss_leader : leader s' = leader s; ss_checkE : checkE s' = checkE s;
  ss_checkT : checkT s' = checkT s; ss_cfg : cfg_aoftime s' = cfg_aoftime s;
  ss_twheel : twheel s' = twheel s; ss_tlong : tlong s' = tlong s }.
Lemma same_refl s : same_scalars s s. Proof. split; reflexivity. Qed.
Lemma same_trans a b c : same_scalars a b -> same_scalars b c -> same_scalars a c.
Proof. intros [] []. split; congruence. Qed.
Lemma same_updl s r f : same_scalars s (updl s r f).
Proof. unfold updl, setl. destruct (aget (store s) r); split; reflexivity. Qed.
Lemma same_updm s k f : same_scalars s (updm s k f).
Proof. unfold updm, setm. destruct (aget (mgrs s) k); split; reflexivity. Qed.
Lemma same_updc s f : same_scalars s (updc s f). Proof. split; reflexivity. Qed.
Lemma same_bump s f : same_scalars s (bump f s). Proof. split; reflexivity. Qed.
Lemma same_setm s k m : same_scalars s (setm s k m). Proof. split; reflexivity. Qed.
Lemma same_setl s r l : same_scalars s (setl s r l). Proof. split; reflexivity. Qed.
Lemma same_free s r : same_scalars s (free_lock s r).
Proof.
  unfold free_lock. destruct (aget (store s) r); [|apply same_refl].
  eapply same_trans; [|apply same_updm]. split; reflexivity.
Qed.
Lemma same_rmmgr s k : same_scalars s (remove_mgr_if_unref s k).
Proof.
  unfold remove_mgr_if_unref. destruct (aget (mgrs s) k); [|apply same_refl].
  destruct (m_ref m =? 0); [|apply same_refl]. split; reflexivity.
Qed.
Lemma same_unref s r : same_scalars s (unref s r).
Proof.
  unfold unref. destruct (aget (store s) r); [|apply same_refl].
  destruct (dec8 (l_refc l) =? 0).
  - eapply same_trans; [apply same_setl|apply same_free].
  - apply same_setl.
Qed.

(* ------------------------------------------------------------------ the census order *)
Definition kk : Type := (N * N)%type.
Definition klt (a b : kk) : Prop := fst a < fst b \/ (fst a = fst b /\ snd a < snd b).
Lemma klt_irrefl a : ~ klt a a. Proof. unfold klt. lia. Qed.
Lemma klt_trans a b c : klt a b -> klt b c -> klt a c. Proof. unfold klt. lia. Qed.
Lemma klt_total a b : klt a b \/ a = b \/ klt b a.
Proof. destruct a as [a1 a2], b as [b1 b2]. unfold klt. cbn [fst snd]. assert (a1 < b1 \/ a1 = b1 \/ b1 < a1) by lia.
  assert (a2 < b2 \/ a2 = b2 \/ b2 < a2) by lia. intuition (subst; auto). Qed.

Section SortedUnique.
  Context {A : Type} (kf : A -> kk).
  Definition alt (a b : A) : Prop := klt (kf a) (kf b).
  Definition ssorted (l : list A) : Prop := StronglySorted alt l.

  Lemma ssorted_unique l1 : forall l2, ssorted l1 -> ssorted l2 -> (forall x, In x l1 <-> In x l2) -> l1 = l2.
  Proof.
    induction l1 as [|a l1 IH]; intros [|b l2] S1 S2 H; auto.
    - exfalso. apply (proj2 (H b)). left; auto.
    - exfalso. apply (proj1 (H a)). left; auto.
    - inversion S1 as [|? ? S1' F1]; subst. inversion S2 as [|? ? S2' F2]; subst.
      rewrite Forall_forall in F1, F2.
      assert (E : a = b).
      { destruct (proj1 (H a) (or_introl eq_refl)) as [E|Ha]; auto.
        destruct (proj2 (H b) (or_introl eq_refl)) as [E|Hb]; auto.
        exfalso. apply (klt_irrefl (kf a)). eapply klt_trans; [apply (F1 b Hb)|apply (F2 a Ha)]. }
      subst b. f_equal. apply IH; auto. intros x. split; intros Hx.
      + destruct (proj1 (H x) (or_intror Hx)) as [E|]; auto. subst x. exfalso. apply (klt_irrefl (kf a)), (F1 a Hx).
      + destruct (proj2 (H x) (or_intror Hx)) as [E|]; auto. subst x. exfalso. apply (klt_irrefl (kf a)), (F2 a Hx).
  Qed.

  Lemma ssorted_filter p l : ssorted l -> ssorted (filter p l).
  Proof.
    induction 1 as [|a l S IH F]; cbn [filter]; [constructor|].
    destruct (p a); auto. constructor; auto.
    rewrite Forall_forall in *. intros x Hx. apply filter_In in Hx. apply F. tauto.
  Qed.
End SortedUnique.

Lemma ssorted_map {A B} (kfa : A -> kk) (kfb : B -> kk) (f : A -> B) l :
  (forall a, kfb (f a) = kfa a) -> ssorted kfa l -> ssorted kfb (map f l).
Proof.
  intros Hk. induction 1 as [|a l S IH F]; cbn [map]; constructor; auto.
  rewrite Forall_forall in *. intros x Hx. apply in_map_iff in Hx. destruct Hx as [y [<- Hy]].
  unfold alt. rewrite !Hk. apply F. exact Hy.
Qed.

Definition hk (h : hold) : kk := (h_key h, h_lockid h).

Lemma hold_leb_spec a b : hold_leb a b = true <-> klt (hk a) (hk b) \/ hk a = hk b.
Proof.
  unfold hold_leb, klt, hk. cbn [fst snd]. split.
  - intros H. apply orb_prop in H. destruct H as [H|H]; [left; left; lia|].
    apply andb_prop in H. destruct H as [H1 H2].
    assert (h_lockid a < h_lockid b \/ h_lockid a = h_lockid b) as [|] by lia.
    + left. right. lia.
    + right. f_equal; lia.
  - intros [[H|[H1 H2]]|H].
    + apply orb_true_intro. left. lia.
    + apply orb_true_intro. right. apply andb_true_intro. split; lia.
    + inversion H. apply orb_true_intro. right. apply andb_true_intro. split; lia.
Qed.

Lemma hinsert_in h l x : In x (hinsert h l) <-> x = h \/ In x l.
Proof.
  induction l as [|y l IH]; cbn [hinsert].
  - simpl. intuition.
  - destruct (hold_leb h y); simpl; [intuition|]. rewrite IH. simpl. intuition.
Qed.

Lemma hinsert_sorted h l : ssorted hk l -> (forall x, In x l -> hk x <> hk h) -> ssorted hk (hinsert h l).
Proof.
  intros S. induction S as [|y l S IH F]; intros Hne; cbn [hinsert].
  - constructor; constructor.
  - rewrite Forall_forall in F.
    destruct (hold_leb h y) eqn:E.
    + apply hold_leb_spec in E. destruct E as [E|E]; [|exfalso; apply (Hne y (or_introl eq_refl)); congruence].
      constructor; [constructor; auto; rewrite Forall_forall; auto|].
      rewrite Forall_forall. intros x [<-|Hx]; auto. eapply klt_trans; [exact E|apply F; auto].
    + assert (Hlt : klt (hk y) (hk h)).
      { destruct (klt_total (hk h) (hk y)) as [T|[T|T]]; auto.
        - assert (hold_leb h y = true) by (apply hold_leb_spec; auto). congruence.
        - assert (hold_leb h y = true) by (apply hold_leb_spec; auto). congruence. }
      constructor.
      * apply IH. intros x Hx. apply Hne. right. exact Hx.
      * rewrite Forall_forall. intros x Hx. apply hinsert_in in Hx. destruct Hx as [->|Hx]; [exact Hlt|apply F; exact Hx].
Qed.

Lemma hsort_in l x : In x (hsort l) <-> In x l.
Proof.
  induction l as [|h l IH]; [cbn; tauto|].
  change (hsort (h :: l)) with (hinsert h (hsort l)). rewrite hinsert_in, IH. simpl. intuition.
Qed.

Lemma hsort_sorted l : NoDup (map hk l) -> ssorted hk (hsort l).
Proof.
  induction l as [|h l IH]; intros H; [constructor|].
  change (hsort (h :: l)) with (hinsert h (hsort l)). cbn [map] in H. inversion H as [|? ? Hn Hd]; subst. apply hinsert_sorted; auto.
  intros x Hx E. apply (proj1 (hsort_in _ _)) in Hx. apply Hn. rewrite <- E. apply in_map. exact Hx.
Qed.

(* the 7-tuples of Recover.holds_of *)
Definition htuple : Type := (N * N * N * N * N * Z * option bytes)%type.
Definition tk (t : htuple) : kk := let '(k, id, _, _, _, _, _) := t in (k, id).
Definition tuple_of (h : hold) : htuple :=
  (h_key h, h_lockid h, h_depth h, h_count h, h_rcount h, h_deadline h, h_value h).
Lemma holds_of_eq s : holds_of s = map tuple_of (holds_full s).
Proof. reflexivity. Qed.

(* raw census: membership in terms of the store *)
Lemma raw_holds_in s h :
  awf (store s) ->
  (In h (raw_holds s) <-> exists r l, aget (store s) r = Some l /\ 0 < l_locked l /\ h = hold_of s l).
Proof.
  intros W. unfold raw_holds. rewrite in_flat_map. split.
  - intros [[r l] [Hi Hh]]. destruct (0 <? l_locked l) eqn:E; [|contradiction].
    destruct Hh as [<-|[]]. exists r, l. split; [apply in_aget; auto|]. split; [lia|reflexivity].
  - intros (r & l & Hg & Hl & ->). exists (r, l). split; [apply aget_in; auto|].
    assert (E : (0 <? l_locked l) = true) by lia. rewrite E. left. reflexivity.
Qed.

(* ------------------------------------------------------------------ the persisted-holds ledger
   Replay of the record stream as a map: key -> the LOCK record of the hold that is persisted and not released.
   (Sub-language: exclusive holds, one hold per key; a LOCK record on an occupied key overwrites - the
   well-formedness predicates below exclude it.) *)
Definition ledger : Type := amap aofrec.

Definition lstep (L : ledger) (r : aofrec) : ledger :=
  if a_lock r then aset L (a_key r) r
  else match aget L (a_key r) with
       | Some e => if a_lockid e =? a_lockid r then adel L (a_key r) else L
       | None => L
       end.

(* with LoadAofFile's expiry filter (wall clock) *)
Definition lstep_f (wall : Z) (L : ledger) (r : aofrec) : ledger := if load_skip r wall then L else lstep L r.

Definition ledger_of (recs : list aofrec) : ledger := fold_left lstep recs [].
Definition ledger_at (wall : Z) (recs : list aofrec) : ledger := fold_left (lstep_f wall) recs [].

Lemma awf_lstep L r : awf L -> awf (lstep L r).
Proof.
  intros W. unfold lstep. destruct (a_lock r); [apply awf_aset; auto|].
  destruct (aget L (a_key r)); auto. destruct (a_lockid a =? a_lockid r); auto. apply awf_adel; auto.
Qed.
Lemma awf_lstep_f w L r : awf L -> awf (lstep_f w L r).
Proof. intros W. unfold lstep_f. destruct (load_skip r w); auto. apply awf_lstep; auto. Qed.
Lemma awf_fold_lstep_f w recs : forall L, awf L -> awf (fold_left (lstep_f w) recs L).
Proof. induction recs as [|r recs IH]; intros L W; cbn [fold_left]; auto. apply IH, awf_lstep_f, W. Qed.

(* every key of the ledger maps to a LOCK record of that key *)
Definition ledger_keyed (L : ledger) : Prop := forall k e, aget L k = Some e -> a_key e = k /\ a_lock e = true.
Lemma keyed_lstep L r : ledger_keyed L -> ledger_keyed (lstep L r).
Proof.
  intros H k e. unfold lstep. destruct (a_lock r) eqn:El.
  - rewrite aget_aset. destruct (a_key r =? k) eqn:E.
    + intros Q. inv Q. split; [lia|auto].
    + apply H.
  - destruct (aget L (a_key r)) as [e0|] eqn:G; [|apply H].
    destruct (a_lockid e0 =? a_lockid r); [|apply H].
    rewrite aget_adel. destruct (a_key r =? k); [discriminate|apply H].
Qed.
Lemma keyed_lstep_f w L r : ledger_keyed L -> ledger_keyed (lstep_f w L r).
Proof. intros H. unfold lstep_f. destruct (load_skip r w); auto. apply keyed_lstep; auto. Qed.
Lemma keyed_nil : ledger_keyed [].
Proof. intros k e H. discriminate. Qed.

(* ------------------------------------------------------------------ sums over extensionally equal maps *)
Lemma asum_ext {V} (f : V -> nat) (m1 : amap V) : forall m2,
  awf m1 -> awf m2 -> (forall k, aget m1 k = aget m2 k) -> asum f m1 = asum f m2.
Proof.
  induction m1 as [|[k v] t IH]; intros m2 W1 W2 H.
  - destruct m2 as [|[k2 v2] t2]; [reflexivity|]. specialize (H k2). cbn in H. rewrite N.eqb_refl in H. discriminate.
  - inversion W1 as [|? ? Wn Wt]; subst.
    assert (G : aget m2 k = Some v). { rewrite <- H. cbn. rewrite N.eqb_refl. reflexivity. }
    pose proof (asum_adel f m2 k W2) as A. rewrite G in A. cbn [oget] in A.
    cbn [asum fold_right snd]. fold (asum f t). rewrite <- A.
    rewrite (IH (adel m2 k)); [lia|exact Wt|apply awf_adel; exact W2|].
    intros k'. rewrite aget_adel. destruct (k =? k') eqn:E.
    + apply N.eqb_eq in E; subst k'. apply aget_none_iff. exact Wn.
    + rewrite <- H. cbn. rewrite E. reflexivity.
Qed.

Lemma asum_frame {V} (f : V -> nat) (m1 m2 : amap V) r :
  awf m1 -> awf m2 -> (forall k, k <> r -> aget m2 k = aget m1 k) ->
  (asum f m2 + oget f (aget m1 r) = asum f m1 + oget f (aget m2 r))%nat.
Proof.
  intros W1 W2 H.
  pose proof (asum_adel f m1 r W1) as A1. pose proof (asum_adel f m2 r W2) as A2.
  assert (E : asum f (adel m1 r) = asum f (adel m2 r)).
  { apply asum_ext; try (apply awf_adel; assumption). intros k. rewrite !aget_adel.
    destruct (r =? k) eqn:Q; [reflexivity|]. symmetry. apply H. apply N.eqb_neq in Q. congruence. }
  lia.
Qed.

Definition kind (k : N) (l : lockrec) : nat := if N.eqb (l_key l) k then 1%nat else O.
Lemma key_cnt_eq k st : key_cnt k st = asum (kind k) st. Proof. reflexivity. Qed.

Lemma key_cnt_frame k st st' r :
  awf st -> awf st' -> (forall r', r' <> r -> aget st' r' = aget st r') ->
  (key_cnt k st' + oget (kind k) (aget st r) = key_cnt k st + oget (kind k) (aget st' r))%nat.
Proof. intros. rewrite !key_cnt_eq. apply asum_frame; assumption. Qed.

Lemma key_cnt_ext k st st' : awf st -> awf st' -> (forall r, aget st' r = aget st r) -> key_cnt k st' = key_cnt k st.
Proof. intros W W' H. rewrite !key_cnt_eq. apply asum_ext; auto. Qed.

Lemma key_cnt_pos k st r l : aget st r = Some l -> l_key l = k -> (1 <= key_cnt k st)%nat.
Proof.
  intros H Hk. rewrite key_cnt_eq. pose proof (asum_pos (kind k) st r l H) as P.
  unfold kind in P at 1. rewrite Hk, N.eqb_refl in P. exact P.
Qed.

Lemma key_cnt_zero k st : (forall r l, aget st r = Some l -> l_key l <> k) -> awf st -> key_cnt k st = O.
Proof.
  intros H W. rewrite key_cnt_eq. induction st as [|[r l] t IH]; [reflexivity|].
  cbn [asum fold_right snd]. fold (asum (kind k) t). inversion W as [|? ? Wn Wt]; subst.
  rewrite IH; auto.
  - unfold kind. destruct (l_key l =? k) eqn:E; [|reflexivity]. apply N.eqb_eq in E. exfalso.
    apply (H r l); [cbn; rewrite N.eqb_refl; reflexivity|exact E].
  - intros r' l' H'. apply (H r' l'). cbn. destruct (r =? r') eqn:E; [|exact H'].
    apply N.eqb_eq in E; subst r'. exfalso. apply Wn. apply aget_in in H'. change r with (fst (r, l')). apply in_map. exact H'.
Qed.
