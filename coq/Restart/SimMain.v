(* C07 - general simulation, part 8: composition of the writer side (SimWriter), the record-stream lemma (SimLedger),
   the reader side (SimReader) and the proved seconds conversion (RestartProofs.conv_seconds). *)
From Coq Require Import String ZifyN ZifyBool ZifyNat.
From Slock Require Import Engine.Types Engine.Queues Engine.Timers Engine.Engine Engine.Engine2 Restart.Recover
  Restart.RestartProofs Restart.SimBase Restart.SimExec Restart.SimInv Restart.SimReader Restart.SimLedger
  Restart.SimSweep Restart.SimWInv Restart.SimWriter.
Open Scope N_scope.

(* what the property promises about the census after a restart at now' *)
Definition live_persisted (now' : Z) (h : hold) : bool := h_isaof h && (now' <? h_deadline h)%Z.
Definition rearmed (h : hold) : htuple :=
  (h_key h, h_lockid h, h_depth h, h_count h, h_rcount h, (h_deadline h + 1)%Z, h_value h).
Definition expected_holds (s : db) (now' : Z) : list htuple :=
  map rearmed (filter (live_persisted now') (holds_full s)).

Lemma expected_sorted s now' : Shape s -> ssorted tk (expected_holds s now').
Proof.
  intros H. unfold expected_holds. apply (ssorted_map hk tk rearmed); [intros a; reflexivity|].
  apply ssorted_filter. apply hsort_sorted, raw_holds_nodup, H.
Qed.

Lemma expected_in s now' t : Shape s ->
  (In t (expected_holds s now') <->
   exists r l, aget (store s) r = Some l /\ l_locked l = 1 /\ l_isaof l = true /\ (now' < l_eT l)%Z /\ t = rearmed (hold_of s l)).
Proof.
  intros H. unfold expected_holds. rewrite in_map_iff. split.
  - intros (h & <- & Hh). apply filter_In in Hh. destruct Hh as [Hh Hp].
    unfold holds_full in Hh. apply (proj1 (hsort_in _ _)) in Hh. apply (proj1 (raw_holds_in s h (sh_awf _ H))) in Hh.
    destruct Hh as (r & l & Hr & P & ->). unfold live_persisted, hold_of in Hp. cbn [h_isaof h_deadline] in Hp.
    apply andb_prop in Hp. destruct Hp as [P1 P2]. exists r, l. csplit; auto; [apply (shape_locked_one s r l H Hr P)|lia].
  - intros (r & l & Hr & P & Ia & Hd & ->). exists (hold_of s l). split; [reflexivity|]. apply filter_In. split.
    + unfold holds_full. apply (proj2 (hsort_in _ _)). apply (proj2 (raw_holds_in s _ (sh_awf _ H))). exists r, l. csplit; auto. lia.
    + unfold live_persisted, hold_of. cbn [h_isaof h_deadline]. rewrite Ia. cbn [andb]. lia.
Qed.

(* the re-armed deadline of a LOCK record of the sub-language, from the proved conversion (used at the wall clock for
   the filter and at the DB clock for the remaining term) *)
Lemma rearm_of_lock_rec s l ct now' :
  wrec s l -> l_locked l = 1 -> c_tflag (l_cmd l) = 0 -> (l_start l <= ct)%Z -> (ct <= now' < l_eT l)%Z ->
  let e := lock_rec_of l ct None in
  load_skip e now' = false /\ rearm_deadline e now' = (l_eT l + 1)%Z.
Proof.
  intros Wr Hl At Hs Hn. pose proof Wr as (W1 & W2 & W3 & W4 & W5 & W6). destruct (W6 Hl) as (W7 & W8). cbv zeta.
  destruct (lock_rec_fields s l ct Wr Hl At ltac:(lia)) as ((Fp & Fu & Fe) & F2 & F3 & F4 & F5 & F6 & F7 & F8). cbv zeta in *.
  set (e := lock_rec_of l ct None) in *.
  assert (Ee : a_etime e = etime_of (c_eflag (l_cmd l)) (c_expried (l_cmd l)) (l_eT l) ct) by reflexivity.
  assert (Ef : a_eflag e = c_eflag (l_cmd l)) by reflexivity.
  destruct (conv_seconds fix_ms_remaining (c_eflag (l_cmd l)) (c_expried (l_cmd l)) (l_eT l) ct now' (a_start e) W4)
    as (C1 & C2 & C3); try lia.
  cbv zeta in C1, C2, C3.
  assert (Er : conv_rec (a_eflag e) (a_etime e) (a_ctime e) (a_start e)
               = conv_rec (c_eflag (l_cmd l)) (etime_of (c_eflag (l_cmd l)) (c_expried (l_cmd l)) (l_eT l) ct) ct (a_start e)).
  { rewrite Ee, Ef, F6. reflexivity. }
  split.
  - rewrite load_skip_fields, Er. exact C1.
  - unfold rearm_deadline. rewrite expiry_deadline_terms. rewrite (load_cmd_lock e now' Fp). cbn [c_eflag c_expried].
    unfold cmd_expried_time. rewrite cmd_expried_time_fx_fields, Er, Ef. exact C3.
Qed.

(* ------------------------------------------------------------------ the general simulation on the sub-language
   (two clocks as in the code: LoadAofFile filters against the wall clock, the conversion uses the DB clock) *)
Theorem sim_main_clocks t0 aoft acts wall dbnow :
  (0 <= t0)%Z -> sub_hist acts ->
  exists s tr, run (init_db t0 aoft) acts = (s, tr) /\
    ((now s <= dbnow)%Z -> (dbnow <= wall)%Z ->
     holds_of (recover_at aoft (records_of tr) wall dbnow) = expected_holds s wall).
Proof.
  intros Ht Hsub. destruct (sim_writer t0 aoft acts Ht Hsub) as (s & tr & P & H & HL & Hwb & Hct).
  exists s, tr. split; [exact P|]. intros Hnow Hclk. set (recs := records_of tr) in *.
  pose proof (ws_shape _ H) as Hsh.
  destruct (wb_replay (now s) wall dbnow recs Hnow Hclk [] [] (Lwf_nil _) (fun k => eq_refl) Hwb Hct) as (Rok & HLwf & Hfil).
  fold (ledger_of recs) in HLwf, Hfil. fold (ledger_at wall recs) in Hfil.
  destruct (sim_reader aoft recs wall dbnow Rok) as (Rs & Rin).
  apply (ssorted_unique tk); [exact Rs|apply expected_sorted; exact Hsh|].
  intros t. rewrite Rin, (expected_in s wall t Hsh). split.
  - intros (k & e & He & ->). rewrite Hfil in He. destruct (aget (ledger_of recs) k) as [e0|] eqn:E0; [|discriminate].
    cbn [live_of] in He. destruct (load_skip e0 wall) eqn:Sk; [discriminate|]. injection He as <-.
    destruct (wl_a _ _ HL _ _ E0) as (r & l & (Hr & Hl & Ia) & Hk & (ct & -> & Hc1)).
    destruct (HLwf _ _ E0) as (_ & Hc2). change (a_ctime (lock_rec_of l ct None)) with ct in Hc2.
    destruct (sh_rec _ Hsh _ _ Hr) as (_ & _ & A3 & (_ & _ & At & _) & _).
    pose proof (ws_rec _ H r l Hr) as Wr. pose proof Wr as (W1 & W2 & W3 & W4 & W5 & W6).
    destruct (lock_rec_fields s l ct Wr Hl At Hc1) as ((Fp & Fu & Fe) & F2 & F3 & F4 & F5 & F6 & F7 & F8). cbv zeta in *.
    assert (Hlive : (wall < l_eT l)%Z).
    { rewrite (load_skip_seconds _ wall Fu) in Sk. rewrite <- F5. apply andb_false_iff in Sk. lia. }
    destruct (rearm_of_lock_rec s l ct dbnow Wr Hl At ltac:(lia) ltac:(lia)) as (_ & Rd). cbv zeta in Rd.
    exists r, l. csplit; auto.
    unfold entry_tuple, rearmed, hold_of. cbn [h_key h_lockid h_depth h_count h_rcount h_deadline h_value].
    rewrite Rd, F3, F4, F7, F8, A3, Hl, W2, W3, (shape_value_none s _ Hsh). reflexivity.
  - intros (r & l & Hr & Hl & Ia & Hlive & ->).
    assert (Pl : pheld s r l) by (split; [exact Hr|split; assumption]).
    destruct (aget (ledger_of recs) (l_key l)) as [e|] eqn:E0; [|exfalso; apply (wl_b _ _ HL r l Pl E0)].
    destruct (wl_a _ _ HL _ _ E0) as (r1 & l1 & (Hr1 & Hl1 & Ia1) & Hk1 & (ct & -> & Hc1)).
    assert (r1 = r) by (apply (shape_held_unique s r1 l1 r l Hsh Hr1 Hr); try lia; exact Hk1). subst r1.
    rewrite Hr in Hr1. injection Hr1 as <-.
    destruct (HLwf _ _ E0) as (_ & Hc2). change (a_ctime (lock_rec_of l ct None)) with ct in Hc2.
    destruct (sh_rec _ Hsh _ _ Hr) as (_ & _ & A3 & (_ & _ & At & _) & _).
    pose proof (ws_rec _ H r l Hr) as Wr. pose proof Wr as (W1 & W2 & W3 & W4 & W5 & W6).
    destruct (lock_rec_fields s l ct Wr Hl At Hc1) as ((Fp & Fu & Fe) & F2 & F3 & F4 & F5 & F6 & F7 & F8). cbv zeta in *.
    destruct (rearm_of_lock_rec s l ct wall Wr Hl At ltac:(lia) ltac:(lia)) as (Sk & _). cbv zeta in Sk.
    destruct (rearm_of_lock_rec s l ct dbnow Wr Hl At ltac:(lia) ltac:(lia)) as (_ & Rd). cbv zeta in Rd.
    exists (l_key l), (lock_rec_of l ct None). split.
    + rewrite Hfil, E0. cbn [live_of]. rewrite Sk. reflexivity.
    + unfold entry_tuple, rearmed, hold_of. cbn [h_key h_lockid h_depth h_count h_rcount h_deadline h_value].
      rewrite Rd, F3, F4, F7, F8, A3, Hl, W2, W3, (shape_value_none s _ Hsh). reflexivity.
Qed.

Theorem sim_main t0 aoft acts now' :
  (0 <= t0)%Z -> sub_hist acts ->
  exists s tr, run (init_db t0 aoft) acts = (s, tr) /\
    ((now s <= now')%Z -> holds_of (recover_at aoft (records_of tr) now' now') = expected_holds s now').
Proof.
  intros Ht Hsub. destruct (sim_main_clocks t0 aoft acts now' now' Ht Hsub) as (s & tr & P & Q).
  exists s, tr. split; [exact P|]. intros Hn. apply Q; [exact Hn|apply Z.le_refl].
Qed.

Corollary sim_pipeline_clocks t0 aoft acts wall dbnow :
  (0 <= t0)%Z -> sub_hist acts ->
  let '(s, recs, s') := run_and_recover t0 aoft acts wall dbnow in
  (now s <= dbnow)%Z -> (dbnow <= wall)%Z -> holds_of s' = expected_holds s wall.
Proof.
  intros Ht Hsub. destruct (sim_main_clocks t0 aoft acts wall dbnow Ht Hsub) as (s & tr & P & Q).
  unfold run_and_recover. rewrite P. exact Q.
Qed.

Corollary sim_pipeline t0 aoft acts now' :
  (0 <= t0)%Z -> sub_hist acts ->
  let '(s, recs, s') := run_and_recover t0 aoft acts now' now' in
  (now s <= now')%Z -> holds_of s' = expected_holds s now'.
Proof.
  intros Ht Hsub. destruct (sim_main t0 aoft acts now' Ht Hsub) as (s & tr & P & Q).
  unfold run_and_recover. rewrite P. exact Q.
Qed.

(* ------------------------------------------------------------------ executable membership test of the sub-language *)
Definition unit_seconds_b (ef : N) : bool :=
  negb (has ef EF_UNLIMITED) && negb (has ef EF_MILLISECOND) && negb (has ef EF_MINUTE).
Definition sub_lock_b (c : cmd) : bool :=
  c_lock c && (c_flag c =? 0) && (c_tflag c =? 0) && (c_timeout c =? 0) && unit_seconds_b (c_eflag c)
  && (0 <? c_expried c) && (c_expried c <=? 65534) && (c_count c =? 0) && (c_rcount c =? 0)
  && match c_data c with None => true | Some _ => false end.
Definition sub_unlock_b (c : cmd) : bool := negb (c_lock c) && (c_flag c =? 0).
Definition sub_action_b (a : action) : bool :=
  match a with
  | AReq _ c => sub_lock_b c || sub_unlock_b c
  | AAdvance k => (0 <=? k)%Z
  | ASweepT | ASweepE => true
  | AAck _ _ | ARole _ => false
  end.
Definition sub_hist_b (acts : list action) : bool :=
  forallb sub_action_b acts && (N.of_nat (length acts) + 2 <? B32).

Lemma sub_action_b_sound a : sub_action_b a = true -> sub_action a.
Proof.
  destruct a as [conn c|k| | |r ok|b]; cbn [sub_action_b sub_action]; intros H; try exact I; try discriminate; [|lia].
  apply orb_prop in H. destruct H as [H|H].
  - left. unfold sub_lock_b, unit_seconds_b in H. unfold sub_lock, unit_seconds.
    repeat match goal with X : _ && _ = true |- _ => apply andb_prop in X; destruct X end.
    destruct (c_data c); [discriminate|]. destruct (c_lock c); [|discriminate].
    repeat match goal with X : negb _ = true |- _ => apply negb_true_iff in X end.
    csplit; auto; lia.
  - right. unfold sub_unlock_b in H. apply andb_prop in H. destruct H as [H1 H2]. split; [|lia].
    destruct (c_lock c); [discriminate|reflexivity].
Qed.

Lemma sub_hist_b_sound acts : sub_hist_b acts = true -> sub_hist acts.
Proof.
  unfold sub_hist_b, sub_hist. intros H. apply andb_prop in H. destruct H as [H1 H2]. split; [|lia].
  apply Forall_forall. intros a Ha. apply sub_action_b_sound. rewrite forallb_forall in H1. apply H1. exact Ha.
Qed.
