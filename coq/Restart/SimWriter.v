(* C07 - general simulation, part 7 (writer side): every action of the sub-language preserves the writer invariant and
   extends the record stream by a well-bracketed suffix; hence the ledger of the records of a run lists exactly the
   persisted holds of the final state. *)
From Coq Require Import String ZifyN ZifyBool ZifyNat.
From Slock Require Import Engine.Types Engine.Queues Engine.Timers Engine.Engine Engine.Engine2 Restart.Recover
  Restart.RestartProofs Restart.SimBase Restart.SimExec Restart.SimInv Restart.SimReader Restart.SimLedger
  Restart.SimSweep Restart.SimWInv.
Open Scope N_scope.

(* ------------------------------------------------------------------ fields of the records of a sub-language hold *)
Lemma etime_seconds c eT ct :
  unit_seconds (c_eflag c) -> (0 < eT)%Z -> (0 <= eT - ct < 65536)%Z ->
  Z.of_N (aof_expried_time c eT ct) = (eT - ct)%Z.
Proof.
  intros (U1 & U2 & U3) H0 H1. unfold aof_expried_time. rewrite U1, U2, U3.
  assert (E1 : (0 <? eT)%Z = true) by lia. rewrite E1.
  destruct (0 <? eT - ct)%Z eqn:E2; [|lia]. rewrite N.mod_small by lia. lia.
Qed.

Lemma lock_rec_fields s l ct :
  wrec s l -> l_locked l = 1 -> c_tflag (l_cmd l) = 0 -> (l_start l <= ct < l_eT l)%Z ->
  let e := lock_rec_of l ct None in
  lock_wf e /\ a_lock e = true /\ a_key e = c_key (l_cmd l) /\ a_lockid e = c_lockid (l_cmd l) /\
  (a_ctime e + Z.of_N (a_etime e) = l_eT l)%Z /\ a_ctime e = ct /\ a_count e = 0 /\ a_rcount e = 0.
Proof.
  intros (W1 & W2 & W3 & W4 & W5 & W6) Hl Ht Hct. destruct (W6 Hl) as (W7 & W8). cbv zeta.
  pose proof (etime_seconds (l_cmd l) (l_eT l) ct W4 ltac:(lia) ltac:(lia)) as Et.
  unfold lock_rec_of. cbn [a_lock a_key a_lockid a_ctime a_etime a_count a_rcount].
  split; [|csplit; auto; lia].
  unfold lock_wf, lock_rec_plain. cbn [a_flag a_aofflag a_eflag a_etime]. rewrite W1, Ht. cbn. csplit; auto; try lia.
  destruct W4 as (_ & U2 & _). exact U2.
Qed.

Lemma unlock_rec_fields s l uc fl :
  wrec s l -> l_locked l = 1 -> c_tflag (l_cmd l) = 0 ->
  let u := unlock_rec_of l (l_cmd l) uc fl (ctime_of s l) None in
  a_lock u = false /\ a_flag u = 0 /\ a_aofflag u = fl /\ a_key u = c_key (l_cmd l) /\ a_lockid u = c_lockid (l_cmd l) /\
  unit_seconds (a_eflag u) /\ a_etime u < 65536 /\
  (0 < a_etime u -> (a_ctime u + Z.of_N (a_etime u) = l_eT l)%Z) /\ (a_ctime u <= now s)%Z.
Proof.
  intros (W1 & W2 & W3 & W4 & W5 & W6) Hl Ht. destruct (W6 Hl) as (W7 & W8). cbv zeta.
  unfold unlock_rec_of, ctime_of. cbn [a_lock a_flag a_aofflag a_key a_lockid a_eflag a_etime a_ctime]. rewrite Ht. cbn [has].
  change (N.lor fl (N.lor (if has 0 TF_REQUIRE_ACKED then AOF_FLAG_REQUIRE_ACKED else 0)
                          (N.lor (if has 0 TF_PRIORITY then AOF_FLAG_RCOUNT_IS_PRIORITY else 0) 0))) with (N.lor fl 0).
  rewrite N.lor_0_r.
  assert (P0 : (0 < l_eT l)%Z) by lia.
  assert (Q : forall ct, (ct = now s /\ now s < l_eT l)%Z \/ (ct = l_eT l /\ l_eT l <= now s)%Z ->
               aof_expried_time (l_cmd l) (l_eT l) ct < 65536 /\
               (0 < aof_expried_time (l_cmd l) (l_eT l) ct -> (ct + Z.of_N (aof_expried_time (l_cmd l) (l_eT l) ct) = l_eT l)%Z) /\
               (ct <= now s)%Z).
  { intros ct Hct. assert (R : (0 <= l_eT l - ct < 65536)%Z) by lia.
    pose proof (etime_seconds (l_cmd l) (l_eT l) ct W4 P0 R). lia. }
  csplit; auto; destruct (now s <? l_eT l)%Z eqn:E; apply Q; lia.
Qed.

(* ------------------------------------------------------------------ micro steps *)
Record wstep (s : db) (L : ledger) (s' : db) (recs : list aofrec) : Prop := mkWstep {
  wt_ws : WS s';
  wt_wl : WL s' (fold_left lstep recs L);
  wt_wb : wb L recs;
  wt_ct : Forall (fun r => (a_ctime r <= now s)%Z) recs;
  wt_same : same_scalars s s';
  wt_next : next s <= next s' <= next s + 1 }.

Lemma wstep_refl s L : WS s -> WL s L -> wstep s L s [].
Proof. intros H1 H2. apply mkWstep; cbn; auto. apply same_refl. lia. Qed.

Lemma wstep_trans0 s L s1 r1 s2 r2 :
  wstep s L s1 r1 -> next s1 = next s -> wstep s1 (fold_left lstep r1 L) s2 r2 -> wstep s L s2 (r1 ++ r2).
Proof.
  intros [A1 A2 A3 A4 A5 A6] Hn [B1 B2 B3 B4 B5 B6]. split; auto.
  - rewrite fold_left_app. exact B2.
  - apply wb_app. split; assumption.
  - apply Forall_app. split; [exact A4|]. rewrite (ss_now _ _ A5) in B4. exact B4.
  - eapply same_trans; eauto.
  - lia.
Qed.

(* persisted holds other than r are untouched by an effect on record r *)
Lemma pheld_frame s s' r k r0 l0 : eff s s' r k -> r0 <> r -> (pheld s' r0 l0 <-> pheld s r0 l0).
Proof. intros E Hne. unfold pheld. rewrite (ef_l _ _ _ _ E r0 Hne). tauto. Qed.

(* dropping a reference of a dead record *)
Lemma wstep_dropped s L s' r k l m :
  WS s -> WL s L -> next s < B32 -> aget (store s) r = Some l -> l_key l = k -> l_locked l = 0 -> aget (mgrs s) k = Some m ->
  eff s s' r k -> dropped s' r k l m -> wstep s L s' [].
Proof.
  intros H HL Hb Hr Hk Hz Hm E D. apply mkWstep; cbn [fold_left wb]; [| |exact I|constructor| |].
  - apply (ws_dropped s s' r k l m); auto.
  - apply (wl_frame s s' L HL).
    + intros r0 l0 P. assert (r0 <> r). { intros ->. destruct P as (R & Q & _). rewrite Hr in R. injection R as <-. lia. }
      exists l0. split; [apply (pheld_frame s s' r k r0 l0 E H0); exact P|]. auto.
    + intros r0 l0 P. assert (r0 <> r).
      { intros ->. destruct P as (R & Q & _). destruct D as [(l' & R' & D' & _)|(R' & _)]; [|congruence].
        rewrite R' in R. injection R as <-. destruct D' as (D1 & _). lia. }
      exists l0. split; [apply (pheld_frame s s' r k r0 l0 E H0); exact P|reflexivity].
  - apply (ef_same _ _ _ _ E).
  - rewrite (ef_next _ _ _ _ E). lia.
Qed.

(* record r keeps its core, expried flag and persistence mark *)
Lemma wstep_core s L s' r k l l' :
  WS s -> WL s L -> eff s s' r k -> aget (store s) r = Some l -> aget (store s') r = Some l' ->
  core_eq l l' -> l_expried l' = l_expried l -> l_isaof l' = l_isaof l -> aget (mgrs s') k = aget (mgrs s) k ->
  wstep s L s' [].
Proof.
  intros H HL E Hr Hr' C Hx Hi Hmk. pose proof C as (K1 & K2 & K3 & K4 & K5 & K6 & K7 & K8).
  apply mkWstep; cbn [fold_left wb]; [| |exact I|constructor| |].
  - apply (ws_core s s' r k l l'); auto.
  - apply (wl_frame s s' L HL).
    + intros r0 l0 P. destruct (N.eq_dec r0 r) as [->|Hne].
      * destruct P as (R & Q1 & Q2). rewrite Hr in R. injection R as <-. exists l'. split; [split; [exact Hr'|split; congruence]|].
        split; [exact K1|]. intros e. apply rec_matches_core. exact C.
      * exists l0. split; [apply (pheld_frame s s' r k r0 l0 E Hne); exact P|]. auto.
    + intros r0 l0 P. destruct (N.eq_dec r0 r) as [->|Hne].
      * destruct P as (R & Q1 & Q2). rewrite Hr' in R. injection R as <-. exists l. split; [split; [exact Hr|split; congruence]|]. congruence.
      * exists l0. split; [apply (pheld_frame s s' r k r0 l0 E Hne); exact P|reflexivity].
  - apply (ef_same _ _ _ _ E).
  - rewrite (ef_next _ _ _ _ E). lia.
Qed.

(* release of hold r: UNLOCK record iff the hold was persisted *)
Lemma wstep_released s L s' r k l m uc fl :
  WS s -> WL s L -> next s < B32 -> aget (store s) r = Some l -> l_key l = k -> l_locked l = 1 -> aget (mgrs s) k = Some m ->
  released s s' r k l m -> has fl AOF_FLAG_CONTAINS_DATA = false ->
  wstep s L s' (if l_isaof l then [unlock_rec_of l (l_cmd l) uc fl (ctime_of s l) None] else []).
Proof.
  intros H HL Hb Hr Hk Hl Hm REL Hfl. pose proof REL as (E & l1 & m1 & D1 & MR & D).
  pose proof (ws_shape _ H) as Hsh.
  destruct (sh_rec _ Hsh _ _ Hr) as (A1 & A2 & A3 & (_ & _ & At & _) & _).
  pose proof (ws_rec _ H r l Hr) as Wr.
  assert (Hdead : forall lx, aget (store s') r = Some lx -> l_locked lx = 0).
  { intros lx Hx. destruct D as [(l' & R' & D' & _)|(R' & _)]; [|congruence]. rewrite R' in Hx. injection Hx as <-. apply D'. }
  assert (Huniq : forall r0 l0, r0 <> r -> pheld s r0 l0 -> l_key l0 <> l_key l).
  { intros r0 l0 Hne (R0 & Q0 & _) Ek. apply Hne. apply (shape_held_unique s r0 l0 r l Hsh R0 Hr); try lia; exact Ek. }
  assert (WSs' : WS s') by (apply (ws_released s s' r k l m); auto).
  destruct (unlock_rec_fields s l uc fl Wr Hl At) as (U1 & U2 & U3 & U4 & U5 & U6 & U7 & U8 & U9). cbv zeta in *.
  set (u := unlock_rec_of l (l_cmd l) uc fl (ctime_of s l) None) in *.
  destruct (l_isaof l) eqn:Ia.
  - assert (P : pheld s r l) by (split; [exact Hr|split; assumption]).
    apply mkWstep; [exact WSs'| | | | |].
    + cbn [fold_left]. apply (wl_del s s' L r l u HL P U1 (eq_trans U4 A3) U5 Huniq).
      * intros r0 l0 Hne P0. exists l0. split; [apply (pheld_frame s s' r k r0 l0 E Hne); exact P0|]. auto.
      * intros r0 l0 P0. assert (r0 <> r). { intros ->. destruct P0 as (R & Q & _). specialize (Hdead _ R). lia. }
        split; [exact H0|]. exists l0. split; [apply (pheld_frame s s' r k r0 l0 E H0); exact P0|reflexivity].
    + cbn [wb]. split; [|exact I]. unfold wb_rec. rewrite U1.
      destruct (aget L (a_key u)) as [e|] eqn:Ee.
      * exists e. split; [reflexivity|].
        destruct (wl_a _ _ HL _ _ Ee) as (r1 & l1' & P1 & Hk1 & (ct & -> & Hct)).
        assert (r1 = r).
        { destruct (N.eq_dec r1 r) as [|Hne]; auto. exfalso. apply (Huniq r1 l1' Hne P1). congruence. }
        subst r1. destruct P1 as (R1 & _). rewrite Hr in R1. injection R1 as <-.
        destruct (lock_rec_fields s l ct Wr Hl At Hct) as (F1 & F2 & F3 & F4 & F5 & F6 & _). cbv zeta in *.
        split; [congruence|]. unfold unlock_wf, unlock_rec_plain. rewrite U2, U3. csplit; auto.
        intros Hp. rewrite (U8 Hp), F5. reflexivity.
      * exfalso. apply (wl_b _ _ HL r l P). congruence.
    + constructor; [exact U9|constructor].
    + apply (ef_same _ _ _ _ E).
    + rewrite (ef_next _ _ _ _ E). lia.
  - apply mkWstep; cbn [fold_left wb]; [exact WSs'| |exact I|constructor| |].
    + apply (wl_frame s s' L HL).
      * intros r0 l0 P0. assert (r0 <> r). { intros ->. destruct P0 as (R & _ & Q). rewrite Hr in R. injection R as <-. congruence. }
        exists l0. split; [apply (pheld_frame s s' r k r0 l0 E H0); exact P0|]. auto.
      * intros r0 l0 P0. assert (r0 <> r). { intros ->. destruct P0 as (R & Q & _). specialize (Hdead _ R). lia. }
        exists l0. split; [apply (pheld_frame s s' r k r0 l0 E H0); exact P0|reflexivity].
    + apply (ef_same _ _ _ _ E).
    + rewrite (ef_next _ _ _ _ E). lia.
Qed.

(* changes of fields other than store / managers *)
Lemma ws_fields s s' :
  WS s -> store s' = store s -> mgrs s' = mgrs s -> next s' = next s -> leader s' = leader s ->
  twheel s' = twheel s -> tlong s' = tlong s -> now s' = now s -> (checkE s' <= now s' + 1)%Z -> WS s'.
Proof.
  intros H Hs Hm Hn Hl Htw Htl Hnow Hc. split.
  - apply (shape_ext s s' (ws_shape _ H) Hs Hm Hn).
  - rewrite Hl. apply (ws_leader _ H).
  - rewrite Htw. apply (ws_tw _ H).
  - rewrite Htl. apply (ws_tl _ H).
  - exact Hc.
  - rewrite Hnow. apply (ws_now _ H).
  - unfold Cnt. rewrite Hs, Hm. apply (ws_cnt _ H).
  - intros r l Hr. rewrite Hs in Hr. apply (wrec_now s s' l Hnow). apply (ws_rec _ H r l Hr).
Qed.

Lemma wl_store s s' L : WL s L -> store s' = store s -> WL s' L.
Proof. intros [A B] Hs. split; unfold pheld in *; rewrite Hs; assumption. Qed.

Lemma wstep_fields s L s' :
  WS s -> WL s L -> store s' = store s -> mgrs s' = mgrs s -> next s' = next s -> same_scalars s s' -> wstep s L s' [].
Proof.
  intros H HL Hs Hm Hn SS. apply mkWstep; cbn [fold_left wb]; [| |exact I|constructor|exact SS|lia].
  - apply (ws_fields s s' H Hs Hm Hn); try apply SS. rewrite (ss_checkE _ _ SS), (ss_now _ _ SS). apply (ws_check _ H).
  - apply (wl_store s s' L HL Hs).
Qed.

(* removal of an unreferenced key manager *)
Lemma wstep_rmmgr s L k : WS s -> WL s L -> wstep s L (remove_mgr_if_unref s k) [].
Proof.
  intros H HL. destruct (remove_mgr_spec s k) as (G1 & G2 & G3 & G4 & G5). cbv zeta in *.
  set (s' := remove_mgr_if_unref s k) in *.
  destruct (aget (mgrs s) k) as [m|] eqn:Em.
  - destruct (m_ref m =? 0) eqn:Z.
    + apply N.eqb_eq in Z. pose proof (ws_shape _ H) as Hsh. destruct (ws_cnt _ H) as [C1 C2].
      assert (Hno : forall r l, aget (store s) r = Some l -> l_key l <> k).
      { intros r l Hr Hk. pose proof (key_cnt_pos k _ r l Hr Hk). pose proof (C1 k m Em). lia. }
      assert (Hsh' : Shape s').
      { split.
        - rewrite G1. apply (sh_awf _ Hsh).
        - intros r l. rewrite G1, G5. apply (sh_lt _ Hsh).
        - intros r l Hr. rewrite G1 in Hr. pose proof (sh_rec _ Hsh _ _ Hr) as X. unfold rec_shape in *.
          rewrite G3 by (apply Hno with r; exact Hr). exact X.
        - intros k0 m0 H0. destruct (N.eq_dec k0 k) as [->|Hne]; [rewrite G2 in H0; discriminate|].
          rewrite G3 in H0 by exact Hne. pose proof (sh_mgr _ Hsh _ _ H0) as X. unfold mgr_shape in *. rewrite G1. exact X. }
      apply mkWstep; cbn [fold_left wb]; [| |exact I|constructor|exact G4|lia].
      * apply (ws_scalars s s' H G4 Hsh').
        -- split.
           ++ intros k0 m0 H0. rewrite G1. destruct (N.eq_dec k0 k) as [->|Hne]; [rewrite G2 in H0; discriminate|].
              rewrite G3 in H0 by exact Hne. apply C1. exact H0.
           ++ intros r l Hr. rewrite G1 in Hr. rewrite G3 by (apply Hno with r; exact Hr). apply (C2 r l Hr).
        -- intros r l Hr. rewrite G1 in Hr. apply (ws_rec _ H r l Hr).
      * apply (wl_store s s' L HL G1).
    + apply (wstep_fields s L s' H HL G1); auto.
      apply (f_equal (fun o => o)) in G2.
      (* managers agree extensionally; rebuild syntactic equality from the definition *)
      subst s'. unfold remove_mgr_if_unref. rewrite Em, Z. reflexivity.
  - apply (wstep_fields s L s' H HL G1); auto. subst s'. unfold remove_mgr_if_unref. rewrite Em. reflexivity.
Qed.

(* ------------------------------------------------------------------ AddExpried on a hold: persisted when due *)
Lemma wstep_add_expried s L r l m :
  WS s -> WL s L -> aget (store s) r = Some l -> l_locked l = 1 -> aget (mgrs s) (l_key l) = Some m ->
  (now s < l_eT l)%Z ->
  exists s' ev, add_expried s (l_key l) r = (s', ev) /\ wstep s L s' (aofs_of ev) /\ next s' = next s.
Proof.
  intros H HL Hr Hl Hm Hlive. pose proof (ws_shape _ H) as Hsh. set (k := l_key l) in *.
  destruct (sh_rec _ Hsh _ _ Hr) as (A1 & A2 & A3 & (_ & _ & At & _) & [[Z _]|(_ & Hx & _)]); [lia|].
  destruct (sh_mgr _ Hsh _ _ Hm) as (B1 & B2 & B3 & B4).
  pose proof (ws_rec _ H r l Hr) as Wr. pose proof Wr as (W1 & W2 & W3 & W4 & W5 & W6). destruct (W6 Hl) as (W7 & W8).
  destruct (add_expried_spec s k r l m Hr Hm) as (s' & ev & l' & P & E & M' & R' & C & X' & EM); auto.
  { pose proof (ws_check _ H). lia. }
  { left. split; [apply (ws_leader _ H)|rewrite W1; reflexivity]. }
  exists s', ev. split; [exact P|]. split; [|apply (ef_next _ _ _ _ E)].
  destruct EM as [[-> Hi]|(Hld & Hi0 & Hi1 & ->)].
  - cbn [aofs_of flat_map]. apply (wstep_core s L s' r k l l'); auto; congruence.
  - rewrite At. cbn [has aofs_of flat_map app]. change (if has 0 TF_REQUIRE_ACKED then Some r else None) with (@None ref).
    assert (CT : ctime_of s l = now s). { unfold ctime_of. assert ((now s <? l_eT l)%Z = true) by lia. rewrite H0. reflexivity. }
    rewrite CT. set (e := lock_rec_of l (now s) None).
    destruct (lock_rec_fields s l (now s) Wr Hl At ltac:(lia)) as (F1 & F2 & F3 & F4 & F5 & F6 & F7 & F8). cbv zeta in *. fold e in F1, F2, F3, F4, F5, F6, F7, F8.
    assert (P' : pheld s' r l') by (split; [exact R'|split; [destruct C as (_ & _ & _ & _ & _ & K6 & _); congruence|exact Hi1]]).
    assert (Hnot : forall l0, ~ pheld s r l0).
    { intros l0 (R0 & _ & Q). rewrite Hr in R0. injection R0 as <-. congruence. }
    apply mkWstep.
    + apply (ws_core s s' r k l l'); auto; congruence.
    + cbn [fold_left]. apply (wl_add s s' L r l' e HL P').
      * apply (rec_matches_core e l l' C). exists (now s). split; [reflexivity|lia].
      * destruct C as (K1 & _). congruence.
      * exact F2.
      * intros r0 l0 Hne P0. exists l0. split; [apply (pheld_frame s s' r k r0 l0 E Hne); exact P0|]. auto.
      * intros r0 l0 Hne P0. exists l0. split; [apply (pheld_frame s s' r k r0 l0 E Hne); exact P0|reflexivity].
      * exact Hnot.
    + assert (Hn : aget L (a_key e) = None).
      { destruct (aget L (a_key e)) as [e0|] eqn:Ee; [|reflexivity]. exfalso.
        destruct (wl_a _ _ HL _ _ Ee) as (r1 & l1 & P1 & Hk1 & _).
        assert (r1 = r). { destruct P1 as (R1 & Q1 & _). apply (shape_held_unique s r1 l1 r l Hsh R1 Hr); try lia; congruence. }
        subst r1. apply (Hnot l1 P1). }
      cbn [wb]. split; [|exact I]. unfold wb_rec. change (a_lock e) with true. cbv iota. split; [exact Hn|exact F1].
    + constructor; [change (a_ctime e <= now s)%Z; rewrite F6; lia|constructor].
    + apply (ef_same _ _ _ _ E).
    + rewrite (ef_next _ _ _ _ E). lia.
Qed.

(* ------------------------------------------------------------------ doExpried (with its wake-up pass), any reference *)
Lemma aofs_of_nil_r ev : aofs_of (ev ++ []) = aofs_of ev.
Proof. rewrite app_nil_r. reflexivity. Qed.

Lemma ws_dead_facts s r l : WS s -> aget (store s) r = Some l -> l_expried l = true ->
  l_locked l = 0 /\ l_ack l = 255 /\ exists m, aget (mgrs s) (l_key l) = Some m.
Proof.
  intros H Hr Hx. destruct (sh_rec _ (ws_shape _ H) _ _ Hr) as (A1 & _ & _ & _ & [[Z _]|(_ & X & _)]); [|congruence].
  csplit; auto. destruct (aget (mgrs s) (l_key l)) as [m|] eqn:E; [exists m; reflexivity|].
  exfalso. apply (proj2 (ws_cnt _ H) r l Hr E).
Qed.

Lemma ws_held_facts s r l : WS s -> aget (store s) r = Some l -> l_expried l = false ->
  l_locked l = 1 /\ c_tflag (l_cmd l) = 0 /\ exists m, aget (mgrs s) (l_key l) = Some m.
Proof.
  intros H Hr Hx. destruct (sh_rec _ (ws_shape _ H) _ _ Hr) as (_ & _ & _ & (_ & _ & At & _) & [[_ X]|(Z & _ & m & Hm & _)]); [congruence|].
  csplit; auto. exists m. exact Hm.
Qed.

Lemma wstep_unref_rm s L r l :
  WS s -> WL s L -> next s < B32 -> aget (store s) r = Some l -> l_expried l = true ->
  wstep s L (unref_rm s r (l_key l)) [] /\ next (unref_rm s r (l_key l)) = next s.
Proof.
  intros H HL Hb Hr Hx. destruct (ws_dead_facts s r l H Hr Hx) as (Hz & Ha & m & Hm).
  destruct (unref_rm_spec s r (l_key l) l m Hr eq_refl Hm Hz Ha) as (E & D).
  split; [apply (wstep_dropped s L _ r (l_key l) l m); auto|apply (ef_next _ _ _ _ E)].
Qed.

Lemma wstep_do_expried s L r :
  WS s -> WL s L -> next s < B32 ->
  exists s' ev, finish (do_expried s r) = (s', ev) /\ wstep s L s' (aofs_of ev) /\ next s' = next s.
Proof.
  intros H HL Hb. destruct (aget (store s) r) as [l|] eqn:Hr.
  - destruct (l_expried l) eqn:Hx.
    + rewrite (do_expried_dead s r l Hr Hx). cbn [finish]. eexists. eexists. split; [reflexivity|].
      cbn [aofs_of flat_map]. apply (wstep_unref_rm s L r l H HL Hb Hr Hx).
    + destruct (ws_held_facts s r l H Hr Hx) as (Hl & At & m & Hm).
      destruct (do_expried_held s r l m (ws_shape _ H) (ws_leader _ H) Hr Hx Hm) as (s' & ev & P & REL & EV).
      rewrite At in EV. change (if has 0 TF_REQUIRE_ACKED then Some r else None) with (@None ref) in EV.
      pose proof (wstep_released s L s' r (l_key l) l m None AOF_FLAG_EXPRIED H HL Hb Hr eq_refl Hl Hm REL eq_refl) as WT.
      rewrite <- EV in WT.
      rewrite P, (finish_nowait s' ev (l_key l) None (shape_nowait s' _ (ws_shape _ (wt_ws _ _ _ _ WT)))).
      eexists. eexists. split; [reflexivity|]. rewrite aofs_of_nil_r. split; [exact WT|].
      destruct REL as (E & _). apply (ef_next _ _ _ _ E).
  - destruct (do_expried_absent s r Hr) as (ev & P & EV). rewrite P. cbn [finish].
    exists s, ev. split; [reflexivity|]. rewrite EV. split; [apply wstep_refl; assumption|reflexivity].
Qed.

Lemma fire_all_expried_ok due : forall s L,
  WS s -> WL s L -> next s < B32 ->
  exists s' ev, fire_all do_expried s due = (s', ev) /\ wstep s L s' (aofs_of ev) /\ next s' = next s.
Proof.
  induction due as [|r due IH]; intros s L H HL Hb.
  - exists s, []. split; [reflexivity|]. split; [apply wstep_refl; assumption|reflexivity].
  - cbn [fire_all]. destruct (wstep_do_expried s L r H HL Hb) as (s1 & e1 & P1 & W1 & N1). rewrite P1.
    destruct (IH s1 (fold_left lstep (aofs_of e1) L) (wt_ws _ _ _ _ W1) (wt_wl _ _ _ _ W1)) as (s2 & e2 & P2 & W2 & N2); [lia|].
    rewrite P2. exists s2, (e1 ++ e2). split; [reflexivity|]. rewrite aofs_of_app.
    split; [apply (wstep_trans0 s L s1 _ s2 _ W1 N1 W2)|lia].
Qed.

(* ------------------------------------------------------------------ the collecting loops of checkExpried *)
Lemma sweep_e_slot_ok slot nowv fuel : forall s L due ev0,
  WS s -> WL s L -> next s < B32 -> now s = nowv ->
  exists s' due' ev', sweep_e_slot fuel s slot nowv due ev0 = (s', due', ev0 ++ ev') /\
                      wstep s L s' (aofs_of ev') /\ next s' = next s.
Proof.
  induction fuel as [|f IH]; intros s L due ev0 H HL Hb Hnow.
  - exists s, due, []. cbn [sweep_e_slot]. rewrite app_nil_r. split; [reflexivity|]. split; [apply wstep_refl; assumption|reflexivity].
  - cbn [sweep_e_slot]. destruct (wheel_get (ewheel s) slot) as [|r rest].
    + exists s, due, []. rewrite app_nil_r. split; [reflexivity|]. split; [apply wstep_refl; assumption|reflexivity].
    + set (s1 := s <| ewheel := aset (ewheel s) slot rest |>).
      assert (W1 : wstep s L s1 []) by (apply wstep_fields; auto; split; reflexivity).
      assert (N1 : next s1 = next s) by reflexivity.
      pose proof (wt_ws _ _ _ _ W1) as H1. pose proof (wt_wl _ _ _ _ W1) as HL1. cbn [fold_left] in HL1.
      destruct (aget (store s1) r) as [l|] eqn:Hr.
      * rewrite (getl_some _ _ _ Hr). cbv iota. destruct (l_expried l) eqn:Hx; cbn [negb]; cbv iota.
        -- (* released record: drop the wheel reference *)
           destruct (wstep_unref_rm s1 L r l H1 HL1 ltac:(lia) Hr Hx) as (W2 & N2).
           destruct (IH (unref_rm s1 r (l_key l)) L due ev0 (wt_ws _ _ _ _ W2) (wt_wl _ _ _ _ W2)) as (s' & due' & ev' & P & W3 & N3).
           { lia. } { rewrite (ss_now _ _ (wt_same _ _ _ _ W2)). exact Hnow. }
           exists s', due', ev'. split; [exact P|]. split; [|lia].
           apply (wstep_trans0 s L s1 [] s' _ W1 N1). apply (wstep_trans0 s1 L _ [] s' _ W2 N2 W3).
        -- destruct (nowv <? l_eT l)%Z eqn:Hlive.
           ++ (* live hold: re-check *)
              destruct (ws_held_facts s1 r l H1 Hr Hx) as (Hl & At & m & Hm).
              set (s2 := updl s1 r (fun l0 => l0 <| l_ecc := (l_ecc l0 + 1) mod 256 |>)).
              set (l2 := l <| l_ecc := (l_ecc l + 1) mod 256 |>).
              assert (R2 : aget (store s2) r = Some l2) by (exact (aget_updl_same s1 r _ l Hr)).
              assert (W2 : wstep s1 L s2 []).
              { apply (wstep_core s1 L s2 r (l_key l) l l2); auto; [apply eff_updl|repeat split|subst s2; rewrite mgrs_updl; reflexivity]. }
              assert (N2 : next s2 = next s1) by apply next_updl.
              pose proof (wt_ws _ _ _ _ W2) as H2. pose proof (wt_wl _ _ _ _ W2) as HL2. cbn [fold_left] in HL2.
              assert (M2 : aget (mgrs s2) (l_key l2) = Some m) by (subst s2; rewrite mgrs_updl; exact Hm).
              destruct (wstep_add_expried s2 L r l2 m H2 HL2 R2 Hl M2) as (s3 & aev & P3 & W3 & N3).
              { subst s2 l2. rewrite now_updl. cbn [l_eT set]. change (now s1) with (now s). lia. }
              change (l_key l2) with (l_key l) in P3. rewrite P3.
              destruct (IH s3 (fold_left lstep (aofs_of aev) L) due (ev0 ++ aev) (wt_ws _ _ _ _ W3) (wt_wl _ _ _ _ W3)) as (s' & due' & ev' & P & W4 & N4).
              { lia. } { rewrite (ss_now _ _ (wt_same _ _ _ _ W3)). subst s2. rewrite now_updl. exact Hnow. }
              rewrite P. exists s', due', (aev ++ ev'). split; [rewrite app_assoc; reflexivity|]. split; [|lia].
              rewrite aofs_of_app.
              apply (wstep_trans0 s L s1 [] s' _ W1 N1). apply (wstep_trans0 s1 L s2 [] s' _ W2 N2).
              apply (wstep_trans0 s2 L s3 _ s' _ W3 N3 W4).
           ++ destruct (IH s1 L (due ++ [r]) ev0 H1 HL1) as (s' & due' & ev' & P & W3 & N3); [lia|exact Hnow|].
              rewrite P. exists s', due', ev'. split; [reflexivity|]. split; [|lia].
              apply (wstep_trans0 s L s1 [] s' _ W1 N1 W3).
      * cbv iota. exists s1, (due ++ [r]), []. rewrite app_nil_r. split; [reflexivity|]. split; [exact W1|exact N1].
Qed.

Lemma sweep_long_e_ok items : forall s L due,
  WS s -> WL s L -> next s < B32 ->
  exists s' due', sweep_long s items false due = (s', due') /\ wstep s L s' [] /\ next s' = next s.
Proof.
  induction items as [|r items IH]; intros s L due H HL Hb.
  - exists s, due. split; [reflexivity|]. split; [apply wstep_refl; assumption|reflexivity].
  - cbn [sweep_long]. destruct (aget (store s) r) as [l0|] eqn:Hr.
    + set (s1 := updl s r (fun l => l <| l_long := false |>)).
      set (l1 := l0 <| l_long := false |>).
      assert (R1 : aget (store s1) r = Some l1) by (exact (aget_updl_same s r _ l0 Hr)).
      assert (W1 : wstep s L s1 []).
      { apply (wstep_core s L s1 r (l_key l0) l0 l1); auto; [apply eff_updl|repeat split|subst s1; rewrite mgrs_updl; reflexivity]. }
      assert (N1 : next s1 = next s) by apply next_updl.
      pose proof (wt_ws _ _ _ _ W1) as H1. pose proof (wt_wl _ _ _ _ W1) as HL1. cbn [fold_left] in HL1.
      rewrite (getl_some _ _ _ R1). destruct (l_expried l1) eqn:Hx; cbn [negb]; cbv iota.
      * destruct (wstep_unref_rm s1 L r l1 H1 HL1 ltac:(lia) R1 Hx) as (W2 & N2).
        destruct (IH (unref_rm s1 r (l_key l1)) L due (wt_ws _ _ _ _ W2) (wt_wl _ _ _ _ W2)) as (s' & due' & P & W3 & N3); [lia|].
        exists s', due'. split; [exact P|]. split; [|lia].
        apply (wstep_trans0 s L s1 [] s' [] W1 N1). apply (wstep_trans0 s1 L _ [] s' [] W2 N2 W3).
      * destruct (IH s1 L (due ++ [r]) H1 HL1) as (s' & due' & P & W3 & N3); [lia|].
        exists s', due'. split; [exact P|]. split; [|lia]. apply (wstep_trans0 s L s1 [] s' [] W1 N1 W3).
    + assert (E1 : updl s r (fun l => l <| l_long := false |>) = s) by (unfold updl; rewrite Hr; reflexivity).
      rewrite E1. assert (E2 : getl s r = dummy_lock) by (unfold getl; rewrite Hr; reflexivity). rewrite E2.
      cbn [l_expried dummy_lock negb l_key]. cbv iota.
      assert (E3 : unref s r = s) by (unfold unref; rewrite Hr; reflexivity). rewrite E3, Hr.
      pose proof (wstep_rmmgr s L 0 H HL) as W1.
      assert (N1 : next (remove_mgr_if_unref s 0) = next s) by (apply (remove_mgr_spec s 0)).
      destruct (IH (remove_mgr_if_unref s 0) L due (wt_ws _ _ _ _ W1) (wt_wl _ _ _ _ W1)) as (s' & due' & P & W3 & N3); [lia|].
      exists s', due'. split; [exact P|]. split; [|lia]. apply (wstep_trans0 s L _ [] s' [] W1 N1 W3).
Qed.

Lemma collect_expiries_ok s L t nowv :
  WS s -> WL s L -> next s < B32 -> now s = nowv ->
  exists s' due ev, collect_expiries s t nowv = (s', due, ev) /\ wstep s L s' (aofs_of ev) /\ next s' = next s.
Proof.
  intros H HL Hb Hnow. unfold collect_expiries.
  destruct (sweep_e_slot_ok (slot_of t) nowv (10 * length (wheel_get (ewheel s) (slot_of t)) + 10) s L [] [] H HL Hb Hnow)
    as (s1 & due1 & ev1 & P1 & W1 & N1).
  rewrite P1. cbn [app].
  destruct (aget (elong s1) (lkey t)) as [items|] eqn:El.
  - set (s2 := s1 <| elong := adel (elong s1) (lkey t) |>).
    assert (W2 : wstep s1 (fold_left lstep (aofs_of ev1) L) s2 []).
    { apply wstep_fields; auto; try apply W1. split; reflexivity. }
    destruct (sweep_long_e_ok items s2 _ due1 (wt_ws _ _ _ _ W2) (wt_wl _ _ _ _ W2)) as (s3 & due3 & P3 & W3 & N3).
    { change (next s2) with (next s1). lia. }
    rewrite P3. exists s3, due3, ev1. split; [reflexivity|]. split; [|change (next s2) with (next s1) in N3; lia].
    rewrite <- (app_nil_r (aofs_of ev1)). apply (wstep_trans0 s L s1 _ s3 [] W1 N1).
    apply (wstep_trans0 s1 _ s2 [] s3 [] W2 eq_refl W3).
  - exists s1, due1, ev1. split; [reflexivity|]. split; assumption.
Qed.

Lemma sweep_e_secs_ok nowv n : forall s L t,
  WS s -> WL s L -> next s < B32 -> now s = nowv ->
  exists s' ev, sweep_e_secs n s t nowv = (s', ev) /\ wstep s L s' (aofs_of ev) /\ next s' = next s.
Proof.
  induction n as [|n IH]; intros s L t H HL Hb Hnow.
  - exists s, []. split; [reflexivity|]. split; [apply wstep_refl; assumption|reflexivity].
  - cbn [sweep_e_secs].
    destruct (collect_expiries_ok s L t nowv H HL Hb Hnow) as (s1 & due & e1 & P1 & W1 & N1). rewrite P1.
    destruct (fire_all_expried_ok due s1 _ (wt_ws _ _ _ _ W1) (wt_wl _ _ _ _ W1)) as (s2 & e2 & P2 & W2 & N2); [lia|].
    rewrite P2.
    pose proof (wstep_trans0 s L s1 _ s2 _ W1 N1 W2) as W12.
    destruct (IH s2 _ (t + 1)%Z (wt_ws _ _ _ _ W12) (wt_wl _ _ _ _ W12)) as (s3 & e3 & P3 & W3 & N3).
    { lia. } { rewrite (ss_now _ _ (wt_same _ _ _ _ W12)). exact Hnow. }
    rewrite P3. exists s3, (e1 ++ e2 ++ e3). split; [reflexivity|]. split; [|lia].
    rewrite !aofs_of_app, app_assoc. apply (wstep_trans0 s L s2 _ s3 _ W12 ltac:(lia) W3).
Qed.

(* ------------------------------------------------------------------ the sub-language *)
Definition sub_lock (c : cmd) : Prop :=
  c_lock c = true /\ c_flag c = 0 /\ c_tflag c = 0 /\ c_timeout c = 0 /\ unit_seconds (c_eflag c)
  /\ 0 < c_expried c <= 65534 /\ c_count c = 0 /\ c_rcount c = 0 /\ c_data c = None.
Definition sub_unlock (c : cmd) : Prop := c_lock c = false /\ c_flag c = 0.
Definition sub_action (a : action) : Prop :=
  match a with
  | AReq _ c => sub_lock c \/ sub_unlock c
  | AAdvance k => (0 <= k)%Z
  | ASweepT | ASweepE => True
  | AAck _ _ | ARole _ => False
  end.

Lemma sub_lock_simple c : sub_lock c -> lock_simple c.
Proof. intros (A1 & A2 & A3 & A4 & (_ & U2 & _) & _ & _ & _ & A9). unfold lock_simple. csplit; auto. Qed.

Record astep (s : db) (L : ledger) (s' : db) (recs : list aofrec) : Prop := mkAstep {
  as_ws : WS s';
  as_wl : WL s' (fold_left lstep recs L);
  as_wb : wb L recs;
  as_ct : Forall (fun r => (a_ctime r <= now s')%Z) recs;
  as_now : (now s <= now s')%Z;
  as_next : next s <= next s' <= next s + 1 }.

Lemma wstep_astep s L s' recs : wstep s L s' recs -> astep s L s' recs.
Proof.
  intros [A1 A2 A3 A4 A5 A6]. split; auto.
  - rewrite (ss_now _ _ A5). exact A4.
  - rewrite (ss_now _ _ A5). lia.
Qed.

(* ------------------------------------------------------------------ Lock *)
Lemma lock_ok s L conn c :
  WS s -> WL s L -> sub_lock c -> next s + 1 < B32 ->
  exists s' ev, step s (AReq conn c) = (s', ev) /\ wstep s L s' (aofs_of ev).
Proof.
  intros H HL Hsub Hb. pose proof (sub_lock_simple c Hsub) as Hsimple.
  destruct Hsub as (C1 & C2 & C3 & C4 & C5 & C6 & C7 & C8 & C9).
  pose proof (ws_shape _ H) as Hsh.
  assert (Hmode : mode_ok s (c_flag c)) by (left; split; [apply (ws_leader _ H)|exact C2]).
  rewrite step_areq, C1.
  assert (Hcases : key_free s (c_key c) \/
                   exists m cur lc, aget (mgrs s) (c_key c) = Some m /\ m_cur m = Some cur /\ aget (store s) cur = Some lc).
  { unfold key_free. destruct (aget (mgrs s) (c_key c)) as [m|] eqn:Em; [|left; exact I].
    destruct (sh_mgr _ Hsh _ _ Em) as (B1 & B2 & B3 & B4). destruct (m_cur m) as [cur|] eqn:Ec.
    - right. destruct B4 as (_ & lc & Hc & _). exists m, cur, lc. auto.
    - left. auto. }
  destruct Hcases as [Hkf|(m & cur & lc & Em & Ec & Hc)].
  - (* free key: grant *)
    rewrite (lock_step_grant s conn c Hsimple Hmode ltac:(lia) Hkf).
    pose proof (expiry_deadline_seconds c (now s) C5) as ED.
    destruct (grant_path_spec s conn c Hsimple Hmode Hkf (shape_fresh s Hsh) (proj1 (getm_shape_data s (c_key c) Hsh)))
      as (s' & ev & l' & m' & P & R & L1 & L2 & L3 & L4 & L5 & L6 & L7 & L8 & FR & FM & W & SS & NX & M & M1 & M2 & M3 & M4 & M5 & M6 & M7 & EM).
    { rewrite ED. pose proof (ws_check _ H). lia. } { rewrite ED. lia. }
    rewrite P. cbn [finish]. exists s', ev. split; [reflexivity|].
    assert (WS' : WS s') by (apply (ws_grant s s' c l' m'); auto).
    assert (PF : forall r0 l0, r0 <> next s -> (pheld s' r0 l0 <-> pheld s r0 l0)).
    { intros r0 l0 Hne. unfold pheld. rewrite (FR r0 Hne). tauto. }
    assert (Hnew : forall l0, ~ pheld s (next s) l0).
    { intros l0 (R0 & _). rewrite (shape_fresh s Hsh) in R0. discriminate. }
    destruct EM as [(EV & Hi)|(Hld & _ & Hi & EV)]; rewrite EV.
    + apply mkWstep; cbn [fold_left wb]; [exact WS'| |exact I|constructor|exact SS|lia].
      apply (wl_frame s s' L HL).
      * intros r0 l0 P0. assert (r0 <> next s) by (intros ->; apply (Hnew l0 P0)).
        exists l0. split; [apply PF; assumption|]. auto.
      * intros r0 l0 P0. assert (r0 <> next s).
        { intros ->. destruct P0 as (R0 & _ & Q). rewrite R in R0. injection R0 as <-. rewrite Hi, C2 in Q. discriminate. }
        exists l0. split; [apply PF; assumption|reflexivity].
    + set (e := lock_rec_of l' (now s) None).
      assert (Wr' : wrec s' l') by (apply (ws_rec _ WS' _ _ R)).
      destruct (lock_rec_fields s' l' (now s) Wr' L6 ltac:(congruence) ltac:(rewrite L4, L5, ED; lia))
        as (F1 & F2 & F3 & F4 & F5 & F6 & F7 & F8). cbv zeta in *. fold e in F1, F2, F3, F4, F5, F6, F7, F8.
      assert (P' : pheld s' (next s) l') by (split; [exact R|split; assumption]).
      assert (Hn : aget L (a_key e) = None).
      { destruct (aget L (a_key e)) as [e0|] eqn:Ee; [|reflexivity]. exfalso.
        destruct (wl_a _ _ HL _ _ Ee) as (r1 & l1 & (R1 & Q1 & _) & Hk1 & _).
        destruct (sh_rec _ Hsh _ _ R1) as (_ & _ & _ & _ & [[Z _]|(_ & _ & m1 & Hm1 & Hc1)]); [lia|].
        assert (Ek : l_key l1 = c_key c) by (rewrite Hk1, F3, L2; reflexivity).
        unfold key_free in Hkf. rewrite Ek in Hm1. rewrite Hm1 in Hkf. destruct Hkf as (_ & Z & _). congruence. }
      apply mkWstep.
      * exact WS'.
      * cbn [fold_left]. apply (wl_add s s' L (next s) l' e HL P').
        -- exists (now s). split; [reflexivity|]. rewrite L4, L5, ED. lia.
        -- rewrite F3, L2. symmetry. exact L1.
        -- exact F2.
        -- intros r0 l0 Hne P0. exists l0. split; [apply PF; assumption|]. auto.
        -- intros r0 l0 Hne P0. exists l0. split; [apply PF; assumption|reflexivity].
        -- exact Hnew.
      * cbn [wb]. split; [|exact I]. unfold wb_rec. change (a_lock e) with true. cbv iota. split; [exact Hn|exact F1].
      * constructor; [change (a_ctime e <= now s)%Z; rewrite F6; lia|constructor].
      * exact SS.
      * lia.
  - (* held key *)
    destruct (sh_mgr _ Hsh _ _ Em) as (B1 & B2 & B3 & B4). rewrite Ec in B4. destruct B4 as (B4 & lc' & Hc' & Hkc & Hlc).
    rewrite Hc in Hc'. injection Hc' as <-.
    destruct (sh_rec _ Hsh _ _ Hc) as (A1 & _).
    destruct (N.eq_dec (c_lockid (l_cmd lc)) (c_lockid c)) as [Eid|Nid].
    + destruct (lock_step_same s conn c m cur Hsimple Hmode C8 Em B4 Ec) as (ev & P & EV);
        try (rewrite (getl_some _ _ _ Hc)); auto.
      rewrite P. cbn [finish]. exists s, ev. split; [reflexivity|]. rewrite EV. apply wstep_refl; assumption.
    + destruct (lock_step_refused s conn c m cur Hsimple Hmode C7 Em B4 Ec B1 B2) as (ev & P & EV).
      { rewrite (getl_some _ _ _ Hc). exact Nid. }
      rewrite P. cbn [finish]. eexists. eexists. split; [reflexivity|]. rewrite EV.
      pose proof (ws_ref_bound s _ m H Em) as Rb.
      assert (Rnz : m_ref m <> 0).
      { pose proof (proj1 (ws_cnt _ H) _ _ Em). pose proof (key_cnt_pos (c_key c) _ cur lc Hc Hkc). lia. }
      destruct (refuse_state_spec s conn c m Em (shape_fresh s Hsh) ltac:(unfold B32 in *; lia) Rnz) as (G1 & G2 & G3 & G4 & G5).
      cbv zeta in *. set (s' := refuse_state s conn c) in *.
      apply mkWstep; cbn [fold_left wb]; [| |exact I|constructor|exact G4|lia].
      * apply (ws_ext s s' H); auto. apply G3, (sh_awf _ Hsh). lia.
      * destruct HL as [A B]. split; unfold pheld in *.
        -- intros k e He. destruct (A k e He) as (r0 & l0 & (R0 & Q) & Z). exists r0, l0. rewrite G1. auto.
        -- intros r0 l0 (R0 & Q). rewrite G1 in R0. apply (B r0 l0). auto.
Qed.

(* ------------------------------------------------------------------ UnLock *)
Lemma unlock_ok s L conn c :
  WS s -> WL s L -> sub_unlock c -> next s < B32 ->
  exists s' ev, step s (AReq conn c) = (s', ev) /\ wstep s L s' (aofs_of ev).
Proof.
  intros H HL (C1 & C2) Hb. pose proof (ws_shape _ H) as Hsh.
  rewrite step_areq, C1.
  assert (Hus : unlock_simple c) by (unfold unlock_simple, has_udata_flag; rewrite C2; repeat split).
  assert (Hum : umode s c) by (unfold umode; rewrite (ws_leader _ H); reflexivity).
  assert (Herr : (match aget (mgrs s) (c_key c) with
                  | None => True
                  | Some m => m_locked m = 0 \/
                      (m_locks m = None /\ exists cur, m_cur m = Some cur /\ c_lockid (l_cmd (getl s cur)) <> c_lockid c)
                  end) -> exists s' ev, finish (unlock_step s conn c) = (s', ev) /\ wstep s L s' (aofs_of ev)).
  { intros Hc. destruct (unlock_step_err s conn c Hus Hum Hc) as (ev & P & EV). rewrite P. cbn [finish].
    exists (unlock_err s), ev. split; [reflexivity|]. rewrite EV. apply wstep_fields; auto. split; reflexivity. }
  destruct (aget (mgrs s) (c_key c)) as [m|] eqn:Em; [|apply Herr; exact I].
  destruct (sh_mgr _ Hsh _ _ Em) as (B1 & B2 & B3 & B4).
  destruct (m_cur m) as [cur|] eqn:Ec; [|apply Herr; left; exact B4].
  destruct B4 as (B4 & lc & Hc & Hkc & Hlc).
  destruct (N.eq_dec (c_lockid (l_cmd lc)) (c_lockid c)) as [Eid|Nid].
  - destruct (sh_rec _ Hsh _ _ Hc) as (A1 & A2 & A3 & (_ & _ & At & _) & _).
    rewrite (unlock_step_release s conn c m cur Hum Em B4 Ec); try (rewrite (getl_some _ _ _ Hc)); auto.
    destruct (release_path_spec s conn c cur lc m Hsh Hc Hlc Hkc Em) as (s' & ev & P & REL & EV).
    { apply Hus. } { right. split; [apply (ws_leader _ H)|rewrite C2; reflexivity]. }
    rewrite At, (ws_leader _ H), andb_true_r in EV.
    change (if has 0 TF_REQUIRE_ACKED then Some cur else None) with (@None ref) in EV.
    pose proof (wstep_released s L s' cur (c_key c) lc m (Some c) 0 H HL Hb Hc Hkc Hlc Em REL eq_refl) as WT.
    rewrite <- EV in WT.
    rewrite P, (finish_nowait s' ev (c_key c) (Some conn) (shape_nowait s' _ (ws_shape _ (wt_ws _ _ _ _ WT)))).
    eexists. eexists. split; [reflexivity|]. rewrite aofs_of_nil_r. exact WT.
  - apply Herr. right. split; [exact B1|]. exists cur. split; [reflexivity|]. rewrite (getl_some _ _ _ Hc). exact Nid.
Qed.

(* ------------------------------------------------------------------ time and sweeps *)
Lemma wrec_mono s s' l : (now s <= now s')%Z -> wrec s l -> wrec s' l.
Proof. intros E (W1 & W2 & W3 & W4 & (W5 & W5') & W6). unfold wrec. csplit; auto. intros Hl. destruct (W6 Hl). split; lia. Qed.

Lemma advance_ok s L k : WS s -> WL s L -> (0 <= k)%Z -> astep s L (s <| now := (now s + k)%Z |>) [].
Proof.
  intros H HL Hk. set (s' := s <| now := (now s + k)%Z |>).
  apply mkAstep; cbn [fold_left wb]; [| |exact I|constructor|cbn; lia|cbn; lia].
  - split.
    + apply (shape_ext s s' (ws_shape _ H)); reflexivity.
    + apply (ws_leader _ H).
    + apply (ws_tw _ H).
    + apply (ws_tl _ H).
    + cbn. pose proof (ws_check _ H). lia.
    + cbn. pose proof (ws_now _ H). lia.
    + apply (ws_cnt _ H).
    + intros r l Hr. apply (wrec_mono s s' l); [cbn; lia|]. apply (ws_rec _ H r l Hr).
  - apply (wl_store s s' L HL). reflexivity.
Qed.

Lemma sweep_t_slot_empty f s slot nowv due : wheel_get (twheel s) slot = [] -> sweep_t_slot f s slot nowv due = (s, due).
Proof. intros H. destruct f; cbn [sweep_t_slot]; [reflexivity|rewrite H; reflexivity]. Qed.

Lemma sweep_t_secs_idle nowv n : forall s t, twheel s = [] -> tlong s = [] -> sweep_t_secs n s t nowv = (s, []).
Proof.
  induction n as [|n IH]; intros s t Hw Hl; [reflexivity|].
  cbn [sweep_t_secs]. unfold collect_timeouts.
  rewrite (sweep_t_slot_empty _ s (slot_of t) nowv []) by (rewrite Hw; reflexivity).
  rewrite Hl. cbn [aget fire_all]. rewrite (IH s (t + 1)%Z Hw Hl). reflexivity.
Qed.

Lemma sweep_t_ok s L : WS s -> WL s L -> exists s', step s ASweepT = (s', []) /\ astep s L s' [].
Proof.
  intros H HL. cbn [step]. unfold sweep_timeouts. cbv zeta.
  set (s0 := s <| checkT := (now s + 1)%Z |>).
  rewrite (sweep_t_secs_idle (now s) _ s0 (checkT s)); [|apply (ws_tw _ H)|apply (ws_tl _ H)].
  exists s0. split; [reflexivity|].
  apply mkAstep; cbn [fold_left wb]; [| |exact I|constructor|cbn; lia|cbn; lia].
  - apply (ws_fields s s0 H); try reflexivity. apply (ws_check _ H).
  - apply (wl_store s s0 L HL). reflexivity.
Qed.

Lemma sweep_e_ok s L : WS s -> WL s L -> next s < B32 ->
  exists s' ev, step s ASweepE = (s', ev) /\ astep s L s' (aofs_of ev).
Proof.
  intros H HL Hb. cbn [step]. unfold sweep_expiries. cbv zeta.
  set (s0 := s <| checkE := (now s + 1)%Z |>).
  assert (H0 : WS s0) by (apply (ws_fields s s0 H); try reflexivity; cbn; lia).
  assert (HL0 : WL s0 L) by (apply (wl_store s s0 L HL); reflexivity).
  destruct (sweep_e_secs_ok (now s) (Z.to_nat (now s + 1 - checkE s)) s0 L (checkE s) H0 HL0 Hb eq_refl) as (s' & ev & P & W & N).
  rewrite P. exists s', ev. split; [reflexivity|].
  destruct (wstep_astep _ _ _ _ W) as [A1 A2 A3 A4 A5 A6]. apply mkAstep; auto.
Qed.

(* ------------------------------------------------------------------ every action of the sub-language *)
Lemma action_ok s L a :
  WS s -> WL s L -> sub_action a -> next s + 1 < B32 ->
  exists s' ev, step s a = (s', ev) /\ astep s L s' (aofs_of ev).
Proof.
  intros H HL Ha Hb. destruct a as [conn c|k| | |r ok|b]; cbn [sub_action] in Ha; try contradiction.
  - destruct Ha as [Hl|Hu].
    + destruct (lock_ok s L conn c H HL Hl Hb) as (s' & ev & P & W). exists s', ev. split; [exact P|apply wstep_astep; exact W].
    + destruct (unlock_ok s L conn c H HL Hu ltac:(lia)) as (s' & ev & P & W). exists s', ev. split; [exact P|apply wstep_astep; exact W].
  - exists (s <| now := (now s + k)%Z |>), []. split; [reflexivity|]. apply advance_ok; assumption.
  - destruct (sweep_t_ok s L H HL) as (s' & P & A). exists s', []. split; [exact P|exact A].
  - apply sweep_e_ok; auto. lia.
Qed.

(* ------------------------------------------------------------------ runs *)
Definition sub_hist (acts : list action) : Prop :=
  Forall sub_action acts /\ N.of_nat (length acts) + 2 < B32.

Lemma records_of_cons e es : records_of (e :: es) = aofs_of e ++ records_of es.
Proof. reflexivity. Qed.

Lemma run_ok acts : forall s L,
  WS s -> WL s L -> Forall sub_action acts -> next s + N.of_nat (length acts) + 1 < B32 ->
  exists s' tr, run s acts = (s', tr) /\
    WS s' /\ WL s' (fold_left lstep (records_of tr) L) /\ wb L (records_of tr) /\
    Forall (fun r => (a_ctime r <= now s')%Z) (records_of tr) /\ (now s <= now s')%Z.
Proof.
  induction acts as [|a acts IH]; intros s L H HL Hsub Hb.
  - exists s, []. split; [reflexivity|]. cbn. csplit; auto. lia.
  - inversion Hsub as [|? ? Ha Hrest]; subst. cbn [run].
    destruct (action_ok s L a H HL Ha) as (s1 & e1 & P1 & [A1 A2 A3 A4 A5 A6]).
    { cbn [length] in Hb. lia. }
    rewrite P1.
    destruct (IH s1 (fold_left lstep (aofs_of e1) L) A1 A2 Hrest) as (s2 & tr & P2 & B1 & B2 & B3 & B4 & B5).
    { cbn [length] in Hb. lia. }
    rewrite P2. exists s2, (e1 :: tr). split; [reflexivity|]. rewrite records_of_cons.
    split; [exact B1|]. split; [rewrite fold_left_app; exact B2|]. split; [apply wb_app; split; assumption|].
    split; [|lia]. apply Forall_app. split; [|exact B4].
    eapply Forall_impl; [|exact A4]. cbn. intros r Hr. lia.
Qed.

Lemma ws_init t0 aoft : (0 <= t0)%Z -> WS (init_db t0 aoft) /\ WL (init_db t0 aoft) [].
Proof.
  intros Ht. split.
  - split; try reflexivity.
    + split; cbn; try (intros; discriminate). constructor.
    + cbn. lia.
    + exact Ht.
    + split; cbn; intros; discriminate.
    + cbn. intros; discriminate.
  - split; unfold pheld; cbn; intros; try discriminate. destruct H as (X & _). discriminate.
Qed.

(* Writer-side theorem: along every history of the sub-language the record stream is well bracketed, every record was
   written at or before the final time, and its ledger lists exactly the persisted holds of the final state. *)
Theorem sim_writer t0 aoft acts :
  (0 <= t0)%Z -> sub_hist acts ->
  exists s tr, run (init_db t0 aoft) acts = (s, tr) /\
    WS s /\ WL s (ledger_of (records_of tr)) /\ wb [] (records_of tr) /\
    Forall (fun r => (a_ctime r <= now s)%Z) (records_of tr).
Proof.
  intros Ht [Hsub Hlen]. destruct (ws_init t0 aoft Ht) as [H0 HL0].
  destruct (run_ok acts (init_db t0 aoft) [] H0 HL0 Hsub) as (s & tr & P & A & B & C & D & _).
  { cbn [next init_db]. lia. }
  exists s, tr. csplit; auto.
Qed.
