(* C07 - general simulation, part 7 (writer side): every action of the sub-language preserves the writer invariant and
   extends the record stream by a well-bracketed suffix; hence the ledger of the records of a run lists exactly the
   persisted holds of the final state. *)
From Coq Require Import String ZifyN ZifyBool ZifyNat.
From Slock Require Import Engine.Types Engine.Queues Engine.Timers Engine.Engine Engine.Engine2 Restart.Recover
  Restart.RestartProofs Restart.SimBase Restart.SimExec Restart.SimInv Restart.SimReader Restart.SimLedger
  Restart.SimSweep Restart.SimWInv.
Open Scope N_scope.

(* ------------------------------------------------------------------ fields of the records of a sub-language hold *)
Lemma etime_seconds c eT ct :
  unit_seconds (c_eflag c) -> (0 < eT)%Z -> (0 <= eT - ct < 65536)%Z ->
  Z.of_N (aof_expried_time c eT ct) = (eT - ct)%Z.
Proof.
  intros (U1 & U2 & U3) H0 H1. unfold aof_expried_time. rewrite U1, U2, U3.
  assert (E1 : (0 <? eT)%Z = true) by lia. rewrite E1.
  destruct (0 <? eT - ct)%Z eqn:E2; [|lia]. rewrite N.mod_small by lia. lia.
Qed.

Lemma lock_rec_fields s l ct :
  wrec s l -> l_locked l = 1 -> c_tflag (l_cmd l) = 0 -> (l_start l <= ct < l_eT l)%Z ->
  let e := lock_rec_of l ct None in
  lock_wf e /\ a_lock e = true /\ a_key e = c_key (l_cmd l) /\ a_lockid e = c_lockid (l_cmd l) /\
  (a_ctime e + Z.of_N (a_etime e) = l_eT l)%Z /\ a_ctime e = ct /\ a_count e = 0 /\ a_rcount e = 0.
Proof.
  intros (W1 & W2 & W3 & W4 & W5 & W6) Hl Ht Hct. destruct (W6 Hl) as (W7 & W8). cbv zeta.
  pose proof (etime_seconds (l_cmd l) (l_eT l) ct W4 ltac:(lia) ltac:(lia)) as Et.
  unfold lock_rec_of. cbn [a_lock a_key a_lockid a_ctime a_etime a_count a_rcount].
  split; [|csplit; auto; lia].
  unfold lock_wf, lock_rec_plain. cbn [a_flag a_aofflag a_eflag a_etime]. rewrite W1, Ht. cbn. csplit; auto; try lia.
  destruct W4 as (_ & U2 & _). exact U2.
Qed.

Lemma unlock_rec_fields s l uc fl :
  wrec s l -> l_locked l = 1 -> c_tflag (l_cmd l) = 0 ->
  let u := unlock_rec_of l (l_cmd l) uc fl (ctime_of s l) None in
  a_lock u = false /\ a_flag u = 0 /\ a_aofflag u = fl /\ a_key u = c_key (l_cmd l) /\ a_lockid u = c_lockid (l_cmd l) /\
  unit_seconds (a_eflag u) /\ a_etime u < 65536 /\
  (0 < a_etime u -> (a_ctime u + Z.of_N (a_etime u) = l_eT l)%Z) /\ (a_ctime u <= now s)%Z.
Proof.
  intros (W1 & W2 & W3 & W4 & W5 & W6) Hl Ht. destruct (W6 Hl) as (W7 & W8). cbv zeta.
  unfold unlock_rec_of, ctime_of. cbn [a_lock a_flag a_aofflag a_key a_lockid a_eflag a_etime a_ctime]. rewrite Ht. cbn [has].
  change (N.lor fl (N.lor (if has 0 TF_REQUIRE_ACKED then AOF_FLAG_REQUIRE_ACKED else 0)
                          (N.lor (if has 0 TF_PRIORITY then AOF_FLAG_RCOUNT_IS_PRIORITY else 0) 0))) with (N.lor fl 0).
  rewrite N.lor_0_r.
  assert (P0 : (0 < l_eT l)%Z) by lia.
  assert (Q : forall ct, (ct = now s /\ now s < l_eT l)%Z \/ (ct = l_eT l /\ l_eT l <= now s)%Z ->
               aof_expried_time (l_cmd l) (l_eT l) ct < 65536 /\
               (0 < aof_expried_time (l_cmd l) (l_eT l) ct -> (ct + Z.of_N (aof_expried_time (l_cmd l) (l_eT l) ct) = l_eT l)%Z) /\
               (ct <= now s)%Z).
  { intros ct Hct. assert (R : (0 <= l_eT l - ct < 65536)%Z) by lia.
    pose proof (etime_seconds (l_cmd l) (l_eT l) ct W4 P0 R). lia. }
  csplit; auto; destruct (now s <? l_eT l)%Z eqn:E; apply Q; lia.
Qed.

(* ------------------------------------------------------------------ micro steps *)
Record wstep (s : db) (L : ledger) (s' : db) (recs : list aofrec) : Prop := mkWstep {
  wt_ws : WS s';
  wt_wl : WL s' (fold_left lstep recs L);
  wt_wb : wb L recs;
  wt_ct : Forall (fun r => (a_ctime r <= now s)%Z) recs;
  wt_same : same_scalars s s';
  wt_next : next s <= next s' <= next s + 1 }.

Lemma wstep_refl s L : WS s -> WL s L -> wstep s L s [].
Proof. intros H1 H2. apply mkWstep; cbn; auto. apply same_refl. lia. Qed.

Lemma wstep_trans0 s L s1 r1 s2 r2 :
  wstep s L s1 r1 -> next s1 = next s -> wstep s1 (fold_left lstep r1 L) s2 r2 -> wstep s L s2 (r1 ++ r2).
Proof.
  intros [A1 A2 A3 A4 A5 A6] Hn [B1 B2 B3 B4 B5 B6]. split; auto.
  - rewrite fold_left_app. exact B2.
  - apply wb_app. split; assumption.
  - apply Forall_app. split; [exact A4|]. rewrite (ss_now _ _ A5) in B4. exact B4.
  - eapply same_trans; eauto.
  - lia.
Qed.

(* persisted holds other than r are untouched by an effect on record r *)
Lemma pheld_frame s s' r k r0 l0 : eff s s' r k -> r0 <> r -> (pheld s' r0 l0 <-> pheld s r0 l0).
Proof. intros E Hne. unfold pheld. rewrite (ef_l _ _ _ _ E r0 Hne). tauto. Qed.

(* dropping a reference of a dead record *)
Lemma wstep_dropped s L s' r k l m :
  WS s -> WL s L -> next s < B32 -> aget (store s) r = Some l -> l_key l = k -> l_locked l = 0 -> aget (mgrs s) k = Some m ->
  eff s s' r k -> dropped s' r k l m -> wstep s L s' [].
Proof.
  intros H HL Hb Hr Hk Hz Hm E D. apply mkWstep; cbn [fold_left wb]; [| |exact I|constructor| |].
  - apply (ws_dropped s s' r k l m); auto.
  - apply (wl_frame s s' L HL).
    + intros r0 l0 P. assert (r0 <> r). { intros ->. destruct P as (R & Q & _). rewrite Hr in R. injection R as <-. lia. }
      exists l0. split; [apply (pheld_frame s s' r k r0 l0 E H0); exact P|]. auto.
    + intros r0 l0 P. assert (r0 <> r).
      { intros ->. destruct P as (R & Q & _). destruct D as [(l' & R' & D' & _)|(R' & _)]; [|congruence].
        rewrite R' in R. injection R as <-. destruct D' as (D1 & _). lia. }
      exists l0. split; [apply (pheld_frame s s' r k r0 l0 E H0); exact P|reflexivity].
  - apply (ef_same _ _ _ _ E).
  - rewrite (ef_next _ _ _ _ E). lia.
Qed.

(* record r keeps its core, expried flag and persistence mark *)
Lemma wstep_core s L s' r k l l' :
  WS s -> WL s L -> eff s s' r k -> aget (store s) r = Some l -> aget (store s') r = Some l' ->
  core_eq l l' -> l_expried l' = l_expried l -> l_isaof l' = l_isaof l -> aget (mgrs s') k = aget (mgrs s) k ->
  wstep s L s' [].
Proof.
  intros H HL E Hr Hr' C Hx Hi Hmk. pose proof C as (K1 & K2 & K3 & K4 & K5 & K6 & K7 & K8).
  apply mkWstep; cbn [fold_left wb]; [| |exact I|constructor| |].
  - apply (ws_core s s' r k l l'); auto.
  - apply (wl_frame s s' L HL).
    + intros r0 l0 P. destruct (N.eq_dec r0 r) as [->|Hne].
      * destruct P as (R & Q1 & Q2). rewrite Hr in R. injection R as <-. exists l'. split; [split; [exact Hr'|split; congruence]|].
        split; [exact K1|]. intros e. apply rec_matches_core. exact C.
      * exists l0. split; [apply (pheld_frame s s' r k r0 l0 E Hne); exact P|]. auto.
    + intros r0 l0 P. destruct (N.eq_dec r0 r) as [->|Hne].
      * destruct P as (R & Q1 & Q2). rewrite Hr' in R. injection R as <-. exists l. split; [split; [exact Hr|split; congruence]|]. congruence.
      * exists l0. split; [apply (pheld_frame s s' r k r0 l0 E Hne); exact P|reflexivity].
  - apply (ef_same _ _ _ _ E).
  - rewrite (ef_next _ _ _ _ E). lia.
Qed.

(* release of hold r: UNLOCK record iff the hold was persisted *)
Lemma wstep_released s L s' r k l m uc fl :
  WS s -> WL s L -> next s < B32 -> aget (store s) r = Some l -> l_key l = k -> l_locked l = 1 -> aget (mgrs s) k = Some m ->
  released s s' r k l m -> has fl AOF_FLAG_CONTAINS_DATA = false ->
  wstep s L s' (if l_isaof l then [unlock_rec_of l (l_cmd l) uc fl (ctime_of s l) None] else []).
Proof.
  intros H HL Hb Hr Hk Hl Hm REL Hfl. pose proof REL as (E & l1 & m1 & D1 & MR & D).
  pose proof (ws_shape _ H) as Hsh.
  destruct (sh_rec _ Hsh _ _ Hr) as (A1 & A2 & A3 & (_ & _ & At & _) & _).
  pose proof (ws_rec _ H r l Hr) as Wr.
  assert (Hdead : forall lx, aget (store s') r = Some lx -> l_locked lx = 0).
  { intros lx Hx. destruct D as [(l' & R' & D' & _)|(R' & _)]; [|congruence]. rewrite R' in Hx. injection Hx as <-. apply D'. }
  assert (Huniq : forall r0 l0, r0 <> r -> pheld s r0 l0 -> l_key l0 <> l_key l).
  { intros r0 l0 Hne (R0 & Q0 & _) Ek. apply Hne. apply (shape_held_unique s r0 l0 r l Hsh R0 Hr); try lia; exact Ek. }
  assert (WSs' : WS s') by (apply (ws_released s s' r k l m); auto).
  destruct (unlock_rec_fields s l uc fl Wr Hl At) as (U1 & U2 & U3 & U4 & U5 & U6 & U7 & U8 & U9). cbv zeta in *.
  set (u := unlock_rec_of l (l_cmd l) uc fl (ctime_of s l) None) in *.
  destruct (l_isaof l) eqn:Ia.
  - assert (P : pheld s r l) by (split; [exact Hr|split; assumption]).
    apply mkWstep; [exact WSs'| | | | |].
    + cbn [fold_left]. apply (wl_del s s' L r l u HL P U1 (eq_trans U4 A3) U5 Huniq).
      * intros r0 l0 Hne P0. exists l0. split; [apply (pheld_frame s s' r k r0 l0 E Hne); exact P0|]. auto.
      * intros r0 l0 P0. assert (r0 <> r). { intros ->. destruct P0 as (R & Q & _). specialize (Hdead _ R). lia. }
        split; [exact H0|]. exists l0. split; [apply (pheld_frame s s' r k r0 l0 E H0); exact P0|reflexivity].
    + cbn [wb]. split; [|exact I]. unfold wb_rec. rewrite U1.
      destruct (aget L (a_key u)) as [e|] eqn:Ee.
      * exists e. split; [reflexivity|].
        destruct (wl_a _ _ HL _ _ Ee) as (r1 & l1' & P1 & Hk1 & (ct & -> & Hct)).
        assert (r1 = r).
        { destruct (N.eq_dec r1 r) as [|Hne]; auto. exfalso. apply (Huniq r1 l1' Hne P1). congruence. }
        subst r1. destruct P1 as (R1 & _). rewrite Hr in R1. injection R1 as <-.
        destruct (lock_rec_fields s l ct Wr Hl At Hct) as (F1 & F2 & F3 & F4 & F5 & F6 & _). cbv zeta in *.
        split; [congruence|]. unfold unlock_wf, unlock_rec_plain. rewrite U2, U3. csplit; auto.
        intros Hp. rewrite (U8 Hp), F5. reflexivity.
      * exfalso. apply (wl_b _ _ HL r l P). congruence.
    + constructor; [exact U9|constructor].
    + apply (ef_same _ _ _ _ E).
    + rewrite (ef_next _ _ _ _ E). lia.
  - apply mkWstep; cbn [fold_left wb]; [exact WSs'| |exact I|constructor| |].
    + apply (wl_frame s s' L HL).
      * intros r0 l0 P0. assert (r0 <> r). { intros ->. destruct P0 as (R & _ & Q). rewrite Hr in R. injection R as <-. congruence. }
        exists l0. split; [apply (pheld_frame s s' r k r0 l0 E H0); exact P0|]. auto.
      * intros r0 l0 P0. assert (r0 <> r). { intros ->. destruct P0 as (R & Q & _). specialize (Hdead _ R). lia. }
        exists l0. split; [apply (pheld_frame s s' r k r0 l0 E H0); exact P0|reflexivity].
    + apply (ef_same _ _ _ _ E).
    + rewrite (ef_next _ _ _ _ E). lia.
Qed.

(* changes of fields other than store / managers *)
Lemma ws_fields s s' :
  WS s -> store s' = store s -> mgrs s' = mgrs s -> next s' = next s -> leader s' = leader s ->
  twheel s' = twheel s -> tlong s' = tlong s -> now s' = now s -> (checkE s' <= now s' + 1)%Z -> WS s'.
Proof.
  intros H Hs Hm Hn Hl Htw Htl Hnow Hc. split.
  - apply (shape_ext s s' (ws_shape _ H) Hs Hm Hn).
  - rewrite Hl. apply (ws_leader _ H).
  - rewrite Htw. apply (ws_tw _ H).
  - rewrite Htl. apply (ws_tl _ H).
  - exact Hc.
  - rewrite Hnow. apply (ws_now _ H).
  - unfold Cnt. rewrite Hs, Hm. apply (ws_cnt _ H).
  - intros r l Hr. rewrite Hs in Hr. apply (wrec_now s s' l Hnow). apply (ws_rec _ H r l Hr).
Qed.

Lemma wl_store s s' L : WL s L -> store s' = store s -> WL s' L.
Proof. intros [A B] Hs. split; unfold pheld in *; rewrite Hs; assumption. Qed.

Lemma wstep_fields s L s' :
  WS s -> WL s L -> store s' = store s -> mgrs s' = mgrs s -> next s' = next s -> same_scalars s s' -> wstep s L s' [].
Proof.
  intros H HL Hs Hm Hn SS. apply mkWstep; cbn [fold_left wb]; [| |exact I|constructor|exact SS|lia].
  - apply (ws_fields s s' H Hs Hm Hn); try apply SS. rewrite (ss_checkE _ _ SS), (ss_now _ _ SS). apply (ws_check _ H).
  - apply (wl_store s s' L HL Hs).
Qed.

(* removal of an unreferenced key manager *)
Lemma wstep_rmmgr s L k : WS s -> WL s L -> wstep s L (remove_mgr_if_unref s k) [].
Proof.
  intros H HL. destruct (remove_mgr_spec s k) as (G1 & G2 & G3 & G4 & G5). cbv zeta in *.
  set (s' := remove_mgr_if_unref s k) in *.
  destruct (aget (mgrs s) k) as [m|] eqn:Em.
  - destruct (m_ref m =? 0) eqn:Z.
    + apply N.eqb_eq in Z. pose proof (ws_shape _ H) as Hsh. destruct (ws_cnt _ H) as [C1 C2].
      assert (Hno : forall r l, aget (store s) r = Some l -> l_key l <> k).
      { intros r l Hr Hk. pose proof (key_cnt_pos k _ r l Hr Hk). pose proof (C1 k m Em). lia. }
      assert (Hsh' : Shape s').
      { split.
        - rewrite G1. apply (sh_awf _ Hsh).
        - intros r l. rewrite G1, G5. apply (sh_lt _ Hsh).
        - intros r l Hr. rewrite G1 in Hr. pose proof (sh_rec _ Hsh _ _ Hr) as X. unfold rec_shape in *.
          rewrite G3 by (apply Hno with r; exact Hr). exact X.
        - intros k0 m0 H0. destruct (N.eq_dec k0 k) as [->|Hne]; [rewrite G2 in H0; discriminate|].
          rewrite G3 in H0 by exact Hne. pose proof (sh_mgr _ Hsh _ _ H0) as X. unfold mgr_shape in *. rewrite G1. exact X. }
      apply mkWstep; cbn [fold_left wb]; [| |exact I|constructor|exact G4|lia].
      * apply (ws_scalars s s' H G4 Hsh').
        -- split.
           ++ intros k0 m0 H0. rewrite G1. destruct (N.eq_dec k0 k) as [->|Hne]; [rewrite G2 in H0; discriminate|].
              rewrite G3 in H0 by exact Hne. apply C1. exact H0.
           ++ intros r l Hr. rewrite G1 in Hr. rewrite G3 by (apply Hno with r; exact Hr). apply (C2 r l Hr).
        -- intros r l Hr. rewrite G1 in Hr. apply (ws_rec _ H r l Hr).
      * apply (wl_store s s' L HL G1).
    + apply (wstep_fields s L s' H HL G1); auto.
      apply (f_equal (fun o => o)) in G2.
      (* managers agree extensionally; rebuild syntactic equality from the definition *)
      subst s'. unfold remove_mgr_if_unref. rewrite Em, Z. reflexivity.
  - apply (wstep_fields s L s' H HL G1); auto. subst s'. unfold remove_mgr_if_unref. rewrite Em. reflexivity.
Qed.

(* ------------------------------------------------------------------ AddExpried on a hold: persisted when due *)
Lemma wstep_add_expried s L r l m :
  WS s -> WL s L -> aget (store s) r = Some l -> l_locked l = 1 -> aget (mgrs s) (l_key l) = Some m ->
  (now s < l_eT l)%Z ->
  exists s' ev, add_expried s (l_key l) r = (s', ev) /\ wstep s L s' (aofs_of ev) /\ next s' = next s.
Proof.
  intros H HL Hr Hl Hm Hlive. pose proof (ws_shape _ H) as Hsh. set (k := l_key l) in *.
  destruct (sh_rec _ Hsh _ _ Hr) as (A1 & A2 & A3 & (_ & _ & At & _) & [[Z _]|(_ & Hx & _)]); [lia|].
  destruct (sh_mgr _ Hsh _ _ Hm) as (B1 & B2 & B3 & B4).
  pose proof (ws_rec _ H r l Hr) as Wr. pose proof Wr as (W1 & W2 & W3 & W4 & W5 & W6). destruct (W6 Hl) as (W7 & W8).
  destruct (add_expried_spec s k r l m Hr Hm) as (s' & ev & l' & P & E & M' & R' & C & X' & EM); auto.
  { pose proof (ws_check _ H). lia. }
  { left. split; [apply (ws_leader _ H)|rewrite W1; reflexivity]. }
  exists s', ev. split; [exact P|]. split; [|apply (ef_next _ _ _ _ E)].
  destruct EM as [[-> Hi]|(Hld & Hi0 & Hi1 & ->)].
  - cbn [aofs_of flat_map]. apply (wstep_core s L s' r k l l'); auto; congruence.
  - rewrite At. cbn [has aofs_of flat_map app]. change (if has 0 TF_REQUIRE_ACKED then Some r else None) with (@None ref).
    assert (CT : ctime_of s l = now s). { unfold ctime_of. assert ((now s <? l_eT l)%Z = true) by lia. rewrite H0. reflexivity. }
    rewrite CT. set (e := lock_rec_of l (now s) None).
    destruct (lock_rec_fields s l (now s) Wr Hl At ltac:(lia)) as (F1 & F2 & F3 & F4 & F5 & F6 & F7 & F8). cbv zeta in *. fold e in F1, F2, F3, F4, F5, F6, F7, F8.
    assert (P' : pheld s' r l') by (split; [exact R'|split; [destruct C as (_ & _ & _ & _ & _ & K6 & _); congruence|exact Hi1]]).
    assert (Hnot : forall l0, ~ pheld s r l0).
    { intros l0 (R0 & _ & Q). rewrite Hr in R0. injection R0 as <-. congruence. }
    apply mkWstep.
    + apply (ws_core s s' r k l l'); auto; congruence.
    + cbn [fold_left]. apply (wl_add s s' L r l' e HL P').
      * apply (rec_matches_core e l l' C). exists (now s). split; [reflexivity|lia].
      * destruct C as (K1 & _). congruence.
      * exact F2.
      * intros r0 l0 Hne P0. exists l0. split; [apply (pheld_frame s s' r k r0 l0 E Hne); exact P0|]. auto.
      * intros r0 l0 Hne P0. exists l0. split; [apply (pheld_frame s s' r k r0 l0 E Hne); exact P0|reflexivity].
      * exact Hnot.
    + cbn [wb]. split; [|exact I]. unfold wb_rec. change (a_lock e) with true. cbv iota. split; [|exact F1].
      destruct (aget L (a_key e)) as [e0|] eqn:Ee; [|reflexivity]. exfalso.
      destruct (wl_a _ _ HL _ _ Ee) as (r1 & l1 & P1 & Hk1 & _).
      assert (r1 = r). { destruct P1 as (R1 & Q1 & _). apply (shape_held_unique s r1 l1 r l Hsh R1 Hr); try lia. congruence. }
      subst r1. apply (Hnot l1 P1).
    + constructor; [rewrite F6; lia|constructor].
    + apply (ef_same _ _ _ _ E).
    + rewrite (ef_next _ _ _ _ E). lia.
Qed.
