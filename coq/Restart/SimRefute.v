(* C07 - general simulation, part 9: why the sub-language of Restart/SimWriter.v cannot be widened in two directions.
   Both witnesses go through the whole model (engine run -> record stream -> recover) and were replayed on the real
   server with harness/restart (the Go census before the stop / after the restart shows the same loss):
   (1) shared holds (Count > 0): the admission rule compares `locked` with the Count of the OLDEST holder; after the
       oldest holder (Count 5) has expired, the replay sees the second holder (Count 1) as oldest and refuses the
       fourth LOCK record: a persisted, live hold is lost.
   (2) Expried = 65535 s: the hold's deadline is start + 65536, GetAofLockExpriedTime truncates 65536 to uint16 0, the
       record is replayed as a LOCK with Expried 0 (a probe): a persisted, live hold is lost. *)
From Coq Require Import String.
From Slock Require Import Engine.Types Engine.Queues Engine.Timers Engine.Engine Engine.Engine2 Restart.Recover
  Restart.RestartProofs Restart.SimBase Restart.SimWInv Restart.SimWriter Restart.SimMain.
Open Scope Z_scope.

(* the history with every request Count set to 0 / every LOCK term set to 1: used to say "in the sub-language up to ..." *)
Definition zero_count (a : action) : action :=
  match a with AReq conn c => AReq conn (c <| c_count := 0%N |>) | _ => a end.
Definition short_term (a : action) : action :=
  match a with AReq conn c => AReq conn (if c_lock c then c <| c_expried := 1%N |> else c) | _ => a end.

Definition hist_shared : list action :=
  [AReq 1 (lockc 1 0 101 7 0 0 256 10 5 0); AReq 1 (lockc 2 0 102 7 0 0 256 100 1 0);
   AReq 1 (lockc 3 0 103 7 0 0 256 100 5 0); AReq 1 (lockc 4 0 104 7 0 0 256 100 5 0)] ++ ticks 15.

Lemma refuted_shared_count :
  exists t0 aoft acts now',
    0 <= t0 /\ sub_hist (map zero_count acts) /\
    let '(s, recs, s') := run_and_recover t0 aoft acts now' now' in
    now s <= now' /\
    expected_holds s now' = [(7%N, 102%N, 1%N, 1%N, 0%N, 1102, None); (7%N, 103%N, 1%N, 5%N, 0%N, 1102, None);
                             (7%N, 104%N, 1%N, 5%N, 0%N, 1102, None)] /\
    holds_of s' = [(7%N, 102%N, 1%N, 1%N, 0%N, 1102, None); (7%N, 103%N, 1%N, 5%N, 0%N, 1102, None)].
Proof.
  exists 1000, 1%N, hist_shared, 1050. split; [discriminate|]. split; [apply sub_hist_b_sound; vm_compute; reflexivity|].
  vm_compute. split; [discriminate|]. split; reflexivity.
Qed.

Definition hist_maxterm : list action := [AReq 1 (lockc 1 0 101 7 0 0 256 65535 0 0)] ++ ticks 2.

Lemma refuted_expried_65535 :
  exists t0 aoft acts now',
    0 <= t0 /\ sub_hist (map short_term acts) /\
    let '(s, recs, s') := run_and_recover t0 aoft acts now' now' in
    now s <= now' /\
    expected_holds s now' = [(7%N, 101%N, 1%N, 0%N, 0%N, 66537, None)] /\
    (exists r, recs = [r] /\ a_lock r = true /\ a_etime r = 0%N) /\
    holds_of s' = [].
Proof.
  exists 1000, 1%N, hist_maxterm, 1005. split; [discriminate|]. split; [apply sub_hist_b_sound; vm_compute; reflexivity|].
  vm_compute. split; [discriminate|]. split; [reflexivity|]. split; [|reflexivity].
  eexists. split; [reflexivity|]. split; reflexivity.
Qed.

(* ------------------------------------------------------------------ a history of the sub-language used by the non-vacuity
   examples of Properties/C07_sim.v: persist-immediately, never-persist and default-delay holds on four keys, a refused
   request on a held key, a client unlock of a persisted hold followed by a new hold on the same key, an unlock with a
   foreign LockId, a 5 s hold that expires under the sweeps; stop at 1007, restart at 1012. *)
Definition sim_example_hist : list action :=
  [AReq 1 (lockc 1 0 101 7 0 0 256 30 0 0); AReq 2 (lockc 2 0 102 8 0 0 512 30 0 0);
   AReq 3 (lockc 3 0 103 9 0 0 0 30 0 0); AReq 4 (lockc 4 0 201 7 0 0 256 30 0 0);
   AReq 5 (lockc 5 0 104 10 0 0 256 5 0 0)] ++ ticks 3 ++
  [AReq 3 (unlockc 6 0 103 9 0 0); AReq 3 (lockc 7 0 105 9 0 0 256 40 0 0); AReq 9 (unlockc 8 0 999 7 0 0)] ++ ticks 4.

Lemma sim_example_sub : sub_hist sim_example_hist.
Proof. apply sub_hist_b_sound. vm_compute. reflexivity. Qed.
