(* C07 - two restarts on one data directory (run 1 -> stop -> restart -> run 2 -> stop -> restart).
   Run 1 is any history of the sub-language of Properties/C07_sim.v; run 2 releases holds that the first restart
   restored (UNLOCK requests, Flag 0, by any connection; requests that match no hold are refused).  The restored holds
   keep the replayed command (Flag = LOCK_FLAG_FROM_AOF): LockManager.PushUnLockAof / Timers.push_unlock_aof decides on
   the UNLOCK command's flag whether the release is written, so every release of run 2 is appended to the log and the
   second restart recovers exactly the holds still held at the second stop (all of them persisted), unchanged.

   Structure: (1) the unlock step on a shaped database related to a ledger (both modes: replay during a load, client
   request on the leader); (2) RX: the load establishes, for every ledger entry, a held record that is marked
   persisted and carries the replayed command; (3) run 2 keeps the invariant and appends one well-formed UNLOCK record
   per release; (4) the filtered ledger of the whole log at the second restart is the ledger of the second stop;
   (5) composition with the writer side of run 1 (SimWriter), the stream lemma (SimLedger) and the reader (SimReader). *)
From Coq Require Import String ZifyN ZifyBool ZifyNat.
From Slock Require Import Engine.Types Engine.Queues Engine.Timers Engine.Engine Engine.Engine2 Restart.Recover
  Restart.RestartProofs Restart.SimBase Restart.SimExec Restart.SimInv Restart.SimReader Restart.SimLedger
  Restart.SimSweep Restart.SimWInv Restart.SimWriter Restart.SimMain.
Open Scope N_scope.

(* ------------------------------------------------------------------ (1) the unlock step against a ledger *)
Lemma rl_store d d' L t : RL d L t -> store d' = store d -> RL d' L t.
Proof. intros [Ha Hb] E. split; rewrite E; assumption. Qed.

Lemma unlock_hit d L dbnow conn c e :
  Shape d -> RL d L dbnow -> aget L (c_key c) = Some e -> a_lockid e = c_lockid c ->
  c_lock c = false -> unlock_simple c -> umode d c -> emit_u d (Some c) ->
  exists s' ev r0 l0,
    step d (AReq conn c) = (s', ev) /\
    aget (store d) r0 = Some l0 /\ l_locked l0 = 1 /\ l_key l0 = c_key c /\ l_eT l0 = rearm_deadline e dbnow /\
    Shape s' /\ same_scalars d s' /\ RL s' (adel L (c_key c)) dbnow /\
    (forall r, r <> r0 -> aget (store s') r = aget (store d) r) /\
    aofs_of ev = (if l_isaof l0 && leader d then [unlock_rec_of l0 (l_cmd l0) (Some c) 0 (ctime_of d l0) None] else []).
Proof.
  intros H [Ha Hb] He Hid Hcl Hus Hum Hem.
  destruct (Ha _ _ He) as (r0 & l0 & H0 & Hl0 & Hk0 & Hi0 & Hc0 & Hrc0 & Hd0).
  destruct (sh_rec _ H _ _ H0) as (A1 & A2 & A3 & A4 & [[Z _]|(_ & _ & m & Hm & Hcur)]); [lia|].
  rewrite Hk0 in Hm.
  destruct (sh_mgr _ H _ _ Hm) as (B1 & B2 & B3 & B4). rewrite Hcur in B4. destruct B4 as (B4 & _).
  rewrite step_areq, Hcl.
  rewrite (unlock_step_release d conn c m r0 Hum Hm B4 Hcur);
    try (rewrite (getl_some _ _ _ H0)); auto; try congruence.
  destruct (release_path_spec d conn c r0 l0 m H H0 Hl0 Hk0 Hm (proj2 (proj2 Hus)) Hem) as (s' & ev & P & REL & EV).
  rewrite P.
  assert (H' : Shape s'). { apply (shape_released d s' r0 (c_key c) l0 m); auto. }
  rewrite (finish_nowait s' ev (c_key c) (Some conn) (shape_nowait s' (c_key c) H')).
  destruct REL as (E & l1 & m1 & D1 & MR & DR).
  assert (Hdead : forall lx, aget (store s') r0 = Some lx -> l_locked lx = 0).
  { intros lx Hx. destruct DR as [(l' & R' & D' & _)|(R' & _)]; [|congruence].
    rewrite R' in Hx. injection Hx as <-. apply D'. }
  exists s', (ev ++ []), r0, l0. csplit; auto.
  - exact (ef_same _ _ _ _ E).
  - split.
    + intros k e'. rewrite aget_adel. destruct (c_key c =? k) eqn:Ek; [discriminate|]. intros Q.
      destruct (Ha k e' Q) as (r1 & l1' & H1 & Z). exists r1, l1'. split; [|exact Z].
      rewrite (ef_l _ _ _ _ E); [exact H1|]. intros ->. rewrite H0 in H1. injection H1 as <-.
      destruct Z as (_ & Zk & _). apply N.eqb_neq in Ek. congruence.
    + intros r1 l1' H1 Hl1. assert (Hne : r1 <> r0). { intros ->. specialize (Hdead _ H1). lia. }
      rewrite (ef_l _ _ _ _ E) in H1 by exact Hne. rewrite aget_adel.
      destruct (c_key c =? l_key l1') eqn:Ek; [|apply (Hb r1 l1' H1 Hl1)].
      exfalso. apply N.eqb_eq in Ek. apply Hne. apply (shape_held_unique d r1 l1' r0 l0 H H1 H0); try lia; congruence.
  - intros r Hr. apply (ef_l _ _ _ _ E). exact Hr.
  - rewrite aofs_of_nil_r, EV. destruct A4 as (_ & _ & At & _). rewrite At. reflexivity.
Qed.

Lemma unlock_miss d L dbnow conn c :
  Shape d -> RL d L dbnow ->
  (forall e, aget L (c_key c) = Some e -> a_lockid e <> c_lockid c) ->
  c_lock c = false -> unlock_simple c -> umode d c ->
  exists ev, step d (AReq conn c) = (unlock_err d, ev) /\ aofs_of ev = [].
Proof.
  intros H [Ha Hb] Hne Hcl Hus Hum.
  destruct (unlock_step_err d conn c Hus Hum) as (ev & P & Q).
  { destruct (aget (mgrs d) (c_key c)) as [m|] eqn:Em; [|exact I].
    destruct (sh_mgr _ H _ _ Em) as (B1 & B2 & B3 & B4). destruct (m_cur m) as [cur|] eqn:Ecur; [|left; exact B4].
    right. split; [exact B1|]. exists cur. split; [reflexivity|].
    destruct B4 as (_ & lc & Hc & Hkc & Hlc). rewrite (getl_some _ _ _ Hc).
    destruct (aget L (c_key c)) as [e|] eqn:Ee.
    - destruct (Ha _ _ Ee) as (r1 & l1 & H1 & Hl1 & Hk1 & Hi1 & _).
      assert (r1 = cur). { apply (shape_held_unique d r1 l1 cur lc H H1 Hc); try lia; congruence. }
      subst r1. rewrite H1 in Hc. injection Hc as <-. rewrite Hi1. apply Hne. reflexivity.
    - exfalso. apply (Hb cur lc Hc Hlc). rewrite Hkc. exact Ee. }
  exists ev. split; [|exact Q]. rewrite step_areq, Hcl, P, finish_none. reflexivity.
Qed.

Lemma shape_unlock_err d : Shape d -> Shape (unlock_err d).
Proof. intros H. apply (shape_ext d); auto. Qed.

(* ------------------------------------------------------------------ (2) what the load establishes beyond RInv:
   every ledger entry is a held record that is MARKED PERSISTED (LockManager.AddLock sets isAof for a FROM_AOF command)
   and whose command is the replayed one (Flag = FROM_AOF) *)
Definition RX (d : db) (L : ledger) (dbnow : Z) : Prop :=
  forall k e, aget L k = Some e ->
    exists r l, aget (store d) r = Some l /\ l_locked l = 1 /\ l_key l = k /\ l_isaof l = true /\ l_cmd l = load_cmd e dbnow.

Lemma rx_store d d' L t : RX d L t -> store d' = store d -> RX d' L t.
Proof. intros HX E k e Q. rewrite E. exact (HX k e Q). Qed.

Lemma rx_lock d L dbnow wall r :
  RInv d L dbnow -> RX d L dbnow -> load_skip r wall = false -> a_lock r = true ->
  lock_rec_plain r -> aget L (a_key r) = None -> 0 < cmd_expried_time r dbnow -> (dbnow < rearm_deadline r dbnow)%Z ->
  RX (load_rec wall d r) (lstep_f wall L r) dbnow.
Proof.
  intros [H Hld Hnow Hchk [Ha Hb] Hkey] HX Hskip Hlock Hplain Hfree Hpos Hdl.
  unfold load_rec, lstep_f, lstep. rewrite Hskip, Hlock. rewrite Hnow.
  set (c := load_cmd r dbnow).
  assert (Ec : c = mkCmd true 0 4 (a_lockid r) (a_key r) 0 0 (a_eflag r) (cmd_expried_time r dbnow) (a_count r) (a_rcount r) None).
  { subst c. rewrite (load_cmd_lock r dbnow Hplain), Hlock. reflexivity. }
  assert (Hsimple : lock_simple c).
  { rewrite Ec. unfold lock_simple. cbn. destruct Hplain as (_ & _ & _ & _ & X). csplit; auto. }
  assert (Hkc : c_key c = a_key r) by (rewrite Ec; reflexivity).
  assert (Hmode : mode_ok d (c_flag c)) by (right; rewrite Ec; split; [exact Hld|reflexivity]).
  assert (Hpos' : 0 < c_expried c) by (rewrite Ec; exact Hpos).
  assert (Hkf : key_free d (c_key c)).
  { apply (shape_key_free d _ H). intros r0 l0 H0 Hl0 Hk0. apply (Hb r0 l0 H0 Hl0). rewrite Hk0, Hkc. exact Hfree. }
  rewrite step_areq. replace (c_lock c) with true by (rewrite Ec; reflexivity).
  rewrite (lock_step_grant d LOAD_CONN c Hsimple Hmode Hpos' Hkf).
  destruct (grant_path_spec d LOAD_CONN c Hsimple Hmode Hkf (shape_fresh d H) (proj1 (getm_shape_data d (c_key c) H)))
    as (s' & ev & l' & m' & P & R & L1 & L2 & L3 & L4 & L5 & L6 & L7 & L8 & FR & FM & W & SS & NX & M & M1 & M2 & M3 & M4 & M5 & M6 & M7 & EM).
  { rewrite Hnow. unfold rearm_deadline in Hdl. fold c in Hdl. lia. }
  { rewrite Hnow. exact Hdl. }
  rewrite P. cbn [finish fst].
  intros k e. rewrite aget_aset. destruct (a_key r =? k) eqn:E.
  - apply N.eqb_eq in E. intros Q. injection Q as <-. exists (next d), l'. csplit; auto; try congruence.
    destruct EM as [[_ X]|(Y & _)]; [|congruence]. rewrite X, Ec. reflexivity.
  - intros Q. destruct (HX k e Q) as (r0 & l0 & H0 & Z). exists r0, l0. split; [|exact Z].
    rewrite FR; [exact H0|]. intros ->. rewrite (shape_fresh d H) in H0. discriminate.
Qed.

Lemma rx_unlock d L dbnow wall r :
  RInv d L dbnow -> RX d L dbnow -> load_skip r wall = false -> a_lock r = false -> unlock_rec_plain r ->
  RX (load_rec wall d r) (lstep_f wall L r) dbnow.
Proof.
  intros [H Hld Hnow Hchk HRL Hkey] HX Hskip Hlock Hplain.
  unfold load_rec, lstep_f, lstep. rewrite Hskip, Hlock, Hnow.
  set (c := load_cmd r dbnow).
  destruct (load_cmd_unlock r dbnow Hplain) as (Cf & Cl & Ck & Ci). fold c in Cf, Cl, Ck, Ci.
  assert (Hus : unlock_simple c). { unfold unlock_simple, has_udata_flag. rewrite Cf. repeat split. }
  assert (Hum : umode d c). { unfold umode. rewrite Cf, Hld. reflexivity. }
  assert (Hcl : c_lock c = false) by congruence.
  rewrite <- Ck, <- Ci.
  assert (Hmiss : (forall e, aget L (c_key c) = Some e -> a_lockid e <> c_lockid c) ->
                  RX (fst (step d (AReq LOAD_CONN c))) L dbnow).
  { intros Hne. destruct (unlock_miss d L dbnow LOAD_CONN c H HRL Hne Hcl Hus Hum) as (ev & P & _).
    rewrite P. cbn [fst]. apply (rx_store d); auto. }
  destruct (aget L (c_key c)) as [e|] eqn:Ee.
  - destruct (a_lockid e =? c_lockid c) eqn:Ei.
    + apply N.eqb_eq in Ei.
      destruct (unlock_hit d L dbnow LOAD_CONN c e H HRL Ee Ei Hcl Hus Hum (or_introl Hld))
        as (s' & ev & r0 & l0 & P & H0 & Hl0 & Hk0 & _ & _ & _ & _ & FR & _).
      rewrite P. cbn [fst]. intros k e'. rewrite aget_adel. destruct (c_key c =? k) eqn:Ek; [discriminate|]. intros Q.
      destruct (HX k e' Q) as (r1 & l1 & H1 & Z). exists r1, l1. split; [|exact Z]. rewrite FR; [exact H1|].
      intros ->. rewrite H0 in H1. injection H1 as <-. destruct Z as (_ & Zk & _). apply N.eqb_neq in Ek. congruence.
    + apply N.eqb_neq in Ei. apply Hmiss. intros e' Q. injection Q as <-. exact Ei.
  - apply Hmiss. intros e' Q. discriminate.
Qed.

Lemma rx_fold wall dbnow recs : forall d L,
  RInv d L dbnow -> RX d L dbnow -> replay_ok wall dbnow L recs ->
  RInv (fold_left (load_rec wall) recs d) (fold_left (lstep_f wall) recs L) dbnow /\
  RX (fold_left (load_rec wall) recs d) (fold_left (lstep_f wall) recs L) dbnow.
Proof.
  induction recs as [|r recs IH]; intros d L HI HX HR; cbn [fold_left]; [split; assumption|].
  cbn [replay_ok] in HR. destruct HR as [H1 H2].
  destruct (load_skip r wall) eqn:Es.
  - apply IH; auto; unfold load_rec, lstep_f; rewrite Es; assumption.
  - destruct (a_lock r) eqn:El.
    + destruct H1 as (P & F & X & Y). apply IH; auto; [apply rinv_lock|apply rx_lock]; auto.
    + apply IH; auto; [apply rinv_unlock|apply rx_unlock]; auto.
Qed.

Lemma rx_init dbnow aoft : RX (load_db dbnow aoft) [] dbnow.
Proof. intros k e Q. discriminate. Qed.

(* ------------------------------------------------------------------ (3) the UNLOCK record of a restored hold *)
Lemma rearm_const e dbnow :
  lock_wf e -> (a_ctime e <= dbnow)%Z -> (dbnow < a_ctime e + Z.of_N (a_etime e))%Z ->
  rearm_deadline e dbnow = (a_ctime e + Z.of_N (a_etime e) + 1)%Z.
Proof.
  intros (Hp & Hu & He) Hc Hd. rewrite (rearm_seconds e dbnow Hp Hu).
  rewrite (remaining_seconds e dbnow Hu He Hc Hd). lia.
Qed.

Lemma unlock_rec_facts s l0 c e dbnow :
  lock_wf e -> (a_ctime e <= dbnow)%Z -> (dbnow < a_ctime e + Z.of_N (a_etime e))%Z -> (0 <= dbnow)%Z ->
  now s = dbnow -> l_cmd l0 = load_cmd e dbnow -> l_eT l0 = rearm_deadline e dbnow ->
  let u := unlock_rec_of l0 (l_cmd l0) (Some c) 0 (ctime_of s l0) None in
  a_lock u = false /\ a_key u = a_key e /\ a_lockid u = a_lockid e /\ unlock_rec_plain u /\
  (forall w, load_skip u w = true -> load_skip e w = true).
Proof.
  intros Hwf Hc Hd H0 Hnow Hcmd HeT. pose proof Hwf as (Hp & Hu & He). pose proof Hu as (U1 & U2 & U3).
  rewrite (rearm_const e dbnow Hwf Hc Hd) in HeT.
  cbv zeta. rewrite Hcmd, (load_cmd_lock e dbnow Hp).
  assert (Ect : ctime_of s l0 = dbnow).
  { unfold ctime_of. rewrite Hnow, HeT. assert (X : (dbnow <? a_ctime e + Z.of_N (a_etime e) + 1)%Z = true) by lia.
    rewrite X. reflexivity. }
  rewrite Ect. unfold unlock_rec_of. cbn [c_lockid c_key c_tflag c_eflag a_lock a_key a_lockid].
  csplit; try reflexivity.
  - split; reflexivity.
  - intros w. rewrite (load_skip_seconds e w Hu). unfold load_skip. cbn [a_eflag a_etime a_ctime]. rewrite U1, U2, U3.
    cbn [negb]. unfold aof_expried_time. cbn [c_eflag c_expried]. rewrite U1, U2, U3, HeT.
    assert (X1 : (0 <? a_ctime e + Z.of_N (a_etime e) + 1)%Z = true) by lia. rewrite X1.
    assert (X2 : (0 <? a_ctime e + Z.of_N (a_etime e) + 1 - dbnow)%Z = true) by lia. rewrite X2.
    intros Hs. apply andb_prop in Hs. destruct Hs as [S1 S2].
    assert (Hd65 : (a_ctime e + Z.of_N (a_etime e) + 1 - dbnow <= 65536)%Z) by lia.
    assert (Hcase : (a_ctime e + Z.of_N (a_etime e) + 1 - dbnow = 65536)%Z \/ (a_ctime e + Z.of_N (a_etime e) + 1 - dbnow < 65536)%Z) by lia.
    destruct Hcase as [E|Lt].
    + rewrite E in S1. exfalso. revert S1. vm_compute. discriminate.
    + rewrite N.mod_small in S1, S2 by lia. apply andb_true_intro. split; lia.
Qed.

(* ------------------------------------------------------------------ (4) run 2: releases of restored holds *)
Definition unlock_req (a : action) : Prop := match a with AReq _ c => sub_unlock c | _ => False end.

Lemma sub_unlock_simple c : sub_unlock c -> unlock_simple c.
Proof. intros (_ & F). unfold unlock_simple, has_udata_flag. rewrite F. repeat split. Qed.

Lemma replay_ok_app wall dbnow a : forall L b,
  replay_ok wall dbnow L (a ++ b) <-> replay_ok wall dbnow L a /\ replay_ok wall dbnow (fold_left (lstep_f wall) a L) b.
Proof.
  induction a as [|r a IH]; intros L b; cbn [app replay_ok fold_left]; [tauto|]. rewrite IH. tauto.
Qed.

Definition UOK (us : list aofrec) : Prop := Forall (fun u => a_lock u = false /\ unlock_rec_plain u) us.

Lemma replay_ok_unlocks wall dbnow us : UOK us -> forall L, replay_ok wall dbnow L us.
Proof.
  induction 1 as [|u us (Hl & Hp) _ IH]; intros L; cbn [replay_ok]; [exact I|]. split; [|apply IH].
  destruct (load_skip u wall); [exact I|]. rewrite Hl. exact Hp.
Qed.

Section Run2.
  Variables (dbnow1 wall1 wall2 : Z) (LW2 : ledger).
  Hypothesis Hpos : (0 <= dbnow1)%Z.
  Hypothesis Hclk : (dbnow1 <= wall1)%Z.

  (* the database of run 2 against the ledger of the holds it still has from the first restart *)
  Record P2 (s : db) (L : ledger) : Prop := mkP2 {
    p2_shape : Shape s; p2_leader : leader s = true; p2_now : now s = dbnow1;
    p2_rl : RL s L dbnow1; p2_rx : RX s L dbnow1; p2_keyed : ledger_keyed L;
    (* entries: seconds-unit LOCK records written before the first restart and live at its wall clock *)
    p2_ew : forall k e, aget L k = Some e ->
            lock_wf e /\ (a_ctime e <= dbnow1)%Z /\ (wall1 < a_ctime e + Z.of_N (a_etime e))%Z }.

  (* the log at the second restart: the kept records (filtered ledger LW2) followed by the records of run 2 *)
  Definition G (L : ledger) (us : list aofrec) : Prop :=
    forall k, aget (fold_left (lstep_f wall2) us LW2) k = live_of wall2 (aget L k).

  (* the ledger after an UNLOCK request: the entry of its key goes iff the LockId matches *)
  Definition unl (L : ledger) (c : cmd) : ledger :=
    match aget L (c_key c) with
    | Some e => if a_lockid e =? c_lockid c then adel L (c_key c) else L
    | None => L
    end.
  Definition unl_all (L : ledger) (acts : list action) : ledger :=
    fold_left (fun L a => match a with AReq _ c => unl L c | _ => L end) acts L.

  Lemma run2_step_state s L conn c :
    P2 s L -> sub_unlock c ->
    exists s' ev, step s (AReq conn c) = (s', ev) /\ P2 s' (unl L c) /\
      ((unl L c = L /\ aofs_of ev = []) \/
       (exists e u, aget L (c_key c) = Some e /\ unl L c = adel L (c_key c) /\ aofs_of ev = [u] /\
          a_lock u = false /\ a_key u = a_key e /\ a_lockid u = a_lockid e /\ unlock_rec_plain u /\
          (forall w, load_skip u w = true -> load_skip e w = true))).
  Proof.
    intros [H Hld Hnow HRL HX Hkey HEW] Hsub. pose proof Hsub as (Hcl & Hfl).
    pose proof (sub_unlock_simple c Hsub) as Hus.
    assert (Hum : umode s c) by (unfold umode; rewrite Hld; reflexivity).
    assert (Hem : emit_u s (Some c)) by (right; split; [exact Hld|rewrite Hfl; reflexivity]).
    assert (Hmiss : (forall e, aget L (c_key c) = Some e -> a_lockid e <> c_lockid c) -> unl L c = L ->
                    exists s' ev, step s (AReq conn c) = (s', ev) /\ P2 s' (unl L c) /\
                      ((unl L c = L /\ aofs_of ev = []) \/
                       (exists e u, aget L (c_key c) = Some e /\ unl L c = adel L (c_key c) /\ aofs_of ev = [u] /\
                          a_lock u = false /\ a_key u = a_key e /\ a_lockid u = a_lockid e /\ unlock_rec_plain u /\
                          (forall w, load_skip u w = true -> load_skip e w = true)))).
    { intros Hne EU. destruct (unlock_miss s L dbnow1 conn c H HRL Hne Hcl Hus Hum) as (ev & P & Q).
      exists (unlock_err s), ev. rewrite EU. csplit; auto.
      split; auto; first [apply shape_unlock_err; exact H | apply (rl_store s); auto | apply (rx_store s); auto]. }
    unfold unl in *.
    destruct (aget L (c_key c)) as [e|] eqn:Ee; [|apply Hmiss; [intros e' Q; discriminate|reflexivity]].
    destruct (a_lockid e =? c_lockid c) eqn:Ei;
      [|apply N.eqb_neq in Ei; apply Hmiss; [intros e' Q; injection Q as <-; exact Ei|reflexivity]].
    apply N.eqb_eq in Ei. clear Hmiss.
    destruct (unlock_hit s L dbnow1 conn c e H HRL Ee Ei Hcl Hus Hum Hem)
      as (s' & ev & r0 & l0 & P & H0 & Hl0 & Hk0 & HeT & H' & SS & HRL' & FR & EV).
    (* the released record is the one RX knows: marked persisted, replayed command *)
    destruct (HX _ _ Ee) as (r1 & l1 & H1 & Hl1 & Hk1 & Hia & Hcmd).
    assert (r1 = r0) by (apply (shape_held_unique s r1 l1 r0 l0 H H1 H0); try lia; congruence). subst r1.
    rewrite H0 in H1. injection H1 as <-.
    rewrite Hia, Hld in EV. cbn [andb] in EV.
    destruct (HEW _ _ Ee) as (Hwf & Hct & Hlive).
    destruct (unlock_rec_facts s l0 c e dbnow1 Hwf Hct ltac:(lia) Hpos Hnow Hcmd HeT) as (Ul & Uk & Ui & Up & Uskip).
    cbv zeta in Ul, Uk, Ui, Up, Uskip. set (u := unlock_rec_of l0 (l_cmd l0) (Some c) 0 (ctime_of s l0) None) in *.
    exists s', ev. split; [exact P|]. split.
    - split; auto.
      + rewrite (ss_leader _ _ SS). exact Hld.
      + rewrite (ss_now _ _ SS). exact Hnow.
      + intros k e'. rewrite aget_adel. destruct (c_key c =? k) eqn:Ek; [discriminate|]. intros Q.
        destruct (HX k e' Q) as (r1 & l1 & H1 & Z). exists r1, l1. split; [|exact Z]. rewrite FR; [exact H1|].
        intros ->. rewrite H0 in H1. injection H1 as <-. destruct Z as (_ & Zk & _). apply N.eqb_neq in Ek. congruence.
      + intros k e'. rewrite aget_adel. destruct (c_key c =? k); [discriminate|]. apply Hkey.
      + intros k e'. rewrite aget_adel. destruct (c_key c =? k); [discriminate|]. apply HEW.
    - right. exists e, u. csplit; auto.
  Qed.

  Lemma run2_step s L us conn c :
    P2 s L -> G L us -> UOK us -> sub_unlock c ->
    exists s' ev, step s (AReq conn c) = (s', ev) /\ P2 s' (unl L c) /\ G (unl L c) (us ++ aofs_of ev) /\ UOK (us ++ aofs_of ev).
  Proof.
    intros HP HG HU Hsub. destruct (run2_step_state s L conn c HP Hsub) as (s' & ev & P & HP' & Hcase).
    exists s', ev. split; [exact P|]. split; [exact HP'|].
    destruct Hcase as [(EU & EV)|(e & u & Ee & EU & EV & Ul & Uk & Ui & Up & Uskip)]; rewrite EU, EV.
    - rewrite app_nil_r. split; assumption.
    - destruct (p2_keyed _ _ HP _ _ Ee) as (Kk & _). split.
      + intros k. rewrite fold_left_app. cbn [fold_left]. set (cur := fold_left (lstep_f wall2) us LW2) in *.
        pose proof (HG (c_key c)) as Gk. fold cur in Gk. rewrite Ee in Gk. cbn [live_of] in Gk.
        rewrite aget_adel. unfold lstep_f. destruct (load_skip u wall2) eqn:Su.
        * rewrite (Uskip wall2 Su) in Gk. destruct (c_key c =? k) eqn:Ek; [|apply HG].
          apply N.eqb_eq in Ek. subst k. exact Gk.
        * unfold lstep. rewrite Ul, Uk, Kk. destruct (load_skip e wall2) eqn:Se.
          -- rewrite Gk. destruct (c_key c =? k) eqn:Ek; [|apply HG]. apply N.eqb_eq in Ek. subst k. exact Gk.
          -- rewrite Gk, Ui, N.eqb_refl. rewrite aget_adel. destruct (c_key c =? k); [reflexivity|apply HG].
      + apply Forall_app. split; [exact HU|]. constructor; [|constructor]. split; assumption.
  Qed.

  Lemma run2_run acts : Forall unlock_req acts -> forall s L us,
    P2 s L -> G L us -> UOK us ->
    exists s2 tr2, run s acts = (s2, tr2) /\ P2 s2 (unl_all L acts) /\ G (unl_all L acts) (us ++ records_of tr2) /\ UOK (us ++ records_of tr2).
  Proof.
    induction 1 as [|a acts Ha _ IH]; intros s L us HP HG HU.
    - exists s, []. cbn [run records_of flat_map unl_all fold_left]. rewrite app_nil_r. auto.
    - destruct a as [conn c|k| | |r ok|b]; try contradiction. cbn [unlock_req] in Ha.
      destruct (run2_step s L us conn c HP HG HU Ha) as (s1 & ev & P & HP1 & HG1 & HU1).
      destruct (IH s1 (unl L c) (us ++ aofs_of ev) HP1 HG1 HU1) as (s2 & tr2 & R & HP2 & HG2 & HU2).
      exists s2, (ev :: tr2). cbn [run]. rewrite P, R. rewrite records_of_cons, app_assoc. auto.
  Qed.
End Run2.

(* ------------------------------------------------------------------ (5) composition *)
(* what the property promises after the SECOND restart, for a run 2 that took no new holds: the holds of the second
   stop (all restored by the first restart, hence persisted; their deadline was re-armed by one second, the record on
   disk still carries the original one) that are still live at the wall clock, UNCHANGED *)
Definition kept_second (wall2 : Z) (h : hold) : bool := h_isaof h && (wall2 <? h_deadline h - 1)%Z.
Definition expected_second (s2 : db) (wall2 : Z) : list htuple := map tuple_of (filter (kept_second wall2) (holds_full s2)).

Lemma expected_second_sorted s w : Shape s -> ssorted tk (expected_second s w).
Proof.
  intros H. unfold expected_second. apply (ssorted_map hk tk tuple_of); [intros a; reflexivity|].
  apply ssorted_filter. apply hsort_sorted, raw_holds_nodup, H.
Qed.

Lemma expected_second_in s w t : Shape s ->
  (In t (expected_second s w) <->
   exists r l, aget (store s) r = Some l /\ l_locked l = 1 /\ l_isaof l = true /\ (w < l_eT l - 1)%Z /\ t = tuple_of (hold_of s l)).
Proof.
  intros H. unfold expected_second. rewrite in_map_iff. split.
  - intros (h & <- & Hh). apply filter_In in Hh. destruct Hh as [Hh Hp].
    unfold holds_full in Hh. apply (proj1 (hsort_in _ _)) in Hh. apply (proj1 (raw_holds_in s h (sh_awf _ H))) in Hh.
    destruct Hh as (r & l & Hr & P & ->). unfold kept_second, hold_of in Hp. cbn [h_isaof h_deadline] in Hp.
    apply andb_prop in Hp. destruct Hp as [P1 P2]. exists r, l. csplit; auto; [apply (shape_locked_one s r l H Hr P)|lia].
  - intros (r & l & Hr & P & Ia & Hd & ->). exists (hold_of s l). split; [reflexivity|]. apply filter_In. split.
    + unfold holds_full. apply (proj2 (hsort_in _ _)). apply (proj2 (raw_holds_in s _ (sh_awf _ H))). exists r, l. csplit; auto. lia.
    + unfold kept_second, hold_of. cbn [h_isaof h_deadline]. rewrite Ia. cbn [andb]. lia.
Qed.

Theorem twice_main t0 aoft acts1 wall1 dbnow1 acts2 wall2 dbnow2 :
  (0 <= t0)%Z -> sub_hist acts1 -> Forall unlock_req acts2 ->
  exists s tr1 s2 tr2,
    run (init_db t0 aoft) acts1 = (s, tr1) /\
    run (recover_at aoft (records_of tr1) wall1 dbnow1) acts2 = (s2, tr2) /\
    ((now s <= dbnow1)%Z -> (dbnow1 <= wall1)%Z -> (dbnow1 <= dbnow2)%Z -> (dbnow2 <= wall2)%Z -> (wall1 <= wall2)%Z ->
     holds_of (recover_at aoft (records_of tr1) wall1 dbnow1) = expected_holds s wall1 /\
     Forall (fun u => a_lock u = false) (records_of tr2) /\
     holds_of (recover_at aoft (records_of tr1 ++ records_of tr2) wall2 dbnow2) = expected_second s2 wall2).
Proof.
  intros Ht Hsub Hu2.
  destruct (sim_main_clocks t0 aoft acts1 wall1 dbnow1 Ht Hsub) as (s & tr & P & Q1).
  destruct (sim_writer t0 aoft acts1 Ht Hsub) as (s' & tr' & P' & HWS & HL & Hwb & Hct).
  rewrite P in P'. injection P' as <- <-.
  set (recs := records_of tr) in *.
  destruct (run (recover_at aoft recs wall1 dbnow1) acts2) as [s2 tr2] eqn:R2.
  exists s, tr, s2, tr2. split; [exact P|]. split; [exact R2|].
  intros Hn1 Hc1 Hd12 Hc2 Hw12. split; [apply Q1; assumption|].
  pose proof (ws_now _ HWS) as Hn0.
  destruct (wb_replay (now s) wall1 dbnow1 recs Hn1 Hc1 [] [] (Lwf_nil _) (fun k => eq_refl) Hwb Hct) as (Rok1 & HLwf & Hfil1).
  destruct (wb_replay (now s) wall2 dbnow2 recs ltac:(lia) Hc2 [] [] (Lwf_nil _) (fun k => eq_refl) Hwb Hct) as (Rok2 & _ & Hfil2).
  set (F := fold_left lstep recs []) in *.
  set (L1 := fold_left (lstep_f wall1) recs []) in *. set (LW2 := fold_left (lstep_f wall2) recs []) in *.
  destruct (rx_fold wall1 dbnow1 recs _ _ (rinv_init dbnow1 aoft) (rx_init dbnow1 aoft) Rok1) as ([Hsh Hld Hnow Hchk HRL Hkey] & HRX).
  fold L1 in HRL, HRX, Hkey. set (d := fold_left (load_rec wall1) recs (load_db dbnow1 aoft)) in *.
  assert (Es1 : recover_at aoft recs wall1 dbnow1 = d <| leader := true |>) by reflexivity.
  assert (HP : P2 dbnow1 wall1 (d <| leader := true |>) L1).
  { assert (A1 : Shape (d <| leader := true |>)) by (apply (shape_ext d); auto).
    assert (A2 : RL (d <| leader := true |>) L1 dbnow1) by (apply (rl_store d); auto).
    assert (A3 : RX (d <| leader := true |>) L1 dbnow1) by (apply (rx_store d); auto).
    split; try assumption; try reflexivity.
    intros k e He. pose proof (Hfil1 k) as Fk. rewrite He in Fk. destruct (aget F k) as [e0|] eqn:E0; [|discriminate].
    cbn [live_of] in Fk. destruct (load_skip e0 wall1) eqn:Sk; [discriminate|]. injection Fk as ->.
    destruct (HLwf _ _ E0) as (Hwf & Hce). split; [exact Hwf|]. split; [lia|].
    destruct Hwf as (_ & Hu & He0). rewrite (load_skip_seconds _ wall1 Hu) in Sk. apply andb_false_iff in Sk. lia. }
  assert (HG : G wall2 LW2 L1 []).
  { intros k. cbn [fold_left]. rewrite Hfil2, Hfil1. destruct (aget F k) as [e0|] eqn:E0; [|reflexivity].
    cbn [live_of]. destruct (load_skip e0 wall1) eqn:Sk; [|reflexivity].
    destruct (HLwf _ _ E0) as ((_ & Hu & He0) & _). rewrite (load_skip_seconds _ wall1 Hu) in Sk.
    rewrite (load_skip_seconds _ wall2 Hu). apply andb_prop in Sk. destruct Sk as [S1 S2].
    assert (X : (0 <? a_etime e0) && (a_ctime e0 + Z.of_N (a_etime e0) <=? wall2)%Z = true) by (apply andb_true_intro; split; lia).
    rewrite X. reflexivity. }
  destruct (run2_run dbnow1 wall1 wall2 LW2 ltac:(lia) Hc1 acts2 Hu2 _ L1 [] HP HG (Forall_nil _))
    as (s2' & tr2' & R & [H2 Hld2 Hnow2 HRL2 HRX2 Hkey2 HEW2] & HG2 & HU2).
  set (L2 := unl_all L1 acts2) in *.
  rewrite Es1 in R2. rewrite R2 in R. injection R as <- <-. cbn [app] in HG2, HU2.
  set (us := records_of tr2) in *.
  split. { pose proof HU2 as HU2'. unfold UOK in HU2'. rewrite Forall_forall in HU2'. apply Forall_forall. intros u Hin. apply (HU2' u Hin). }
  assert (Rok : replay_ok wall2 dbnow2 [] (recs ++ us)).
  { apply replay_ok_app. split; [exact Rok2|apply replay_ok_unlocks; exact HU2]. }
  destruct (sim_reader aoft (recs ++ us) wall2 dbnow2 Rok) as (Rs & Rin).
  assert (EL : forall k, aget (ledger_at wall2 (recs ++ us)) k = live_of wall2 (aget L2 k)).
  { intros k. unfold ledger_at. rewrite fold_left_app. apply HG2. }
  destruct HRL2 as [Ha2 Hb2]. fold recs.
  apply (ssorted_unique tk); [exact Rs|apply expected_second_sorted; exact H2|].
  intros t. rewrite Rin, (expected_second_in s2 wall2 t H2). split.
  - intros (k & e & He & ->). rewrite EL in He. destruct (aget L2 k) as [e0|] eqn:E0; [|discriminate].
    cbn [live_of] in He. destruct (load_skip e0 wall2) eqn:Sk; [discriminate|]. injection He as <-.
    destruct (Ha2 _ _ E0) as (r & l & Hr & Hl & Hk & Hi & Hc & Hrc & Hd).
    destruct (HRX2 _ _ E0) as (r1 & l1 & Hr1 & Hl1 & Hk1 & Hia & _).
    assert (r1 = r) by (apply (shape_held_unique s2 r1 l1 r l H2 Hr1 Hr); try lia; congruence). subst r1.
    rewrite Hr in Hr1. injection Hr1 as <-.
    destruct (HEW2 _ _ E0) as (Hwf & Hce & Hlv). pose proof Hwf as (_ & Hu & He0).
    rewrite (load_skip_seconds _ wall2 Hu) in Sk. apply andb_false_iff in Sk.
    rewrite (rearm_const e0 dbnow1 Hwf Hce ltac:(lia)) in Hd.
    exists r, l. csplit; auto; [lia|].
    unfold entry_tuple, tuple_of, hold_of. cbn [h_key h_lockid h_depth h_count h_rcount h_deadline h_value].
    rewrite (rearm_const e0 dbnow2 Hwf ltac:(lia) ltac:(lia)).
    rewrite (shape_value_none s2 _ H2), Hl, Hi, Hc, Hrc, Hd, Hk. destruct (Hkey2 _ _ E0) as [-> _]. reflexivity.
  - intros (r & l & Hr & Hl & Hia & Hlive & ->).
    destruct (aget L2 (l_key l)) as [e0|] eqn:E0; [|exfalso; apply (Hb2 r l Hr Hl E0)].
    destruct (Ha2 _ _ E0) as (r1 & l1 & Hr1 & Hl1 & Hk1 & Hi & Hc & Hrc & Hd).
    assert (r1 = r) by (apply (shape_held_unique s2 r1 l1 r l H2 Hr1 Hr); try lia; congruence). subst r1.
    rewrite Hr in Hr1. injection Hr1 as <-.
    destruct (HEW2 _ _ E0) as (Hwf & Hce & Hlv). pose proof Hwf as (_ & Hu & He0).
    rewrite (rearm_const e0 dbnow1 Hwf Hce ltac:(lia)) in Hd.
    exists (l_key l), e0. split.
    + rewrite EL, E0. cbn [live_of]. rewrite (load_skip_seconds _ wall2 Hu).
      assert (X : (0 <? a_etime e0) && (a_ctime e0 + Z.of_N (a_etime e0) <=? wall2)%Z = false) by (apply andb_false_iff; right; lia).
      rewrite X. reflexivity.
    + unfold entry_tuple, tuple_of, hold_of. cbn [h_key h_lockid h_depth h_count h_rcount h_deadline h_value].
      rewrite (rearm_const e0 dbnow2 Hwf ltac:(lia) ltac:(lia)).
      rewrite (shape_value_none s2 _ H2), Hl, Hi, Hc, Hrc, Hd. destruct (Hkey2 _ _ E0) as [-> _]. reflexivity.
Qed.

(* ------------------------------------------------------------------ (6) the concrete shape lock / restart / unlock / restart *)
Lemma first_restart_p2 t0 aoft acts1 wall1 dbnow1 s tr :
  (0 <= t0)%Z -> sub_hist acts1 -> run (init_db t0 aoft) acts1 = (s, tr) -> (now s <= dbnow1)%Z -> (dbnow1 <= wall1)%Z ->
  P2 dbnow1 wall1 (recover_at aoft (records_of tr) wall1 dbnow1) (ledger_at wall1 (records_of tr)) /\
  WS s /\ WL s (ledger_of (records_of tr)) /\
  (forall k, aget (ledger_at wall1 (records_of tr)) k = live_of wall1 (aget (ledger_of (records_of tr)) k)).
Proof.
  intros Ht Hsub P Hn1 Hc1.
  destruct (sim_writer t0 aoft acts1 Ht Hsub) as (s' & tr' & P' & HWS & HL & Hwb & Hct).
  rewrite P in P'. injection P' as <- <-. set (recs := records_of tr) in *.
  destruct (wb_replay (now s) wall1 dbnow1 recs Hn1 Hc1 [] [] (Lwf_nil _) (fun k => eq_refl) Hwb Hct) as (Rok1 & HLwf & Hfil1).
  fold (ledger_of recs) in HLwf, Hfil1. fold (ledger_at wall1 recs) in Hfil1.
  destruct (rx_fold wall1 dbnow1 recs _ _ (rinv_init dbnow1 aoft) (rx_init dbnow1 aoft) Rok1) as ([Hsh Hld Hnow Hchk HRL Hkey] & HRX).
  fold (ledger_at wall1 recs) in HRL, HRX, Hkey. set (d := fold_left (load_rec wall1) recs (load_db dbnow1 aoft)) in *.
  change (recover_at aoft recs wall1 dbnow1) with (d <| leader := true |>).
  split; [|split; [exact HWS|split; [exact HL|exact Hfil1]]].
  assert (A1 : Shape (d <| leader := true |>)) by (apply (shape_ext d); auto).
  assert (A2 : RL (d <| leader := true |>) (ledger_at wall1 recs) dbnow1) by (apply (rl_store d); auto).
  assert (A3 : RX (d <| leader := true |>) (ledger_at wall1 recs) dbnow1) by (apply (rx_store d); auto).
  split; try assumption; try reflexivity.
  intros k e He. pose proof (Hfil1 k) as Fk. rewrite He in Fk. destruct (aget (ledger_of recs) k) as [e0|] eqn:E0; [|discriminate].
  cbn [live_of] in Fk. destruct (load_skip e0 wall1) eqn:Sk; [discriminate|]. injection Fk as ->.
  destruct (HLwf _ _ E0) as (Hwf & Hce). split; [exact Hwf|]. split; [lia|].
  destruct Hwf as (_ & Hu & He0). rewrite (load_skip_seconds _ wall1 Hu) in Sk. apply andb_false_iff in Sk. lia.
Qed.

(* every lock record of the state after ONE lock request on a fresh leader carries that request *)
Lemma single_lock_store t0 aoft conn c s tr :
  (0 <= t0)%Z -> sub_lock c -> run (init_db t0 aoft) [AReq conn c] = (s, tr) ->
  forall r l, aget (store s) r = Some l -> l_cmd l = c.
Proof.
  intros Ht Hsub P. destruct (ws_init t0 aoft Ht) as (H & _). pose proof (ws_shape _ H) as Hsh.
  pose proof (sub_lock_simple c Hsub) as Hsimple. destruct Hsub as (C1 & C2 & C3 & C4 & C5 & C6 & C7 & C8 & C9).
  set (s0 := init_db t0 aoft) in *.
  assert (Hmode : mode_ok s0 (c_flag c)) by (left; split; [reflexivity|exact C2]).
  assert (Hkf : key_free s0 (c_key c)) by exact I.
  cbn [run] in P. rewrite step_areq, C1 in P.
  rewrite (lock_step_grant s0 conn c Hsimple Hmode ltac:(lia) Hkf) in P.
  pose proof (expiry_deadline_seconds c (now s0) C5) as ED.
  destruct (grant_path_spec s0 conn c Hsimple Hmode Hkf (shape_fresh s0 Hsh) (proj1 (getm_shape_data s0 (c_key c) Hsh)))
    as (s' & ev & l' & m' & P' & R & L1 & L2 & _ & _ & _ & _ & _ & _ & FR & _).
  { rewrite ED. pose proof (ws_check _ H). lia. } { rewrite ED. lia. }
  rewrite P' in P. cbn [finish] in P. injection P as <- _.
  intros r l Hr. destruct (N.eq_dec r (next s0)) as [->|Hne].
  - rewrite R in Hr. injection Hr as <-. exact L2.
  - rewrite (FR r Hne) in Hr. discriminate.
Qed.

Theorem twice_lock_unlock t0 aoft conn c conn' u wall1 dbnow1 wall2 dbnow2 :
  (0 <= t0)%Z -> sub_lock c -> sub_unlock u -> c_key u = c_key c -> c_lockid u = c_lockid c ->
  let '(s, s1, s2, recs2, s'') := two_restarts t0 aoft [AReq conn c] wall1 dbnow1 [AReq conn' u] wall2 dbnow2 in
  (now s <= dbnow1)%Z -> (dbnow1 <= wall1)%Z -> (dbnow1 <= dbnow2)%Z -> (dbnow2 <= wall2)%Z -> (wall1 <= wall2)%Z ->
  holds_of s1 = expected_holds s wall1 /\ holds_of s2 = [] /\ holds_of s'' = [].
Proof.
  intros Ht Hc Hu Ek Ei.
  assert (Hsub : sub_hist [AReq conn c]).
  { split; [constructor; [left; exact Hc|constructor]|vm_compute; reflexivity]. }
  assert (Hu2 : Forall unlock_req [AReq conn' u]) by (constructor; [exact Hu|constructor]).
  destruct (twice_main t0 aoft [AReq conn c] wall1 dbnow1 [AReq conn' u] wall2 dbnow2 Ht Hsub Hu2)
    as (s & tr & s2 & tr2 & P & R2 & Q).
  unfold two_restarts. rewrite P, R2. intros Hn1 Hc1 Hd12 Hc2 Hw12.
  destruct (Q Hn1 Hc1 Hd12 Hc2 Hw12) as (Q1 & _ & Q3). split; [exact Q1|].
  destruct (first_restart_p2 t0 aoft _ wall1 dbnow1 s tr Ht Hsub P Hn1 Hc1) as (HP & HWS & HL & Hfil).
  set (recs := records_of tr) in *. set (L1 := ledger_at wall1 recs) in *.
  pose proof (ws_now _ HWS) as Hn0.
  (* the ledger of the first restart has at most the entry of the request *)
  assert (HL1 : forall k e, aget L1 k = Some e -> k = c_key c /\ a_lockid e = c_lockid c).
  { intros k e He. rewrite Hfil in He. destruct (aget (ledger_of recs) k) as [e0|] eqn:E0; [|discriminate].
    cbn [live_of] in He. destruct (load_skip e0 wall1); [discriminate|]. injection He as <-.
    destruct (wl_a _ _ HL _ _ E0) as (r & l & (Hr & _ & _) & Hk & (ct & -> & _)).
    pose proof (single_lock_store t0 aoft conn c s tr Ht Hc P r l Hr) as Ecmd.
    destruct (sh_rec _ (ws_shape _ HWS) _ _ Hr) as (_ & _ & A3 & _).
    split; [rewrite <- Hk, <- A3, Ecmd; reflexivity|]. cbn [lock_rec_of a_lockid]. rewrite Ecmd. reflexivity. }
  destruct (run2_step_state dbnow1 wall1 ltac:(lia) Hc1 _ L1 conn' u HP Hu) as (s' & ev & P2' & HP2 & _).
  cbn [run] in R2. rewrite P2' in R2. injection R2 as <- _.
  assert (HL2 : forall k, aget (unl L1 u) k = None).
  { intros k. unfold unl. rewrite Ek. destruct (aget L1 (c_key c)) as [e|] eqn:Ee.
    - destruct (HL1 _ _ Ee) as (_ & Hid). rewrite Hid, Ei, N.eqb_refl. rewrite aget_adel.
      destruct (c_key c =? k) eqn:E; [reflexivity|]. destruct (aget L1 k) as [e'|] eqn:Ee'; [|reflexivity].
      destruct (HL1 _ _ Ee') as (-> & _). rewrite N.eqb_refl in E. discriminate.
    - destruct (aget L1 k) as [e'|] eqn:Ee'; [|reflexivity]. destruct (HL1 _ _ Ee') as (-> & _). congruence. }
  assert (E2 : holds_full s' = []).
  { unfold holds_full. destruct (raw_holds s') as [|h t] eqn:Eh; [reflexivity|exfalso].
    assert (Hin : In h (raw_holds s')) by (rewrite Eh; left; reflexivity).
    apply (proj1 (raw_holds_in s' h (sh_awf _ (p2_shape _ _ _ _ HP2)))) in Hin. destruct Hin as (r & l & Hr & Hp & _).
    pose proof (shape_locked_one s' r l (p2_shape _ _ _ _ HP2) Hr Hp) as Hl1.
    apply (rl_b _ _ _ (p2_rl _ _ _ _ HP2) r l Hr Hl1). apply HL2. }
  split.
  - rewrite holds_of_eq, E2. reflexivity.
  - rewrite Q3. unfold expected_second. rewrite E2. reflexivity.
Qed.

(* ------------------------------------------------------------------ pipeline form *)
Corollary twice_pipeline t0 aoft acts1 wall1 dbnow1 acts2 wall2 dbnow2 :
  (0 <= t0)%Z -> sub_hist acts1 -> Forall unlock_req acts2 ->
  let '(s, s1, s2, recs2, s'') := two_restarts t0 aoft acts1 wall1 dbnow1 acts2 wall2 dbnow2 in
  (now s <= dbnow1)%Z -> (dbnow1 <= wall1)%Z -> (dbnow1 <= dbnow2)%Z -> (dbnow2 <= wall2)%Z -> (wall1 <= wall2)%Z ->
  holds_of s1 = expected_holds s wall1 /\ holds_of s'' = expected_second s2 wall2.
Proof.
  intros Ht Hsub Hu2.
  destruct (twice_main t0 aoft acts1 wall1 dbnow1 acts2 wall2 dbnow2 Ht Hsub Hu2) as (s & tr & s2 & tr2 & P & R2 & Q).
  unfold two_restarts. rewrite P, R2. intros Hn1 Hc1 Hd12 Hc2 Hw12.
  destruct (Q Hn1 Hc1 Hd12 Hc2 Hw12) as (Q1 & _ & Q3). split; assumption.
Qed.

(* what the first restart establishes for the run that follows (the part of the writer invariant that is needed for
   releases): the restarted database is a well-shaped leader at the DB clock of the restart, its holds are exactly the
   entries of the filtered ledger of the log, each one MARKED PERSISTED and carrying the REPLAYED command
   (Flag = LOCK_FLAG_FROM_AOF), deadline re-armed; the entries are seconds-unit LOCK records live at the wall clock *)
Corollary restart_establishes t0 aoft acts1 wall1 dbnow1 :
  (0 <= t0)%Z -> sub_hist acts1 ->
  let '(s, recs, s1) := run_and_recover t0 aoft acts1 wall1 dbnow1 in
  (now s <= dbnow1)%Z -> (dbnow1 <= wall1)%Z -> P2 dbnow1 wall1 s1 (ledger_at wall1 recs).
Proof.
  intros Ht Hsub. unfold run_and_recover. destruct (run (init_db t0 aoft) acts1) as [s tr] eqn:P. intros Hn Hc.
  apply (first_restart_p2 t0 aoft acts1 wall1 dbnow1 s tr Ht Hsub P Hn Hc).
Qed.

(* example: three persist-immediately holds; restart; the first is released by its owner, a release with a foreign
   LockId is refused; restart *)
Definition twice_lock (req lid key expried : N) : action := AReq 1 (make_cmd true req 0 lid key 0 0 256 expried 0 0 None).
Definition twice_unlock (req lid key : N) : action := AReq 2 (make_cmd false req 0 lid key 0 0 0 0 0 0 None).
Definition twice_run1 : list action := [twice_lock 1 101 7 120; twice_lock 2 102 8 120; twice_lock 3 103 9 3; AAdvance 1; ASweepT; ASweepE].
Definition twice_run2 : list action := [twice_unlock 4 101 7; twice_unlock 5 999 8].

Lemma twice_example_sub : sub_hist twice_run1 /\ Forall unlock_req twice_run2.
Proof.
  split; [apply sub_hist_b_sound; vm_compute; reflexivity|].
  repeat constructor.
Qed.
