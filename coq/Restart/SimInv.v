(* C07 - general simulation, part 2: the shape invariant of the sub-language (exclusive holds, no waiters) and its
   preservation by the three effects of Restart/SimExec.v: grant of a free key, release of the holder of a key,
   dropping a reference of a dead record.  Shared by the writer side (original run) and the reader side (replay). *)
From Coq Require Import String ZifyN ZifyBool ZifyNat.
From Slock Require Import Engine.Types Engine.Queues Engine.Timers Engine.Engine Engine.Engine2 Restart.Recover
  Restart.SimBase Restart.SimExec.
Open Scope N_scope.

Definition rec_shape (s : db) (r : ref) (l : lockrec) : Prop :=
  l_ack l = 255 /\ l_data l = None /\ c_key (l_cmd l) = l_key l /\ lock_simple (l_cmd l) /\
  ((l_locked l = 0 /\ l_expried l = true) \/
   (l_locked l = 1 /\ l_expried l = false /\ exists m, aget (mgrs s) (l_key l) = Some m /\ m_cur m = Some r)).

Definition mgr_shape (s : db) (k : N) (m : mgr) : Prop :=
  m_locks m = None /\ m_waited m = false /\ m_data m = None /\
  match m_cur m with
  | Some r => m_locked m = 1 /\ exists l, aget (store s) r = Some l /\ l_key l = k /\ l_locked l = 1
  | None => m_locked m = 0
  end.

Record Shape (s : db) : Prop := mkShape {
  sh_awf : awf (store s);
  sh_lt : forall r l, aget (store s) r = Some l -> r < next s;
  sh_rec : forall r l, aget (store s) r = Some l -> rec_shape s r l;
  sh_mgr : forall k m, aget (mgrs s) k = Some m -> mgr_shape s k m }.

Lemma shape_fresh s : Shape s -> aget (store s) (next s) = None.
Proof.
  intros H. destruct (aget (store s) (next s)) eqn:E; auto. pose proof (sh_lt _ H _ _ E). lia.
Qed.

Lemma shape_held_cur s r l m : Shape s -> aget (store s) r = Some l -> l_locked l = 1 ->
  aget (mgrs s) (l_key l) = Some m -> m_cur m = Some r.
Proof.
  intros H Hr Hl Hm. destruct (sh_rec _ H _ _ Hr) as (_ & _ & _ & _ & [[Z _]|(_ & _ & m' & Hm' & Hc)]); [lia|].
  rewrite Hm in Hm'. inv Hm'. exact Hc.
Qed.

Lemma shape_key_free s k : Shape s ->
  (forall r l, aget (store s) r = Some l -> l_locked l = 1 -> l_key l <> k) -> key_free s k.
Proof.
  intros H Hn. unfold key_free. destruct (aget (mgrs s) k) as [m|] eqn:E; auto.
  destruct (sh_mgr _ H _ _ E) as (_ & Hw & _ & Hc). destruct (m_cur m) as [r|].
  - destruct Hc as (_ & l & Hr & Hk & Hl). exfalso. exact (Hn r l Hr Hl Hk).
  - auto.
Qed.

Lemma getm_shape_data s k : Shape s -> m_data (getm s k) = None /\ m_locks (getm s k) = None.
Proof.
  intros H. unfold getm. destruct (aget (mgrs s) k) as [m|] eqn:E; [|split; reflexivity].
  destruct (sh_mgr _ H _ _ E) as (A & _ & B & _). auto.
Qed.

(* ------------------------------------------------------------------ grant of a free key *)
Lemma shape_grant s s' c l' m' :
  Shape s -> lock_simple c -> key_free s (c_key c) ->
  aget (store s') (next s) = Some l' ->
  l_key l' = c_key c -> l_cmd l' = c -> l_data l' = None -> l_locked l' = 1 -> l_ack l' = 255 -> l_expried l' = false ->
  (forall r', r' <> next s -> aget (store s') r' = aget (store s) r') ->
  (forall k', k' <> c_key c -> aget (mgrs s') k' = aget (mgrs s) k') ->
  (awf (store s) -> awf (store s')) -> next s' = next s + 1 ->
  aget (mgrs s') (c_key c) = Some m' -> m_cur m' = Some (next s) -> m_locked m' = 1 ->
  m_locks m' = m_locks (getm s (c_key c)) -> m_waited m' = false -> m_data m' = None ->
  Shape s'.
Proof.
  intros H Hc Hfree R Lk Lc Ld Ll La Lx FR FM W NX M Mc Ml Mq Mw Md.
  pose proof (shape_fresh s H) as Hfresh.
  split.
  - apply W, (sh_awf _ H).
  - intros r l Hr. destruct (N.eq_dec r (next s)) as [->|Hne]; [lia|].
    rewrite FR in Hr by exact Hne. pose proof (sh_lt _ H _ _ Hr). lia.
  - intros r l Hr. destruct (N.eq_dec r (next s)) as [->|Hne].
    + rewrite R in Hr. injection Hr as <-. unfold rec_shape. rewrite Lk, Lc. csplit; auto.
      right. csplit; auto. exists m'. split; assumption.
    + rewrite FR in Hr by exact Hne. destruct (sh_rec _ H _ _ Hr) as (A1 & A2 & A3 & A4 & A5).
      unfold rec_shape. csplit; auto. destruct A5 as [A5|(B1 & B2 & m & Hm & Hcur)]; [left; exact A5|].
      right. csplit; auto. exists m. split; [|exact Hcur]. rewrite FM; [exact Hm|].
      intros Ek. unfold key_free in Hfree. rewrite <- Ek, Hm in Hfree. destruct Hfree as (_ & Hn & _). congruence.
  - intros k m Hm. destruct (N.eq_dec k (c_key c)) as [->|Hne].
    + rewrite M in Hm. injection Hm as <-. unfold mgr_shape. rewrite Mc, Mq. csplit; auto.
      * apply (getm_shape_data s (c_key c) H).
      * exists l'. csplit; auto.
    + rewrite FM in Hm by exact Hne. destruct (sh_mgr _ H _ _ Hm) as (B1 & B2 & B3 & B4).
      unfold mgr_shape. csplit; auto. destruct (m_cur m) as [r|]; [|exact B4].
      destruct B4 as (B4 & l & Hr & Hk & Hl). split; [exact B4|]. exists l. csplit; auto.
      rewrite FR; [exact Hr|]. intros ->. congruence.
Qed.

(* ------------------------------------------------------------------ dropping a reference of a dead record *)
Lemma shape_dropped s s' r k l m :
  Shape s -> aget (store s) r = Some l -> l_key l = k -> l_locked l = 0 -> aget (mgrs s) k = Some m ->
  eff s s' r k -> dropped s' r k l m -> (dec32 (m_ref m) = 0 -> m_cur m = None) ->
  Shape s'.
Proof.
  intros H Hr Hk Hz Hm E D Hcnt.
  assert (Hx : l_expried l = true).
  { destruct (sh_rec _ H _ _ Hr) as (_ & _ & _ & _ & [[_ X]|(X & _)]); [exact X|lia]. }
  destruct (sh_rec _ H _ _ Hr) as (A1 & A2 & A3 & A4 & _).
  destruct (sh_mgr _ H _ _ Hm) as (B1 & B2 & B3 & B4).
  split.
  - apply (ef_awf _ _ _ _ E), (sh_awf _ H).
  - intros r0 l0 H0. rewrite (ef_next _ _ _ _ E). destruct (N.eq_dec r0 r) as [->|Hne].
    + apply (sh_lt _ H _ _ Hr).
    + rewrite (ef_l _ _ _ _ E) in H0 by exact Hne. apply (sh_lt _ H _ _ H0).
  - intros r0 l0 H0. destruct (N.eq_dec r0 r) as [->|Hne].
    + destruct D as [(l' & R' & D' & M')|(R' & _)]; [|congruence].
      rewrite R' in H0. inv H0. destruct D' as (D1 & D2 & D3 & D4 & D5 & D6 & _).
      unfold rec_shape. rewrite D3, D4, D5. csplit; auto. left. split; congruence.
    + rewrite (ef_l _ _ _ _ E) in H0 by exact Hne. destruct (sh_rec _ H _ _ H0) as (C1 & C2 & C3 & C4 & C5).
      unfold rec_shape. csplit; auto. destruct C5 as [C5|(F1 & F2 & m0 & Hm0 & Hc0)]; [left; exact C5|].
      right. csplit; auto. destruct (N.eq_dec (l_key l0) k) as [Ek|Nk].
      * rewrite Ek in *. assert (m0 = m) by congruence. subst m0.
        destruct D as [(l' & R' & D' & M')|(R' & M')].
        -- exists m. split; assumption.
        -- destruct (dec32 (m_ref m) =? 0) eqn:Z.
           ++ apply N.eqb_eq in Z. rewrite (Hcnt Z) in Hc0. discriminate.
           ++ eexists. split; [exact M'|]. exact Hc0.
      * exists m0. split; [|exact Hc0]. rewrite (ef_m _ _ _ _ E); auto.
  - intros k0 m0 H0. destruct (N.eq_dec k0 k) as [->|Hne].
    + assert (Hsh : mgr_shape s' k m).
      { unfold mgr_shape. csplit; auto. destruct (m_cur m) as [rc|]; [|exact B4].
        destruct B4 as (B4 & lc & Hrc & Hkc & Hlc). split; [exact B4|]. exists lc. csplit; auto.
        rewrite (ef_l _ _ _ _ E); [exact Hrc|]. intros ->. rewrite Hr in Hrc. inv Hrc. lia. }
      destruct D as [(l' & R' & D' & M')|(R' & M')].
      * rewrite M' in H0. inv H0. exact Hsh.
      * rewrite M' in H0. destruct (dec32 (m_ref m) =? 0); [discriminate|]. inv H0. exact Hsh.
    + rewrite (ef_m _ _ _ _ E) in H0 by exact Hne. destruct (sh_mgr _ H _ _ H0) as (C1 & C2 & C3 & C4).
      unfold mgr_shape. csplit; auto. destruct (m_cur m0) as [rc|]; [|exact C4].
      destruct C4 as (C4 & lc & Hrc & Hkc & Hlc). split; [exact C4|]. exists lc. csplit; auto.
      rewrite (ef_l _ _ _ _ E); [exact Hrc|]. intros ->. rewrite Hr in Hrc. inv Hrc. congruence.
Qed.

(* ------------------------------------------------------------------ release of the holder of a key *)
Lemma shape_released s s' r k l m :
  Shape s -> aget (store s) r = Some l -> l_key l = k -> l_locked l = 1 -> aget (mgrs s) k = Some m ->
  released s s' r k l m -> Shape s'.
Proof.
  intros H Hr Hk Hl Hm (E & l1 & m1 & D1 & MR & D).
  pose proof (shape_held_cur s r l m H Hr Hl) as Hcur. rewrite Hk in Hcur. specialize (Hcur Hm).
  destruct (sh_rec _ H _ _ Hr) as (A1 & A2 & A3 & A4 & _).
  destruct (sh_mgr _ H _ _ Hm) as (B1 & B2 & B3 & B4).
  destruct MR as (Q1 & Q2 & Q3 & Q4 & Q5 & Q6 & Q7).
  destruct D1 as (E1 & E2 & E3 & E4 & E5 & E6 & E7 & E8). cbn [l_key l_cmd l_data l_expried l_start l_eT set] in *.
  assert (Hsh1 : mgr_shape s' k m1 /\ mgr_shape s' k (m1 <| m_ref := dec32 (m_ref m1) |>)).
  { unfold mgr_shape. cbn [m_locks m_waited m_data m_cur m_locked set]. rewrite Q1. split; csplit; congruence. }
  split.
  - apply (ef_awf _ _ _ _ E), (sh_awf _ H).
  - intros r0 l0 H0. rewrite (ef_next _ _ _ _ E). destruct (N.eq_dec r0 r) as [->|Hne].
    + apply (sh_lt _ H _ _ Hr).
    + rewrite (ef_l _ _ _ _ E) in H0 by exact Hne. apply (sh_lt _ H _ _ H0).
  - intros r0 l0 H0. destruct (N.eq_dec r0 r) as [->|Hne].
    + destruct D as [(l' & R' & D' & M')|(R' & _)]; [|congruence].
      rewrite R' in H0. inv H0. destruct D' as (D1 & D2 & D3 & D4 & D5 & D6 & _).
      unfold rec_shape. rewrite D3, D4, D5, E3, E4, E5. csplit; auto. left. split; congruence.
    + rewrite (ef_l _ _ _ _ E) in H0 by exact Hne. destruct (sh_rec _ H _ _ H0) as (C1 & C2 & C3 & C4 & C5).
      unfold rec_shape. csplit; auto. destruct C5 as [C5|(F1 & F2 & m0 & Hm0 & Hc0)]; [left; exact C5|].
      right. csplit; auto. destruct (N.eq_dec (l_key l0) k) as [Ek|Nk].
      * exfalso. rewrite Ek in Hm0. assert (m0 = m) by congruence. subst m0. congruence.
      * exists m0. split; [|exact Hc0]. rewrite (ef_m _ _ _ _ E); auto.
  - intros k0 m0 H0. destruct (N.eq_dec k0 k) as [->|Hne].
    + destruct D as [(l' & R' & D' & M')|(R' & M')].
      * rewrite M' in H0. inv H0. apply Hsh1.
      * rewrite M' in H0. destruct (dec32 (m_ref m1) =? 0); [discriminate|]. inv H0. apply Hsh1.
    + rewrite (ef_m _ _ _ _ E) in H0 by exact Hne. destruct (sh_mgr _ H _ _ H0) as (C1 & C2 & C3 & C4).
      unfold mgr_shape. csplit; auto. destruct (m_cur m0) as [rc|]; [|exact C4].
      destruct C4 as (C4 & lc & Hrc & Hkc & Hlc). split; [exact C4|]. exists lc. csplit; auto.
      rewrite (ef_l _ _ _ _ E); [exact Hrc|]. intros ->. rewrite Hr in Hrc. inv Hrc. congruence.
Qed.

(* ------------------------------------------------------------------ states that agree on store and managers *)
Lemma shape_ext s s' :
  Shape s -> store s' = store s -> mgrs s' = mgrs s -> next s' = next s -> Shape s'.
Proof.
  intros H Hs Hm Hn. split.
  - rewrite Hs. apply (sh_awf _ H).
  - intros r l. rewrite Hs, Hn. apply (sh_lt _ H).
  - intros r l Hr. rewrite Hs in Hr. pose proof (sh_rec _ H _ _ Hr) as X. unfold rec_shape in *. rewrite Hm. exact X.
  - intros k m Hk. rewrite Hm in Hk. pose proof (sh_mgr _ H _ _ Hk) as X. unfold mgr_shape in *. rewrite Hs. exact X.
Qed.

(* ------------------------------------------------------------------ the census of a shaped database *)
Lemma shape_held_unique s r1 l1 r2 l2 :
  Shape s -> aget (store s) r1 = Some l1 -> aget (store s) r2 = Some l2 -> 0 < l_locked l1 -> 0 < l_locked l2 ->
  l_key l1 = l_key l2 -> r1 = r2.
Proof.
  intros H H1 H2 P1 P2 Hk.
  destruct (sh_rec _ H _ _ H1) as (_ & _ & _ & _ & [[Z _]|(_ & _ & m1 & Hm1 & Hc1)]); [lia|].
  destruct (sh_rec _ H _ _ H2) as (_ & _ & _ & _ & [[Z _]|(_ & _ & m2 & Hm2 & Hc2)]); [lia|].
  rewrite Hk in Hm1. rewrite Hm1 in Hm2. injection Hm2 as <-. congruence.
Qed.

Lemma shape_locked_one s r l : Shape s -> aget (store s) r = Some l -> 0 < l_locked l -> l_locked l = 1.
Proof.
  intros H Hr P. destruct (sh_rec _ H _ _ Hr) as (_ & _ & _ & _ & [[Z _]|(Z & _)]); [lia|exact Z].
Qed.

Lemma flat_nodup (st : amap lockrec) (f : lockrec -> hold) :
  awf st ->
  (forall r1 l1 r2 l2, In (r1, l1) st -> In (r2, l2) st -> 0 < l_locked l1 -> 0 < l_locked l2 ->
                       hk (f l1) = hk (f l2) -> r1 = r2) ->
  NoDup (map hk (flat_map (fun '(_, l) => if 0 <? l_locked l then [f l] else []) st)).
Proof.
  induction st as [|[r l] t IH]; intros W U.
  - constructor.
  - cbn [flat_map]. inversion W as [|? ? Wn Wt]; subst.
    assert (IHt : NoDup (map hk (flat_map (fun '(_, l0) => if 0 <? l_locked l0 then [f l0] else []) t))).
    { apply IH; [exact Wt|]. intros r1 l1 r2 l2 I1 I2. apply U; right; assumption. }
    destruct (0 <? l_locked l) eqn:P; [|exact IHt].
    cbn [app map]. constructor; [|exact IHt].
    intros Hin. apply in_map_iff in Hin. destruct Hin as (h & Eh & Hin). apply in_flat_map in Hin.
    destruct Hin as ([r2 l2] & I2 & Hh). destruct (0 <? l_locked l2) eqn:P2; [|contradiction].
    destruct Hh as [<-|[]].
    assert (r = r2). { apply (U r l r2 l2); [left; reflexivity|right; exact I2|lia|lia|congruence]. }
    subst r2. apply Wn. change r with (fst (r, l2)). apply in_map. exact I2.
Qed.

Lemma raw_holds_nodup s : Shape s -> NoDup (map hk (raw_holds s)).
Proof.
  intros H. pose proof (sh_awf _ H) as W. unfold raw_holds. apply flat_nodup; [exact W|].
  intros r1 l1 r2 l2 I1 I2 P1 P2 E. apply (shape_held_unique s r1 l1 r2 l2 H); auto using in_aget.
  unfold hk, hold_of in E. cbn [h_key h_lockid] in E. congruence.
Qed.

Lemma holds_of_sorted s : Shape s -> ssorted tk (holds_of s).
Proof.
  intros H. rewrite holds_of_eq. apply (ssorted_map hk tk tuple_of); [intros a; reflexivity|].
  apply hsort_sorted, raw_holds_nodup, H.
Qed.

Lemma holds_of_in s t : Shape s ->
  (In t (holds_of s) <-> exists r l, aget (store s) r = Some l /\ l_locked l = 1 /\ t = tuple_of (hold_of s l)).
Proof.
  intros H. rewrite holds_of_eq, in_map_iff. split.
  - intros (h & <- & Hh). unfold holds_full in Hh. apply (proj1 (hsort_in _ _)) in Hh.
    apply (proj1 (raw_holds_in s h (sh_awf _ H))) in Hh.
    destruct Hh as (r & l & Hr & P & ->). exists r, l. csplit; auto. apply (shape_locked_one s r l H Hr P).
  - intros (r & l & Hr & P & ->). exists (hold_of s l). split; [reflexivity|]. unfold holds_full. apply (proj2 (hsort_in _ _)).
    apply (proj2 (raw_holds_in s _ (sh_awf _ H))). exists r, l. csplit; auto. lia.
Qed.

Lemma shape_value_none s k : Shape s -> data_of s k = None.
Proof. intros H. unfold data_of. rewrite (proj1 (getm_shape_data s k H)). reflexivity. Qed.
