(* C03 toolkit, part 0: the reply-relevant "view" of a lock record, frame relations for the store and the holder
   structures, and the frame lemma of every primitive of Queues.v / Timers.v.  Nothing here needs an invariant. *)
From Coq Require Import String ZifyN ZifyBool ZifyNat.
From Slock Require Import Engine.Types Engine.Queues Engine.Timers Engine.Engine Engine.Engine2.
Open Scope N_scope.

(* ------------------------------------------------------------------ tactics *)
Ltac inv H := inversion H; subst; clear H.

(* destruct the pair-valued term bound by a `let '(a,b) := t in` in hypothesis H *)
Ltac dlet H :=
  match type of H with
  | context [let '(_, _) := ?t in _] =>
      lazymatch t with
      | context [let '(_, _) := _ in _] => fail
      | _ => let E := fresh "E" in destruct t as [? ?] eqn:E
      end
  end.

Ltac dif H :=
  match type of H with
  | context [if ?b then _ else _] =>
      lazymatch b with
      | context [if _ then _ else _] => fail
      | context [match _ with _ => _ end] => fail
      | _ => let E := fresh "B" in destruct b eqn:E
      end
  end.

(* ------------------------------------------------------------------ amap *)
Lemma aget_adel {V} (m : amap V) k k' : aget (adel m k) k' = if k =? k' then None else aget m k'.
Proof.
  destruct (k =? k') eqn:E.
  - apply N.eqb_eq in E. subst. apply aget_adel_same.
  - apply N.eqb_neq in E. apply aget_adel_other; auto.
Qed.

Lemma aget_aset {V} (m : amap V) k k' v : aget (aset m k v) k' = if k =? k' then Some v else aget m k'.
Proof.
  destruct (k =? k') eqn:E.
  - apply N.eqb_eq in E. subst. apply aget_aset_same.
  - apply N.eqb_neq in E. apply aget_aset_other; auto.
Qed.

Lemma aget_adel_some {V} (m : amap V) k k' v : aget (adel m k) k' = Some v -> aget m k' = Some v.
Proof. rewrite aget_adel. destruct (k =? k'); [discriminate|auto]. Qed.

Lemma aget_In {V} (m : amap V) k v : aget m k = Some v -> In (k, v) m.
Proof.
  induction m as [|[k' v'] r IH]; simpl; [discriminate|].
  destruct (k' =? k) eqn:E; intros H.
  - apply N.eqb_eq in E. inv H. auto.
  - auto.
Qed.

Lemma In_adel {V} (m : amap V) k x : In x (adel m k) -> In x m.
Proof.
  induction m as [|[k' v'] r IH]; simpl; auto.
  destruct (k' =? k); simpl; intuition.
Qed.

(* ------------------------------------------------------------------ the view of a record *)
Definition view : Type := cmd * N * bool * bool.      (* l_cmd, l_conn, l_timeouted, l_expried *)
Definition view_of (l : lockrec) : view := (l_cmd l, l_conn l, l_timeouted l, l_expried l).
Definition v_cmd (v : view) : cmd := fst (fst (fst v)).
Definition v_conn (v : view) : N := snd (fst (fst v)).
Definition v_to (v : view) : bool := snd (fst v).
Definition v_ex (v : view) : bool := snd v.

Definition vmap := ref -> view -> view.
Definition idg : vmap := fun _ v => v.
Definition at_ref (g : vmap) (r : ref) (f : view -> view) : vmap :=
  fun r' v => if r' =? r then f (g r' v) else g r' v.

Definition set_to (b : bool) (v : view) : view := (v_cmd v, v_conn v, b, v_ex v).
Definition set_ex (b : bool) (v : view) : view := (v_cmd v, v_conn v, v_to v, b).
Definition set_cmd (c : cmd) (v : view) : view := (c, v_conn v, v_to v, v_ex v).
Definition set_conn (n : N) (v : view) : view := (v_cmd v, n, v_to v, v_ex v).

(* every record of s' descends from a record of the base store, its view transformed by g *)
Definition vtr (g : vmap) (st : amap lockrec) (s' : db) : Prop :=
  forall r l', aget (store s') r = Some l' -> exists l, aget st r = Some l /\ view_of l' = g r (view_of l).

(* ------------------------------------------------------------------ holder structures *)
Definition hrefs_q (q : hqueue) : list ref :=
  hq_fast q ++ match hq_scale q with Some (items, mp) => items ++ map snd mp | None => [] end.

Definition href_m (m : mgr) (r : ref) : Prop :=
  m_cur m = Some r \/ exists q, m_locks m = Some q /\ In r (hrefs_q q).

Definition href (s : db) (r : ref) : Prop := exists k m, aget (mgrs s) k = Some m /\ href_m m r.

(* frame: records keep their view (or vanish), no holder reference appears, the allocator only moves forward *)
Record keep (s s' : db) : Prop := mkKeep {
  keep_v : vtr idg (store s) s';
  keep_h : forall r, href s' r -> href s r;
  keep_n : next s <= next s'
}.

Record tr (g : vmap) (A : ref -> Prop) (s0 s' : db) : Prop := mkTr {
  tr_v : vtr g (store s0) s';
  tr_h : forall r, href s' r -> A r;
  tr_n : next s0 <= next s'
}.

Definition addA (A : ref -> Prop) (r : ref) : ref -> Prop := fun r' => r' = r \/ A r'.

Lemma keep_refl s : keep s s.
Proof. split; [|auto|lia]. intros r l H. exists l. auto. Qed.

Lemma keep_trans s1 s2 s3 : keep s1 s2 -> keep s2 s3 -> keep s1 s3.
Proof.
  intros [v1 h1 n1] [v2 h2 n2]. split; [|auto|lia].
  intros r l3 H3. destruct (v2 _ _ H3) as (l2 & H2 & E2). destruct (v1 _ _ H2) as (l1 & H1 & E1).
  exists l1. split; auto. unfold idg in *. congruence.
Qed.

Lemma tr_refl s : tr idg (href s) s s.
Proof. split; [|auto|lia]. intros r l H. exists l. auto. Qed.

Lemma tr_keep g A s0 s s' : keep s s' -> tr g A s0 s -> tr g A s0 s'.
Proof.
  intros [v1 h1 n1] [v2 h2 n2]. split; [|auto|lia].
  intros r l3 H3. destruct (v1 _ _ H3) as (l2 & H2 & E2). destruct (v2 _ _ H2) as (l1 & H1 & E1).
  exists l1. split; auto. unfold idg in *. congruence.
Qed.

Lemma keep_tr s s' : keep s s' -> tr idg (href s) s s'.
Proof. intros H. eapply tr_keep; eauto using tr_refl. Qed.

(* ------------------------------------------------------------------ projections through primitive updates *)
Lemma mgrs_updl s r f : mgrs (updl s r f) = mgrs s. Proof. unfold updl. destruct (aget (store s) r); reflexivity. Qed.
Lemma next_updl s r f : next (updl s r f) = next s. Proof. unfold updl. destruct (aget (store s) r); reflexivity. Qed.
Lemma store_updm s k f : store (updm s k f) = store s. Proof. unfold updm. destruct (aget (mgrs s) k); reflexivity. Qed.
Lemma next_updm s k f : next (updm s k f) = next s. Proof. unfold updm. destruct (aget (mgrs s) k); reflexivity. Qed.

Lemma store_setl s r l : store (setl s r l) = aset (store s) r l. Proof. reflexivity. Qed.
Lemma mgrs_setm s k m : mgrs (setm s k m) = aset (mgrs s) k m. Proof. reflexivity. Qed.

Lemma aget_store_updl s r f r' :
  aget (store (updl s r f)) r' = if r =? r' then option_map f (aget (store s) r) else aget (store s) r'.
Proof.
  unfold updl. destruct (aget (store s) r) eqn:E; cbn [option_map].
  - rewrite store_setl, aget_aset. destruct (r =? r'); auto.
  - destruct (r =? r') eqn:E2; auto. apply N.eqb_eq in E2. subst. auto.
Qed.

Lemma getl_updm s k f r : getl (updm s k f) r = getl s r.
Proof. unfold getl. rewrite store_updm. reflexivity. Qed.
Lemma getm_updl s r f k : getm (updl s r f) k = getm s k.
Proof. unfold getm. rewrite mgrs_updl. reflexivity. Qed.

Lemma aget_mgrs_updm s k f k' :
  aget (mgrs (updm s k f)) k' = if k =? k' then option_map f (aget (mgrs s) k) else aget (mgrs s) k'.
Proof.
  unfold updm. destruct (aget (mgrs s) k) eqn:E; cbn [option_map].
  - rewrite mgrs_setm, aget_aset. destruct (k =? k'); auto.
  - destruct (k =? k') eqn:E2; auto. apply N.eqb_eq in E2. subst. auto.
Qed.

Lemma getl_store s s' r : store s' = store s -> getl s' r = getl s r.
Proof. unfold getl. intros ->. reflexivity. Qed.
Lemma getm_mgrs s s' k : mgrs s' = mgrs s -> getm s' k = getm s k.
Proof. unfold getm. intros ->. reflexivity. Qed.

(* a record reached through getl that differs from the dummy in a tombstone flag is in the store *)
Lemma getl_live_in_store s r : l_timeouted (getl s r) = false -> aget (store s) r = Some (getl s r).
Proof. unfold getl. destruct (aget (store s) r); auto. discriminate. Qed.
Lemma getl_unexp_in_store s r : l_expried (getl s r) = false -> aget (store s) r = Some (getl s r).
Proof. unfold getl. destruct (aget (store s) r); auto. discriminate. Qed.
Lemma getl_some s r l : aget (store s) r = Some l -> getl s r = l.
Proof. unfold getl. intros ->. reflexivity. Qed.

(* ------------------------------------------------------------------ generic keep lemmas *)
Lemma keep_same s s' : store s' = store s -> mgrs s' = mgrs s -> next s' = next s -> keep s s'.
Proof.
  intros Hs Hm Hn. split.
  - intros r l H. rewrite Hs in H. exists l. auto.
  - intros r (k & m & H & Hr). exists k, m. rewrite <- Hm. auto.
  - lia.
Qed.

(* record update that does not touch the view *)
Lemma keep_updl s r f : (forall l, view_of (f l) = view_of l) -> keep s (updl s r f).
Proof.
  intros Hf. split.
  - intros r' l' H. rewrite aget_store_updl in H. destruct (r =? r') eqn:E.
    + apply N.eqb_eq in E. subst. destruct (aget (store s) r') as [l|]; [|discriminate]. inv H.
      exists l. split; auto. apply Hf.
    + exists l'. auto.
  - intros r' (k & m & H & Hr). exists k, m. rewrite mgrs_updl in H. auto.
  - rewrite next_updl. lia.
Qed.

(* manager update that does not touch the holder structures *)
Lemma keep_updm s k f : (forall m r, href_m (f m) r -> href_m m r) -> keep s (updm s k f).
Proof.
  intros Hf. split.
  - intros r' l' H. rewrite store_updm in H. exists l'. auto.
  - intros r' (k' & m & H & Hr). rewrite aget_mgrs_updm in H. destruct (k =? k') eqn:E.
    + apply N.eqb_eq in E. subst. destruct (aget (mgrs s) k') as [m0|] eqn:E0; [|discriminate]. inv H.
      exists k', m0. auto.
    + exists k', m. auto.
  - rewrite next_updm. lia.
Qed.

Lemma keep_setm_new s k : keep s (setm s k new_mgr).
Proof.
  split.
  - intros r l H. exists l. auto.
  - intros r (k' & m & H & Hr). rewrite mgrs_setm, aget_aset in H.
    destruct (k =? k').
    + inv H. destruct Hr as [Hr | (q & Hq & _)]; discriminate.
    + exists k', m. auto.
  - cbn. lia.
Qed.

Lemma keep_updc s f : keep s (updc s f).
Proof. apply keep_same; reflexivity. Qed.
Lemma keep_bump s f : keep s (bump f s).
Proof. apply keep_same; reflexivity. Qed.

Lemma keep_del_store s r : keep s (s <| store := adel (store s) r |>).
Proof.
  split.
  - intros r' l H. cbn in H. apply aget_adel_some in H. exists l. auto.
  - intros r' H. exact H.
  - cbn. lia.
Qed.

Lemma keep_del_mgr s k : keep s (s <| mgrs := adel (mgrs s) k |>).
Proof.
  split.
  - intros r' l H. exists l. auto.
  - intros r' (k' & m & H & Hr). cbn in H. apply aget_adel_some in H. exists k', m. auto.
  - cbn. lia.
Qed.

Ltac keep_m := apply keep_updm; intros ? ? H; exact H.
Ltac keep_l := apply keep_updl; intros ?; reflexivity.

Lemma free_lock_keep s r : keep s (free_lock s r).
Proof.
  unfold free_lock. destruct (aget (store s) r); [|apply keep_refl].
  eapply keep_trans; [apply keep_del_store|]. keep_m.
Qed.

Lemma unref_keep s r : keep s (unref s r).
Proof.
  unfold unref. destruct (aget (store s) r) eqn:E; [|apply keep_refl].
  assert (K : keep s (setl s r (l <| l_refc := dec8 (l_refc l) |>))).
  { replace (setl s r (l <| l_refc := dec8 (l_refc l) |>)) with (updl s r (fun l => l <| l_refc := dec8 (l_refc l) |>)).
    - keep_l.
    - unfold updl. rewrite E. reflexivity. }
  destruct (_ =? 0); auto. eapply keep_trans; [exact K|apply free_lock_keep].
Qed.

Lemma remove_mgr_keep s k : keep s (remove_mgr_if_unref s k).
Proof.
  unfold remove_mgr_if_unref. destruct (aget (mgrs s) k); [|apply keep_refl].
  destruct (_ =? 0); [|apply keep_refl].
  eapply keep_trans; [apply keep_del_mgr|apply keep_updc].
Qed.

Lemma unref_then_mgr_keep s r k :
  keep s (let s1 := unref s r in
          if match aget (store s1) r with None => true | Some _ => false end then remove_mgr_if_unref s1 k else s1).
Proof.
  cbv zeta. destruct (match aget (store (unref s r)) r with None => true | Some _ => false end).
  - eapply keep_trans; [apply unref_keep|apply remove_mgr_keep].
  - apply unref_keep.
Qed.

(* ------------------------------------------------------------------ holder queue *)
Lemma hq_compact_keep items : forall s s' kept,
  hq_compact s items = (s', kept) -> keep s s' /\ incl kept items.
Proof.
  induction items as [|r rest IH]; cbn; intros s s' kept H.
  - inv H. split; [apply keep_refl|apply incl_refl].
  - destruct (0 <? l_locked (getl s r)).
    + destruct (hq_compact s rest) as [s1 k1] eqn:E. inv H. destruct (IH _ _ _ E) as [K I].
      split; auto. intros x [->|Hx]; [left; auto|right; auto].
    + destruct (IH _ _ _ H) as [K I]. split.
      * eapply keep_trans; [apply unref_keep|exact K].
      * intros x Hx. right. auto.
Qed.

Ltac fin_in := let x := fresh "x" in let Hx := fresh "Hx" in
  intros x Hx; repeat rewrite in_app_iff in *; cbn in *; repeat rewrite in_app_iff in *; intuition (subst; auto).

Lemma map_snd_adel {V} (mp : amap V) k x : In x (map snd (adel mp k)) -> In x (map snd mp).
Proof.
  intros Hx. apply in_map_iff in Hx. destruct Hx as ([a b] & <- & Hab). apply In_adel in Hab.
  apply in_map_iff. exists (a, b). auto.
Qed.

Lemma hq_push_keep s q r s' q' :
  hq_push s q r = (s', q') -> keep s s' /\ (forall x, In x (hrefs_q q') -> x = r \/ In x (hrefs_q q)).
Proof.
  unfold hq_push, hrefs_q. intros H.
  destruct (hq_scale q) as [[items mp]|] eqn:Es.
  - inv H. split; [apply keep_refl|]. cbn. try rewrite Es. intros x Hx.
    repeat rewrite in_app_iff in *. cbn in Hx.
    destruct Hx as [Hx|[Hx|[Hx|Hx]]]; auto.
    + intuition.
    + apply map_snd_adel in Hx. auto.
  - destruct (hq_cap q =? 0).
    { inv H. split; [apply keep_refl|]. cbn. try rewrite Es. fin_in. }
    destruct (hq_len q <? hq_cap q).
    { inv H. split; [apply keep_refl|]. cbn. try rewrite Es. fin_in. }
    destruct (hq_fast q) as [|a rest] eqn:Ef.
    { inv H. split; [apply keep_refl|]. cbn. try rewrite Es. fin_in. }
    destruct (hq_compact s (a :: rest)) as [s1 kept] eqn:Ec.
    destruct (hq_compact_keep _ _ _ _ Ec) as [K I].
    destruct (_ <? hq_len q).
    { inv H. split; auto. cbn. try rewrite Es. intros x Hx. repeat rewrite in_app_iff in *. cbn in Hx |- *.
      intuition (subst; auto); match goal with H0 : In _ kept |- _ => apply I in H0; cbn in H0; intuition end. }
    destruct (hq_cap q <=? 128).
    { inv H. split; auto. cbn. try rewrite Es. intros x Hx. repeat rewrite in_app_iff in *. cbn in Hx |- *.
      intuition (subst; auto); match goal with H0 : In _ kept |- _ => apply I in H0; cbn in H0; intuition end. }
    inv H. split; auto. cbn. try rewrite Ef. fin_in.
Qed.

Lemma hq_pop_refs q o q' : hq_pop q = (o, q') ->
  (forall x, In x (hrefs_q q') -> In x (hrefs_q q)) /\ (forall r, o = Some r -> In r (hrefs_q q)).
Proof.
  unfold hq_pop, hrefs_q. intros H. destruct (hq_fast q) as [|a rest] eqn:Ef.
  - destruct (hq_scale q) as [[[|b items] mp]|] eqn:Es; inv H; try rewrite Ef; try rewrite Es; cbn;
      try (split; [auto|discriminate]).
    split; [intros x Hx; rewrite Ef in Hx; auto|intros r Hr; inv Hr; auto].
  - inv H. cbn. split; [intros x Hx; right; auto|intros r Hr; inv Hr; auto].
Qed.

Lemma hq_removelock_refs q id x : In x (hrefs_q (hq_removelock q id)) -> In x (hrefs_q q).
Proof.
  unfold hq_removelock, hrefs_q. destruct (hq_scale q) as [[items mp]|] eqn:Es; cbn; [|rewrite Es; auto].
  rewrite !in_app_iff. intros [H|[H|H]]; auto. right. right.
  apply in_map_iff in H. destruct H as ([a b] & <- & Hab). apply In_adel in Hab. apply in_map_iff. exists (a, b). auto.
Qed.

Lemma promote_keep fuel : forall s q s' q' nc,
  promote fuel s q = (s', q', nc) ->
  keep s s' /\ (forall x, In x (hrefs_q q') -> In x (hrefs_q q)) /\ (forall r, nc = Some r -> In r (hrefs_q q)).
Proof.
  induction fuel as [|f IH]; cbn; intros s q s' q' nc H.
  - inv H. split; [apply keep_refl|]. split; [auto|discriminate].
  - destruct (hq_pop q) as [[r|] q1] eqn:Ep; destruct (hq_pop_refs _ _ _ Ep) as [P1 P2].
    + destruct (0 <? l_locked (getl s r)).
      * inv H. split; [apply keep_refl|]. split.
        -- intros x Hx. apply hq_removelock_refs in Hx. auto.
        -- intros r' Hr. inv Hr. auto.
      * destruct (IH _ _ _ _ _ H) as (K & I1 & I2). split; [|split]; auto.
        eapply keep_trans; [apply unref_keep|exact K].
    + inv H. split; [apply keep_refl|]. split; [auto|discriminate].
Qed.

Lemma drop_dead_heads_keep fuel : forall s q s' q',
  drop_dead_heads fuel s q = (s', q') -> keep s s' /\ (forall x, In x (hrefs_q q') -> In x (hrefs_q q)).
Proof.
  induction fuel as [|f IH]; cbn; intros s q s' q' H.
  - inv H. split; [apply keep_refl|auto].
  - destruct (hq_head q) as [r|]; [|inv H; split; [apply keep_refl|auto]].
    destruct (0 <? l_locked (getl s r)); [inv H; split; [apply keep_refl|auto]|].
    destruct (hq_pop q) as [o q1] eqn:Ep. destruct (hq_pop_refs _ _ _ Ep) as [P1 _].
    destruct (IH _ _ _ _ H) as (K & I1). split; auto.
    eapply keep_trans; [apply unref_keep|exact K].
Qed.

Lemma href_updm_sub s k f r :
  href (updm s k f) r -> (forall m, aget (mgrs s) k = Some m -> href_m (f m) r -> href s r) -> href s r.
Proof.
  intros (k' & m & H & Hr) Hf. rewrite aget_mgrs_updm in H. destruct (k =? k') eqn:E.
  - apply N.eqb_eq in E. subst. destruct (aget (mgrs s) k') as [m0|] eqn:E0; [|discriminate]. inv H. eauto.
  - exists k', m. auto.
Qed.

Lemma getm_href s k r : href_m (getm s k) r -> href s r.
Proof.
  unfold getm. destruct (aget (mgrs s) k) as [m|] eqn:E.
  - intros H. exists k, m. auto.
  - intros [H|(q & H & _)]; discriminate.
Qed.

Lemma getm_some s k m : aget (mgrs s) k = Some m -> getm s k = m.
Proof. unfold getm. intros ->. reflexivity. Qed.

(* a manager update whose new holder references all come from holder references of a state s0 that s is a `keep` of *)
Lemma keep_updm_from s0 s k f :
  keep s0 s -> (forall m r, aget (mgrs s) k = Some m -> href_m (f m) r -> href s0 r) -> keep s0 (updm s k f).
Proof.
  intros [v h n] Hf. split.
  - intros r l H. rewrite store_updm in H. auto.
  - intros r (k' & m & H & Hr). rewrite aget_mgrs_updm in H. destruct (k =? k') eqn:E.
    + apply N.eqb_eq in E. subst. destruct (aget (mgrs s) k') as [m0|] eqn:E0; [|discriminate]. inv H. eauto.
    + apply h. exists k', m. auto.
  - rewrite next_updm. lia.
Qed.

Lemma remove_lock_keep s k r : keep s (remove_lock s k r).
Proof.
  unfold remove_lock.
  set (s1 := updl s r (fun l => l <| l_locked := 0 |> <| l_ack := 255 |>)).
  assert (K1 : keep s s1) by (subst s1; keep_l).
  destruct (aget (mgrs s1) k) as [m|] eqn:Em.
  2:{ (* no manager: getm = new_mgr *)
      unfold getm. rewrite Em. cbn. apply K1. }
  rewrite (getm_some _ _ _ Em).
  destruct (match m_cur m with Some c => c =? r | None => false end).
  - set (s2 := updl s1 r (fun l => l <| l_refc := dec8 (l_refc l) |>)).
    assert (K2 : keep s s2) by (eapply keep_trans; [exact K1|subst s2; keep_l]).
    assert (Em2 : aget (mgrs s2) k = Some m) by (subst s2; rewrite mgrs_updl; auto).
    destruct (m_locks m) as [q|] eqn:Eq.
    + destruct (promote (S (hq_size q)) s2 q) as [[s' q'] nc] eqn:Ep.
      destruct (promote_keep _ _ _ _ _ _ Ep) as (K3 & I1 & I2).
      apply keep_updm_from; [eapply keep_trans; eauto|].
      intros m' x Hm' Hx. apply (keep_h _ _ K2). exists k, m. split; auto.
      destruct Hx as [Hx|(q0 & Hq0 & Hx)]; cbn in *.
      * right. exists q. auto.
      * inv Hq0. right. exists q. auto.
    + eapply keep_trans; [exact K2|]. apply keep_updm. intros m' x [Hx|Hx]; cbn in *; [discriminate|right; auto].
  - destruct (m_locks m) as [q|] eqn:Eq; [|exact K1].
    destruct (drop_dead_heads _ s1 _) as [s' q'] eqn:Ed.
    destruct (drop_dead_heads_keep _ _ _ _ _ Ed) as (K3 & I1).
    apply keep_updm_from; [eapply keep_trans; eauto|].
    intros m' x Hm' Hx.
    destruct Hx as [Hx|(q0 & Hq0 & Hx)]; cbn in *.
    + apply (keep_h _ _ (keep_trans _ _ _ K1 K3)). exists k, m'. split; auto. left; auto.
    + inv Hq0. apply (keep_h _ _ K1). exists k, m. split; auto. right. exists q. split; auto.
      apply I1 in Hx. apply hq_removelock_refs in Hx. exact Hx.
Qed.

(* ------------------------------------------------------------------ wait queue *)
Lemma wq_compact_keep items : forall s s' kept, wq_compact s items = (s', kept) -> keep s s'.
Proof.
  induction items as [|r rest IH]; cbn; intros s s' kept H.
  - inv H. apply keep_refl.
  - destruct (dead_waiter (getl s r)).
    + eapply keep_trans; [apply unref_keep|eauto].
    + destruct (wq_compact s rest) as [s1 k1] eqn:E. inv H. eauto.
Qed.

Lemma wq_push_keep s q r s' q' : wq_push s q r = (s', q') -> keep s s'.
Proof.
  unfold wq_push. intros H.
  destruct (wq_mode q); try (inv H; apply keep_refl).
  destruct (wq_cap q =? 0); [inv H; apply keep_refl|].
  destruct (wq_len q <? wq_cap q); [inv H; apply keep_refl|].
  destruct (wq_fast q) as [|a rest]; [inv H; apply keep_refl|].
  destruct (wq_compact s (a :: rest)) as [s1 kept] eqn:Ec. apply wq_compact_keep in Ec.
  destruct (_ <? wq_len q); [inv H; auto|].
  destruct (wq_cap q <=? 128); inv H; auto.
Qed.

Lemma add_wait_lock_keep s k r : keep s (add_wait_lock s k r).
Proof.
  unfold add_wait_lock.
  match goal with |- context [wq_push s ?q r] => destruct (wq_push s q r) as [s1 q1] eqn:E end.
  apply wq_push_keep in E.
  eapply keep_trans; [exact E|]. eapply keep_trans; [|keep_m]. keep_l.
Qed.

Lemma get_wait_loop_keep fuel : forall s q s' q' o, get_wait_loop fuel s q = (s', q', o) -> keep s s'.
Proof.
  induction fuel as [|f IH]; cbn; intros s q s' q' o H.
  - inv H. apply keep_refl.
  - destruct (wq_head q) as [r|]; [|inv H; apply keep_refl].
    destruct (dead_waiter (getl s r)); [|inv H; apply keep_refl].
    eapply keep_trans; [apply unref_keep|eauto].
Qed.

Lemma get_wait_lock_keep s k s' o : get_wait_lock s k = (s', o) -> keep s s'.
Proof.
  unfold get_wait_lock. destruct (m_wait (getm s k)) as [q|]; intros H; [|inv H; apply keep_refl].
  destruct (get_wait_loop _ s q) as [[s1 q1] o1] eqn:E. inv H. apply get_wait_loop_keep in E.
  eapply keep_trans; [exact E|]. keep_m.
Qed.

(* ------------------------------------------------------------------ AOF records *)
Lemma push_lock_aof_keep s k r f s' ev : push_lock_aof s k r f = (s', ev) -> keep s s'.
Proof.
  unfold push_lock_aof. intros H.
  destruct (negb (leader s)); [inv H; apply keep_refl|].
  destruct (has _ LOCK_FLAG_FROM_AOF); [inv H; keep_l|].
  destruct (aof_lock_data true _ _) as [[d c'] ld']. inv H.
  eapply keep_trans; [|keep_l]. eapply keep_trans; [|keep_l]. keep_m.
Qed.

Lemma push_unlock_aof_keep s k r lc uc b f s' ev : push_unlock_aof s k r lc uc b f = (s', ev) -> keep s s'.
Proof.
  unfold push_unlock_aof. intros H.
  destruct (negb (leader s)); [inv H; apply keep_refl|].
  destruct (match uc with Some u => _ | None => false end); [inv H; keep_l|].
  destruct (aof_lock_data false _ _) as [[d c'] ld']. inv H.
  eapply keep_trans; [|keep_l]. eapply keep_trans; [|keep_l]. keep_m.
Qed.

Lemma repeat_push_lock_aof_keep n : forall s k r s' ev, repeat_push_lock_aof n s k r = (s', ev) -> keep s s'.
Proof.
  induction n as [|n IH]; cbn; intros s k r s' ev H.
  - inv H. apply keep_refl.
  - destruct (push_lock_aof s k r 0) as [s1 e1] eqn:E1. destruct (repeat_push_lock_aof n s1 k r) as [s2 e2] eqn:E2.
    inv H. eapply keep_trans; [eapply push_lock_aof_keep; eauto|eauto].
Qed.

(* events: which helpers emit replies *)
Definition is_reply (e : event) : bool := match e with EReply _ _ _ _ _ _ _ _ _ => true | _ => false end.
Definition replies (ev : list event) : list event := filter is_reply ev.

Lemma replies_app a b : replies (a ++ b) = replies a ++ replies b.
Proof. apply filter_app. Qed.

Lemma push_lock_aof_noreply s k r f s' ev : push_lock_aof s k r f = (s', ev) -> replies ev = [].
Proof.
  unfold push_lock_aof. intros H.
  destruct (negb (leader s)); [inv H; auto|].
  destruct (has _ LOCK_FLAG_FROM_AOF); [inv H; auto|].
  destruct (aof_lock_data true _ _) as [[d c'] ld']. inv H. reflexivity.
Qed.

Lemma push_unlock_aof_noreply s k r lc uc b f s' ev : push_unlock_aof s k r lc uc b f = (s', ev) -> replies ev = [].
Proof.
  unfold push_unlock_aof. intros H.
  destruct (negb (leader s)); [inv H; auto|].
  destruct (match uc with Some u => _ | None => false end); [inv H; auto|].
  destruct (aof_lock_data false _ _) as [[d c'] ld']. inv H. reflexivity.
Qed.

Lemma repeat_push_lock_aof_noreply n : forall s k r s' ev, repeat_push_lock_aof n s k r = (s', ev) -> replies ev = [].
Proof.
  induction n as [|n IH]; cbn; intros s k r s' ev H.
  - inv H. auto.
  - destruct (push_lock_aof s k r 0) as [s1 e1] eqn:E1. destruct (repeat_push_lock_aof n s1 k r) as [s2 e2] eqn:E2.
    inv H. rewrite replies_app. erewrite push_lock_aof_noreply; eauto.
Qed.

(* ------------------------------------------------------------------ tr: record updates that change the view *)
Lemma tr_updl g A s0 s r f fv :
  (forall l, view_of (f l) = fv (view_of l)) -> tr g A s0 s -> tr (at_ref g r fv) A s0 (updl s r f).
Proof.
  intros Hf [v h n]. split.
  - intros r' l' H. rewrite aget_store_updl in H. unfold at_ref. destruct (r =? r') eqn:E.
    + apply N.eqb_eq in E. subst. rewrite N.eqb_refl.
      destruct (aget (store s) r') as [l|] eqn:E0; [|discriminate]. inv H.
      destruct (v _ _ E0) as (l0 & H0 & V0). exists l0. split; auto. rewrite Hf. congruence.
    + rewrite N.eqb_sym, E. auto.
  - intros r' (k & m & H & Hr). apply h. exists k, m. rewrite mgrs_updl in H. auto.
  - rewrite next_updl. lia.
Qed.

Lemma keep_fields s s' : store s' = store s -> mgrs s' = mgrs s -> next s' = next s -> keep s s'.
Proof. apply keep_same. Qed.

Lemma keep_r_same s s' s'' : store s'' = store s' -> mgrs s'' = mgrs s' -> next s'' = next s' -> keep s s' -> keep s s''.
Proof. intros. eapply keep_trans; [eassumption|apply keep_same; auto]. Qed.
Lemma keep_r_updl s s' r f : (forall l, view_of (f l) = view_of l) -> keep s s' -> keep s (updl s' r f).
Proof. intros. eapply keep_trans; [eassumption|apply keep_updl; auto]. Qed.
Ltac keep_r := repeat first [ apply keep_refl | assumption
                            | apply keep_r_updl; [intros ?; reflexivity|]
                            | apply keep_r_same; [reflexivity|reflexivity|reflexivity|] ].

Lemma add_timeout_tr g A s0 s r : tr g A s0 s -> tr (at_ref g r (set_to false)) A s0 (add_timeout s r).
Proof.
  intros T. unfold add_timeout.
  set (s1 := updl s r (fun l => l <| l_timeouted := false |>)).
  assert (T1 : tr (at_ref g r (set_to false)) A s0 s1) by (subst s1; apply tr_updl; auto).
  clearbody s1. destruct (QUEUE_MAX_WAIT <? l_tcc (getl s1 r)).
  - eapply tr_keep; [|exact T1]. keep_r. Show.
  - eapply tr_keep; [|exact T1]. keep_r.
Qed.

Lemma remove_long_timeout_keep s r : keep s (remove_long_timeout s r).
Proof.
  unfold remove_long_timeout. destruct (aget (tlong s) _); keep_r.
Qed.

Lemma remove_long_expried_keep s r t : keep s (remove_long_expried s r t).
Proof.
  unfold remove_long_expried. destruct (aget (elong s) _); keep_r.
Qed.

Lemma add_expried_tr g A s0 s k r s' ev :
  add_expried s k r = (s', ev) -> tr g A s0 s -> tr (at_ref g r (set_ex false)) A s0 s' /\ replies ev = [].
Proof.
  unfold add_expried. intros H T.
  set (s1 := updl s r (fun l => l <| l_expried := false |>)) in *.
  assert (T1 : tr (at_ref g r (set_ex false)) A s0 s1) by (subst s1; apply tr_updl; auto).
  clearbody s1.
  match type of H with context [if QUEUE_MAX_WAIT <? ?x then ?a else ?b] =>
    set (s2 := if QUEUE_MAX_WAIT <? x then a else b) in * end.
  assert (K2 : keep s1 s2).
  { subst s2. destruct (QUEUE_MAX_WAIT <? _); keep_r. }
  clearbody s2. destruct (_ && _).
  - split; [|eapply repeat_push_lock_aof_noreply; eauto].
    eapply tr_keep; [|exact T1]. eapply keep_trans; [exact K2|]. eapply repeat_push_lock_aof_keep; eauto.
  - inv H. split; auto. eapply tr_keep; eauto.
Qed.

(* adding an expiry entry for a record that is not tombstoned changes no view *)
Lemma vtr_at_ref_noop g st s' r fv :
  vtr (at_ref g r fv) st s' -> (forall l, aget st r = Some l -> fv (g r (view_of l)) = g r (view_of l)) -> vtr g st s'.
Proof.
  intros V Hn r' l' H. destruct (V _ _ H) as (l & Hl & E). exists l. split; auto.
  unfold at_ref in E. destruct (r' =? r) eqn:Er; auto. apply N.eqb_eq in Er. subst. rewrite E. auto.
Qed.

Lemma add_expried_keep s k r s' ev :
  add_expried s k r = (s', ev) -> l_expried (getl s r) = false -> keep s s' /\ replies ev = [].
Proof.
  intros H Hx. destruct (add_expried_tr idg (href s) s s k r s' ev H (tr_refl s)) as [[v h n] R].
  split; auto. split; auto.
  eapply vtr_at_ref_noop; [exact v|]. intros l Hl. unfold idg, set_ex, view_of, v_cmd, v_conn, v_to. cbn.
  rewrite (getl_some _ _ _ Hl) in Hx. rewrite Hx. reflexivity.
Qed.

Lemma add_timeout_keep s r : l_timeouted (getl s r) = false -> keep s (add_timeout s r).
Proof.
  intros Hx. destruct (add_timeout_tr idg (href s) s s r (tr_refl s)) as [v h n].
  split; auto.
  eapply vtr_at_ref_noop; [exact v|]. intros l Hl. unfold idg, set_to, view_of, v_cmd, v_conn, v_ex. cbn.
  rewrite (getl_some _ _ _ Hl) in Hx. rewrite Hx. reflexivity.
Qed.
