From Coq Require Import List NArith ZArith Bool Lia String.
From Slock Require Import Engine.Types Engine.Queues Engine.Timers Engine.Engine Engine.Engine2.
Import ListNotations.
Open Scope N_scope.
Definition req (i T : N) := AReq i (make_cmd true i 0 (100+i) 7 0 T 0 100 0 0 None).
Definition waiters := map (fun T => req (T+1) T) [1;2;3;7;8;9;15;16;17;18;25;31;32;33;40;47;48].
Definition acts := req 1 0 :: AReq 1 (make_cmd true 1 0 100 7 0 5 0 200 0 0 None) :: waiters ++ [AAdvance 50; ASweepT].
Definition res := run (init_db 1000000 1) acts.
Definition tr_count := length (filter (fun e => match e with EReply _ _ 8 _ _ _ _ _ _ => true | _ => false end) (concat (snd res))).
Eval vm_compute in tr_count.
Eval vm_compute in (let s := fst res in (now s, checkT s, twheel s, tlong s)).
(* several lagging sweeps *)
Definition acts2 := req 1 0 :: AReq 1 (make_cmd true 1 0 100 7 0 5 0 200 0 0 None) :: waiters ++ [AAdvance 9; ASweepT; AAdvance 17; ASweepT; AAdvance 3; ASweepT; AAdvance 30; ASweepT].
Definition res2 := run (init_db 1000000 1) acts2.
Eval vm_compute in (map (fun ev => length (filter (fun e => match e with EReply _ _ 8 _ _ _ _ _ _ => true | _ => false end) ev)) (snd res2)).
Eval vm_compute in (let s := fst res2 in (now s, checkT s, twheel s, tlong s)).
