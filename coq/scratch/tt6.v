From Coq Require Import List NArith ZArith Bool Lia String.
From Slock Require Import Engine.Types Engine.Queues Engine.Timers Engine.Engine Engine.Engine2.
From Slock Require Import Engine.TimeBase Engine.TimeWheel Engine.TimeLocal Engine.TimeExp.
Import ListNotations.
Open Scope N_scope.
Example ex1 :
  let s := fst (step (init_db 1000000 1) (AReq 1 (make_cmd true 1 0 101 7 0 5 0 10 0 0 None))) in
  exists l m, aget (store s) 1 = Some l /\ l_expried l = false /\ leader s = true /\ aget (mgrs s) (l_key l) = Some m.
Proof. Time vm_compute. Time eexists _, _. Time repeat split. Time Qed.
