From Slock Require Import Engine.Types Engine.Queues.
Open Scope N_scope.
Goal forall (s:db) (k k':N) (l:lockrec), (if k =? k' then (match aget (mgrs s) k with Some m => sub32 (m_locked m) (l_locked l) | None => 0 end) else 1) = 2.
intros. Show.
Abort.
