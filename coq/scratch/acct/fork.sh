#!/bin/bash
# usage: fork.sh InvPrims AckAcctPrims
src=/verif/coq/Engine/$1.v; dst=/verif/coq/Engine/$2.v
sed -e 's/Engine\.InvPrims/Engine.AckAcctPrims/g; s/Engine\.InvRec/Engine.AckAcctRec/g; s/Engine\.InvWheel/Engine.AckAcctWheel/g; s/Engine\.InvQueue2/Engine.AckAcctQueue2/g; s/Engine\.InvQueue\b/Engine.AckAcctQueue/g; s/Engine\.InvSteps/Engine.AckAcctSteps/g; s/Engine\.InvLock\b/Engine.AckAcctLock/g; s/Engine\.InvUnlock/Engine.AckAcctUnlock/g; s/Engine\.InvSweep/Engine.AckAcctSweep/g; s/Engine\.InvNext/Engine.AckAcctNext/g; s/Engine\.InvProps/Engine.AckAcctProps/g; s/Engine\.InvMain/Engine.AckAcctMain/g; s/Engine\.InvBase/Engine.InvBase Engine.AckAcctDef/' \
 -e "/g_ph g/ s/l_timeouted \(l'\|l\|(getl s r0)\) = true/dead_waiter \1 = true/" "$src" > "$dst"
