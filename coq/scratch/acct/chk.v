From Coq Require Import String List NArith ZArith Bool.
From Slock Require Import Engine.Types Engine.Queues Engine.Timers Engine.Engine Engine.Engine2 Engine.Ack Engine.InvDef.
From Slock Require Import Engine.AckSoundDefs Engine.AckSoundThms.
Import ListNotations.
Open Scope N_scope.

Definition occn (r : ref) (l : list ref) : N := N.of_nat (occ r l).
Definition rec_chk (s : db) (P : list ref) (r : ref) (l : lockrec) : list nat :=
  let m := getm s (l_key l) in
  let h := occn r (holders m) in let w := occn r (m_wq m) in
  let t := occn r (wrefs (twheel s)) + occn r (wrefs (tlong s)) in
  let e := occn r (wrefs (ewheel s)) + occn r (wrefs (elong s)) + occn r P in
  (if l_refc l =? h + w + t + e then [] else [1%nat]) ++
  (if (t <=? 1) && (e <=? 1) then [] else [2%nat]) ++
  (if negb (dead_waiter l) then (if (h =? 0) && (e =? 0) && (l_locked l =? 0) && (w =? 1) then [] else [3%nat]) else []) ++
  (if 0 <? l_locked l then (if h =? 1 then [] else [4%nat]) else []) ++
  (if l_long l then
     (if l_timeouted l then (if occn r (wheel_get (elong s) (lkey (l_eT l))) =? 1 then [] else [5%nat])
      else (if occn r (wheel_get (tlong s) (lkey (l_tT l))) =? 1 then [] else [6%nat])) else []) ++
  (if negb (l_ack l =? 255) then
     (if negb (l_timeouted l) && l_expried l && (0 <? l_locked l) && (occn r P =? 1) && (t =? 1) then [] else [7%nat]) else []) ++
  (if (0 <? occn r P) && (l_ack l =? 255) then (if l_timeouted l && (l_locked l =? 0) then [] else [8%nat]) else []) ++
  (match aget (mgrs s) (l_key l) with Some _ => [] | None => [9%nat] end).

Definition alloc_chk (s : db) (P : list ref) : list nat :=
  if forallb (fun r => match aget (store s) r with Some _ => true | None => false end)
       (wrefs (twheel s) ++ wrefs (tlong s) ++ wrefs (ewheel s) ++ wrefs (elong s) ++ P
        ++ flat_map (fun km => holders (snd km) ++ m_wq (snd km)) (mgrs s)) then [] else [10%nat].

Definition st_chk (st : astate) : list (N * list nat) :=
  let s := a_db st in let P := regs st in
  let bad := filter (fun x => negb (match snd x with [] => true | _ => false end))
                    (map (fun rl => (fst rl, rec_chk s P (fst rl) (snd rl))) (store s)) in
  match alloc_chk s P with [] => bad | e => (0, e) :: bad end.

Fixpoint run_chk (st : astate) (acts : list aaction) (i : nat) : list (nat * list (N * list nat)) :=
  match acts with
  | [] => []
  | a :: rest => let st1 := fst (astep st a) in
                 match st_chk st1 with
                 | [] => run_chk st1 rest (S i)
                 | b => (i, b) :: run_chk st1 rest (S i)
                 end
  end.

Definition kx := 7.
Definition ack (req lockid count tmo : N) : cmd := make_cmd true req 0 lockid kx 4096 tmo 0 10 count 0 None.
Definition lck (req lockid count tmo exp : N) : cmd := make_cmd true req 0 lockid kx 0 tmo 0 exp count 0 None.
Definition unl (req lockid flag : N) : cmd := make_cmd false req flag lockid kx 0 0 0 0 0 0 None.
Definition R c := AAct (AReq 1 c).
Definition adv k := AAct (AAdvance k).
Definition swT := AAct ASweepT.
Definition swE := AAct ASweepE.

(* 1: shared holders, pending + plain; ack ok; unlock; expiry *)
Definition t1 := [R (ack 1 101 2 5); R (lck 2 102 2 5 10); R (ack 3 103 2 5); AAckEvt 0 true; R (unl 4 102 0); adv 6; swT; swE;
                  AAckEvt 1 true; adv 3; swT; swE; adv 20; swT; swE; adv 20; swT; swE].
(* 2: queued ack-locks granted by unlock; ack timeouts *)
Definition t2 := [R (lck 1 101 0 5 10); R (ack 2 102 0 5); R (ack 3 103 0 5); R (unl 4 101 0); adv 6; swT; swE; AAckEvt 0 true; adv 1; swT; swE;
                  adv 6; swT; swE; adv 10; swT; swE; adv 20; swT; swE].
(* 3: negative acks, cancel-wait against pending holds *)
Definition t3 := [R (lck 1 101 0 5 10); R (ack 2 102 0 50); R (unl 3 101 0); R (unl 4 102 2); AAckEvt 0 false; adv 60; swT; swE;
                  R (ack 5 105 0 5); AAckEvt 1 false; adv 7; swT; swE; adv 20; swT; swE].
(* 4: long tables: long timeout, many sweeps *)
Definition rep {A} (n : nat) (l : list A) := List.concat (List.repeat l n).
Definition t4 := [R (lck 1 101 0 5 100); R (ack 2 102 0 40); R (ack 3 103 0 40); R (unl 4 101 0)] ++ rep 12 [adv 1; swT; swE] ++ [AAckEvt 0 true]
                 ++ rep 12 [adv 1; swT; swE] ++ [adv 40; swT; swE; adv 200; swT; swE; swT; swE].
(* 5: cancel-wait on queued-then-granted pending lock with same lockid among holders *)
Definition t5 := [R (lck 1 101 2 5 10); R (lck 2 102 1 5 10); R (ack 3 103 2 30); R (ack 4 103 2 30); R (unl 5 101 0); R (unl 6 103 2); R (unl 7 103 2);
                  adv 1; swT; swE; AAckEvt 0 true; AAckEvt 1 true; adv 40; swT; swE; adv 40; swT; swE].

Definition go (cfg : N) (t : list aaction) := (ack_core_b 1000000 1 cfg t, run_chk (init_astate 1000000 1 cfg) t 0).
Eval vm_compute in (go 1 t1).
Eval vm_compute in (go 1 t2).
Eval vm_compute in (go 1 t3).
Eval vm_compute in (go 1 t4).
Eval vm_compute in (go 2 t4).
Eval vm_compute in (go 1 t5).
Definition parts t0 aoft cfg acts := (forallb aact_ok acts, nodupb (reqids acts), run_conds_b (init_astate t0 aoft cfg) acts).
Definition results (t : list aaction) cfg := map (fun evs => flat_map (fun e => match e with EReply c q res _ _ lid _ _ _ => [(q, res, lid)] | _ => [] end) evs) (snd (arun (init_astate 1000000 1 cfg) t)).
Eval vm_compute in (parts 1000000%Z 1 1 t2, results t2 1).
Eval vm_compute in (parts 1000000%Z 1 1 t3, results t3 1).
Eval vm_compute in (parts 1000000%Z 1 2 t4, results t4 2).
Eval vm_compute in (parts 1000000%Z 1 1 t5, results t5 1).
