From Coq Require Import String ZifyN ZifyBool ZifyNat.
From Slock Require Import Engine.Types Engine.Queues Engine.Timers Engine.Engine Engine.Engine2 Engine.ReplyBase Engine.ReplyLocal Engine.ReplyLive.
Open Scope N_scope.
Lemma lock_step_pl s conn c s' ev w :
  lock_step s conn c = (s', ev, w) -> core_cmd c -> hdead s ->
  plx (eq (next s)) (fun x => (x = next s /\ next s < next s') \/ href s x) (fun x => x = next s /\ next s < next s') s s'.
Proof.
  intros H Hcore Hd. assert (Hcore0 := Hcore). destruct Hcore as (Hack & Hms & Hems & Hdata).
  unfold lock_step in H. cbv beta zeta in H.
  set (k := c_key c) in *.
  match type of H with context [if has (c_flag c) LOCK_FLAG_SHOW then ?a else c] =>
    set (c1 := if has (c_flag c) LOCK_FLAG_SHOW then a else c) in H end.
  assert (Hc1 : c_req c1 = c_req c /\ c_tflag c1 = c_tflag c /\ c_eflag c1 = c_eflag c /\ c_data c1 = c_data c
                /\ c_key c1 = c_key c).
  { subst c1. destruct (has (c_flag c) LOCK_FLAG_SHOW); cbn; auto. }
  clearbody c1. destruct Hc1 as (Hreq1 & Htf1 & Hef1 & Hd1 & Hk1).
  destruct (aget (mgrs s) k) as [m0|] eqn:Hmgr.
  all: cbv iota in H.
  all: brk.
  all: repeat match goal with HP : process_data _ _ _ _ _ = _ |- _ =>
         rewrite process_data_nodata in HP by congruence; injs end.
  all: try congruence.
  all: try solve [exfalso; match goal with HB : (0 <? m_locked (getm (bump _ (setm _ _ new_mgr)) _)) = true |- _ =>
         rewrite getm_bump_setm_new in HB; vm_compute in HB; discriminate HB end].
  all: try solve [exfalso; rewrite ?Htf1 in *; rewrite ?Hef1 in *;
         repeat match goal with HB : _ && _ = true |- _ => apply andb_true_iff in HB; destruct HB end; congruence].
  all: try match goal with Hn : new_lock ?S0 _ _ _ = (?s1, ?r) |- _ =>
         let HS0 := fresh "HS0" in
         assert (HS0 : hdead S0) by (hdead_from Hd);
         destruct (new_lock_facts _ _ _ _ _ _ Hn HS0) as (Hr & D1 & H1) end.
  all: plx_x2.
  all: try solve [match goal with D1 : dead _ _ |- _ => dead_from D1 end].
  all: try solve [match goal with H1 : hdead _ |- _ => exact H1 end].
  all: try solve [subst; reflexivity].
  all: try solve [
    assert (Hf : forall (m : mgr) (x : ref), href_m ((fun m => m <| m_locked := add32 (m_locked m) 1 |>) m) x -> href_m m x)
      by (intros ? ? HH; exact HH);
    match goal with Hn : new_lock ?S0 ?k' ?conn' ?c' = (?s1, ?r), HE : add_expried ?X _ ?r = (?Y, ?aev) |- _ \/ _ =>
      left;
      match goal with |- _ /\ _ < next ?S' =>
        assert (K1 : keep (updm (add_lock s1 k' r) k' (fun m => m <| m_locked := add32 (m_locked m) 1 |>)) X) by apply keep_refl;
        assert (K2 : keep Y S') by keep_x;
        destruct (new_hold_chg S0 k' conn' c' s1 r _ X Y aev S' Hn Hf K1 HE K2) as ((Hr' & Hlt) & _ & _);
        split; [exact Hr'|apply (N.le_lt_trans _ r); [rewrite Hr'; apply N.le_refl|exact Hlt]]
      end
    end].
  all: try solve [
    match goal with Hn : new_lock ?S0 ?k' ?conn' ?c' = (?s1, ?r) |- _ /\ _ < next ?S' =>
      destruct (new_wait_chg S0 k' conn' c' s1 r S' Hn ltac:(keep_x)) as ((Hr' & Hlt) & _ & _);
      split; [exact Hr'|apply (N.le_lt_trans _ r); [rewrite Hr'; apply N.le_refl|exact Hlt]]
    end].
  all: try solve [right; apply (getm_href _ k); eapply get_locked_lock_href; eassumption].
Qed.
