Theorem lock_ack_grant_silent : forall s conn c,
  ack_grant_branch s conn c ->
  let k := c_key c in
  let r := next s in
  exists s' ev,
    lock_step s conn c = (s', ev, None)
    /\ Forall noreply ev
    /\ (exists a, In (EAof a) ev /\ a_lock a = true /\ a_ref a = Some r /\ a_lockid a = c_lockid c /\ a_key a = k)
    /\ (exists lb cc, In (EGrant k r true lb cc (c_count c)) ev)
    /\ exists l', aget (store s') r = Some l'
         /\ l_cmd l' = c /\ l_conn l' = conn /\ l_key l' = k
         /\ l_ack l' = 0 /\ l_locked l' = 1 /\ l_refc l' = 3
         /\ l_timeouted l' = false /\ l_expried l' = true /\ l_isaof l' = true
         /\ (if l_long l' then In r (wheel_get (tlong s') (lkey (l_tT l')))
             else exists slot, In r (wheel_get (twheel s') slot)).
Proof.
  intros s conn c [Hpre Hld Hcl Hack Hsec Hhold (waited & Hnew & Hadm) Hper] k r.
  unfold lock_step. cbv zeta. fold (lock_precheck s conn c). rewrite Hpre. fold k. fold (ensure_mgr s k).
  fold k in Hnew, Hadm, Hper. set (s0 := ensure_mgr s k) in *.
  assert (L0 : leader s0 = leader s). { unfold s0, ensure_mgr. destruct (aget (mgrs s) k); reflexivity. }
  assert (N0 : next s0 = next s). { unfold s0, ensure_mgr. destruct (aget (mgrs s) k); reflexivity. }
  rewrite L0, Hld, Hcl. cbn [negb andb].
  (* the held / unheld pre-branches yield (None, c, waited) *)
  unfold lock_newcomer in Hnew. fold k in Hnew. cbv zeta in Hnew.
  assert (exists s' ev,
    (let '(sN, r) := new_lock s0 k conn c in let s := sN in
     let m := getm s k in
     if (negb waited || (has (c_tflag c) TF_PRIORITY && check_wait_priority s k c)) && do_lock s k r then
       let require_wakeup := m_waited m in
       let wk := if require_wakeup then Some (mkWake k (Some conn)) else None in
       if 0 <? c_expried c then
         let before := m_locked m in
         let cc := cur_count s k in
         let s := add_lock s k r in
         let s := updm s k locked_plus1 in
         let l := getl s r in
         if has (c_tflag c) TF_REQUIRE_ACKED && negb (l_isaof l) && negb (l_aoftime l =? 255) then
           let '(s, pev) := if has_data_flag c then process_data s k r c true else (s, []) in
           if has (c_tflag c) TF_MILLISECOND then (s, [EPanic "millisecond-timeout-not-modelled"%string], @None wake) else
           let s := add_timeout s r in
           let s := updl s r refc_plus2 in
           let '(s, aev) := push_lock_aof s k r 0 in
           let s := grant_bump s in
           (s, [EGrant k r true before cc (c_count c)] ++ pev ++ aev, @None wake)
         else (s, @nil event, @None wake)
       else (s, @nil event, @None wake)
     else (s, @nil event, @None wake)) = (s', ev, None)
    /\ Forall noreply ev
    /\ (exists a, In (EAof a) ev /\ a_lock a = true /\ a_ref a = Some r /\ a_lockid a = c_lockid c /\ a_key a = k)
    /\ (exists lb cc, In (EGrant k r true lb cc (c_count c)) ev)
    /\ exists l', aget (store s') r = Some l'
         /\ l_cmd l' = c /\ l_conn l' = conn /\ l_key l' = k
         /\ l_ack l' = 0 /\ l_locked l' = 1 /\ l_refc l' = 3
         /\ l_timeouted l' = false /\ l_expried l' = true /\ l_isaof l' = true
         /\ (if l_long l' then In r (wheel_get (tlong s') (lkey (l_tT l')))
             else exists slot, In r (wheel_get (twheel s') slot))) as MAIN.
  2:{ destruct MAIN as (s' & ev & EQ & REST). exists s', ev. split; [|exact REST]. rewrite <- EQ. clear EQ REST.
      destruct (0 <? m_locked (getm s0 k)).
      - destruct (has (c_flag c) LOCK_FLAG_SHOW) eqn:Sh; [discriminate|]. cbn [andb]. cbv beta iota.
        destruct (get_locked_lock s0 (getm s0 k) (c_lockid c)); [discriminate|]. inv Hnew.
        destruct (new_lock s0 k conn c) as [s1 r1]. cbv zeta.
        repeat match goal with |- (if ?b then _ else _) = (if ?b then _ else _) => destruct b; [|reflexivity] end.
        reflexivity.
      - destruct (has (c_tflag c) TF_WAIT_WHEN_UNLOCK).
        + destruct (m_waited (getm s0 k) && (c_count c =? 0)); [discriminate|]. inv Hnew.
          destruct (new_lock s0 k conn c) as [s1 r1]. cbv zeta.
          repeat match goal with |- (if ?b then _ else _) = (if ?b then _ else _) => destruct b; [|reflexivity] end.
          reflexivity.
        + inv Hnew. destruct (new_lock s0 k conn c) as [s1 r1]. cbv zeta.
          repeat match goal with |- (if ?b then _ else _) = (if ?b then _ else _) => destruct b; [|reflexivity] end.
          reflexivity. }
  pose proof (new_lock_spec s0 k conn c) as NL.
  destruct (new_lock s0 k conn c) as [s1 r1] eqn:En. cbn [fst] in Hadm, Hper.
  destruct NL as (-> & L1 & l0 & E0 & C0 & Cn0 & K0 & R0 & A0 & X0 & D0). rewrite N0. fold r.
  rewrite Hadm.
  assert (Hh : (0 <? c_expried c) = true) by (apply N.ltb_lt; lia). rewrite Hh.
  (* after AddLock *)
  set (s2 := updm (add_lock s1 k r) k (fun m => m <| m_locked := add32 (m_locked m) 1 |>)).
  assert (E2 : aget (store s2) r = Some (add_lock_rec s1 k r)). { unfold s2. rewrite store_updm. apply add_lock_at. }
  assert (L2 : leader s2 = true). { unfold s2. rewrite leader_updm, add_lock_leader. congruence. }
  set (lA := add_lock_rec s1 k r) in *.
  assert (G1 : getl s1 r = l0) by (apply getl_of; auto).
  assert (FA : l_cmd lA = c /\ l_conn lA = conn /\ l_key lA = k /\ l_ack lA = 0 /\ l_locked lA = 1 /\ l_refc lA = 1
               /\ l_isaof lA = false /\ l_expried lA = true /\ l_data lA = None
               /\ l_aoftime lA = match m_cur (getm s1 k) with None => aoftime_of s1 c | Some cr => l_aoftime (getl s1 cr) end).
  { unfold lA, add_lock_rec. cbv zeta. rewrite G1, C0, Hcl, Hack.
    destruct (has (c_tflag c) TF_UNRENEW); cbn; rewrite ?R0; repeat split; auto. }
  destruct FA as (FAc & FAn & FAk & FAa & FAl & FAr & FAi & FAe & FAd & FAt).
  rewrite (getl_of _ _ _ E2).
  assert (Hat : (l_aoftime lA =? 255) = false).
  { apply N.eqb_neq. rewrite FAt.
    assert (Mc : m_cur (getm s1 k) = m_cur (getm s0 k)).
    { unfold new_lock in En. cbv zeta in En. inv En. unfold getm. rewrite aget_mgrs_updm, N.eqb_refl. cbn [mgrs set].
      destruct (aget (mgrs s0) k); reflexivity. }
    rewrite Mc. destruct (m_cur (getm s0 k)); [exact Hper|].
    unfold new_lock in En. cbv zeta in En. inv En. exact Hper. }
  rewrite Hack, FAi, Hat, Hsec. cbn [negb andb].
  (* value operation *)
  match goal with |- context [if has_data_flag c then ?X else ?Y] =>
    destruct (if has_data_flag c then X else Y) as [s3 pev] eqn:E3 end.
  assert (T3 : exists l3, tracked s2 s3 r lA l3 /\ l_timeouted l3 = l_timeouted lA /\ l_isaof l3 = false /\ Forall quiet pev).
  { destruct (has_data_flag c).
    - destruct (process_data_tracked _ _ _ _ _ _ _ _ E3 E2) as (l3 & T & A & B & _).
      exists l3. repeat split; auto; try congruence. eapply process_data_quiet; eauto.
    - inv E3. exists lA. split; [constructor; [exact E2|apply same_hold_refl|reflexivity]|]. auto. }
  destruct T3 as (l3 & [E3a H3 L3] & _ & I3 & Q3).
  destruct (add_timeout_tracked _ _ _ E3a) as (l4 & [E4a H4 L4] & T4 & I4 & _ & W4).
  set (s4 := add_timeout s3 r) in *.
  set (s5 := updl s4 r (fun l => l <| l_refc := add8 (l_refc l) 2 |>)).
  assert (E5 : aget (store s5) r = Some (l4 <| l_refc := add8 (l_refc l4) 2 |>)) by (apply store_at_updl; auto).
  assert (L5 : leader s5 = true). { unfold s5. rewrite leader_updl. congruence. }
  pose proof (same_hold_trans _ _ _ H3 H4) as H34. destruct H34 as (Hk & Hc & Hn & Hl & Ha & Hr & He & Ht).
  destruct (push_lock_aof s5 k r 0) as [s6 aev] eqn:E6.
  assert (Fa5 : has (c_flag (l_cmd (l4 <| l_refc := add8 (l_refc l4) 2 |>))) LOCK_FLAG_FROM_AOF = false).
  { cbn. rewrite Hc, FAc. exact Hcl. }
  destruct (push_lock_aof_tracked _ _ _ _ _ _ _ E6 E5 L5 Fa5) as (l6 & a & [E6a H6 L6] & T6 & I6 & Lg6 & Tt6 & W6a & W6b & -> & Al & Aid & Ak & Ar).
  do 2 eexists. split; [reflexivity|].
  split.
  { repeat (first [apply Forall_cons; [exact I|] | apply Forall_app; split | apply Forall_nil | apply quiet_noreply; exact Q3]). }
  split.
  { exists a. split; [apply in_or_app; right; apply in_or_app; right; left; reflexivity|].
    cbn in Aid, Ak, Ar. rewrite Hc, FAc in Aid, Ak, Ar. rewrite Hack in Ar. auto. }
  split.
  { do 2 eexists. left. reflexivity. }
  destruct H6 as (Gk & Gc & Gn & Gl & Ga & Gr & Ge & Gt). cbn in Gk, Gc, Gn, Gl, Ga, Gr, Ge, Gt.
  exists l6. split; [exact E6a|].
  repeat split; try congruence.
  - rewrite Gr, Hr, FAr. reflexivity.
  - cbn in T6. congruence.
  - cbn in Lg6, Tt6. rewrite Lg6, Tt6. cbn [tlong twheel bump updc set].
    change (tlong (bump _ s6)) with (tlong s6). change (twheel (bump _ s6)) with (twheel s6).
    rewrite W6a, W6b. unfold s5. rewrite twheel_updl, tlong_updl. exact W4.
Qed.
