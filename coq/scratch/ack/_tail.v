(* the part of Lock after the holder checks: new record, admission, grant / queue / refuse (verbatim) *)
Definition lock_tail (s : db) (k conn : N) (c : cmd) (waited : bool) : db * list event * option wake :=
  let '(s, r) := new_lock s k conn c in
  let m := getm s k in
  if (negb waited || (has (c_tflag c) TF_PRIORITY && check_wait_priority s k c)) && do_lock s k r then
    let require_wakeup := m_waited m in
    let wk := if require_wakeup then Some (mkWake k (Some conn)) else None in
    if 0 <? c_expried c then
      let before := m_locked m in
      let cc := cur_count s k in
      let s := add_lock s k r in
      let s := updm s k (fun m => m <| m_locked := add32 (m_locked m) 1 |>) in
      let l := getl s r in
      if has (c_tflag c) TF_REQUIRE_ACKED && negb (l_isaof l) && negb (l_aoftime l =? 255) then
        let '(s, pev) := if has_data_flag c then process_data s k r c true else (s, []) in
        if has (c_tflag c) TF_MILLISECOND then (s, [EPanic "millisecond-timeout-not-modelled"%string], None) else
        let s := add_timeout s r in
        let s := updl s r (fun l => l <| l_refc := add8 (l_refc l) 2 |>) in
        let '(s, aev) := push_lock_aof s k r 0 in
        let s := bump (fun n => n <| n_lock := (n_lock n + 1)%Z |> <| n_locked := (n_locked n + 1)%Z |>) s in
        (s, [EGrant k r true before cc (c_count c)] ++ pev ++ aev, None)
      else
        let ldata := data_of s k in
        let '(s, pev) := if has_data_flag c then process_data s k r c false else (s, []) in
        if has (c_eflag c) EF_MILLISECOND then (s, [EPanic "millisecond-expiry-not-modelled"%string], None) else
        let '(s, aev) := add_expried s k r in
        let s := updl s r (fun l => l <| l_refc := add8 (l_refc l) 1 |>) in
        let s := bump (fun n => n <| n_lock := (n_lock n + 1)%Z |> <| n_locked := (n_locked n + 1)%Z |>) s in
        (s, [EGrant k r true before cc (c_count c)] ++ pev ++ aev ++ [reply conn c R_SUCCED (m_locked (getm s k)) (l_locked (getl s r)) ldata], wk)
    else
      (* Expried = 0: value write / probe without a hold *)
      let ldata := data_of s k in
      let '(s, pev, aev) :=
        if has_data_flag c then
          let req_aof := match m_cur m with Some cr => l_isaof (getl s cr) | None => false end
                         || match m_data m with Some d => d_isaof d | None => false end in
          let '(s, pev) := process_data s k r c false in
          let nowaof := match m_data (getm s k) with Some d => negb (d_isaof d) | None => false end in
          if req_aof && nowaof then let '(s, aev) := push_lock_aof s k r 0 in (s, pev, aev) else (s, pev, [])
        else (s, [], []) in
      let lrc := l_locked (getl s r) in
      let s := free_lock s r in
      let lcount := m_locked (getm s k) in
      let s := remove_mgr_if_unref s k in
      let s := bump (fun n => n <| n_lock := (n_lock n + 1)%Z |>) s in
      (s, pev ++ aev ++ [reply conn c R_SUCCED lcount lrc ldata], wk)
  else
  if (0 <? c_timeout c) && (negb (has (c_tflag c) TF_TIMEOUT_WHEN_DATA) || match data_of s k with None => true | Some _ => false end) then
    if has (c_tflag c) TF_MILLISECOND then (s, [EPanic "millisecond-timeout-not-modelled"%string], None) else
    let s := add_wait_lock s k r in
    let s := add_timeout s r in
    let s := updl s r (fun l => l <| l_refc := add8 (l_refc l) 1 |>) in
    let s := bump (fun n => n <| n_wait := (n_wait n + 1)%Z |>) s in
    (s, [], None)
  else
    let lrc := l_locked (getl s r) in
    let s := free_lock s r in
    let lcount := m_locked (getm s k) in
    let s := remove_mgr_if_unref s k in
    (s, [reply conn c R_TIMEOUT lcount lrc (data_of s k)], None).
