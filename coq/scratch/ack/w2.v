From Coq Require Import String List NArith ZArith.
From Slock Require Import Engine.Types Engine.Queues Engine.Timers Engine.Engine Engine.Engine2 Engine.Ack.
Import ListNotations.
Open Scope N_scope.
Definition L req lockid tflag timeout eflag expried rcount := AAct (AReq 1 (make_cmd true req 0 lockid 7 tflag timeout eflag expried 0 rcount None)).
Definition U req lockid := AAct (AReq 1 (make_cmd false req 0 lockid 7 0 0 0 0 0 0 None)).
Definition replies (evs : list (list event)) := map (filter (fun e => match e with EReply _ _ _ _ _ _ _ _ _ => true | EPanic _ => true | _ => false end)) evs.
(* i *)
Definition r1 := arun (init_astate 1000000 0 1) [L 1 101 0 5 0 10 0; L 2 101 4096 5 0 10 1; AAckEvt 0 true; L 3 101 4096 5 0 10 2; AAckEvt 1 true; AAct (AAdvance 20); AAct ASweepE].
Eval vm_compute in replies (snd r1).
Eval vm_compute in (aget (store (a_db (fst r1))) 1, option_map (fun m => (m_cur m, m_locked m)) (aget (mgrs (a_db (fst r1))) 7)).
Definition r1b := arun (init_astate 1000000 0 1) [L 1 101 0 5 0 10 0; L 2 101 4096 5 0 10 1; AAckEvt 0 true; L 3 101 4096 5 0 10 2; AAckEvt 1 true].
Eval vm_compute in (aget (store (a_db (fst r1b))) 1, option_map (fun m => (m_cur m, m_locked m)) (aget (mgrs (a_db (fst r1b))) 7)).
(* iv *)
Definition r4 := arun (init_astate 1000000 0 1) [L 1 101 4096 2 0 10 0; L 2 102 4096 5 0 10 0; AAct (AAdvance 20); AAct ASweepT; AAckEvt 1 true].
Eval vm_compute in replies (snd r4).
Eval vm_compute in a_reg (fst r4).
