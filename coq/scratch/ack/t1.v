From Coq Require Import String ZifyN ZifyBool ZifyNat.
From Slock Require Import Engine.Types Engine.Queues Engine.Timers Engine.Engine Engine.Engine2.
From Slock Require Import scratch.ack.AckProofsBase scratch.ack.AckProofsAck scratch.ack.AckProofsWait.
Open Scope N_scope.
Goal forall s1 : db, True.
intros s.
assert (let s := s in bump (fun n : counters => n <| n_lock := (n_lock n + 1)%Z |>) s = s).
Abort.
Goal forall (s1 : db) (k:N) (r:ref), True.
intros s k r.
assert (exists s' ev, (
           let '(s, aev) := push_lock_aof s k r 0 in
           let s := bump (fun n : counters => n <| n_lock := (n_lock n + 1)%Z |> <| n_locked := (n_locked n + 1)%Z |>) s in
           (s, aev, @None wake)) = (s', ev, None)).
Abort.
