(* C11 (A1): a fresh require-ack grant is silent.  Lock (new holder) and wakeUpWaitLock (queued request): no reply,
   a LOCK log record carrying the lock, the hold is there but pending (l_ack = 0), armed for the ack timeout, two more
   references (timeout structure + acknowledgement table).  Every state. *)
From Coq Require Import String ZifyN ZifyBool ZifyNat.
From Slock Require Import Engine.Types Engine.Queues Engine.Timers Engine.Engine Engine.Engine2.
From Slock Require Import scratch.ack.AckProofsBase scratch.ack.AckProofsAck scratch.ack.AckProofsWait.
Open Scope N_scope.

(* ------------------------------------------------------------------ tracking one record through the helpers *)
Lemma twheel_updl s r f : twheel (updl s r f) = twheel s. Proof. unfold updl. destruct aget; reflexivity. Qed.
Lemma tlong_updl s r f : tlong (updl s r f) = tlong s. Proof. unfold updl. destruct aget; reflexivity. Qed.
Lemma twheel_updm s k f : twheel (updm s k f) = twheel s. Proof. unfold updm. destruct aget; reflexivity. Qed.
Lemma tlong_updm s k f : tlong (updm s k f) = tlong s. Proof. unfold updm. destruct aget; reflexivity. Qed.

Lemma store_at_updl s r f l : aget (store s) r = Some l -> aget (store (updl s r f)) r = Some (f l).
Proof. intros H. rewrite aget_store_updl, N.eqb_refl, H. reflexivity. Qed.
Lemma store_at_updm s k f r : aget (store (updm s k f)) r = aget (store s) r.
Proof. rewrite store_updm. reflexivity. Qed.

Lemma unref_other s x r : x <> r -> aget (store (unref s x)) r = aget (store s) r.
Proof.
  intros Hn. unfold unref. destruct (aget (store s) x) eqn:E; auto.
  assert (X : aget (store (setl s x (l <| l_refc := dec8 (l_refc l) |>))) r = aget (store s) r).
  { change (store (setl s x (l <| l_refc := dec8 (l_refc l) |>))) with (aset (store s) x (l <| l_refc := dec8 (l_refc l) |>)).
    rewrite aget_aset. destruct (x =? r) eqn:E2; [apply N.eqb_eq in E2; congruence|reflexivity]. }
  destruct (_ =? 0); auto.
  unfold free_lock. destruct (aget (store (setl s x _)) x); auto.
  rewrite store_updm. cbn [store set]. rewrite aget_adel.
  destruct (x =? r) eqn:E2; [apply N.eqb_eq in E2; congruence|]. exact X.
Qed.

Lemma hq_compact_live items : forall s s' kept r, hq_compact s items = (s', kept) ->
  (0 <? l_locked (getl s r)) = true -> aget (store s') r = aget (store s) r.
Proof.
  induction items as [|x rest IH]; simpl; intros s s' kept r H L.
  - inv H. reflexivity.
  - destruct (0 <? l_locked (getl s x)) eqn:Lx.
    + destruct (hq_compact s rest) as [s1 k1] eqn:E. inv H. eapply IH; eauto.
    + assert (Hn : x <> r) by (intros ->; congruence).
      rewrite (IH _ _ _ r H).
      * apply unref_other; auto.
      * unfold getl. rewrite unref_other; auto.
Qed.

Lemma hq_push_live s q x s' q' r : hq_push s q x = (s', q') ->
  (0 <? l_locked (getl s r)) = true -> aget (store s') r = aget (store s) r.
Proof.
  unfold hq_push. intros H L. repeat (split_hyp H); inv H; try reflexivity; eapply hq_compact_live; eauto.
Qed.

(* the record AddLock writes *)
Definition add_lock_rec (s : db) (k : N) (r : ref) : lockrec :=
  let l := getl s r in
  let c := l_cmd l in
  let l := if has (c_tflag c) TF_UNRENEW then l
           else let eT := expiry_deadline c (now s) in
                l <| l_start := now s |> <| l_eT := eT |> <| l_ecc := initial_ecc c eT (now s) |> in
  let m := getm s k in
  let aoft := match m_cur m with None => aoftime_of s c | Some cr => l_aoftime (getl s cr) end in
  let l := l <| l_aoftime := aoft |> <| l_locked := 1 |> <| l_refc := add8 (l_refc l) 1 |> in
  if has (c_flag c) LOCK_FLAG_FROM_AOF then l <| l_isaof := true |>
  else if has (c_tflag c) TF_REQUIRE_ACKED then l <| l_ack := 0 |> else l.

Lemma add_lock_rec_locked s k r : l_locked (add_lock_rec s k r) = 1.
Proof. unfold add_lock_rec. cbv zeta. brk; reflexivity. Qed.

Lemma add_lock_eq s k r :
  add_lock s k r =
  let s1 := setl s r (add_lock_rec s k r) in
  match m_cur (getm s k) with
  | None => updm s1 k (fun m => m <| m_cur := Some r |>)
  | Some _ =>
      let q := match m_locks (getm s k) with Some q => q | None => hq_empty end in
      let '(s', q') := hq_push s1 q r in
      updm s' k (fun m => m <| m_locks := Some q' |>)
  end.
Proof. reflexivity. Qed.

Lemma add_lock_at s k r : aget (store (add_lock s k r)) r = Some (add_lock_rec s k r).
Proof.
  rewrite add_lock_eq. cbv zeta.
  destruct (m_cur (getm s k)).
  - match goal with |- context [hq_push ?a ?b ?c] => destruct (hq_push a b c) as [s' q'] eqn:E end.
    rewrite store_updm. erewrite hq_push_live; [|exact E|].
    + change (store (setl s r (add_lock_rec s k r))) with (aset (store s) r (add_lock_rec s k r)). apply aget_aset_same.
    + rewrite getl_setl, N.eqb_refl, add_lock_rec_locked. reflexivity.
  - rewrite store_updm. change (store (setl s r (add_lock_rec s k r))) with (aset (store s) r (add_lock_rec s k r)).
    apply aget_aset_same.
Qed.

Lemma add_lock_leader s k r : leader (add_lock s k r) = leader s.
Proof.
  rewrite add_lock_eq. cbv zeta. destruct (m_cur (getm s k)).
  - match goal with |- context [hq_push ?a ?b ?c] => destruct (hq_push a b c) as [s' q'] eqn:E end.
    rewrite leader_updm. apply (fr_leader (setl s r (add_lock_rec s k r))). eapply hq_push_fr; [exact E|apply fr_refl].
  - rewrite leader_updm. reflexivity.
Qed.

Lemma add_lock_mlocked s k r : mlocked_le s (add_lock s k r).
Proof.
  rewrite add_lock_eq. cbv zeta.
  assert (F0 : fr (setl s r (add_lock_rec s k r)) (setl s r (add_lock_rec s k r))) by apply fr_refl.
  assert (M0 : mlocked_le s (setl s r (add_lock_rec s k r))) by (intros k' m' H; eauto).
  assert (T : forall s1 s2, mlocked_le s s1 -> fr s1 s2 -> mlocked_le s s2).
  { intros s1 s2 A (_ & B & _) k' m2 H2. destruct (B _ _ H2) as (m1 & H1 & V1). destruct (A _ _ H1) as (m0 & H0 & V0).
    exists m0. split; auto. congruence. }
  destruct (m_cur (getm s k)).
  - match goal with |- context [hq_push ?a ?b ?c] => destruct (hq_push a b c) as [s' q'] eqn:E end.
    eapply T; [exact M0|]. apply fr_r_updm; [fr_side|]. eapply hq_push_fr; eauto.
  - eapply T; [exact M0|]. apply fr_updm. fr_side.
Qed.

(* fields no later step of the grant touches *)
Definition same_hold (l l' : lockrec) : Prop :=
  l_key l' = l_key l /\ l_cmd l' = l_cmd l /\ l_conn l' = l_conn l /\ l_locked l' = l_locked l /\ l_ack l' = l_ack l
  /\ l_refc l' = l_refc l /\ l_expried l' = l_expried l /\ l_aoftime l' = l_aoftime l.
Lemma same_hold_refl l : same_hold l l. Proof. repeat split. Qed.
Lemma same_hold_trans a b c : same_hold a b -> same_hold b c -> same_hold a c.
Proof. unfold same_hold. intros (A1&A2&A3&A4&A5&A6&A7&A8) (B1&B2&B3&B4&B5&B6&B7&B8). repeat split; congruence. Qed.

Record tracked (s s' : db) (r : ref) (l l' : lockrec) : Prop := {
  tk_at : aget (store s') r = Some l';
  tk_hold : same_hold l l';
  tk_leader : leader s' = leader s
}.

Lemma process_data_tracked s k r c b s' ev l : process_data s k r c b = (s', ev) -> aget (store s) r = Some l ->
  exists l', tracked s s' r l l' /\ l_timeouted l' = l_timeouted l /\ l_isaof l' = l_isaof l
             /\ twheel s' = twheel s /\ tlong s' = tlong s.
Proof.
  unfold process_data. intros H E. repeat (split_hyp H); inv H; try solve [exists l; split; [constructor; [exact E|apply same_hold_refl|reflexivity]|auto]].
  eexists. split; [constructor|].
  - apply store_at_updl. rewrite store_updm. exact E.
  - repeat split.
  - rewrite leader_updl, leader_updm. reflexivity.
  - rewrite twheel_updl, tlong_updl, twheel_updm, tlong_updm. auto.
Qed.

Lemma add_timeout_tracked s r l : aget (store s) r = Some l ->
  let s' := add_timeout s r in
  exists l', tracked s s' r l l' /\ l_timeouted l' = false /\ l_isaof l' = l_isaof l /\ mgrs s' = mgrs s
    /\ (if l_long l' then In r (wheel_get (tlong s') (lkey (l_tT l'))) else exists slot, In r (wheel_get (twheel s') slot)).
Proof.
  intros E. unfold add_timeout. cbv zeta.
  set (s1 := updl s r (fun l => l <| l_timeouted := false |>)).
  assert (E1 : aget (store s1) r = Some (l <| l_timeouted := false |>)) by (apply store_at_updl; auto).
  rewrite (getl_of _ _ _ E1).
  destruct (QUEUE_MAX_WAIT <? l_tcc (l <| l_timeouted := false |>)).
  - match goal with |- context [updl s1 r ?f] => set (f1 := f) end.
    exists (f1 (l <| l_timeouted := false |>)). split; [constructor|].
    + cbn [store set]. apply store_at_updl; auto.
    + repeat split.
    + cbn [leader set]. rewrite leader_updl. unfold s1. apply leader_updl.
    + split; [reflexivity|]. split; [reflexivity|]. split; [cbn [mgrs set]; rewrite mgrs_updl; unfold s1; apply mgrs_updl|].
      unfold f1. cbn [l_long set l_tT tlong]. unfold wheel_push, wheel_get. rewrite aget_aset_same. apply in_or_app. right. left. reflexivity.
  - match goal with |- context [updl ?s0 r ?f] => set (f1 := f); set (s2 := s0) end.
    exists (f1 (l <| l_timeouted := false |>)). split; [constructor|].
    + apply store_at_updl. exact E1.
    + repeat split.
    + rewrite leader_updl. unfold s2. cbn [leader set]. apply leader_updl.
    + split; [reflexivity|]. split; [reflexivity|]. split; [rewrite mgrs_updl; unfold s2; cbn [mgrs set]; apply mgrs_updl|].
      unfold f1. cbn [l_long set]. eexists. rewrite twheel_updl. unfold s2. cbn [twheel set]. unfold wheel_push, wheel_get.
      rewrite aget_aset_same. apply in_or_app. right. left. reflexivity.
Qed.

Lemma push_lock_aof_tracked s k r f s' ev l : push_lock_aof s k r f = (s', ev) -> aget (store s) r = Some l ->
  leader s = true -> has (c_flag (l_cmd l)) LOCK_FLAG_FROM_AOF = false ->
  exists l' a, tracked s s' r l l' /\ l_timeouted l' = l_timeouted l /\ l_isaof l' = true /\ l_long l' = l_long l /\ l_tT l' = l_tT l
    /\ twheel s' = twheel s /\ tlong s' = tlong s
    /\ ev = [EAof a] /\ a_lock a = true /\ a_lockid a = c_lockid (l_cmd l) /\ a_key a = c_key (l_cmd l)
    /\ a_ref a = (if has (c_tflag (l_cmd l)) TF_REQUIRE_ACKED then Some r else None).
Proof.
  unfold push_lock_aof. intros H E Ld Fa. rewrite Ld, (getl_of _ _ _ E), Fa in H. cbn [negb] in H.
  destruct (aof_lock_data _ _ _) as [[d cur'] ld'] eqn:Ea. inv H.
  do 2 eexists. split; [constructor|].
  - apply store_at_updl. apply store_at_updl. rewrite store_updm. exact E.
  - repeat split.
  - rewrite !leader_updl, leader_updm. reflexivity.
  - rewrite !twheel_updl, !tlong_updl, twheel_updm, tlong_updm. repeat split.
Qed.

(* ------------------------------------------------------------------ Lock: the fresh ack grant *)
Definition ensure_mgr (s : db) (k : N) : db :=
  match aget (mgrs s) k with
  | Some _ => s
  | None => bump (fun n => n <| n_key := (n_key n + 1)%Z |>) (setm s k new_mgr)
  end.

(* the request does not name a holder and is not refused outright: Some waited = the `waited` flag Lock continues with *)
Definition lock_newcomer (s0 : db) (c : cmd) : option bool :=
  let m := getm s0 (c_key c) in
  if 0 <? m_locked m then
    if has (c_flag c) LOCK_FLAG_SHOW then None
    else match get_locked_lock s0 m (c_lockid c) with Some _ => None | None => Some (m_waited m) end
  else if has (c_tflag c) TF_WAIT_WHEN_UNLOCK then
         if m_waited m && (c_count c =? 0) then None else Some true
       else Some false.

(* the branch condition of the silent grant, as Lock evaluates it *)
Record ack_grant_branch (s : db) (conn : N) (c : cmd) : Prop := {
  gb_pre : lock_precheck s conn c = None;
  gb_leader : leader s = true;
  gb_client : has (c_flag c) LOCK_FLAG_FROM_AOF = false;
  gb_ack : has (c_tflag c) TF_REQUIRE_ACKED = true;
  gb_sec : has (c_tflag c) TF_MILLISECOND = false;
  gb_hold : c_expried c <> 0;
  gb_enter : exists waited,
      lock_newcomer (ensure_mgr s (c_key c)) c = Some waited
      /\ let s1 := fst (new_lock (ensure_mgr s (c_key c)) (c_key c) conn c) in
         (negb waited || (has (c_tflag c) TF_PRIORITY && check_wait_priority s1 (c_key c) c))
         && do_lock s1 (c_key c) (next s) = true;
  gb_persist :
      let s0 := ensure_mgr s (c_key c) in
      match m_cur (getm s0 (c_key c)) with
      | None => aoftime_of s0 c
      | Some cr => l_aoftime (getl (fst (new_lock s0 (c_key c) conn c)) cr)
      end <> 255
}.

Lemma new_lock_spec s k conn c :
  let '(s1, r) := new_lock s k conn c in
  r = next s /\ leader s1 = leader s
  /\ exists l0, aget (store s1) r = Some l0 /\ l_cmd l0 = c /\ l_conn l0 = conn /\ l_key l0 = k /\ l_refc l0 = 0
                /\ l_isaof l0 = false /\ l_expried l0 = true /\ l_data l0 = None.
Proof.
  unfold new_lock. cbv zeta. split; [reflexivity|]. split; [rewrite leader_updm; reflexivity|].
  eexists. split; [rewrite store_updm; cbn [store set]; apply aget_aset_same|]. repeat split.
Qed.

(* the part of Lock after the holder checks: new record, admission, grant / queue / refuse (verbatim) *)
Definition lock_tail (s : db) (k conn : N) (c : cmd) (waited : bool) : db * list event * option wake :=
  let '(s, r) := new_lock s k conn c in
  let m := getm s k in
  if (negb waited || (has (c_tflag c) TF_PRIORITY && check_wait_priority s k c)) && do_lock s k r then
    let require_wakeup := m_waited m in
    let wk := if require_wakeup then Some (mkWake k (Some conn)) else None in
    if 0 <? c_expried c then
      let before := m_locked m in
      let cc := cur_count s k in
      let s := add_lock s k r in
      let s := updm s k (fun m => m <| m_locked := add32 (m_locked m) 1 |>) in
      let l := getl s r in
      if has (c_tflag c) TF_REQUIRE_ACKED && negb (l_isaof l) && negb (l_aoftime l =? 255) then
        let '(s, pev) := if has_data_flag c then process_data s k r c true else (s, []) in
        if has (c_tflag c) TF_MILLISECOND then (s, [EPanic "millisecond-timeout-not-modelled"%string], None) else
        let s := add_timeout s r in
        let s := updl s r (fun l => l <| l_refc := add8 (l_refc l) 2 |>) in
        let '(s, aev) := push_lock_aof s k r 0 in
        let s := bump (fun n => n <| n_lock := (n_lock n + 1)%Z |> <| n_locked := (n_locked n + 1)%Z |>) s in
        (s, [EGrant k r true before cc (c_count c)] ++ pev ++ aev, None)
      else
        let ldata := data_of s k in
        let '(s, pev) := if has_data_flag c then process_data s k r c false else (s, []) in
        if has (c_eflag c) EF_MILLISECOND then (s, [EPanic "millisecond-expiry-not-modelled"%string], None) else
        let '(s, aev) := add_expried s k r in
        let s := updl s r (fun l => l <| l_refc := add8 (l_refc l) 1 |>) in
        let s := bump (fun n => n <| n_lock := (n_lock n + 1)%Z |> <| n_locked := (n_locked n + 1)%Z |>) s in
        (s, [EGrant k r true before cc (c_count c)] ++ pev ++ aev ++ [reply conn c R_SUCCED (m_locked (getm s k)) (l_locked (getl s r)) ldata], wk)
    else
      (* Expried = 0: value write / probe without a hold *)
      let ldata := data_of s k in
      let '(s, pev, aev) :=
        if has_data_flag c then
          let req_aof := match m_cur m with Some cr => l_isaof (getl s cr) | None => false end
                         || match m_data m with Some d => d_isaof d | None => false end in
          let '(s, pev) := process_data s k r c false in
          let nowaof := match m_data (getm s k) with Some d => negb (d_isaof d) | None => false end in
          if req_aof && nowaof then let '(s, aev) := push_lock_aof s k r 0 in (s, pev, aev) else (s, pev, [])
        else (s, [], []) in
      let lrc := l_locked (getl s r) in
      let s := free_lock s r in
      let lcount := m_locked (getm s k) in
      let s := remove_mgr_if_unref s k in
      let s := bump (fun n => n <| n_lock := (n_lock n + 1)%Z |>) s in
      (s, pev ++ aev ++ [reply conn c R_SUCCED lcount lrc ldata], wk)
  else
  if (0 <? c_timeout c) && (negb (has (c_tflag c) TF_TIMEOUT_WHEN_DATA) || match data_of s k with None => true | Some _ => false end) then
    if has (c_tflag c) TF_MILLISECOND then (s, [EPanic "millisecond-timeout-not-modelled"%string], None) else
    let s := add_wait_lock s k r in
    let s := add_timeout s r in
    let s := updl s r (fun l => l <| l_refc := add8 (l_refc l) 1 |>) in
    let s := bump (fun n => n <| n_wait := (n_wait n + 1)%Z |>) s in
    (s, [], None)
  else
    let lrc := l_locked (getl s r) in
    let s := free_lock s r in
    let lcount := m_locked (getm s k) in
    let s := remove_mgr_if_unref s k in
    (s, [reply conn c R_TIMEOUT lcount lrc (data_of s k)], None).

Lemma lock_step_newcomer s conn c waited :
  lock_precheck s conn c = None ->
  (leader s = true \/ has (c_flag c) LOCK_FLAG_FROM_AOF = true) ->
  lock_newcomer (ensure_mgr s (c_key c)) c = Some waited ->
  lock_step s conn c = lock_tail (ensure_mgr s (c_key c)) (c_key c) conn c waited.
Proof.
  intros Hpre Hrole Hnew.
  unfold lock_step. cbv zeta. fold (lock_precheck s conn c). rewrite Hpre.
  set (k := c_key c) in *. fold (ensure_mgr s k). set (s0 := ensure_mgr s k) in *.
  assert (L0 : leader s0 = leader s). { unfold s0, ensure_mgr. destruct (aget (mgrs s) k); reflexivity. }
  assert (R : negb (leader s0) && negb (has (c_flag c) LOCK_FLAG_FROM_AOF) = false).
  { rewrite L0. destruct Hrole as [->| ->]; [reflexivity|apply andb_false_r]. }
  rewrite R.
  unfold lock_newcomer in Hnew. fold k in Hnew. cbv zeta in Hnew.
  destruct (0 <? m_locked (getm s0 k)).
  - destruct (has (c_flag c) LOCK_FLAG_SHOW) eqn:Sh; [discriminate|]. cbn [andb]. cbv beta iota.
    destruct (get_locked_lock s0 (getm s0 k) (c_lockid c)); [discriminate|]. inv Hnew. reflexivity.
  - destruct (has (c_tflag c) TF_WAIT_WHEN_UNLOCK).
    + destruct (m_waited (getm s0 k) && (c_count c =? 0)); [discriminate|]. inv Hnew. reflexivity.
    + inv Hnew. reflexivity.
Qed.

Theorem lock_ack_grant_silent : forall s conn c,
  ack_grant_branch s conn c ->
  let k := c_key c in
  let r := next s in
  exists s' ev,
    lock_step s conn c = (s', ev, None)
    /\ Forall noreply ev
    /\ (exists a, In (EAof a) ev /\ a_lock a = true /\ a_ref a = Some r /\ a_lockid a = c_lockid c /\ a_key a = k)
    /\ (exists lb cc, In (EGrant k r true lb cc (c_count c)) ev)
    /\ exists l', aget (store s') r = Some l'
         /\ l_cmd l' = c /\ l_conn l' = conn /\ l_key l' = k
         /\ l_ack l' = 0 /\ l_locked l' = 1 /\ l_refc l' = 3
         /\ l_timeouted l' = false /\ l_expried l' = true /\ l_isaof l' = true
         /\ (if l_long l' then In r (wheel_get (tlong s') (lkey (l_tT l')))
             else exists slot, In r (wheel_get (twheel s') slot)).
Proof.
  intros s conn c [Hpre Hld Hcl Hack Hsec Hhold (waited & Hnew & Hadm) Hper] k r.
  rewrite (lock_step_newcomer _ _ _ _ Hpre (or_introl Hld) Hnew). fold k in Hnew, Hadm, Hper |- *.
  set (s0 := ensure_mgr s k) in *.
  assert (L0 : leader s0 = leader s). { unfold s0, ensure_mgr. destruct (aget (mgrs s) k); reflexivity. }
  assert (N0 : next s0 = next s). { unfold s0, ensure_mgr. destruct (aget (mgrs s) k); reflexivity. }
  unfold lock_tail.
  pose proof (new_lock_spec s0 k conn c) as NL. cbv zeta in Hper, Hadm.
  destruct (new_lock s0 k conn c) as [s1 r1] eqn:En. cbn [fst] in Hadm, Hper.
  destruct NL as (-> & L1 & l0 & E0 & C0 & Cn0 & K0 & R0 & A0 & X0 & D0). rewrite N0 in *. cbv zeta in Hadm. rewrite Hadm. fold r in E0 |- *.
  assert (Hh : (0 <? c_expried c) = true) by (apply N.ltb_lt; lia). rewrite Hh.
  (* after AddLock *)
  set (s2 := updm (add_lock s1 k r) k (fun m => m <| m_locked := add32 (m_locked m) 1 |>)).
  assert (E2 : aget (store s2) r = Some (add_lock_rec s1 k r)). { unfold s2. rewrite store_updm. apply add_lock_at. }
  assert (L2 : leader s2 = true). { unfold s2. rewrite leader_updm, add_lock_leader. congruence. }
  set (lA := add_lock_rec s1 k r) in *.
  assert (G1 : getl s1 r = l0) by (apply getl_of; auto).
  assert (FA : l_cmd lA = c /\ l_conn lA = conn /\ l_key lA = k /\ l_ack lA = 0 /\ l_locked lA = 1 /\ l_refc lA = 1
               /\ l_isaof lA = false /\ l_expried lA = true /\ l_data lA = None
               /\ l_aoftime lA = match m_cur (getm s1 k) with None => aoftime_of s1 c | Some cr => l_aoftime (getl s1 cr) end).
  { unfold lA, add_lock_rec. cbv zeta. rewrite G1, C0, Hcl, Hack.
    destruct (has (c_tflag c) TF_UNRENEW); cbn; rewrite ?R0; repeat split; auto. }
  destruct FA as (FAc & FAn & FAk & FAa & FAl & FAr & FAi & FAe & FAd & FAt).
  rewrite (getl_of _ _ _ E2).
  assert (Hat : (l_aoftime lA =? 255) = false).
  { apply N.eqb_neq. rewrite FAt.
    assert (NLf : m_cur (getm s1 k) = m_cur (getm s0 k) /\ cfg_aoftime s1 = cfg_aoftime s0).
    { clear - En. unfold new_lock in En. cbv zeta in En. injection En as En _. subst s1. split.
      - unfold getm. rewrite aget_mgrs_updm, N.eqb_refl. cbn [mgrs set]. destruct (aget (mgrs s0) k); reflexivity.
      - unfold updm. cbn [mgrs set]. destruct (aget (mgrs s0) k); reflexivity. }
    destruct NLf as (Mc & Cf). rewrite Mc. destruct (m_cur (getm s0 k)); [exact Hper|].
    unfold aoftime_of in *. rewrite Cf. exact Hper. }
  rewrite Hack, FAi, Hat, Hsec. cbn [negb andb].
  (* value operation *)
  match goal with |- context [if has_data_flag c then ?X else ?Y] =>
    destruct (if has_data_flag c then X else Y) as [s3 pev] eqn:E3 end.
  assert (T3 : exists l3, tracked s2 s3 r lA l3 /\ l_timeouted l3 = l_timeouted lA /\ l_isaof l3 = false /\ Forall quiet pev).
  { destruct (has_data_flag c).
    - destruct (process_data_tracked _ _ _ _ _ _ _ _ E3 E2) as (l3 & T & A & B & _).
      exists l3. split; [exact T|]. split; [exact A|]. split; [congruence|]. eapply process_data_quiet; eauto.
    - inv E3. exists lA. split; [constructor; [exact E2|apply same_hold_refl|reflexivity]|]. auto. }
  destruct T3 as (l3 & [E3a H3 L3] & _ & I3 & Q3).
  destruct (add_timeout_tracked _ _ _ E3a) as (l4 & [E4a H4 L4] & T4 & I4 & _ & W4).
  set (s4 := add_timeout s3 r) in *.
  set (s5 := updl s4 r (fun l => l <| l_refc := add8 (l_refc l) 2 |>)).
  pose proof (store_at_updl s4 r (fun l => l <| l_refc := add8 (l_refc l) 2 |>) l4 E4a) as E5. fold s5 in E5.
  match type of E5 with _ = Some ?x => set (l5 := x) in * end.
  assert (F5 : l_key l5 = l_key l4 /\ l_cmd l5 = l_cmd l4 /\ l_conn l5 = l_conn l4 /\ l_locked l5 = l_locked l4
               /\ l_ack l5 = l_ack l4 /\ l_expried l5 = l_expried l4 /\ l_refc l5 = add8 (l_refc l4) 2
               /\ l_timeouted l5 = l_timeouted l4 /\ l_long l5 = l_long l4 /\ l_tT l5 = l_tT l4).
  { unfold l5. cbn. repeat split. }
  destruct F5 as (F5k & F5cmd & F5n & F5l & F5a & F5e & F5r & F5to & F5lg & F5tt).
  assert (L5 : leader s5 = true). { unfold s5. rewrite leader_updl. congruence. }
  pose proof (same_hold_trans _ _ _ H3 H4) as H34. destruct H34 as (Hk & Hc & Hn & Hl & Ha & Hr & He & Ht).
  destruct (push_lock_aof s5 k r 0) as [s6 aev] eqn:E6.
  assert (Fa5 : has (c_flag (l_cmd l5)) LOCK_FLAG_FROM_AOF = false).
  { rewrite F5cmd, Hc, FAc. exact Hcl. }
  destruct (push_lock_aof_tracked _ _ _ _ _ _ _ E6 E5 L5 Fa5) as (l6 & a & [E6a H6 L6] & T6 & I6 & Lg6 & Tt6 & W6a & W6b & -> & Al & Aid & Ak & Ar).
  do 2 eexists. split; [reflexivity|].
  split.
  { repeat (first [apply Forall_cons; [exact I|] | apply Forall_app; split | apply Forall_nil | apply quiet_noreply; exact Q3]). }
  split.
  { exists a. split; [apply in_or_app; right; apply in_or_app; right; left; reflexivity|].
    rewrite F5cmd, Hc, FAc in Aid, Ak, Ar. rewrite Hack in Ar. auto. }
  split.
  { do 2 eexists. left. reflexivity. }
  destruct H6 as (Gk & Gc & Gn & Gl & Ga & Gr & Ge & Gt).
  exists l6. split; [exact E6a|].
  split; [rewrite Gc, F5cmd, Hc; exact FAc|].
  split; [rewrite Gn, F5n, Hn; exact FAn|].
  split; [rewrite Gk, F5k, Hk; exact FAk|].
  split; [rewrite Ga, F5a, Ha; exact FAa|].
  split; [rewrite Gl, F5l, Hl; exact FAl|].
  split; [rewrite Gr, F5r, Hr, FAr; reflexivity|].
  split; [rewrite T6, F5to; exact T4|].
  split; [rewrite Ge, F5e, He; exact FAe|].
  split; [exact I6|].
  rewrite Lg6, Tt6, F5lg, F5tt. cbn [tlong twheel bump updc set].
    change (tlong (bump _ s6)) with (tlong s6). change (twheel (bump _ s6)) with (twheel s6).
    rewrite W6a, W6b. unfold s5. rewrite twheel_updl, tlong_updl. exact W4.
Qed.

(* ------------------------------------------------------------------ wakeUpWaitLock: a queued ack-lock is granted *)
Definition tw_same (s s' : db) : Prop := twheel s' = twheel s /\ tlong s' = tlong s.
Lemma tw_refl s : tw_same s s. Proof. split; reflexivity. Qed.
Lemma tw_trans a b c : tw_same a b -> tw_same b c -> tw_same a c.
Proof. intros [A B] [C D]. split; congruence. Qed.
Lemma tw_updm s k f : tw_same s (updm s k f). Proof. split; [apply twheel_updm|apply tlong_updm]. Qed.
Lemma tw_updl s r f : tw_same s (updl s r f). Proof. split; [apply twheel_updl|apply tlong_updl]. Qed.
Lemma tw_unref s r : tw_same s (unref s r).
Proof.
  unfold unref. destruct (aget (store s) r); [|apply tw_refl].
  destruct (_ =? 0); [|split; reflexivity].
  unfold free_lock. destruct (aget _ r); [|split; reflexivity].
  eapply tw_trans; [|apply tw_updm]. split; reflexivity.
Qed.
Lemma tw_hq_compact items : forall s s' kept, hq_compact s items = (s', kept) -> tw_same s s'.
Proof.
  induction items as [|x rest IH]; simpl; intros s s' kept H.
  - inv H. apply tw_refl.
  - destruct (0 <? l_locked (getl s x)).
    + destruct (hq_compact s rest) as [s1 k1] eqn:E. inv H. eauto.
    + eapply tw_trans; [apply tw_unref|eauto].
Qed.
Lemma tw_hq_push s q r s' q' : hq_push s q r = (s', q') -> tw_same s s'.
Proof.
  unfold hq_push. intros H. repeat (split_hyp H); inv H; try apply tw_refl; eapply tw_hq_compact; eauto.
Qed.
Lemma tw_add_lock s k r : tw_same s (add_lock s k r).
Proof.
  rewrite add_lock_eq. cbv zeta. destruct (m_cur (getm s k)).
  - match goal with |- context [hq_push ?a ?b ?c] => destruct (hq_push a b c) as [s' q'] eqn:E end.
    eapply tw_trans; [|apply tw_updm]. eapply tw_trans; [|eapply tw_hq_push; eauto]. split; reflexivity.
  - eapply tw_trans; [|apply tw_updm]. split; reflexivity.
Qed.

Theorem wake_ack_grant_silent : forall s k r via l,
  aget (store s) r = Some l -> leader s = true ->
  has (c_tflag (l_cmd l)) TF_REQUIRE_ACKED = true -> l_isaof l = false -> l_aoftime l <> 255 ->
  has (c_flag (l_cmd l)) LOCK_FLAG_FROM_AOF = false ->
  exists s' ev,
    wake_grant s k r via = (s', ev)
    /\ Forall noreply ev
    /\ (exists a, In (EAof a) ev /\ a_lock a = true /\ a_ref a = Some r /\ a_lockid a = c_lockid (l_cmd l))
    /\ (exists lb cc, In (EGrant k r true lb cc (c_count (l_cmd l))) ev)
    /\ (exists l', aget (store s') r = Some l'
         /\ l_cmd l' = l_cmd l /\ l_conn l' = l_conn l
         /\ l_ack l' = 0 /\ l_locked l' = 1 /\ l_refc l' = add8 (add8 (l_refc l) 1) 1
         /\ l_timeouted l' = l_timeouted l /\ l_expried l' = l_expried l /\ l_isaof l' = true)
    /\ twheel s' = twheel s /\ tlong s' = tlong s.
Proof.
  intros s k r via l E Hld Hack Hia Hat Hcl.
  unfold wake_grant. cbv zeta. rewrite (getl_of _ _ _ E), Hack, Hia, Hcl.
  apply N.eqb_neq in Hat. rewrite Hat. cbn [negb andb].
  set (s2 := updm (add_lock s k r) k (fun m => m <| m_locked := add32 (m_locked m) 1 |>)).
  assert (E2 : aget (store s2) r = Some (add_lock_rec s k r)). { unfold s2. rewrite store_updm. apply add_lock_at. }
  assert (L2 : leader s2 = true). { unfold s2. rewrite leader_updm, add_lock_leader. congruence. }
  assert (W2 : tw_same s s2). { unfold s2. eapply tw_trans; [apply tw_add_lock|apply tw_updm]. }
  set (lA := add_lock_rec s k r) in *.
  assert (FA : l_cmd lA = l_cmd l /\ l_conn lA = l_conn l /\ l_ack lA = 0 /\ l_locked lA = 1 /\ l_refc lA = add8 (l_refc l) 1
               /\ l_isaof lA = false /\ l_expried lA = l_expried l /\ l_timeouted lA = l_timeouted l).
  { unfold lA, add_lock_rec. cbv zeta. rewrite (getl_of _ _ _ E), Hcl, Hack.
    destruct (has (c_tflag (l_cmd l)) TF_UNRENEW); cbn; repeat split; auto. }
  destruct FA as (FAc & FAn & FAa & FAl & FAr & FAi & FAe & FAt).
  pose proof (store_at_updl s2 r (fun l => l <| l_refc := add8 (l_refc l) 1 |>) lA E2) as E3.
  match type of E3 with aget (store ?x) _ = Some ?y => set (s3 := x) in *; set (l3 := y) in * end.
  assert (F3 : l_cmd l3 = l_cmd lA /\ l_conn l3 = l_conn lA /\ l_locked l3 = l_locked lA /\ l_ack l3 = l_ack lA
               /\ l_expried l3 = l_expried lA /\ l_refc l3 = add8 (l_refc lA) 1 /\ l_timeouted l3 = l_timeouted lA
               /\ l_isaof l3 = l_isaof lA).
  { unfold l3. cbn. repeat split. }
  destruct F3 as (F3c & F3n & F3l & F3a & F3e & F3r & F3t & F3i).
  assert (L3 : leader s3 = true). { unfold s3. rewrite leader_updl. exact L2. }
  assert (W3 : tw_same s s3). { eapply tw_trans; [exact W2|apply tw_updl]. }
  match goal with |- context [if has_data_flag (l_cmd l) then ?X else ?Y] =>
    destruct (if has_data_flag (l_cmd l) then X else Y) as [s4 pev] eqn:E4 end.
  assert (T4 : exists l4, tracked s3 s4 r l3 l4 /\ l_timeouted l4 = l_timeouted l3 /\ l_isaof l4 = false /\ Forall quiet pev
                          /\ tw_same s3 s4).
  { destruct (has_data_flag (l_cmd l)).
    - destruct (process_data_tracked _ _ _ _ _ _ _ _ E4 E3) as (l4 & T & A & B & C & D).
      exists l4. split; [exact T|]. split; [exact A|]. split; [congruence|]. split; [eapply process_data_quiet; eauto|split; auto].
    - inv E4. exists l3. split; [constructor; [exact E3|apply same_hold_refl|reflexivity]|].
      split; [reflexivity|]. split; [congruence|]. split; [constructor|apply tw_refl]. }
  destruct T4 as (l4 & [E4a H4 L4] & T4 & I4 & Q4 & W4).
  destruct H4 as (Hk & Hc & Hn & Hl & Ha & Hr & He & Ht).
  destruct (push_lock_aof s4 k r 0) as [s5 aev] eqn:E5.
  assert (L4' : leader s4 = true) by congruence.
  assert (Fa4 : has (c_flag (l_cmd l4)) LOCK_FLAG_FROM_AOF = false). { rewrite Hc, F3c, FAc. exact Hcl. }
  destruct (push_lock_aof_tracked _ _ _ _ _ _ _ E5 E4a L4' Fa4) as (l5 & a & [E5a H5 L5] & T5 & I5 & _ & _ & W5a & W5b & -> & Al & Aid & Ak & Ar).
  destruct H5 as (Gk & Gc & Gn & Gl & Ga & Gr & Ge & Gt).
  do 2 eexists. split; [reflexivity|].
  split.
  { repeat (first [apply Forall_cons; [exact I|] | apply Forall_app; split | apply Forall_nil | apply quiet_noreply; exact Q4]). }
  split.
  { exists a. split; [apply in_or_app; right; apply in_or_app; right; left; reflexivity|].
    rewrite Hc, F3c, FAc in Aid, Ar. rewrite Hack in Ar. auto. }
  split.
  { do 2 eexists. left. reflexivity. }
  split.
  { exists l5. split; [exact E5a|].
    split; [rewrite Gc, Hc, F3c; exact FAc|].
    split; [rewrite Gn, Hn, F3n; exact FAn|].
    split; [rewrite Ga, Ha, F3a; exact FAa|].
    split; [rewrite Gl, Hl, F3l; exact FAl|].
    split; [rewrite Gr, Hr, F3r, FAr; reflexivity|].
    split; [rewrite T5, T4, F3t; exact FAt|].
    split; [rewrite Ge, He, F3e; exact FAe|].
    exact I5. }
  change (twheel (bump _ s5)) with (twheel s5). change (tlong (bump _ s5)) with (tlong s5).
  destruct W3 as [A1 A2]. destruct W4 as [B1 B2]. split; congruence.
Qed.
