From Coq Require Import String List NArith ZArith.
From Slock Require Import Engine.Types Engine.Queues Engine.Timers Engine.Engine Engine.Engine2 Engine.Ack.
Import ListNotations.
Open Scope N_scope.
(* normal *)
Eval vm_compute in snd (arun (init_astate 1000000 1 1) [AAct (AReq 1 (make_cmd true 1 0 101 7 4096 5 0 10 0 0 None)); AAckEvt 0 true]).
Eval vm_compute in snd (arun (init_astate 1000000 1 2) [AAct (AReq 1 (make_cmd true 1 0 101 7 4096 5 0 10 0 0 None)); AAckEvt 0 true; AAckEvt 0 true]).
(* i: reentrant *)
Eval vm_compute in  (arun (init_astate 1000000 0 1) [AAct (AReq 1 (make_cmd true 1 0 101 7 0 5 0 10 0 0 None)); AAct (AReq 1 (make_cmd true 2 0 101 7 4096 5 0 10 0 1 None)); AAckEvt 0 true; AAct (AAdvance 20); AAct ASweepE; AAct ASweepT]).
(* ii: never persist *)
Eval vm_compute in  (arun (init_astate 1000000 1 1) [AAct (AReq 1 (make_cmd true 1 0 101 7 4096 5 512 10 0 0 None)); AAct (AReq 1 (make_cmd false 2 0 101 7 0 0 0 0 0 0 None))]).
