(* C11 (A1): a fresh require-ack grant is silent.  Lock (new holder) and wakeUpWaitLock (queued request): no reply,
   a LOCK log record carrying the lock, the hold is there but pending (l_ack = 0), armed for the ack timeout, two more
   references (timeout structure + acknowledgement table).  Every state. *)
From Coq Require Import String ZifyN ZifyBool ZifyNat.
From Slock Require Import Engine.Types Engine.Queues Engine.Timers Engine.Engine Engine.Engine2.
From Slock Require Import scratch.ack.AckProofsBase scratch.ack.AckProofsAck scratch.ack.AckProofsWait.
Open Scope N_scope.

(* ------------------------------------------------------------------ tracking one record through the helpers *)
Lemma twheel_updl s r f : twheel (updl s r f) = twheel s. Proof. unfold updl. destruct aget; reflexivity. Qed.
Lemma tlong_updl s r f : tlong (updl s r f) = tlong s. Proof. unfold updl. destruct aget; reflexivity. Qed.
Lemma twheel_updm s k f : twheel (updm s k f) = twheel s. Proof. unfold updm. destruct aget; reflexivity. Qed.
Lemma tlong_updm s k f : tlong (updm s k f) = tlong s. Proof. unfold updm. destruct aget; reflexivity. Qed.

Lemma store_at_updl s r f l : aget (store s) r = Some l -> aget (store (updl s r f)) r = Some (f l).
Proof. intros H. rewrite aget_store_updl, N.eqb_refl, H. reflexivity. Qed.
Lemma store_at_updm s k f r : aget (store (updm s k f)) r = aget (store s) r.
Proof. rewrite store_updm. reflexivity. Qed.

Lemma unref_other s x r : x <> r -> aget (store (unref s x)) r = aget (store s) r.
Proof.
  intros Hn. unfold unref. destruct (aget (store s) x) eqn:E; auto.
  assert (X : aget (store (setl s x (l <| l_refc := dec8 (l_refc l) |>))) r = aget (store s) r).
  { change (store (setl s x (l <| l_refc := dec8 (l_refc l) |>))) with (aset (store s) x (l <| l_refc := dec8 (l_refc l) |>)).
    rewrite aget_aset. destruct (x =? r) eqn:E2; [apply N.eqb_eq in E2; congruence|reflexivity]. }
  destruct (_ =? 0); auto.
  unfold free_lock. destruct (aget (store (setl s x _)) x); auto.
  rewrite store_updm. cbn [store set]. rewrite aget_adel.
  destruct (x =? r) eqn:E2; [apply N.eqb_eq in E2; congruence|]. exact X.
Qed.

Lemma hq_compact_live items : forall s s' kept r, hq_compact s items = (s', kept) ->
  (0 <? l_locked (getl s r)) = true -> aget (store s') r = aget (store s) r.
Proof.
  induction items as [|x rest IH]; simpl; intros s s' kept r H L.
  - inv H. reflexivity.
  - destruct (0 <? l_locked (getl s x)) eqn:Lx.
    + destruct (hq_compact s rest) as [s1 k1] eqn:E. inv H. eapply IH; eauto.
    + assert (Hn : x <> r) by (intros ->; congruence).
      rewrite (IH _ _ _ r H).
      * apply unref_other; auto.
      * unfold getl. rewrite unref_other; auto.
Qed.

Lemma hq_push_live s q x s' q' r : hq_push s q x = (s', q') ->
  (0 <? l_locked (getl s r)) = true -> aget (store s') r = aget (store s) r.
Proof.
  unfold hq_push. intros H L. repeat (split_hyp H); inv H; try reflexivity; eapply hq_compact_live; eauto.
Qed.

(* the record AddLock writes *)
Definition add_lock_rec (s : db) (k : N) (r : ref) : lockrec :=
  let l := getl s r in
  let c := l_cmd l in
  let l := if has (c_tflag c) TF_UNRENEW then l
           else let eT := expiry_deadline c (now s) in
                l <| l_start := now s |> <| l_eT := eT |> <| l_ecc := initial_ecc c eT (now s) |> in
  let m := getm s k in
  let aoft := match m_cur m with None => aoftime_of s c | Some cr => l_aoftime (getl s cr) end in
  let l := l <| l_aoftime := aoft |> <| l_locked := 1 |> <| l_refc := add8 (l_refc l) 1 |> in
  if has (c_flag c) LOCK_FLAG_FROM_AOF then l <| l_isaof := true |>
  else if has (c_tflag c) TF_REQUIRE_ACKED then l <| l_ack := 0 |> else l.

Lemma add_lock_rec_locked s k r : l_locked (add_lock_rec s k r) = 1.
Proof. unfold add_lock_rec. cbv zeta. brk; reflexivity. Qed.

Lemma add_lock_eq s k r :
  add_lock s k r =
  let s1 := setl s r (add_lock_rec s k r) in
  match m_cur (getm s k) with
  | None => updm s1 k (fun m => m <| m_cur := Some r |>)
  | Some _ =>
      let q := match m_locks (getm s k) with Some q => q | None => hq_empty end in
      let '(s', q') := hq_push s1 q r in
      updm s' k (fun m => m <| m_locks := Some q' |>)
  end.
Proof. reflexivity. Qed.

Lemma add_lock_at s k r : aget (store (add_lock s k r)) r = Some (add_lock_rec s k r).
Proof.
  rewrite add_lock_eq. cbv zeta.
  destruct (m_cur (getm s k)).
  - match goal with |- context [hq_push ?a ?b ?c] => destruct (hq_push a b c) as [s' q'] eqn:E end.
    rewrite store_updm. erewrite hq_push_live; [|exact E|].
    + change (store (setl s r (add_lock_rec s k r))) with (aset (store s) r (add_lock_rec s k r)). apply aget_aset_same.
    + rewrite getl_setl, N.eqb_refl, add_lock_rec_locked. reflexivity.
  - rewrite store_updm. change (store (setl s r (add_lock_rec s k r))) with (aset (store s) r (add_lock_rec s k r)).
    apply aget_aset_same.
Qed.

Lemma add_lock_leader s k r : leader (add_lock s k r) = leader s.
Proof.
  rewrite add_lock_eq. cbv zeta. destruct (m_cur (getm s k)).
  - match goal with |- context [hq_push ?a ?b ?c] => destruct (hq_push a b c) as [s' q'] eqn:E end.
    rewrite leader_updm. apply (fr_leader (setl s r (add_lock_rec s k r))). eapply hq_push_fr; [exact E|apply fr_refl].
  - rewrite leader_updm. reflexivity.
Qed.

Lemma add_lock_mlocked s k r : mlocked_le s (add_lock s k r).
Proof.
  rewrite add_lock_eq. cbv zeta.
  assert (F0 : fr (setl s r (add_lock_rec s k r)) (setl s r (add_lock_rec s k r))) by apply fr_refl.
  assert (M0 : mlocked_le s (setl s r (add_lock_rec s k r))) by (intros k' m' H; eauto).
  assert (T : forall s1 s2, mlocked_le s s1 -> fr s1 s2 -> mlocked_le s s2).
  { intros s1 s2 A (_ & B & _) k' m2 H2. destruct (B _ _ H2) as (m1 & H1 & V1). destruct (A _ _ H1) as (m0 & H0 & V0).
    exists m0. split; auto. congruence. }
  destruct (m_cur (getm s k)).
  - match goal with |- context [hq_push ?a ?b ?c] => destruct (hq_push a b c) as [s' q'] eqn:E end.
    eapply T; [exact M0|]. apply fr_r_updm; [fr_side|]. eapply hq_push_fr; eauto.
  - eapply T; [exact M0|]. apply fr_updm. fr_side.
Qed.

(* fields no later step of the grant touches *)
Definition same_hold (l l' : lockrec) : Prop :=
  l_key l' = l_key l /\ l_cmd l' = l_cmd l /\ l_conn l' = l_conn l /\ l_locked l' = l_locked l /\ l_ack l' = l_ack l
  /\ l_refc l' = l_refc l /\ l_expried l' = l_expried l /\ l_aoftime l' = l_aoftime l.
Lemma same_hold_refl l : same_hold l l. Proof. repeat split. Qed.
Lemma same_hold_trans a b c : same_hold a b -> same_hold b c -> same_hold a c.
Proof. unfold same_hold. intros (A1&A2&A3&A4&A5&A6&A7&A8) (B1&B2&B3&B4&B5&B6&B7&B8). repeat split; congruence. Qed.

Record tracked (s s' : db) (r : ref) (l l' : lockrec) : Prop := {
  tk_at : aget (store s') r = Some l';
  tk_hold : same_hold l l';
  tk_leader : leader s' = leader s
}.

Lemma process_data_tracked s k r c b s' ev l : process_data s k r c b = (s', ev) -> aget (store s) r = Some l ->
  exists l', tracked s s' r l l' /\ l_timeouted l' = l_timeouted l /\ l_isaof l' = l_isaof l
             /\ twheel s' = twheel s /\ tlong s' = tlong s.
Proof.
  unfold process_data. intros H E. repeat (split_hyp H); inv H; try solve [exists l; split; [constructor; [exact E|apply same_hold_refl|reflexivity]|auto]].
  eexists. split; [constructor|].
  - apply store_at_updl. rewrite store_updm. exact E.
  - repeat split.
  - rewrite leader_updl, leader_updm. reflexivity.
  - rewrite twheel_updl, tlong_updl, twheel_updm, tlong_updm. auto.
Qed.

Lemma add_timeout_tracked s r l : aget (store s) r = Some l ->
  let s' := add_timeout s r in
  exists l', tracked s s' r l l' /\ l_timeouted l' = false /\ l_isaof l' = l_isaof l /\ mgrs s' = mgrs s
    /\ (if l_long l' then In r (wheel_get (tlong s') (lkey (l_tT l'))) else exists slot, In r (wheel_get (twheel s') slot)).
Proof.
  intros E. unfold add_timeout. cbv zeta.
  set (s1 := updl s r (fun l => l <| l_timeouted := false |>)).
  assert (E1 : aget (store s1) r = Some (l <| l_timeouted := false |>)) by (apply store_at_updl; auto).
  rewrite (getl_of _ _ _ E1).
  destruct (QUEUE_MAX_WAIT <? l_tcc (l <| l_timeouted := false |>)).
  - match goal with |- context [updl s1 r ?f] => set (f1 := f) end.
    exists (f1 (l <| l_timeouted := false |>)). split; [constructor|].
    + cbn [store set]. apply store_at_updl; auto.
    + repeat split.
    + cbn [leader set]. rewrite leader_updl. unfold s1. apply leader_updl.
    + split; [reflexivity|]. split; [reflexivity|]. split; [cbn [mgrs set]; rewrite mgrs_updl; unfold s1; apply mgrs_updl|].
      unfold f1. cbn [l_long set l_tT tlong]. unfold wheel_push, wheel_get. rewrite aget_aset_same. apply in_or_app. right. left. reflexivity.
  - match goal with |- context [updl ?s0 r ?f] => set (f1 := f); set (s2 := s0) end.
    exists (f1 (l <| l_timeouted := false |>)). split; [constructor|].
    + apply store_at_updl. exact E1.
    + repeat split.
    + rewrite leader_updl. unfold s2. cbn [leader set]. apply leader_updl.
    + split; [reflexivity|]. split; [reflexivity|]. split; [rewrite mgrs_updl; unfold s2; cbn [mgrs set]; apply mgrs_updl|].
      unfold f1. cbn [l_long set]. eexists. rewrite twheel_updl. unfold s2. cbn [twheel set]. unfold wheel_push, wheel_get.
      rewrite aget_aset_same. apply in_or_app. right. left. reflexivity.
Qed.

Lemma push_lock_aof_tracked s k r f s' ev l : push_lock_aof s k r f = (s', ev) -> aget (store s) r = Some l ->
  leader s = true -> has (c_flag (l_cmd l)) LOCK_FLAG_FROM_AOF = false ->
  exists l' a, tracked s s' r l l' /\ l_timeouted l' = l_timeouted l /\ l_isaof l' = true /\ l_long l' = l_long l /\ l_tT l' = l_tT l
    /\ twheel s' = twheel s /\ tlong s' = tlong s
    /\ ev = [EAof a] /\ a_lock a = true /\ a_lockid a = c_lockid (l_cmd l) /\ a_key a = c_key (l_cmd l)
    /\ a_ref a = (if has (c_tflag (l_cmd l)) TF_REQUIRE_ACKED then Some r else None).
Proof.
  unfold push_lock_aof. intros H E Ld Fa. rewrite Ld, (getl_of _ _ _ E), Fa in H. cbn [negb] in H.
  destruct (aof_lock_data _ _ _) as [[d cur'] ld'] eqn:Ea. inv H.
  do 2 eexists. split; [constructor|].
  - apply store_at_updl. apply store_at_updl. rewrite store_updm. exact E.
  - repeat split.
  - rewrite !leader_updl, leader_updm. reflexivity.
  - rewrite !twheel_updl, !tlong_updl, twheel_updm, tlong_updm. repeat split.
Qed.

(* ------------------------------------------------------------------ Lock: the fresh ack grant *)
Definition ensure_mgr (s : db) (k : N) : db :=
  match aget (mgrs s) k with
  | Some _ => s
  | None => bump (fun n => n <| n_key := (n_key n + 1)%Z |>) (setm s k new_mgr)
  end.

(* the request does not name a holder and is not refused outright: Some waited = the `waited` flag Lock continues with *)
Definition lock_newcomer (s0 : db) (c : cmd) : option bool :=
  let m := getm s0 (c_key c) in
  if 0 <? m_locked m then
    if has (c_flag c) LOCK_FLAG_SHOW then None
    else match get_locked_lock s0 m (c_lockid c) with Some _ => None | None => Some (m_waited m) end
  else if has (c_tflag c) TF_WAIT_WHEN_UNLOCK then
         if m_waited m && (c_count c =? 0) then None else Some true
       else Some false.

(* the branch condition of the silent grant, as Lock evaluates it *)
Record ack_grant_branch (s : db) (conn : N) (c : cmd) : Prop := {
  gb_pre : lock_precheck s conn c = None;
  gb_leader : leader s = true;
  gb_client : has (c_flag c) LOCK_FLAG_FROM_AOF = false;
  gb_ack : has (c_tflag c) TF_REQUIRE_ACKED = true;
  gb_sec : has (c_tflag c) TF_MILLISECOND = false;
  gb_hold : c_expried c <> 0;
  gb_admit : exists waited,
      lock_newcomer (ensure_mgr s (c_key c)) c = Some waited
      /\ let s1 := fst (new_lock (ensure_mgr s (c_key c)) (c_key c) conn c) in
         (negb waited || (has (c_tflag c) TF_PRIORITY && check_wait_priority s1 (c_key c) c))
         && do_lock s1 (c_key c) (next s) = true;
  gb_persist :
      let s0 := ensure_mgr s (c_key c) in
      match m_cur (getm s0 (c_key c)) with
      | None => aoftime_of s0 c
      | Some cr => l_aoftime (getl (fst (new_lock s0 (c_key c) conn c)) cr)
      end <> 255
}.

Lemma new_lock_spec s k conn c :
  let '(s1, r) := new_lock s k conn c in
  r = next s /\ leader s1 = leader s
  /\ exists l0, aget (store s1) r = Some l0 /\ l_cmd l0 = c /\ l_conn l0 = conn /\ l_key l0 = k /\ l_refc l0 = 0
                /\ l_isaof l0 = false /\ l_expried l0 = true /\ l_data l0 = None.
Proof.
  unfold new_lock. cbv zeta. split; [reflexivity|]. split; [rewrite leader_updm; reflexivity|].
  eexists. split; [rewrite store_updm; cbn [store set]; apply aget_aset_same|]. repeat split.
Qed.


Goal forall (s1 : db) (k:N) (r:ref), True.
intros s k r.
assert (bump (fun n : counters => n <| n_lock := (n_lock n + 1)%Z |>) s = s).
Abort.
