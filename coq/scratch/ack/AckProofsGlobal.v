(* C11, the acknowledgement layer (A6): how ProcessLeaderAofed / ProcessLeaderAcked count, and the run theorem:
   when an acknowledgement event completes a pending lock (DoAckLock(true) runs), exactly a_cfg positive events and no
   negative one have been seen for that registration -- for every run in which every registration is made for a
   record that was just granted (l_ack = 0) and is not already registered. *)
From Coq Require Import String ZifyN ZifyBool ZifyNat.
From Slock Require Import Engine.Types Engine.Queues Engine.Timers Engine.Engine Engine.Engine2 Engine.Ack.
From Slock Require Import scratch.ack.AckProofsBase scratch.ack.AckProofsAck scratch.ack.AckProofsRel.
Open Scope N_scope.

(* ------------------------------------------------------------------ local: the four cases of one event *)
Definition set_ack (st : astate) (r : ref) (c : N) : astate :=
  mkA (updl (a_db st) r (fun l => l <| l_ack := c |>)) (a_cfg st) (a_reg st) (a_next st).
Definition drop_reg (st : astate) (i : N) : astate := mkA (a_db st) (a_cfg st) (reg_del (a_reg st) i) (a_next st).

Theorem ack_event_unknown : forall st i ok, reg_find (a_reg st) i = None -> ack_event st i ok = (st, []).
Proof. intros st i ok H. unfold ack_event. rewrite H. reflexivity. Qed.

Theorem ack_event_counts : forall st i q r,
  reg_find (a_reg st) i = Some (q, r) ->
  let a := l_ack (getl (a_db st) r) in
  a <> 255 -> 0 < dec8 a ->
  ack_event st i true = (set_ack st r (dec8 a), []).
Proof.
  intros st i q r H a A C. unfold ack_event. rewrite H. cbv zeta. fold a.
  apply N.eqb_neq in A. rewrite A. cbn [negb orb]. apply N.ltb_lt in C. rewrite C. reflexivity.
Qed.

Theorem ack_event_completes : forall st i q r,
  reg_find (a_reg st) i = Some (q, r) ->
  let a := l_ack (getl (a_db st) r) in
  a <> 255 -> dec8 a = 0 ->
  ack_event st i true =
    with_post (drop_reg (set_ack st r 0) i) (finish (do_ack (a_db (set_ack st r 0)) r true)).
Proof.
  intros st i q r H a A C. unfold ack_event. rewrite H. cbv zeta. fold a.
  apply N.eqb_neq in A. rewrite A. cbn [negb orb]. rewrite C. reflexivity.
Qed.

Theorem ack_event_fails : forall st i ok q r,
  reg_find (a_reg st) i = Some (q, r) ->
  (ok = false \/ l_ack (getl (a_db st) r) = 255) ->
  ack_event st i ok = with_post (drop_reg st i) (finish (do_ack (a_db st) r false)).
Proof.
  intros st i ok q r H C. unfold ack_event. rewrite H. cbv zeta.
  assert (X : negb ok || (l_ack (getl (a_db st) r) =? 255) = true).
  { destruct C as [->|C]; [reflexivity|]. rewrite C. apply orb_true_r. }
  rewrite X. reflexivity.
Qed.

(* ------------------------------------------------------------------ the run hypothesis *)
Definition registered (reg : list (N * (N * ref))) (r : ref) : bool := existsb (fun x => snd (snd x) =? r) reg.
(* a registration is made for a record that AddLock just left pending and that has no registration yet *)
Definition reg_fresh (st : astate) (r : ref) : bool :=
  (l_ack (getl (a_db st) r) =? 0) && negb (registered (a_reg st) r).

Fixpoint post_ok (fuel : nat) (st : astate) (todo : list event) : bool :=
  match fuel with
  | O => true
  | S f =>
      match todo with
      | [] => true
      | EAof a :: rest =>
          match a_lock a, a_ref a with
          | true, Some r => reg_fresh st r && (let '(st1, e1) := register st r in post_ok f st1 (rest ++ e1))
          | _, _ => post_ok f st rest
          end
      | _ :: rest => post_ok f st rest
      end
  end.

Definition with_post_ok (st : astate) (res : db * list event) : bool :=
  let '(s, ev) := res in post_ok (4 * length ev + 64)%nat (mkA s (a_cfg st) (a_reg st) (a_next st)) ev.

Definition ack_event_ok (st : astate) (i : N) (ok : bool) : bool :=
  (i <? a_next st) &&
  match reg_find (a_reg st) i with
  | None => true
  | Some (_, r) =>
      let s := a_db st in
      let l := getl s r in
      if negb ok || (l_ack l =? 255) then
        with_post_ok (mkA s (a_cfg st) (reg_del (a_reg st) i) (a_next st)) (finish (do_ack s r false))
      else
        let c := dec8 (l_ack l) in
        let s := updl s r (fun l => l <| l_ack := c |>) in
        if 0 <? c then true
        else with_post_ok (mkA s (a_cfg st) (reg_del (a_reg st) i) (a_next st)) (finish (do_ack s r true))
  end.

Definition astep_ok (st : astate) (a : aaction) : bool :=
  match a with
  | AAct (AAck _ _) => false                 (* DoAckLock is driven by the acknowledgement layer only *)
  | AAct a => with_post_ok st (step (a_db st) a)
  | AAckEvt i ok => ack_event_ok st i ok
  end.

Fixpoint arun_ok (st : astate) (acts : list aaction) : bool :=
  match acts with
  | [] => true
  | a :: rest => astep_ok st a && arun_ok (fst (astep st a)) rest
  end.

(* ------------------------------------------------------------------ counting events *)
Definition is_evt (i : N) (ok : bool) (a : aaction) : bool :=
  match a with AAckEvt j b => (j =? i) && Bool.eqb b ok | _ => false end.
Definition count_evt (acts : list aaction) (i : N) (ok : bool) : nat := length (filter (is_evt i ok) acts).

Lemma count_evt_app acts a i ok : count_evt (acts ++ [a]) i ok = (count_evt acts i ok + (if is_evt i ok a then 1 else 0))%nat.
Proof. unfold count_evt. rewrite filter_app, app_length. simpl. destruct (is_evt i ok a); reflexivity. Qed.

(* ------------------------------------------------------------------ the invariant *)
Definition entry_ok (cfg : N) (hist : list aaction) (s : db) (e : N * (N * ref)) : Prop :=
  let i := fst e in let r := snd (snd e) in
  let a := l_ack (getl s r) in
  a = 255 \/ a = 0 \/ (1 <= a /\ N.to_nat a + count_evt hist i true = N.to_nat cfg /\ count_evt hist i false = 0)%nat.

Record ainv (cfg : N) (hist : list aaction) (st : astate) : Prop := {
  iv_cfg : a_cfg st = cfg;
  iv_lt : forall e, In e (a_reg st) -> fst e < a_next st;
  iv_nd : NoDup (map fst (a_reg st));
  iv_ndr : NoDup (map (fun e => snd (snd e)) (a_reg st));
  iv_ent : forall e, In e (a_reg st) -> entry_ok cfg hist (a_db st) e;
  iv_new : forall i ok, a_next st <= i -> count_evt hist i ok = 0%nat
}.

Lemma entry_ok_arel cfg hist s s' e : arel s s' -> entry_ok cfg hist s e -> entry_ok cfg hist s' e.
Proof.
  unfold entry_ok. cbv zeta. intros A H. destruct (A (snd (snd e))) as [E|[E|E]]; rewrite E; auto.
Qed.

Lemma ainv_db cfg hist st s' :
  ainv cfg hist st -> arel (a_db st) s' -> ainv cfg hist (mkA s' (a_cfg st) (a_reg st) (a_next st)).
Proof.
  intros [I1 I2 I3 I4 I5 I6] A. constructor; cbn [a_db a_cfg a_reg a_next]; auto.
  intros e He. eapply entry_ok_arel; eauto.
Qed.

Lemma registered_false reg r : registered reg r = false -> ~ In r (map (fun e => snd (snd e)) reg).
Proof.
  unfold registered. intros H Hin. apply in_map_iff in Hin. destruct Hin as (e & <- & He).
  assert (existsb (fun x => snd (snd x) =? snd (snd e)) reg = true).
  { apply existsb_exists. exists e. split; auto. apply N.eqb_refl. }
  congruence.
Qed.

Lemma finish_do_ack_arel s r ok s' ev : finish (do_ack s r ok) = (s', ev) -> arel s s'.
Proof. intros H. eapply (finish_f_ar (fun s r => do_ack s r ok)); [|exact H|apply arel_refl]. intros. eapply do_ack_ar; eauto. Qed.

(* one registration *)
Lemma register_inv cfg hist st r st' ev :
  ainv cfg hist st -> reg_fresh st r = true -> register st r = (st', ev) -> ainv cfg hist st'.
Proof.
  intros I F H. unfold register in H. cbv zeta in H. cbn [a_db a_cfg a_reg a_next] in H.
  apply andb_prop in F. destruct F as [F0 Fr]. apply N.eqb_eq in F0. apply negb_true_iff in Fr.
  pose proof I as [I1 I2 I3 I4 I5 I6].
  match type of H with (if ?c then _ else _) = _ => destruct c end.
  - destruct (finish (do_ack (a_db st) r false)) as [s1 e1] eqn:E. inv H.
    apply finish_do_ack_arel in E.
    constructor; cbn [a_db a_cfg a_reg a_next]; auto.
    + intros e He. specialize (I2 e He). lia.
    + intros e He. eapply entry_ok_arel; eauto.
    + intros i ok Hi. apply I6. lia.
  - inv H. constructor; cbn [a_db a_cfg a_reg a_next]; auto.
    + intros e He. apply in_app_or in He. destruct He as [He|[<-|[]]]; [specialize (I2 e He); lia|cbn; lia].
    + rewrite map_app. cbn. apply NoDup_app_one; auto. intros Hin. apply in_map_iff in Hin. destruct Hin as (e & E1 & E2).
      specialize (I2 e E2). lia.
    + rewrite map_app. cbn. apply NoDup_app_one; auto. apply registered_false; auto.
    + intros e He. apply in_app_or in He. destruct He as [He|[<-|[]]].
      * assert (Hn : snd (snd e) <> r).
        { intros Heq. apply (registered_false _ _ Fr). apply in_map_iff. exists e. auto. }
        specialize (I5 e He). unfold entry_ok in *. cbv zeta in *. rewrite getl_updl.
        destruct (r =? snd (snd e)) eqn:Eq; [apply N.eqb_eq in Eq; congruence|]. exact I5.
      * unfold entry_ok. cbv zeta. cbn [fst snd]. rewrite getl_updl, N.eqb_refl.
        destruct (aget (store (a_db st)) r) eqn:Es; [|left; reflexivity]. cbn.
        destruct (N.eq_dec (a_cfg st) 0) as [Z|Z]; [right; left; exact Z|]. right. right.
        rewrite (I6 (a_next st) true), (I6 (a_next st) false) by lia. rewrite I1. repeat split; lia.
    + intros i ok Hi. apply I6. lia.
Qed.
