From Coq Require Import List NArith ZArith Bool Lia String.
From Slock Require Import Engine.Types Engine.Queues Engine.Timers Engine.Engine Engine.Engine2.
From Slock Require Import Engine.TimeRun.
Import ListNotations.
Open Scope N_scope.

Fixpoint ticks (n : nat) : list action :=
  match n with O => [] | S n' => AAdvance 1 :: ASweepT :: ASweepE :: ticks n' end.
Fixpoint eticks (n : nat) : list action :=
  match n with O => [] | S n' => AAdvance 1 :: ASweepE :: eticks n' end.

(* summary of a state: now, checkE, per live hold: (r, eT, start, ecc, long), wheel entries (slot, refs), long entries *)
Definition holds (s : db) := map (fun p => (fst p, l_eT (snd p), l_start (snd p), l_ecc (snd p), l_long (snd p), l_expried (snd p), l_locked (snd p))) (store s).
Definition summ (s : db) := (now s, checkE s, holds s, ewheel s, elong s).
Definition er (e : event) : bool := match e with EReply _ _ 9 _ _ _ _ _ _ => true | _ => false end.
(* times of EXPRIED replies *)
Fixpoint etimes (s : db) (acts : list action) : list (Z * list event) :=
  match acts with [] => [] | a :: rest => let '(s1, ev) := step s a in
    (if existsb er ev then [(now s, filter er ev)] else []) ++ etimes s1 rest end.

Definition L (req lockid key eflag e : N) := AReq 1 (make_cmd true req 0 lockid key 0 5 eflag e 0 0 None).
Definition U (req lockid key eflag e : N) := AReq 1 (make_cmd true req 2 lockid key 0 5 eflag e 0 0 None).
Definition t0 := 1000000%Z.
(* 5 s hold *)
Definition h1 := L 1 101 7 0 5 :: eticks 8.
Eval vm_compute in etimes (init_db t0 1) h1.
(* 100 s hold shortened to 3 s at various times *)
Definition h2 (k : nat) := L 1 101 7 0 100 :: eticks k ++ [U 2 101 7 0 3] ++ eticks 14.
Eval vm_compute in map (fun k => (k, map fst (etimes (init_db t0 1) (h2 k)))) [0;1;2;3;4;5;6;7;8;9;10;11;12;13;14;15;16;20;30]%nat.
(* shortened to 0 / 1 *)
Definition h2b (k : nat) (e : N) := L 1 101 7 0 100 :: eticks k ++ [U 2 101 7 0 e] ++ eticks 14.
Eval vm_compute in map (fun k => (k, map fst (etimes (init_db t0 1) (h2b k 1)))) [0;1;2;3;4;5;6;7;8;9;10;11;12;13;14;15;16;20;30]%nat.
Eval vm_compute in map (fun k => (k, map fst (etimes (init_db t0 1) (h2b k 0)))) [0;1;2;3;4;5;6;7;8;9;10;11;12;13;14;15;16;20;30]%nat.
(* 3 -> 12 *)
Definition h3 (k : nat) := L 1 101 7 0 3 :: eticks k ++ [U 2 101 7 0 12] ++ eticks 16.
Eval vm_compute in map (fun k => (k, map fst (etimes (init_db t0 1) (h3 k)))) [0;1;2;3]%nat.
(* 0x100 E=8: long at once *)
Definition h4 := L 1 101 7 256 8 :: eticks 11.
Eval vm_compute in etimes (init_db t0 1) h4.
Eval vm_compute in summ (fst (run (init_db t0 1) (firstn 3 h4))).
(* long shortened / lengthened *)
Definition h5 (k : nat) (e : N) := L 1 101 7 256 8 :: eticks k ++ [U 2 101 7 256 e] ++ eticks 30.
Eval vm_compute in map (fun k => (k, map fst (etimes (init_db t0 1) (h5 k 3)))) [0;1;2;3;4;5;6]%nat.
Eval vm_compute in map (fun k => (k, map fst (etimes (init_db t0 1) (h5 k 20)))) [0;1;2;3;4;5;6]%nat.
Eval vm_compute in map (fun k => (k, map fst (etimes (init_db t0 1) (h5 k 1)))) [0;1;2;3;4;5;6]%nat.
