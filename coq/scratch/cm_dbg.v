(* C03, part 5 (completeness): the invariant "every issued request has a terminal reply or is a live record", its
   preservation, and the theorem at drained states. *)
From Coq Require Import String ZifyN ZifyBool ZifyNat.
From Slock Require Import Engine.Types Engine.Queues Engine.Timers Engine.Engine Engine.Engine2
  Engine.ReplyBase Engine.ReplyLocal Engine.ReplyInv Engine.ReplyLive.
Open Scope N_scope.

(* ------------------------------------------------------------------ sweeps: no live record is dropped *)
Lemma sweep_t_slot_pl D E W fuel : forall s slot nowv due s' due',
  sweep_t_slot fuel s slot nowv due = (s', due') -> plx D E W s s'.
Proof.
  induction fuel as [|f IH]; cbn; intros s slot nowv due s' due' H; [inv H; apply plx_refl|].
  destruct (wheel_get (twheel s) slot) as [|r rest]; [inv H; apply plx_refl|].
  set (s1 := s <| twheel := aset (twheel s) slot rest |>) in *.
  assert (P1 : plx D E W s s1) by (subst s1; plx_r).
  assert (S1 : store s1 = store s) by reflexivity.
  destruct (aget (store s) r) as [l|] eqn:El; [|inv H; auto].
  assert (El1 : aget (store s1) r = Some l) by (rewrite S1; auto).
  assert (G : getl s1 r = l) by (apply getl_some; auto). rewrite ?G in H.
  destruct (negb (l_timeouted l)) eqn:Ht.
  - destruct (nowv <? l_tT l)%Z.
    + apply IH in H. eapply plx_trans; [|exact H]. eapply plx_trans; [exact P1|]. plx_x.
    + apply IH in H. eapply plx_trans; eauto.
  - apply IH in H. eapply plx_trans; [|exact H]. eapply plx_trans; [exact P1|].
    assert (D1 : dead s1 r) by (unfold dead; rewrite G; apply negb_false_iff in Ht; exact Ht).
    plx_x; apply dead_dropok; exact D1.
Qed.

Lemma sweep_long_pl D E W items : forall s is_t due s' due',
  sweep_long s items is_t due = (s', due') -> (is_t = false -> alldead s items) -> plx D E W s s'.
Proof.
  induction items as [|r rest IH]; cbn; intros s is_t due s' due' H A; [inv H; apply plx_refl|].
  set (s1 := updl s r (fun l => l <| l_long := false |>)) in *.
  assert (P1 : plx D E W s s1) by (subst s1; plx_r).
  assert (K1 : keep s s1) by (subst s1; keep_l).
  assert (A1 : is_t = false -> alldead s1 rest).
  { intros Hi x Hx. eapply dead_keep; [exact K1|]. apply A; auto. right; auto. }
  destruct (negb _) eqn:Hn.
  - apply IH in H; auto. eapply plx_trans; eauto.
  - assert (D1 : dead s1 r).
    { destruct is_t.
      - apply negb_false_iff in Hn. exact Hn.
      - eapply dead_keep; [exact K1|]. apply A; auto. left; auto. }
    apply IH in H.
    + eapply plx_trans; [|exact H]. eapply plx_trans; [exact P1|]. plx_x; apply dead_dropok; exact D1.
    + intros Hi x Hx. eapply dead_keep; [|apply A1; eauto]. keep_x.
Qed.

Lemma collect_timeouts_pl D E W s t nowv s' due : collect_timeouts s t nowv = (s', due) -> plx D E W s s'.
Proof.
  unfold collect_timeouts. intros H.
  destruct (sweep_t_slot _ s (slot_of t) nowv []) as [s1 d1] eqn:E1. apply (sweep_t_slot_pl D E W) in E1.
  destruct (aget (tlong s1) (lkey t)) as [items|]; [|inv H; auto].
  apply (sweep_long_pl D E W) in H; [|discriminate]. eapply plx_trans; [exact E1|]. eapply plx_trans; [|exact H]. plx_r.
Qed.

Definition good (s : db) (x : ref) : Prop := dead s x /\ x < next s.
Definition eok (s : db) : Prop := forall x, eref s x -> good s x.
Definition lok (s : db) (l : list ref) : Prop := forall x, In x l -> good s x.
Definition TT : ref -> Prop := fun _ => True.

Lemma good_keep s s' x : keep s s' -> good s x -> good s' x.
Proof. intros K [Hd Hn]. split; [eapply dead_keep; eauto|]. assert (X := keep_n _ _ K). lia. Qed.
Lemma lok_keep s s' l : keep s s' -> lok s l -> lok s' l.
Proof. intros K L x Hx. eapply good_keep; eauto. Qed.
Lemma eok_keep_sub s s' : keep s s' -> (forall x, eref s' x -> eref s x) -> eok s -> eok s'.
Proof. intros K Hs Ek x Hx. eapply good_keep; eauto. Qed.

Lemma lok_app s a b : lok s a -> lok s b -> lok s (a ++ b).
Proof. intros A B x Hx. apply in_app_iff in Hx. destruct Hx; auto. Qed.

Lemma eref_pop_ewheel s slot r rest x :
  wheel_get (ewheel s) slot = r :: rest -> eref (s <| ewheel := aset (ewheel s) slot rest |>) x -> eref s x.
Proof.
  intros Hw [Hx|Hx]; [|right; exact Hx]. left. cbn [ewheel] in Hx. apply wrefs_aset in Hx. destruct Hx as [Hx|Hx]; auto.
  eapply wheel_get_in. rewrite Hw. right. exact Hx.
Qed.

Lemma sweep_e_slot_pl D W fuel : forall s slot nowv due ev s' due' ev',
  sweep_e_slot fuel s slot nowv due ev = (s', due', ev') -> eok s -> lok s due ->
  plx D TT W s s' /\ eok s' /\ lok s' due'.
Proof.
  induction fuel as [|f IH]; cbn; intros s slot nowv due ev s' due' ev' H Ek Lk; [inv H; split; [apply plx_refl|auto]|].
  destruct (wheel_get (ewheel s) slot) as [|r rest] eqn:Hw; [inv H; split; [apply plx_refl|auto]|].
  set (s1 := s <| ewheel := aset (ewheel s) slot rest |>) in *.
  assert (K1 : keep s s1) by (subst s1; keep_x).
  assert (Es1 : forall x, eref s1 x -> eref s x) by (intros x; subst s1; apply eref_pop_ewheel with (r := r); auto).
  assert (P1 : plx D TT W s s1).
  { subst s1. apply plx_r_ewheel; [|apply plx_refl]. intros y Hy. left. exact I. }
  assert (Ek1 : eok s1) by (eapply eok_keep_sub; eauto).
  assert (Lk1 : lok s1 due) by (eapply lok_keep; eauto).
  assert (Gr : good s1 r).
  { eapply good_keep; [exact K1|]. apply Ek. left. eapply wheel_get_in. rewrite Hw. left. reflexivity. }
  assert (S1 : store s1 = store s) by reflexivity.
  destruct (aget (store s) r) as [l|] eqn:El.
  2:{ inv H. split; auto. split; auto. apply lok_app; auto. intros x [<-|[]]. exact Gr. }
  assert (El1 : aget (store s1) r = Some l) by (rewrite S1; auto).
  assert (G : getl s1 r = l) by (apply getl_some; auto). rewrite ?G in H.
  destruct (negb (l_expried l)) eqn:Ht.
  - destruct (nowv <? l_eT l)%Z.
    + set (s2 := updl s1 r (fun l => l <| l_ecc := (l_ecc l + 1) mod 256 |>)) in *.
      assert (K2 : keep s1 s2) by (subst s2; keep_l).
      assert (Es2 : forall x, eref s2 x -> eref s1 x) by (intros x Hx; unfold eref, s2, updl in *; destruct (aget (store s1) r); exact Hx).
      destruct (add_expried s2 (l_key l) r) as [s3 aev] eqn:Ea.
      assert (P3 := plx_add_expried D TT W _ _ _ _ _ Ea I).
      assert (P3' := plx_add_expried D (eq r) W _ _ _ _ _ Ea eq_refl).
      apply add_expried_keep in Ea.
      2:{ unfold s2. rewrite getl_updl_same_l, El1. cbn. apply negb_true_iff in Ht. exact Ht. }
      destruct Ea as [K3 _].
      apply IH in H.
      * destruct H as (P4 & Ek4 & Lk4). split; auto.
        eapply plx_trans; [exact P1|]. eapply plx_trans; [|exact P4]. eapply plx_trans; [|exact P3]. subst s2. plx_r.
      * intros x Hx. destruct (pl_e _ _ _ _ _ P3' _ Hx) as [<-|Hx2].
        -- eapply good_keep; [exact K3|]. eapply good_keep; [exact K2|exact Gr].
        -- eapply good_keep; [exact K3|]. eapply good_keep; [exact K2|]. apply Ek1. auto.
      * eapply lok_keep; [exact K3|]. eapply lok_keep; [exact K2|exact Lk1].
    + apply IH in H; auto.
      * destruct H as (P4 & Ek4 & Lk4). split; auto. eapply plx_trans; eauto.
      * apply lok_app; auto. intros x [<-|[]]. exact Gr.
  - assert (D1 : dead s1 r) by (apply Gr).
    match type of H with sweep_e_slot f ?X _ _ _ _ = _ => assert (K2 : keep s1 X) by keep_x;
      assert (P2F : plx D (fun _ => False) W s1 X) by (plx_x; apply dead_dropok; exact D1) end.
    apply IH in H.
    + destruct H as (P4 & Ek4 & Lk4). split; auto.
      eapply plx_trans; [exact P1|]. eapply plx_trans; [|exact P4].
      eapply plx_weaken; [| | |exact P2F]; auto. intros x [].
    + intros x Hx. destruct (pl_e _ _ _ _ _ P2F _ Hx) as [[]|Hx1]. eapply good_keep; [exact K2|]. apply Ek1; auto.
    + eapply lok_keep; eauto.
Qed.

Lemma sweep_long_lok items : forall s is_t due s' due',
  sweep_long s items is_t due = (s', due') -> lok s items -> lok s due -> lok s' due'.
Proof.
  induction items as [|r rest IH]; cbn; intros s is_t due s' due' H Li Ld; [inv H; auto|].
  set (s1 := updl s r (fun l => l <| l_long := false |>)) in *.
  assert (K1 : keep s s1) by (subst s1; keep_l).
  assert (Li1 : lok s1 rest) by (eapply lok_keep; [exact K1|]; intros x Hx; apply Li; right; auto).
  assert (Gr : good s1 r) by (eapply good_keep; [exact K1|]; apply Li; left; auto).
  destruct (negb _).
  - eapply IH; eauto. apply lok_app; [eapply lok_keep; eauto|]. intros x [<-|[]]. exact Gr.
  - match type of H with sweep_long ?X _ _ _ = _ => assert (K2 : keep s1 X) by keep_x end.
    eapply IH; eauto; eapply lok_keep; eauto. eapply lok_keep; eauto.
Qed.

Lemma collect_expiries_pl D W s t nowv s' due ev :
  collect_expiries s t nowv = (s', due, ev) -> eok s -> plx D TT W s s' /\ eok s' /\ lok s' due.
Proof.
  unfold collect_expiries. intros H Ek.
  destruct (sweep_e_slot _ s (slot_of t) nowv [] []) as [[s1 d1] e1] eqn:E1.
  assert (K1 := proj1 (sweep_e_slot_keep _ _ _ _ _ _ _ _ _ E1)).
  apply (sweep_e_slot_pl D W) in E1; auto; [|intros x []].
  destruct E1 as (P1 & Ek1 & Lk1).
  destruct (aget (elong s1) (lkey t)) as [items|] eqn:Eg; [|inv H; auto].
  destruct (sweep_long _ items false d1) as [s2 d2] eqn:E2. inv H.
  set (s1' := s1 <| elong := adel (elong s1) (lkey t) |>) in *.
  assert (K2 : keep s1 s1') by (subst s1'; keep_x).
  assert (Li : lok s1 items).
  { intros x Hx. apply Ek1. right. apply aget_In in Eg. unfold wrefs. apply in_flat_map. exists (lkey t, items). auto. }
  assert (Es : forall x, eref s1' x -> eref s1 x).
  { intros x [Hx|Hx]; [left; exact Hx|right]. unfold s1' in Hx. cbn [elong] in Hx.
    change (In x (wrefs (adel (elong s1) (lkey t)))) in Hx. eapply wrefs_adel; eauto. }
  assert (K3 := sweep_long_keep _ _ _ _ _ _ E2).
  assert (P3 := sweep_long_pl D TT W _ _ _ _ _ _ E2 ltac:(intros _ x Hx; eapply dead_keep; [exact K2|]; apply Li; auto)).
  split; [|split].
  - eapply plx_trans; [exact P1|]. eapply plx_trans; [|exact P3]. subst s1'. apply plx_r_elong; [|apply plx_refl].
    intros y Hy. left. exact I.
  - intros x Hx. eapply good_keep; [exact K3|]. eapply good_keep; [exact K2|]. apply Ek1. apply Es.
    destruct (pl_e _ _ _ _ _ (sweep_long_pl D (fun _ => False) W _ _ _ _ _ _ E2 ltac:(intros _ y Hy; eapply dead_keep; [exact K2|]; apply Li; auto)) _ Hx) as [[]|]; auto.
  - eapply sweep_long_lok; [exact E2| |]; eapply lok_keep; eauto.
Qed.

(* ------------------------------------------------------------------ the completeness invariant *)
Definition has_term (q : N) (H : list rinfo) : Prop := exists i, In i H /\ i_req i = q /\ i_res i <> R_EXPRIED.

Record InvL (I : N -> N -> Prop) (H : list rinfo) (s : db) : Prop := mkInvL {
  il_inv : Inv I H s;
  il_ack : forall r l, aget (store s) r = Some l -> l_timeouted l = false -> l_ack l = 255;
  il_eok : eok s;
  il_wok : forall x, wref s x -> x < next s;
  il_cmpl : forall conn q, I conn q ->
            has_term q H \/ exists r l, aget (store s) r = Some l /\ c_req (l_cmd l) = q /\ l_timeouted l = false
}.

Lemma invl_init I t0 a : (forall c q, ~ I c q) -> InvL I [] (init_db t0 a).
Proof.
  intros HI. split.
  - apply inv_init.
  - cbn. discriminate.
  - intros x [Hx|Hx]; destruct Hx.
  - intros x (k & m & q & Hm & _). discriminate.
  - intros conn q Hq. exfalso. eapply HI; eauto.
Qed.

Lemma inv_hdead I H s : Inv I H s -> hdead s.
Proof. intros W x Hx. apply (inv_href _ _ _ W). auto. Qed.

Record offr (r : ref) (s s' : db) : Prop := mkOffr {
  of_v : forall r' l', aget (store s') r' = Some l' -> r' <> r ->
         exists l, aget (store s) r' = Some l /\ l_cmd l' = l_cmd l /\ l_timeouted l' = l_timeouted l;
  of_n : next s <= next s'
}.

Lemma chg1_offr s s' r V : chg1 s s' r V -> offr r s s'.
Proof.
  intros C. split; [|apply (chg_n _ _ _ _ C)]. intros r' l' Hl' Hne.
  destruct (chg_cases _ _ _ _ _ _ C Hl') as [[-> _]|[_ (l & Hl & Ev)]]; [congruence|].
  apply view_eq_inv in Ev. exists l. tauto.
Qed.

Lemma keepx_offr s s' r : keepx s s' -> offr r s s'.
Proof.
  intros [v h n]. split; auto. intros r' l' Hl' _. destruct (v _ _ Hl') as (l & Hl & (E1 & _ & E3 & _)).
  exists l. unfold view_of, v_cmd, v_to in *. cbn in *. auto.
Qed.

Lemma offr_good r s s' x : offr r s s' -> x <> r -> good s x -> good s' x.
Proof.
  intros [v n] Hne [Hd Hn]. split; [|lia]. unfold dead, getl in *.
  destruct (aget (store s') x) as [l'|] eqn:El; auto. destruct (v _ _ El Hne) as (l & Hl & _ & Et).
  rewrite Hl in Hd. congruence.
Qed.

Lemma has_term_mono q (H H' : list rinfo) : (forall i, In i H -> In i H') -> has_term q H -> has_term q H'.
Proof. intros M (i & Hi & X). exists i. auto. Qed.

Lemma invl_gen (I I' : N -> N -> Prop) H H' s s' r (D E W : ref -> Prop) :
  InvL I H s -> Inv I' H' s' -> offr r s s' -> plx D E W s s' ->
  (forall x, D x -> x = r \/ dead s x) -> (forall x, E x -> good s' x) -> (forall x, W x -> x < next s') ->
  (forall l', aget (store s') r = Some l' -> l_timeouted l' = false -> l_ack l' = 255) ->
  (eref s r -> good s' r) ->
  (forall i, In i H -> In i H') ->
  (forall conn q, I' conn q -> I conn q \/ has_term q H'
     \/ (exists l', aget (store s') r = Some l' /\ c_req (l_cmd l') = q /\ l_timeouted l' = false)) ->
  (forall l, aget (store s) r = Some l -> l_timeouted l = false ->
     has_term (c_req (l_cmd l)) H'
     \/ (exists l', aget (store s') r = Some l' /\ l_cmd l' = l_cmd l /\ l_timeouted l' = false)) ->
  InvL I' H' s'.
Proof.
  intros L W' O P HD HE HW Hack Her HH HI Hr.
  assert (PERS : forall r0 l0, aget (store s) r0 = Some l0 -> l_timeouted l0 = false -> r0 <> r ->
                  exists l', aget (store s') r0 = Some l' /\ liveA l' /\ l_cmd l' = l_cmd l0).
  { intros r0 l0 Hl0 Ht0 Hne.
    assert (LA : liveA l0) by (split; auto; eapply il_ack; eauto).
    destruct (pl_p _ _ _ _ _ P _ _ Hl0 LA) as (l' & Hl' & LA').
    - intros Hd. destruct (HD _ Hd) as [->|Hdd]; [congruence|]. eapply liveA_getl; eauto.
    - exists l'. split; auto. split; auto. destruct (of_v _ _ _ O _ _ Hl' Hne) as (l1 & Hl1 & Ec & _). congruence. }
  split.
  - exact W'.
  - intros r' l' Hl' Ht'. destruct (N.eq_dec r' r) as [->|Hne]; [eauto|].
    destruct (of_v _ _ _ O _ _ Hl' Hne) as (l & Hl & Ec & Et).
    destruct (PERS _ _ Hl ltac:(congruence) Hne) as (l'' & Hl'' & [_ LA] & _). congruence.
  - intros x Hx. destruct (pl_e _ _ _ _ _ P _ Hx) as [Hx'|Hx']; auto.
    destruct (N.eq_dec x r) as [->|Hne]; auto. eapply offr_good; eauto. apply (il_eok _ _ _ L). auto.
  - intros x Hx. destruct (pl_w _ _ _ _ _ P _ Hx) as [Hx'|Hx']; auto.
    apply (il_wok _ _ _ L) in Hx'. assert (X := of_n _ _ _ O). lia.
  - intros conn q Hq. destruct (HI _ _ Hq) as [Hq0|[Ht|Hl]]; auto.
    destruct (il_cmpl _ _ _ L _ _ Hq0) as [Ht|(r0 & l0 & Hl0 & Hq1 & Ht0)].
    + left. eapply has_term_mono; eauto.
    + destruct (N.eq_dec r0 r) as [->|Hne].
      * destruct (Hr _ Hl0 Ht0) as [Ht|(l' & Hl' & Ec & Et)]; [left; congruence|].
        right. exists r, l'. split; auto. split; auto. congruence.
      * destruct (PERS _ _ Hl0 Ht0 Hne) as (l' & Hl' & [LT _] & Ec). right. exists r0, l'. split; auto. split; auto. congruence.
  Show Existentials. Unshelve. Show.
Qed.
