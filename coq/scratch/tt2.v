From Coq Require Import List NArith ZArith Bool Lia String.
From Slock Require Import Engine.Types Engine.Queues Engine.Timers Engine.Engine Engine.Engine2.
From Slock Require Import Engine.TimeBase Engine.TimeInv Engine.TimeRun Engine.TimeWhere Engine.TimeThm.
Import ListNotations.
Open Scope N_scope.
Definition c05_demo : list action :=
  [AReq 1 (make_cmd true 1 0 101 7 0 5 0 10 0 0 None); AReq 2 (make_cmd true 2 0 102 7 0 3 0 10 0 0 None);
   AAdvance 1; ASweepT; ASweepE; AAdvance 1; ASweepT; ASweepE; AAdvance 1; ASweepT; ASweepE; AAdvance 1; ASweepT; ASweepE].
Example ex : Forall sweep_ok (run_states (init_db 1000000 1) c05_demo).
Proof.
  set (l := run_states _ _). vm_compute in l. subst l.
  repeat (apply Forall_cons; [|]); try apply Forall_nil; unfold sweep_ok; cbn [snd fst]; try exact I.
  all: split; [vm_compute; reflexivity|].
  all: intros (site & J); vm_compute in J; repeat (destruct J as [J|J]; [discriminate J|]); destruct J.
Time Qed.
