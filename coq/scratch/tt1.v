From Slock Require Import Engine.Types Engine.Queues Engine.Timers Engine.Engine Engine.Engine2.
Open Scope N_scope.
Definition acts1 := [AReq 1 (make_cmd true 1 0 101 7 0 5 0 10 0 0 None); AReq 2 (make_cmd true 2 0 102 7 0 3 0 10 0 0 None);
  AAdvance 1; ASweepT; ASweepE; AAdvance 1; ASweepT; ASweepE; AAdvance 1; ASweepT; ASweepE; AAdvance 1; ASweepT; ASweepE].
Eval vm_compute in snd (run (init_db 1000000 1) acts1).
Eval vm_compute in (let s := fst (run (init_db 1000000 1) acts1) in (now s, checkT s, twheel s, tlong s)).
