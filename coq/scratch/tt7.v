From Coq Require Import List NArith ZArith Bool Lia String.
From Slock Require Import Engine.Types Engine.Queues Engine.Timers Engine.Engine Engine.Engine2.
From Slock Require Import Engine.TimeBase Engine.TimeWheel Engine.TimeLocal Engine.TimeExp.
Import ListNotations.
Open Scope N_scope.
Example ex2 :
  let s := fst (step (init_db 1000000 1) (AReq 1 (make_cmd true 1 0 101 7 0 5 0 10 0 0 None))) in
  let c := make_cmd true 2 2 101 7 0 5 0 11 0 0 None in
  exists m r, aget (mgrs s) (c_key c) = Some m /\ (0 <? m_locked m) = true /\ get_locked_lock s m (c_lockid c) = Some r
              /\ l_ack (getl s r) = 255 /\ check_locked_equal s (getl s r) c = true.
Proof.
  cbv zeta. set (s := fst (step _ _)). exists (getm s 7), 1. repeat split; vm_compute; reflexivity.
Time Qed.
