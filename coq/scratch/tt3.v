From Coq Require Import List NArith ZArith Bool Lia String.
From Slock Require Import Engine.Types Engine.Queues Engine.Timers Engine.Engine Engine.Engine2.
From Slock Require Import Engine.TimeBase Engine.TimeInv Engine.TimeRun Engine.TimeWhere Engine.TimeThm.
Import ListNotations.
Open Scope N_scope.
Lemma no_panic_nil : ~ has_panic [].
Proof. intros (site & []). Qed.
Lemma no_panic_cons e ev : (forall site, e <> EPanic site) -> ~ has_panic ev -> ~ has_panic (e :: ev).
Proof. intros A B (site & [E|I]); [apply (A site); auto|apply B; exists site; auto]. Qed.
Definition demo : list action :=
  [AReq 1 (make_cmd true 1 0 101 7 0 5 0 10 0 0 None); AReq 2 (make_cmd true 2 0 102 7 0 3 0 10 0 0 None);
   AAdvance 1; ASweepT; ASweepE; AAdvance 1; ASweepT; ASweepE; AAdvance 1; ASweepT; ASweepE; AAdvance 1; ASweepT; ASweepE].
Example ex : Forall sweep_ok (run_states (init_db 1000000 1) demo).
Proof.
  match goal with |- Forall _ ?x => let y := eval vm_compute in x in replace x with y by (vm_compute; reflexivity) end.
  repeat (apply Forall_cons; [|]); try apply Forall_nil; unfold sweep_ok; cbn [snd fst]; try exact I.
  all: split; [vm_compute; reflexivity|].
  all: match goal with |- ~ has_panic ?x => let y := eval vm_compute in x in replace x with y by (vm_compute; reflexivity) end.
  all: repeat (apply no_panic_cons; [intros site; discriminate|]); apply no_panic_nil.
Time Qed.
