From Coq Require Import String List NArith ZArith.
From Slock Require Import Engine.Types Engine.Queues Engine.Timers Engine.Engine Engine.Engine2 Engine.Ack.
From Slock Require Import Engine.AckProofsBase Engine.AckProofsAck Engine.AckProofsGlobal Engine.AckProofsUnreg Engine.AckProofsRefute.
Import ListNotations.
Open Scope N_scope.
Definition ex_lock (req lockid : N) : cmd := make_cmd true req 0 lockid 7 4096 5 0 10 0 0 None.
Definition ex_pending : astate := fst (arun (init_astate 1000000 1 1) [AAct (AReq 1 (ex_lock 1 101))]).
Eval vm_compute in (reg_find_req (a_reg ex_pending) 1, a_reg ex_pending).
Definition late : list aaction := [AAct (AReq 1 (ex_lock 1 101)); AAct (AAdvance 6); AAct ASweepT; AAct (AReq 1 (ex_lock 2 101)); AAckEvt 0 true; AAckEvt 1 true].
Eval vm_compute in (let '(st, evs) := arun (init_astate 1000000 1 1) late in (answers evs, a_reg st)).
Eval vm_compute in (arun_ok2 (init_astate 1000000 1 1) late).
Eval vm_compute in (let st := fst (arun (init_astate 1000000 1 1) (firstn 2 late)) in
   (map (fun e => match e with EAof a => Some (a_lock a, a_ref a) | _ => None end) (snd (step (a_db st) ASweepT)))).
(* duplicate RequestId *)
Definition dup : list aaction := [AAct (AReq 1 (make_cmd true 1 0 101 7 4096 5 0 10 0 0 None)); AAct (AReq 1 (make_cmd true 1 0 102 8 4096 5 0 10 0 0 None)); AAckEvt 0 true; AAct (AAdvance 6); AAct ASweepT].
Eval vm_compute in (let '(st, evs) := arun (init_astate 1000000 1 1) dup in (answers evs, a_reg st, aget (store (a_db st)) 2)).
