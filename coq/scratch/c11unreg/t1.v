From Coq Require Import String List NArith ZArith.
From Slock Require Import Engine.Types Engine.Queues Engine.Timers Engine.Engine Engine.Engine2 Engine.Ack.
Import ListNotations.
Open Scope N_scope.
Definition wL (req lockid tflag timeout eflag expried rcount : N) : aaction :=
  AAct (AReq 1 (make_cmd true req 0 lockid 7 tflag timeout eflag expried 0 rcount None)).
Definition answers (evs : list (list event)) : list (list event) :=
  map (filter (fun e => match e with EReply _ _ _ _ _ _ _ _ _ => true | EPanic _ => true | _ => false end)) evs.
Definition run_late_registration : list aaction :=
  [wL 1 101 4096 2 0 10 0; wL 2 102 4096 5 0 10 0; AAct (AAdvance 20); AAct ASweepT; AAckEvt 1 true].
Eval vm_compute in (let '(st, evs) := arun (init_astate 1000000 0 1) run_late_registration in (answers evs, a_reg st, a_next st)).
Definition run_reentrant : list aaction :=
  [wL 1 101 0 5 0 10 0; wL 2 101 4096 5 0 10 1; AAckEvt 0 true; wL 3 101 4096 5 0 10 2; AAckEvt 1 true;
   AAct (AAdvance 20); AAct ASweepE].
Eval vm_compute in (let '(st, evs) := arun (init_astate 1000000 0 1) run_reentrant in (answers evs, a_reg st, a_next st)).
