From Coq Require Import String List NArith ZArith.
From Slock Require Import Engine.Types Engine.Queues Engine.Timers Engine.Engine Engine.Engine2 Engine.Ack.
From Slock Require Import Engine.AckProofsRefute.
Import ListNotations.
Open Scope N_scope.
Definition wLk (req lockid key tflag timeout eflag expried rcount : N) : aaction :=
  AAct (AReq 1 (make_cmd true req 0 lockid key tflag timeout eflag expried 0 rcount None)).
Definition run_duplicate_request_id : list aaction :=
  [wLk 1 101 7 4096 5 0 10 0; wLk 1 102 8 4096 5 0 10 0; AAckEvt 0 true; AAct (AAdvance 6); AAct ASweepT].
Eval vm_compute in (let '(st, evs) := arun (init_astate 1000000 1 1) run_duplicate_request_id in answers evs).
Eval vm_compute in (let st := fst (arun (init_astate 1000000 1 1) (firstn 2 run_duplicate_request_id)) in
  (a_reg st, aget (store (a_db st)) 2, map (fun x => (fst x, snd x)) (twheel (a_db st)), option_map (fun l => (l_ack l, l_locked l, l_refc l)) (aget (store (a_db st)) 1))).
