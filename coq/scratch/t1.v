From Slock Require Import Engine.Types Engine.Queues Engine.Timers Engine.Engine Engine.Engine2 Engine.ReplyBase Engine.ReplyLocal Engine.ReplyInv Engine.ReplyThm.
Open Scope N_scope.
Definition L (req lockid key timeout expried count : N) := make_cmd true req 0 lockid key 0 timeout 0 expried count 0 None.
Definition U (req lockid key : N) := make_cmd false req 0 lockid key 0 0 0 0 0 0 None.
Definition demo := [AReq 1 (L 1 101 7 5 10 0); AReq 2 (L 2 102 7 5 10 0); AReq 3 (L 3 103 7 0 10 0); AReq 1 (U 4 101 7);
   AAdvance 20; ASweepT; ASweepE].
Eval vm_compute in (rinfos (concat (snd (run (init_db 1000000 1) demo)))).
(* refutation: re-entrant relock with ack *)
Definition LA (req lockid key timeout expried count rcount tflag : N) := make_cmd true req 0 lockid key tflag timeout 0 expried count rcount None.
Definition bad := [AReq 1 (LA 1 101 7 5 10 0 0 0); AAdvance 2; ASweepE; AReq 1 (LA 2 101 7 5 10 0 1 4096)].
Eval vm_compute in (snd (run (init_db 1000000 1) bad)).
Definition bad2 := bad ++ [AAck 1 true].
Eval vm_compute in (rinfos (concat (snd (run (init_db 1000000 1) bad2)))).
Definition bad3 := [AReq 1 (LA 1 101 7 5 10 0 0 4096); AAck 1 true; AAdvance 2; ASweepE; AReq 1 (LA 2 101 7 5 10 0 1 4096); AAck 1 true].
Eval vm_compute in (rinfos (concat (snd (run (init_db 1000000 1) bad3)))).
Definition LU (req lockid key timeout expried tflag flag : N) := make_cmd true req flag lockid key tflag timeout 0 expried 0 0 None.
Definition bad4 := [AReq 1 (LU 1 101 7 5 10 0 0); AReq 1 (LU 2 101 7 5 50 4096 2); AAck 1 true; AAdvance 100; ASweepT; ASweepE].
Eval vm_compute in (rinfos (concat (snd (run (init_db 1000000 1) bad4)))).
Eval vm_compute in (map rinfos (snd (run (init_db 1000000 1) bad4))).
