From Coq Require Import String ZifyN ZifyBool ZifyNat.
From Slock Require Import Engine.Types Engine.Queues Engine.Timers Engine.Engine Engine.Engine2 Engine.ReplyBase Engine.ReplyLocal Engine.ReplyInv Engine.ReplyLive.
Open Scope N_scope.

Lemma free_lock_other s r x : x <> r -> aget (store (free_lock s r)) x = aget (store s) x.
Proof.
  intros Hne. unfold free_lock. destruct (aget (store s) r); auto. rewrite store_updm. cbn [store].
  change (aget (adel (store s) r) x = aget (store s) x). rewrite aget_adel.
  destruct (r =? x) eqn:E; auto. apply N.eqb_eq in E. congruence.
Qed.

Lemma unref_other s r x : x <> r -> aget (store (unref s r)) x = aget (store s) x.
Proof.
  intros Hne. unfold unref. destruct (aget (store s) r) eqn:E0; auto.
  assert (X : aget (store (setl s r (l <| l_refc := dec8 (l_refc l) |>))) x = aget (store s) x).
  { rewrite store_setl, aget_aset. destruct (r =? x) eqn:E; auto. apply N.eqb_eq in E. congruence. }
  destruct (_ =? 0); auto. rewrite free_lock_other; auto.
Qed.

Lemma wq_compact_other items x : forall s s' kept, wq_compact s items = (s', kept) -> ~ In x items ->
  aget (store s') x = aget (store s) x.
Proof.
  induction items as [|r rest IH]; cbn; intros s s' kept H Hn; [inv H; auto|].
  destruct (dead_waiter (getl s r)).
  - rewrite (IH _ _ _ H); [|tauto]. apply unref_other. intros ->. tauto.
  - destruct (wq_compact s rest) as [s1 k1] eqn:E0. inv H. eapply IH; eauto.
Qed.

Lemma wq_push_other s q r s' q' x : wq_push s q r = (s', q') -> ~ In x (wq_items q) -> aget (store s') x = aget (store s) x.
Proof.
  unfold wq_push, wq_items. intros H Hn.
  destruct (wq_mode q); try (inv H; reflexivity).
  destruct (wq_cap q =? 0); [inv H; reflexivity|].
  destruct (wq_len q <? wq_cap q); [inv H; reflexivity|].
  destruct (wq_fast q) as [|a rest] eqn:Ef; [inv H; reflexivity|].
  destruct (wq_compact s (a :: rest)) as [s1 kept] eqn:Ec.
  assert (X := wq_compact_other _ x _ _ _ Ec ltac:(intros Hi; apply Hn; apply in_app_iff; auto)).
  destruct (_ <? wq_len q); [inv H; auto|].
  destruct (wq_cap q <=? 128); inv H; auto.
Qed.

Lemma add_wait_lock_new s k r l :
  aget (store s) r = Some l -> ~ wref s r ->
  exists l', aget (store (add_wait_lock s k r)) r = Some l' /\ l_ack l' = l_ack l /\ view_of l' = view_of l.
Proof.
  intros Hl Hw. unfold add_wait_lock.
  match goal with |- context [wq_push s ?q r] => set (q0 := q); destruct (wq_push s q0 r) as [s1 q1] eqn:Ep end.
  assert (Hq0 : ~ In r (wq_items q0)).
  { subst q0. intros Hi. apply Hw. destruct (m_wait (getm s k)) as [q|] eqn:Eq; [|destruct Hi].
    assert (X : In r (wq_items q)).
    { destruct (_ && _); auto. destruct (wq_head q); auto. destruct (_ =? _); auto. apply wq_repush_incl in Hi; auto. }
    eapply getm_wref; eauto. }
  assert (X := wq_push_other _ _ _ _ _ r Ep Hq0). rewrite Hl in X. cbv beta iota zeta.
  eexists. split. rewrite store_updm, aget_store_updl, N.eqb_refl, X; cbn; reflexivity. split; reflexivity.
Qed.

Lemma store_set_tlong s x : store (s <| tlong := x |>) = store s. Proof. reflexivity. Qed.
Lemma store_set_twheel s x : store (s <| twheel := x |>) = store s. Proof. reflexivity. Qed.

Lemma add_timeout_rec s r l :
  aget (store s) r = Some l ->
  exists l', aget (store (add_timeout s r)) r = Some l' /\ l_ack l' = l_ack l /\ l_cmd l' = l_cmd l /\ l_conn l' = l_conn l /\ l_timeouted l' = false.
Proof.
  intros Hl. unfold add_timeout.
  set (s1 := updl s r (fun l => l <| l_timeouted := false |>)).
  assert (H1 : aget (store s1) r = Some (l <| l_timeouted := false |>)) by (subst s1; rewrite aget_store_updl, N.eqb_refl, Hl; reflexivity).
  clearbody s1. destruct (QUEUE_MAX_WAIT <? _).
  - eexists. split; [rewrite store_set_tlong, aget_store_updl, N.eqb_refl, H1; cbn; reflexivity|]. repeat split; reflexivity.
  - eexists. split; [rewrite aget_store_updl, N.eqb_refl, store_set_twheel, H1; cbn; reflexivity|]. repeat split; reflexivity.
Qed.

Lemma wref_same s s' x : mgrs s' = mgrs s -> wref s' x -> wref s x.
Proof. intros E (k & m & q & H & Hq & Hi). rewrite E in H. exists k, m, q. auto. Qed.

Lemma queued_present S0 k conn c s1 r :
  new_lock S0 k conn c = (s1, r) -> (forall x, wref S0 x -> x < next S0) ->
  exists l', aget (store (updl (add_timeout (add_wait_lock s1 k r) r) r (fun l => l <| l_refc := add8 (l_refc l) 1 |>))) r = Some l'
             /\ l_ack l' = 255 /\ l_cmd l' = c /\ l_conn l' = conn /\ l_timeouted l' = false.
Proof.
  intros Hn Hw. destruct (new_lock_tr _ _ _ _ _ _ Hn) as (Hr & _ & P & V & A & _ & Hm).
  assert (Hl : aget (store s1) r = Some (getl s1 r)).
  { unfold getl. unfold present in P. destruct (aget (store s1) r); [reflexivity|congruence]. }
  assert (Hnw : ~ wref s1 r).
  { intros X. assert (Y : wref S0 r).
    { destruct X as (k0 & m & q & H & Hq & Hi). rewrite Hm, aget_mgrs_updm in H. destruct (k =? k0) eqn:Ek.
      - apply N.eqb_eq in Ek. subst. destruct (aget (mgrs S0) k0) as [m1|] eqn:E1; [|discriminate]. inv H. exists k0, m1, q. auto.
      - exists k0, m, q. auto. }
    apply Hw in Y. lia. }
  destruct (add_wait_lock_new _ k _ _ Hl Hnw) as (l1 & H1 & A1 & V1).
  destruct (add_timeout_rec _ _ _ H1) as (l2 & H2 & A2 & C2 & N2 & T2).
  eexists. split; [rewrite aget_store_updl, N.eqb_refl, H2; cbn; reflexivity|].
  apply view_eq_inv in V1. destruct V1 as (Vc & Vn & _). unfold view_of in V. inv V.
  repeat split; cbn; congruence.
Qed.

Lemma update_and_rearm_norep' s k r c s' ev : update_and_rearm s k r c = (s', ev) -> rinfos ev = [].
Proof. apply update_and_rearm_norep. Qed.

Lemma lock_step_queued s conn c s' ev w :
  lock_step s conn c = (s', ev, w) -> core_cmd c -> rinfos ev = [] -> (forall x, wref s x -> x < next s) ->
  exists l', aget (store s') (next s) = Some l' /\ l_ack l' = 255 /\ c_req (l_cmd l') = c_req c /\ l_timeouted l' = false.
Proof.
  intros H Hcore HR Hw. assert (Hcore0 := Hcore). destruct Hcore as (Hack & Hms & Hems & Hdata).
  unfold lock_step in H. cbv beta zeta in H.
  set (k := c_key c) in *.
  match type of H with context [if has (c_flag c) LOCK_FLAG_SHOW then ?a else c] =>
    set (c1 := if has (c_flag c) LOCK_FLAG_SHOW then a else c) in H end.
  assert (Hc1 : c_req c1 = c_req c /\ c_tflag c1 = c_tflag c /\ c_eflag c1 = c_eflag c /\ c_data c1 = c_data c
                /\ c_key c1 = c_key c).
  { subst c1. destruct (has (c_flag c) LOCK_FLAG_SHOW); cbn; auto. }
  clearbody c1. destruct Hc1 as (Hreq1 & Htf1 & Hef1 & Hd1 & Hk1).
  destruct (aget (mgrs s) k) as [m0|] eqn:Hmgr.
  all: cbv iota in H.
  all: brk.
  all: repeat match goal with HP : process_data _ _ _ _ _ = _ |- _ =>
         rewrite process_data_nodata in HP by congruence; injs end.
  all: try congruence.
  all: try solve [exfalso; match goal with HB : (0 <? m_locked (getm (bump _ (setm _ _ new_mgr)) _)) = true |- _ =>
         rewrite getm_bump_setm_new in HB; vm_compute in HB; discriminate HB end].
  all: try solve [exfalso; rewrite ?Htf1 in *; rewrite ?Hef1 in *;
         repeat match goal with HB : _ && _ = true |- _ => apply andb_true_iff in HB; destruct HB end; congruence].
  all: try solve [exfalso; revert HR; norep2;
         repeat match goal with HU : update_and_rearm _ _ _ _ = (_, ?aev) |- context [rinfos ?aev] =>
           rewrite (update_and_rearm_norep _ _ _ _ _ _ HU) end; cbn; discriminate].
  all: let n := numgoals in idtac n.
  all: match goal with Hn : new_lock ?S0 _ _ ?c' = (?s1, ?r) |- _ =>
         destruct (queued_present _ _ _ _ _ _ Hn) as (l' & Hl' & A & C & Cn & T);
         [ intros x Hx; apply Hw; revert Hx; clear;
           first [ exact (fun h => h)
                 | intros (k0 & m & q & Hm & Hq & Hi); change (mgrs (bump _ (setm s k new_mgr))) with (aset (mgrs s) k new_mgr) in Hm;
                   rewrite aget_aset in Hm; destruct (k =? k0); [inv Hm; discriminate|exists k0, m, q; auto] ]
         | destruct (new_lock_tr _ _ _ _ _ _ Hn) as (Hr & _);
           exists l'; split; [rewrite <- Hr at 1; exact Hl'|]; split; [exact A|]; split; [rewrite C; first [exact Hreq1|reflexivity]|exact T] ] end.
Qed.
