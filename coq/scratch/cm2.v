From Coq Require Import String ZifyN ZifyBool ZifyNat.
From Slock Require Import Engine.Types Engine.Queues Engine.Timers Engine.Engine Engine.Engine2
  Engine.ReplyBase Engine.ReplyLocal Engine.ReplyInv Engine.ReplyLive Engine.ReplyCmpl.
Open Scope N_scope.

(* ------------------------------------------------------------------ deadness is monotone along the answered-steps *)
Lemma chg1_dmono s s' r (V : view -> Prop) x :
  chg1 s s' r V -> (forall v, V v -> v_to v = true) -> good s x -> good s' x.
Proof.
  intros C HV G. destruct (N.eq_dec x r) as [->|Hne].
  - split; [eapply chg1_dead; eauto|]. destruct G as [_ G]. assert (X := chg_n _ _ _ _ C). lia.
  - eapply offr_good; eauto. eapply chg1_offr; eauto.
Qed.

Lemma keepx_good s s' x : keepx s s' -> good s x -> good s' x.
Proof. intros K. eapply offr_good with (r := next s' + 1 + x); [apply keepx_offr; exact K|lia]. Qed.

Definition dmono (s s' : db) : Prop := forall x, good s x -> good s' x.

(* ------------------------------------------------------------------ wake-up pass *)
Lemma wake_iter_invl I H s w s' ev res :
  InvL I H s -> wake_iter s w = (s', ev, res) -> InvL I (H ++ rinfos ev) s' /\ dmono s s'.
Proof.
  unfold wake_iter. intros L E0. assert (Hd := inv_hdead _ _ _ (il_inv _ _ _ L)).
  assert (NOP : InvL I (H ++ []) s /\ dmono s s) by (rewrite app_nil_r; split; [auto|intros x; auto]).
  destruct (aget (mgrs s) (w_key w)) as [m|]; [|inv E0; exact NOP].
  destruct (negb (m_waited m)); [inv E0; exact NOP|].
  destruct (get_wait_lock s (w_key w)) as [s1 [r|]] eqn:G.
  - assert (K1 := get_wait_lock_keep _ _ _ _ G).
    assert (L1 : InvL I H s1).
    { eapply (invl_keep _ _ _ _ (fun _ => False) (fun _ => False) (fun _ => False)); eauto.
      - apply keep_keepx; auto.
      - eapply plx_get_wait_lock; eauto.
      - intros x []. - intros x []. - intros x []. }
    destruct (negb (do_lock s1 (w_key w) r)).
    { inv E0. cbn. rewrite app_nil_r. split; auto. intros x Gx. eapply good_keep; eauto. }
    destruct (wake_grant s1 (w_key w) r (w_conn w)) as [s2 ev2] eqn:G2. inv E0.
    assert (Lv := get_wait_lock_live _ _ _ _ G). assert (Hin := getl_live_in_store _ _ Lv).
    assert (W1 := il_inv _ _ _ L1).
    destruct (inv_rec _ _ _ W1 _ _ Hin) as [_ CF].
    destruct (wake_grant_sum _ _ _ _ _ _ G2 Lv CF) as [C R]. rewrite R.
    assert (P := wake_grant_pl (fun _ => False) _ _ _ _ _ _ G2 CF (inv_hdead _ _ _ W1)).
    assert (HVt : forall v, v_cmd v = l_cmd (getl s1 r) /\ v_conn v = l_conn (getl s1 r) /\ v_to v = true -> v_to v = true) by tauto.
    split.
    + apply (invl_answer I H s1 _ r (getl s1 r) _ R_SUCCED (eq r) (eq r) (fun _ => False) L1 Hin Lv C).
      * intros v (E1 & E2 & E3). repeat split; auto.
      * intro X; vm_compute in X; discriminate X.
      * exact P.
      * intros x <-. left. reflexivity.
      * intros x <-. split; [eapply chg1_dead; eauto|]. apply (inv_dom _ _ _ W1) in Hin. assert (X := chg_n _ _ _ _ C). lia.
      * intros x [].
    + intros x Gx. eapply chg1_dmono; eauto. eapply good_keep; eauto.
  - inv E0. cbn. rewrite app_nil_r.
    match goal with |- InvL _ _ ?X /\ _ => assert (K : keep s X) by (eapply keep_trans; [eapply get_wait_lock_keep; eauto|]; keep_x) end.
    split; [|intros x Gx; eapply good_keep; eauto].
    eapply (invl_keep _ _ _ _ (fun _ => False) (fun _ => False) (fun _ => False)); eauto.
    + apply keep_keepx; auto.
    + eapply plx_trans; [eapply plx_get_wait_lock; eauto|]. plx_x.
    + intros x []. + intros x []. + intros x [].
Qed.

Lemma dmono_trans s1 s2 s3 : dmono s1 s2 -> dmono s2 s3 -> dmono s1 s3.
Proof. intros A B x Gx. auto. Qed.

Lemma run_wake_invl fuel : forall I H s w s' ev,
  InvL I H s -> run_wake fuel s w = (s', ev) -> InvL I (H ++ rinfos ev) s' /\ dmono s s'.
Proof.
  induction fuel as [|f IH]; cbn; intros I H s w s' ev L E0.
  - inv E0. cbn. rewrite app_nil_r. split; auto. intros x; auto.
  - destruct (wake_iter s w) as [[s1 ev1] res] eqn:E1. destruct (wake_iter_invl _ _ _ _ _ _ _ L E1) as [L1 M1].
    destruct res; [inv E0; auto|].
    destruct (run_wake f s1 w) as [s2 ev2] eqn:E2. inv E0. rewrite rinfos_app, app_assoc.
    destruct (IH _ _ _ _ _ _ L1 E2) as [L2 M2]. split; auto. eapply dmono_trans; eauto.
Qed.

Lemma finish_invl I H s1 ev1 w s' ev :
  finish (s1, ev1, w) = (s', ev) -> exists ev2, ev = ev1 ++ ev2 /\ (InvL I H s1 -> InvL I (H ++ rinfos ev2) s' /\ dmono s1 s').
Proof.
  unfold finish. destruct w as [w|].
  - destruct (run_wake _ s1 w) as [s2 ev2] eqn:E0. intros X. inv X. exists ev2. split; auto.
    intros L. eapply run_wake_invl; eauto.
  - intros X. inv X. exists []. rewrite !app_nil_r. split; auto. intros L. split; auto. intros x; auto.
Qed.

