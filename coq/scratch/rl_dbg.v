(* C03, part 1: local summaries.  For each critical section of the model (Lock, UnLock, cancelWaitLock, one wake-up
   grant, doTimeOut, doExpried, the collecting sweeps): which replies it emits, and how it changes the reply-relevant
   view of the lock records.  No reachability invariant is used. *)
From Coq Require Import String ZifyN ZifyBool ZifyNat.
From Slock Require Import Engine.Types Engine.Queues Engine.Timers Engine.Engine Engine.Engine2 Engine.ReplyBase.
Open Scope N_scope.

(* ------------------------------------------------------------------ reply projections *)
Definition rinfo : Type := N * N * N.     (* connection, RequestId, result *)
Definition rinfo_of (e : event) : option rinfo :=
  match e with EReply conn req res _ _ _ _ _ _ => Some (conn, req, res) | _ => None end.
Fixpoint rinfos (ev : list event) : list rinfo :=
  match ev with
  | [] => []
  | e :: rest => match rinfo_of e with Some i => i :: rinfos rest | None => rinfos rest end
  end.

Lemma rinfos_app a b : rinfos (a ++ b) = rinfos a ++ rinfos b.
Proof. induction a as [|e a IH]; cbn; auto. destruct (rinfo_of e); cbn; congruence. Qed.

Lemma rinfos_noreply ev : replies ev = [] -> rinfos ev = [].
Proof.
  induction ev as [|e ev IH]; cbn; auto. destruct e; cbn; auto. discriminate.
Qed.

Lemma rinfos_reply conn c res a b d : rinfos [reply conn c res a b d] = [(conn, c_req c, res)].
Proof. reflexivity. Qed.

(* ------------------------------------------------------------------ the core command subset *)
Definition core_cmd (c : cmd) : Prop :=
  has (c_tflag c) TF_REQUIRE_ACKED = false /\ has (c_tflag c) TF_MILLISECOND = false
  /\ has (c_eflag c) EF_MILLISECOND = false /\ c_data c = None.

Definition core_flags (c : cmd) : Prop :=
  has (c_tflag c) TF_REQUIRE_ACKED = false /\ has (c_eflag c) EF_MILLISECOND = false.

Lemma core_cmd_flags c : core_cmd c -> core_flags c.
Proof. intros (a & b & d & e). split; auto. Qed.

(* ------------------------------------------------------------------ change of one record *)
Record chg1 (s s' : db) (r : ref) (Vnew : view -> Prop) : Prop := mkChg {
  chg_v : forall r' l', aget (store s') r' = Some l' ->
          if r' =? r then Vnew (view_of l') else exists l, aget (store s) r' = Some l /\ view_of l' = view_of l;
  chg_h : forall x, href s' x -> x = r \/ href s x;
  chg_n : next s <= next s'
}.

Lemma tr_chg1 g A s r V n s' :
  tr g A (ovr (base s) r V) n s' -> (forall r' v, r' <> r -> g r' v = v) ->
  (forall x, A x -> x = r \/ href s x) -> next s <= n ->
  chg1 s s' r (fun v => v = g r V).
Proof.
  intros [v h m] Hg HA Hn. split; [|auto|lia].
  intros r' l' H. destruct (v _ _ H) as (v0 & H0 & E0). unfold ovr in H0. destruct (r' =? r) eqn:E.
  - apply N.eqb_eq in E. subst. inv H0. auto.
  - apply N.eqb_neq in E. rewrite Hg in E0; auto. unfold base in H0.
    destruct (aget (store s) r') as [l|]; [|discriminate]. inv H0. exists l. auto.
Qed.

(* same, when r is a record of s *)
Lemma ovr_base_same s r l : aget (store s) r = Some l -> forall r', ovr (base s) r (view_of l) r' = base s r'.
Proof.
  intros H r'. unfold ovr. destruct (r' =? r) eqn:E; auto. apply N.eqb_eq in E. subst. unfold base. rewrite H. auto.
Qed.

Lemma tr_base_ovr g A s r l n s' : aget (store s) r = Some l -> tr g A (base s) n s' -> tr g A (ovr (base s) r (view_of l)) n s'.
Proof.
  intros Hl [v h m]. split; auto. intros r' l' H. destruct (v _ _ H) as (v0 & H0 & E0). exists v0.
  rewrite ovr_base_same; auto.
Qed.

Lemma keep_chg1 s s' r : keep s s' ->
  chg1 s s' r (fun v => exists l, aget (store s) r = Some l /\ v = view_of l).
Proof.
  intros [v h n]. split; auto. intros r' l' H. destruct (v _ _ H) as (l & Hl & E). unfold idg in E.
  destruct (r' =? r) eqn:Er; eauto. apply N.eqb_eq in Er. subst. eauto.
Qed.

Lemma chg1_weaken s s' r (V V' : view -> Prop) : (forall v, V v -> V' v) -> chg1 s s' r V -> chg1 s s' r V'.
Proof.
  intros HV [v h n]. split; auto. intros r' l' H. specialize (v _ _ H). destruct (r' =? r); auto.
Qed.

Lemma chg1_keep s s1 s' r V : chg1 s s1 r V -> keep s1 s' -> chg1 s s' r V.
Proof.
  intros [v h n] [v' h' n']. split; [|auto|lia].
  intros r' l' H. destruct (v' _ _ H) as (l1 & H1 & E1). unfold idg in E1. specialize (v _ _ H1).
  rewrite E1. auto.
Qed.

Lemma keep_chg1_l s s1 s' r V : keep s s1 -> chg1 s1 s' r V -> (forall v, V v -> True) ->
  (forall r' l', aget (store s') r' = Some l' -> r' <> r -> exists l, aget (store s) r' = Some l /\ view_of l' = view_of l)
  /\ (forall x, href s' x -> x = r \/ href s x) /\ next s <= next s'.
Proof.
  intros [v h n] [v' h' n'] _. split; [|split]; [| |lia].
  - intros r' l' H Hr. specialize (v' _ _ H). apply N.eqb_neq in Hr. rewrite Hr in v'.
    destruct v' as (l1 & H1 & E1). destruct (v _ _ H1) as (l0 & H0 & E0). exists l0. unfold idg in *. split; congruence.
  - intros x Hx. destruct (h' _ Hx); auto.
Qed.

(* extended keep tactic: also steps over helper calls whose result was named by an equation *)
Lemma process_data_keep1 s k r c b s' ev : process_data s k r c b = (s', ev) -> keep s s'.
Proof. intros H. apply process_data_keep in H. tauto. Qed.
Lemma process_data_norep s k r c b s' ev : process_data s k r c b = (s', ev) -> rinfos ev = [].
Proof. intros H. apply process_data_keep in H. apply rinfos_noreply. tauto. Qed.
Lemma push_lock_aof_norep s k r f s' ev : push_lock_aof s k r f = (s', ev) -> rinfos ev = [].
Proof. intros H. apply rinfos_noreply. eapply push_lock_aof_noreply; eauto. Qed.
Lemma push_unlock_aof_norep s k r lc uc b f s' ev : push_unlock_aof s k r lc uc b f = (s', ev) -> rinfos ev = [].
Proof. intros H. apply rinfos_noreply. eapply push_unlock_aof_noreply; eauto. Qed.

Ltac keep_eq :=
  match goal with
  | |- keep _ ?s' => is_var s';
      eapply keep_trans;
      [| first [ eapply process_data_keep1; eassumption
               | eapply push_lock_aof_keep; eassumption
               | eapply push_unlock_aof_keep; eassumption
               | eapply get_wait_lock_keep; eassumption ] ]
  end.
Ltac keep_x := repeat first [ keep_r1 | keep_eq | (eapply keep_trans; [|apply keep_setm_new]) ].

(* no-reply bookkeeping: normalise `rinfos (a ++ b ++ ...)` using the equations in the context *)
Ltac norep1 :=
  repeat rewrite rinfos_app;
  repeat match goal with
  | H : process_data _ _ _ _ _ = (_, ?ev) |- context [rinfos ?ev] => rewrite (process_data_norep _ _ _ _ _ _ _ H)
  | H : push_lock_aof _ _ _ _ = (_, ?ev) |- context [rinfos ?ev] => rewrite (push_lock_aof_norep _ _ _ _ _ _ H)
  | H : push_unlock_aof _ _ _ _ _ _ _ = (_, ?ev) |- context [rinfos ?ev] => rewrite (push_unlock_aof_norep _ _ _ _ _ _ _ _ _ H)
  end;
  cbn [rinfos rinfo_of reply app].
Ltac norep := repeat (progress norep1).

Ltac injs := repeat match goal with H : (_, _) = (_, _) |- _ => inv H end.
Ltac at_ref_off := intros ? ? Hne; unfold at_ref; apply N.eqb_neq in Hne; rewrite ?Hne; reflexivity.

(* ------------------------------------------------------------------ wakeUpWaitLock: one grant *)
Lemma wake_grant_rinfos s k r via s' ev :
  wake_grant s k r via = (s', ev) ->
  rinfos ev = [] \/ rinfos ev = [(l_conn (getl s r), c_req (l_cmd (getl s r)), R_SUCCED)].
Proof.
  unfold wake_grant. intros H.
  destruct (_ && _ && _ && _).
  - repeat dlet H. inv H. left. destruct (has_data_flag _); [|injs]; norep; reflexivity.
  - destruct (0 <? c_expried _).
    + repeat dlet H. destruct (has (c_eflag _) EF_MILLISECOND); [inv H; left; reflexivity|].
      repeat dlet H. inv H. right. norep.
      destruct (add_expried_tr _ _ _ _ _ _ _ _ _ E0 (tr_refl _)) as [_ R]. rewrite (rinfos_noreply _ R).
      destruct (has_data_flag _); [norep|injs]; reflexivity.
    + repeat dlet H. inv H. right. norep.
      destruct (has_data_flag _).
      * repeat dlet E. destruct (_ && _); repeat dlet E; injs; norep; reflexivity.
      * injs. reflexivity.
Qed.

Lemma wake_grant_sum s k r via s' ev :
  wake_grant s k r via = (s', ev) -> l_timeouted (getl s r) = false -> core_flags (l_cmd (getl s r)) ->
  chg1 s s' r (fun v => v_cmd v = l_cmd (getl s r) /\ v_conn v = l_conn (getl s r) /\ v_to v = true)
  /\ rinfos ev = [(l_conn (getl s r), c_req (l_cmd (getl s r)), R_SUCCED)].
Proof.
  intros H Hlive [Hack Hms].
  assert (Hin := getl_live_in_store _ _ Hlive). set (l := getl s r) in *.
  assert (R := wake_grant_rinfos _ _ _ _ _ _ H). fold l in R.
  unfold wake_grant in H. fold l in H. rewrite Hack in H. cbn [andb] in H.
  set (s1 := updl s r (fun l => l <| l_timeouted := true |>)) in *.
  assert (T1 : tr (at_ref idg r (set_to true)) (href s) (base s) (next s) s1)
    by (subst s1; apply tr_updl; [intros; reflexivity|apply tr_refl]).
  assert (P1 : present s1 r) by (subst s1; apply present_updl; unfold present; congruence).
  clearbody s1.
  set (s2 := if l_long l then remove_long_timeout s1 r else s1) in *.
  assert (T2 : tr (at_ref idg r (set_to true)) (href s) (base s) (next s) s2)
    by (subst s2; destruct (l_long l); auto; eapply tr_keep; [apply remove_long_timeout_keep|auto]).
  assert (P2 : present s2 r) by (subst s2; destruct (l_long l); auto; apply remove_long_timeout_present; auto).
  clearbody s2. clear T1 P1 s1.
  assert (Hb : base s r = Some (view_of l)) by (unfold base; rewrite Hin; reflexivity).
  assert (FIN : forall g A s', tr g A (base s) (next s) s' -> (forall r' v, r' <> r -> g r' v = v) ->
                 (forall x, A x -> x = r \/ href s x) -> chg1 s s' r (fun v => v = g r (view_of l))).
  { intros g A s'' T Hg HA. eapply tr_chg1; [apply tr_base_ovr; eauto|auto|auto|lia]. }
  destruct (0 <? c_expried (l_cmd l)).
  - repeat dlet H. rewrite Hms in H. repeat dlet H. inv H.
    assert (T3 := add_lock_tr _ _ _ _ _ k r _ T2 Hb ltac:(intros Habs; exfalso; apply P2; auto)).
    assert (T4 : tr (at_ref idg r (set_to true)) (addA (href s) r) (base s) (next s) d).
    { destruct (has_data_flag _); [|injs; eapply tr_keep; [|exact T3]; keep_x].
      eapply tr_keep; [|exact T3]. keep_x. }
    destruct (add_expried_tr _ _ _ _ _ _ _ _ _ E0 T4) as [T5 R5].
    split.
    + eapply chg1_weaken; [|eapply FIN; [eapply tr_keep; [|exact T5]; keep_x| |]].
      * intros v ->. unfold at_ref. rewrite N.eqb_refl. cbn. auto.
      * at_ref_off.
      * intros x [->|Hx]; auto.
    + destruct R as [R|R]; auto. exfalso. revert R. norep. rewrite (rinfos_noreply _ R5).
      destruct (has_data_flag _); [norep|injs]; discriminate.
  - repeat dlet H. inv H. split.
    + assert (K : keep s2 d).
      { destruct (has_data_flag _). 2:{ injs. Show. apply keep_refl. }
        repeat dlet E. destruct (_ && _); repeat dlet E; injs; keep_x. }
      eapply chg1_weaken; [|eapply FIN; [eapply tr_keep; [|exact T2]; keep_x| |]].
      * intros v ->. unfold at_ref. rewrite N.eqb_refl. cbn. auto.
      * at_ref_off.
      * auto.
    + destruct R as [R|R]; auto. exfalso. revert R. norep.
      destruct (has_data_flag _).
      * repeat dlet E. destruct (_ && _); repeat dlet E; injs; norep; discriminate.
      * injs. discriminate.
Qed.
