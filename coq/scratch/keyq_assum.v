From Slock Require Import Queue.SegQueue Queue.KeyQueues Queue.KeyQueuesProofs Queue.KeyWaitLockProofs.
Print Assumptions ring_push_abs. Print Assumptions ring_pop_abs.
Print Assumptions pq_push_abs. Print Assumptions pq_pop_abs. Print Assumptions pq_abs_sorted. Print Assumptions pq_len_abs.
Print Assumptions compact_spec. Print Assumptions fold_dec_ref_nowrap.
Print Assumptions wq_push_plain. Print Assumptions wq_push_prio. Print Assumptions wq_pop_abs. Print Assumptions wq_repush_abs. Print Assumptions wq_len_abs.
Print Assumptions lq_push_abs. Print Assumptions lq_pop_abs. Print Assumptions lq_len_abs. Print Assumptions lq_resize_abs. Print Assumptions lq_getlock_sound.
Check lq_push_abs.
