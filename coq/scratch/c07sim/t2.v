From Coq Require Import String.
From Slock Require Import Engine.Types Engine.Queues Engine.Timers Engine.Engine Engine.Engine2.
Open Scope N_scope.
Goal forall s x, store (s <| now := x |>) = store s.
Proof. intros. Time cbn. reflexivity. Qed.
Goal forall s x, now (s <| now := x |>) = x.
Proof. intros. reflexivity. Qed.
Goal forall s r f, now (updl s r f) = now s.
Proof. intros. unfold updl, setl. destruct (aget (store s) r); reflexivity. Qed.
Goal forall s k conn c, fst (new_lock s k conn c) = s.
Proof. intros. unfold new_lock. cbv zeta. cbn [fst]. Show. Abort.
