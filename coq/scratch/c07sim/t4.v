From Coq Require Import String ZifyN ZifyBool ZifyNat.
From Slock Require Import Engine.Types Engine.Queues Engine.Timers Engine.Engine Engine.Engine2 Restart.Recover Restart.SimBase.
Open Scope N_scope.

Lemma mgr_data_none m : m_data m = None -> m <| m_data := None |> = m.
Proof. destruct m; cbn. intros ->. reflexivity. Qed.
Lemma lock_data_none l : l_data l = None -> l <| l_data := None |> = l.
Proof. destruct l; cbn. intros ->. reflexivity. Qed.

Lemma updl_id s r l : awf (store s) -> aget (store s) r = Some l -> forall r', aget (store (updl s r (fun _ => l))) r' = aget (store s) r'.
Proof. intros W H r'. rewrite aget_updl. destruct (r =? r') eqn:E; auto. apply N.eqb_eq in E; subst. rewrite H. reflexivity. Qed.

(* effect frame: only record r and manager k may change *)
Record eff (s s' : db) (r k : N) : Prop := mkEff {
  ef_l : forall r', r' <> r -> aget (store s') r' = aget (store s) r';
  ef_m : forall k', k' <> k -> aget (mgrs s') k' = aget (mgrs s) k';
  ef_awf : awf (store s) -> awf (store s');
  ef_same : same_scalars s s';
  ef_next : next s' = next s }.

Lemma eff_refl s r k : eff s s r k. Proof. split; auto. apply same_refl. Qed.
Lemma eff_trans a b c r k : eff a b r k -> eff b c r k -> eff a c r k.
Proof.
  intros [A1 A2 A3 A4 A5] [B1 B2 B3 B4 B5]. split.
  - intros r' H. rewrite B1, A1; auto.
  - intros k' H. rewrite B2, A2; auto.
  - auto.
  - eapply same_trans; eauto.
  - congruence.
Qed.
Lemma next_updl s r f : next (updl s r f) = next s. Proof. unfold updl. destruct (aget (store s) r); reflexivity. Qed.
Lemma next_updm s k f : next (updm s k f) = next s. Proof. unfold updm. destruct (aget (mgrs s) k); reflexivity. Qed.
Lemma eff_updl s r f k : eff s (updl s r f) r k.
Proof.
  split.
  - intros r' H. apply aget_updl_other. congruence.
  - intros. rewrite mgrs_updl. reflexivity.
  - apply awf_updl.
  - apply same_updl.
  - apply next_updl.
Qed.
Lemma eff_updm s r f k : eff s (updm s k f) r k.
Proof.
  split.
  - intros. rewrite store_updm. reflexivity.
  - intros k' H. apply aget_updm_other. congruence.
  - rewrite store_updm. auto.
  - apply same_updm.
  - apply next_updm.
Qed.
Lemma eff_ewheel s x r k : eff s (s <| ewheel := x |>) r k.
Proof. split; auto. split; reflexivity. Qed.
Lemma eff_elong s x r k : eff s (s <| elong := x |>) r k.
Proof. split; auto. split; reflexivity. Qed.

Definition emit_mode (s : db) (l : lockrec) : Prop :=
  (leader s = true /\ c_flag (l_cmd l) = 0) \/ l_isaof l = true.

Definition lock_rec_of (l : lockrec) (ctime : Z) : aofrec :=
  let lc := l_cmd l in
  let st := (ctime - l_start l)%Z in
  mkAof true (N.land (c_flag lc) 18) (c_lockid lc) (c_key lc)
    (N.lor 0 (N.lor (if has (c_tflag lc) TF_REQUIRE_ACKED then AOF_FLAG_REQUIRE_ACKED else 0)
             (N.lor (if has (c_tflag lc) TF_PRIORITY then AOF_FLAG_RCOUNT_IS_PRIORITY else 0) 0)))
    ctime (if (st <? 0)%Z || (65535 <=? st)%Z then 65535 else Z.to_N st)
    (c_eflag lc) (aof_expried_time lc (l_eT l) ctime) (c_count lc) (c_rcount lc) None
    (if has (c_tflag lc) TF_REQUIRE_ACKED then Some 0 else None).

Lemma add_expried_spec s k r l m :
  aget (store s) r = Some l -> aget (mgrs s) k = Some m -> (checkE s <= l_eT l)%Z ->
  l_data l = None -> m_data m = None -> l_locked l = 1 -> emit_mode s l ->
  has (c_tflag (l_cmd l)) TF_REQUIRE_ACKED = false ->
  exists s' ev isaof',
    add_expried s k r = (s', ev) /\
    eff s s' r k /\
    aget (mgrs s') k = Some m /\
    (exists lg ec, aget (store s') r = Some (l <| l_expried := false |> <| l_long := lg |> <| l_isaof := isaof' |> <| l_refc := ec |>)) /\
    ((ev = [] /\ isaof' = l_isaof l) \/
     (leader s = true /\ l_isaof l = false /\ isaof' = true /\
      ev = [EAof (lock_rec_of l (if (now s <? l_eT l)%Z then now s else l_eT l))])).
Proof.
  intros Hr Hm Hc Hd Hmd Hlk Hmode Hack.
  unfold add_expried.
Abort.
