From Coq Require Import String ZifyN ZifyBool ZifyNat.
From Slock Require Import Engine.Types Engine.Queues Engine.Timers Engine.Engine Engine.Engine2 Restart.Recover Restart.SimBase.
Open Scope N_scope.

Definition lock_simple (c : cmd) : Prop :=
  c_lock c = true /\ (c_flag c = 0 \/ c_flag c = 4) /\ c_tflag c = 0 /\ c_timeout c = 0
  /\ has (c_eflag c) EF_MILLISECOND = false /\ c_data c = None.
Definition mode_ok (s : db) (fl : N) : Prop := (leader s = true /\ fl = 0) \/ (leader s = false /\ fl = 4).
Definition key_free (s : db) (k : N) : Prop :=
  match aget (mgrs s) k with None => True | Some m => m_locked m = 0 /\ m_cur m = None /\ m_waited m = false end.
Definition ensure_mgr (s : db) (k : N) : db :=
  match aget (mgrs s) k with
  | Some _ => s
  | None => bump (fun n => n <| n_key := (n_key n + 1)%Z |>) (setm s k new_mgr)
  end.

Definition grant_path (s : db) (conn : N) (c : cmd) : db * list event * option wake :=
  let k := c_key c in
  let s0 := ensure_mgr s k in
  let '(s1, r) := new_lock s0 k conn c in
  let before := m_locked (getm s1 k) in
  let cc := cur_count s1 k in
  let s2 := updm (add_lock s1 k r) k (fun m => m <| m_locked := add32 (m_locked m) 1 |>) in
  let ldata := data_of s2 k in
  let '(s3, aev) := add_expried s2 k r in
  let s4 := updl s3 r (fun l => l <| l_refc := add8 (l_refc l) 1 |>) in
  let s5 := bump (fun n => n <| n_lock := (n_lock n + 1)%Z |> <| n_locked := (n_locked n + 1)%Z |>) s4 in
  (s5, [EGrant k r true before cc (c_count c)] ++ [] ++ aev ++ [reply conn c R_SUCCED (m_locked (getm s5 k)) (l_locked (getl s5 r)) ldata], None).


Lemma getm_ensure_free s k : key_free s k ->
  m_locked (getm (ensure_mgr s k) k) = 0 /\ m_cur (getm (ensure_mgr s k) k) = None /\ m_waited (getm (ensure_mgr s k) k) = false.
Proof.
  unfold key_free, ensure_mgr. destruct (aget (mgrs s) k) eqn:E.
  - rewrite (getm_some _ _ _ E). auto.
  - intros _. unfold getm, bump, updc, setm. cbn. rewrite N.eqb_refl. cbn. auto.
Qed.
Lemma leader_ensure s k : leader (ensure_mgr s k) = leader s.
Proof. unfold ensure_mgr. destruct (aget (mgrs s) k); reflexivity. Qed.

Lemma lock_step_grant s conn c :
  lock_simple c -> mode_ok s (c_flag c) -> 0 < c_expried c -> key_free s (c_key c) ->
  lock_step s conn c = grant_path s conn c.
Proof.
  intros (Hl & Hf & Ht & Hto & Hms & Hd) Hm He Hk.
  destruct (getm_ensure_free s (c_key c) Hk) as (G1 & G2 & G3).
  pose proof (leader_ensure s (c_key c)) as G4.
  unfold lock_step, grant_path. fold (ensure_mgr s (c_key c)).
  Time cbv zeta.
  assert (F8 : has (c_flag c) LOCK_FLAG_CONCURRENT_CHECK = false) by (destruct Hf as [-> | ->]; reflexivity).
  Time rewrite F8. cbn [andb].
  assert (F4 : negb (leader s) && negb (has (c_flag c) LOCK_FLAG_FROM_AOF) = false).
  { destruct Hm as [[-> ->] | [-> ->]]; reflexivity. }
  Time rewrite G4, F4, G1. 
  change (0 <? 0) with false. cbv iota.
  rewrite Ht. change (has 0 TF_WAIT_WHEN_UNLOCK) with false. cbv iota beta.
  Show.
Abort.
