From Coq Require Import String.
From Slock Require Import Engine.Types Engine.Queues Engine.Timers Engine.Engine Engine.Engine2.
From Slock Require Import Restart.Recover Restart.RestartProofs.
Open Scope Z_scope.
(* (a) shared counts: x(5,10s) y(1,100s) z(5) w(5), x expires *)
Definition actsA : list action :=
  [AReq 1 (lockc 1 0 101 7 0 0 256 10 5 0); AReq 1 (lockc 2 0 102 7 0 0 256 100 1 0);
   AReq 1 (lockc 3 0 103 7 0 0 256 100 5 0); AReq 1 (lockc 4 0 104 7 0 0 256 100 5 0)] ++ ticks 15.
Eval vm_compute in (let '(s, recs, s') := run_and_recover 1000 1 actsA 1050 1050 in (holds_of s, holds_of s', map (fun h => h_isaof h) (holds_full s))).
(* (b) expried 65535 seconds, persist immediately *)
Definition actsB : list action := [AReq 1 (lockc 1 0 101 7 0 0 256 65535 0 0)] ++ ticks 2.
Eval vm_compute in (let '(s, recs, s') := run_and_recover 1000 1 actsB 1005 1005 in (holds_of s, holds_of s', recs, map (fun h => h_isaof h) (holds_full s))).
(* (c) 65534 *)
Definition actsC : list action := [AReq 1 (lockc 1 0 101 7 0 0 256 65534 0 0)] ++ ticks 2.
Eval vm_compute in (let '(s, recs, s') := run_and_recover 1000 1 actsC 1005 1005 in (holds_of s, holds_of s', map (fun h => h_isaof h) (holds_full s))).
