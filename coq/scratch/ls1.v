From Coq Require Import String ZifyN ZifyBool ZifyNat.
From Slock Require Import Engine.Types Engine.Queues Engine.Timers Engine.Engine Engine.Engine2 Engine.ReplyBase Engine.ReplyLocal.
Open Scope N_scope.
Goal forall s conn c s' ev w, lock_step s conn c = (s', ev, w) -> core_cmd c -> False.
Proof.
  intros s conn c s' ev w H (Hack & Hms & Hems & Hdata).
  unfold lock_step in H. cbv beta zeta in H.
  Time brk.
  all: let n := numgoals in idtac n.
  150: idtac. Show 150. Show 60. Show 100.
Abort.
