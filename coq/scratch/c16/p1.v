From Coq Require Import List NArith ZArith Bool Lia PeanoNat.
From Slock Require Import Aof.AofRec Aof.AofFile Aof.AofLoad Aof.AofProofs Aof.Rewrite.
Import ListNotations.
Open Scope N_scope.

(* ------------------------------------------------------------------ the entry guard *)
Definition ginv (g : guard) : Prop :=
  (g_rewriting g = true /\ g_active g = 1%nat) \/ (g_rewriting g = false /\ g_active g = 0%nat).

Lemma gstep_inv g e : ginv g -> ginv (gstep true g e).
Proof.
  destruct g as [r w a]. unfold ginv. cbn [g_rewriting g_active].
  intros [[-> ->]|[-> ->]]; destruct e; cbn; auto.
Qed.

Lemma grun_inv evs : forall g, ginv g -> ginv (grun true evs g).
Proof. induction evs as [|e tl IH]; intros g H; [exact H|]. apply IH, gstep_inv, H. Qed.

Theorem guard_at_most_one evs :
  let g := grun true evs g_idle in
  (g_active g <= 1)%nat /\ (g_rewriting g = true <-> g_active g = 1%nat).
Proof.
  cbv zeta. destruct (grun_inv evs g_idle) as [[H1 H2]|[H1 H2]]; [right; split; reflexivity| |].
  - rewrite H1, H2. split; [lia|tauto].
  - rewrite H1, H2. split; [lia|]. split; discriminate.
Qed.

(* a request while a compaction runs changes nothing at all: no flag, no second compaction *)
Theorem guard_request_while_rewriting g : g_rewriting g = true -> gstep true g GRequest = g /\ gmark_of true g GRequest = [].
Proof. intros H. unfold gstep, gmark_of, g_blocked. rewrite H. split; reflexivity. Qed.

(* a request in any other state starts one, and clears the wait flag *)
Theorem guard_request_when_not_rewriting g : g_rewriting g = false ->
  gstep true g GRequest = mkguard true false (S (g_active g)) /\ gmark_of true g GRequest = [GStarted].
Proof. intros H. unfold gstep, gmark_of, g_blocked. rewrite H. split; reflexivity. Qed.

Lemma glog_alt evs : forall g, ginv g -> alternates (negb (g_rewriting g)) (glog true evs g) = true.
Proof.
  induction evs as [|e tl IH]; intros g H; [reflexivity|].
  cbn [glog]. pose proof (gstep_inv g e H) as H'. specialize (IH _ H').
  destruct g as [r w a]. destruct H as [[Hr Ha]|[Hr Ha]]; cbn [g_rewriting g_active] in Hr, Ha; subst r a;
    destruct e; cbn in *; exact IH.
Qed.

(* every compaction starts after the previous one has finished: Started / Finished alternate in every history *)
Theorem guard_starts_alternate evs : alternates true (glog true evs g_idle) = true.
Proof. apply (glog_alt evs g_idle). right; split; reflexivity. Qed.

(* the switch matters: a guard on the other flag lets two compactions run at once *)
Theorem guard_on_other_flag_overlaps :
  g_active (grun false [GRequest; GRequest] g_idle) = 2%nat /\ alternates true (glog false [GRequest; GRequest] g_idle) = false.
Proof. split; reflexivity. Qed.
