From Coq Require Import String ZifyN ZifyBool ZifyNat.
From Slock Require Import Engine.Types Engine.Queues Engine.Timers Engine.Engine Engine.Engine2 Engine.ReplyBase Engine.ReplyLocal Engine.ReplyLive.
Open Scope N_scope.




Lemma new_lock_facts S0 k conn c s1 r :
  new_lock S0 k conn c = (s1, r) -> hdead S0 -> r = next S0 /\ dead s1 r /\ hdead s1.
Proof.
  intros Hn Hd. destruct (new_lock_tr _ _ _ _ _ _ Hn) as (Hr & T & P & V & _).
  split; auto. split.
  - unfold dead. unfold view_of in V. inv V. auto.
  - intros x Hx. apply (tr_h _ _ _ _ _ T) in Hx. apply Hd in Hx.
    unfold dead, getl in *. destruct (aget (store s1) x) as [l'|] eqn:El; auto.
    destruct (tr_v _ _ _ _ _ T _ _ El) as (v0 & Hv & Ev). unfold ovr in Hv. unfold idg in Ev.
    assert (Ht : l_timeouted l' = v_to v0) by (rewrite <- Ev; reflexivity). clear Ev.
    destruct (x =? r) eqn:Ex.
    + inv Hv. exact Ht.
    + unfold base in Hv. destruct (aget (store S0) x) as [l0|]; [|discriminate]. inv Hv.
      rewrite Ht. exact Hx.
Qed.

Ltac plx_x2 := repeat first
  [ plx_r1 | plx_eq
  | match goal with |- plx _ _ _ _ (if ?b then _ else _) => destruct b end
  | match goal with |- plx _ _ _ _ (add_timeout _ _) => eapply plx_trans; [|apply plx_add_timeout] end
  | match goal with |- plx _ _ _ _ (free_lock _ _) => apply plx_r_free end
  | match goal with |- plx _ _ _ _ (add_wait_lock _ _ _) => eapply plx_trans; [|apply plx_add_wait_lock] end
  | match goal with |- plx _ _ _ _ (add_lock _ _ _) => eapply plx_trans; [|apply plx_add_lock] end
  | match goal with HU : update_and_rearm _ _ _ _ = (?s', _) |- plx _ _ _ _ ?s' =>
      eapply plx_trans; [|eapply plx_update_and_rearm; [exact HU|]] end
  | match goal with HE : add_expried _ _ _ = (?s', _) |- plx _ _ _ _ ?s' =>
      eapply plx_trans; [|eapply plx_add_expried; [exact HE|]] end
  | match goal with Hn : new_lock _ _ _ _ = (?s', _) |- plx _ _ _ _ ?s' =>
      eapply plx_trans; [|eapply plx_new_lock; [exact Hn|]] end ].

Lemma lock_step_pl s conn c s' ev w :
  lock_step s conn c = (s', ev, w) -> core_cmd c -> hdead s ->
  plx (eq (next s)) (fun x => x = next s \/ href s x) (eq (next s)) s s'.
Proof.
  intros H Hcore Hd. assert (Hcore0 := Hcore). destruct Hcore as (Hack & Hms & Hems & Hdata).
  unfold lock_step in H. cbv beta zeta in H.
  set (k := c_key c) in *.
  match type of H with context [if has (c_flag c) LOCK_FLAG_SHOW then ?a else c] =>
    set (c1 := if has (c_flag c) LOCK_FLAG_SHOW then a else c) in H end.
  assert (Hc1 : c_req c1 = c_req c /\ c_tflag c1 = c_tflag c /\ c_eflag c1 = c_eflag c /\ c_data c1 = c_data c
                /\ c_key c1 = c_key c).
  { subst c1. destruct (has (c_flag c) LOCK_FLAG_SHOW); cbn; auto. }
  clearbody c1. destruct Hc1 as (Hreq1 & Htf1 & Hef1 & Hd1 & Hk1).
  destruct (aget (mgrs s) k) as [m0|] eqn:Hmgr.
  all: cbv iota in H.
  all: brk.
  all: repeat match goal with HP : process_data _ _ _ _ _ = _ |- _ =>
         rewrite process_data_nodata in HP by congruence; injs end.
  all: try congruence.
  all: try solve [exfalso; match goal with HB : (0 <? m_locked (getm (bump _ (setm _ _ new_mgr)) _)) = true |- _ =>
         rewrite getm_bump_setm_new in HB; vm_compute in HB; discriminate HB end].
  all: try solve [exfalso; rewrite ?Htf1 in *; rewrite ?Hef1 in *;
         repeat match goal with HB : _ && _ = true |- _ => apply andb_true_iff in HB; destruct HB end; congruence].
  all: try match goal with Hn : new_lock ?S0 _ _ _ = (?s1, ?r) |- _ =>
         let HS0 := fresh "HS0" in
         assert (HS0 : hdead S0) by (hdead_from Hd);
         destruct (new_lock_facts _ _ _ _ _ _ Hn HS0) as (Hr & D1 & H1) end.
  all: plx_x2.
  all: let n := numgoals in idtac n.
  all: try solve [match goal with D1 : dead _ _ |- _ => dead_from D1 end].
  all: try solve [match goal with H1 : hdead _ |- _ => exact H1 end].
  all: try solve [subst; reflexivity].
  all: try solve [left; subst; reflexivity].
  all: try solve [right; apply (getm_href _ k); eapply get_locked_lock_href; eassumption].
  all: let n := numgoals in idtac n.
  Show 1. 
Abort.
