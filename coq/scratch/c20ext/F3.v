From Coq Require Import List ZArith NArith Bool Lia.
From Slock Require Import Queue.SegQueue Queue.ListLemmas Queue.SegQueueInv Queue.SegQueueOps Queue.SegQueueFrame Queue.LongWait.
From Slock Require Import scratch.c20ext.F2.
Import ListNotations.
Open Scope Z_scope.

Lemma iset_same st x v : iset st x v x = v.
Proof. unfold iset. rewrite N.eqb_refl. reflexivity. Qed.
Lemma iset_other st x v y : y <> x -> iset st x v y = st y.
Proof. unfold iset. intros. destruct (N.eqb_spec y x); congruence. Qed.

Lemma firstn_le_agree {A} (l l' : list A) n m : (m <= n)%nat -> firstn n l = firstn n l' -> firstn m l = firstn m l'.
Proof.
  intros H E. replace m with (Nat.min m n) by lia. rewrite <- !firstn_firstn. rewrite E. reflexivity.
Qed.

(* ---------- Push ---------- *)
Lemma lw_push_spec st l x :
  LWInv st l -> ~ In x (ids (lw_abs l)) -> Z.of_nat (length (queues (lw_locks l))) + 1 < P31 ->
  exists l' st', lw_push st l x = Ok (l', st') /\ LWInv st' l' /\ lw_abs l' = lw_abs l ++ [Some x] /\
    lw_count l' = lw_count l + 1 /\ lw_free l' = lw_free l /\ lw_time l' = lw_time l /\
    (forall y, y <> x -> st' y = st y) /\
    hp (lw_locks l') = hp (lw_locks l) /\ tp (lw_locks l') = tp (lw_locks l) + 1 /\
    baseQueueSize (lw_locks l') = baseQueueSize (lw_locks l) /\
    ((tailQueueIndex (lw_locks l) + 1 < tailQueueSize (lw_locks l) \/
      exists id, zget (queues (lw_locks l)) (tailNodeIndex (lw_locks l) + 1) = Some (Some id)) ->
       queues (lw_locks l') = queues (lw_locks l) /\ nodeQueueSizes (lw_locks l') = nodeQueueSizes (lw_locks l) /\
       flat (lw_locks l') = upd (flat (lw_locks l)) (Z.to_nat (tp (lw_locks l))) (Some x)).
Proof.
  intros [I B LN ND IDX CNT] NI G. unfold lw_abs in *. set (q := lw_locks l) in *.
  destruct (Push_strong q (Some x) I) as (q' & E & I' & A & HP & TP & BQ & TN & LQ & SZ & FR).
  unfold lw_push. fold q. rewrite E, bind_Ok. eexists _, _. split; [reflexivity|].
  cbn [lw_locks lw_count lw_free lw_time].
  destruct (Inv_pos q I) as (P0 & P1 & P2 & PE & Hhs & Hts & Hh & Ht).
  pose proof (abs_length q I) as AL.
  split; [|split; [exact A|split; [reflexivity|split; [reflexivity|split; [reflexivity|split; [intros; apply iset_other; auto|]]]]]].
  2:{ split; [exact HP|]. split; [exact TP|]. split; [exact BQ|exact FR]. }
  constructor; cbn [lw_locks lw_count lw_free lw_time set_locks]; auto.
  - lia.
  - lia.
  - rewrite A, ids_app. cbn. apply NoDup_app_snoc; auto.
  - intros i y Hi. rewrite A in Hi. rewrite HP.
    destruct (Nat.lt_ge_cases i (length (abs q))) as [Lt|Ge].
    + rewrite nth_error_app1 in Hi by auto.
      assert (y <> x). { intros ->. apply NI. apply ids_In. eauto. }
      destruct (IDX i y Hi) as (node & k & S1 & C1). exists node, k. rewrite iset_other by auto. split; auto.
      assert (node <= tailNodeIndex q) by (eapply coord_le_tail; eauto; lia).
      eapply coord_prefix; [|exact C1]. eapply firstn_le_agree; [|exact SZ]. destruct C1. lia.
    + rewrite nth_error_app2 in Hi by auto. destruct (i - length (abs q))%nat eqn:D; cbn in Hi; [|destruct n; discriminate].
      injection Hi as <-. assert (i = length (abs q)) by lia. subst i.
      exists (tailNodeIndex q), (tailQueueIndex q). rewrite iset_same. split; auto.
      eapply coord_prefix; [exact SZ|]. split; [pose proof (I_hni q I); pose proof (I_ht q I); lia|].
      exists (tailQueueSize q). split; auto. split; [apply (I_tqi q I)|]. unfold tp in AL. unfold tp, hp in *. lia.
  - rewrite A, ids_app, app_length. cbn. lia.
Qed.

(* ---------- Pop ---------- *)
Lemma lw_pop_spec st l :
  LWInv st l ->
  exists l' st', lw_pop st l = Ok (l', st', hd_slot (lw_abs l)) /\ LWInv st' l' /\ lw_abs l' = tl (lw_abs l) /\
    lw_count l' = lw_count l - (match hd_slot (lw_abs l) with Some _ => 1 | None => 0 end) /\
    lw_free l' = lw_free l /\ lw_time l' = lw_time l.
Proof.
  intros [I B LN ND IDX CNT]. unfold lw_abs in *. set (q := lw_locks l) in *.
  destruct (Pop_spec q I) as (q' & E & I' & A & R).
  destruct (Pop_frame _ _ _ E) as (F1 & F2 & F3 & F4 & F5).
  unfold lw_pop. fold q. rewrite E, bind_Ok.
  assert (CO : forall node k p, coord q node k p -> coord q' node k p).
  { intros node k p (N0 & s & Hs & Hk & Hp). split; auto. exists s. rewrite F2. auto. }
  assert (EM : is_empty q = true <-> abs q = []).
  { destruct (Inv_pos q I) as (P0 & P1 & P2 & PE & _). pose proof (abs_length q I) as L.
    destruct (is_empty q); split; intros; auto; try discriminate.
    - destruct (abs q); auto. cbn [length] in L. lia.
    - rewrite H in L. cbn in L. lia. }
  destruct (abs q) as [|h t] eqn:EA.
  - (* empty *)
    cbn [hd_slot tl] in *. eexists _, _. split; [reflexivity|]. cbn [lw_locks lw_count lw_free lw_time set_locks].
    split; [|split; [exact A|split; [lia|split; reflexivity]]].
    constructor; cbn [lw_locks lw_count lw_free lw_time set_locks]; auto.
    + rewrite F5. auto. + rewrite F1. auto. + rewrite A. constructor.
    + intros i y Hi. rewrite A in Hi. destruct i; discriminate.
    + rewrite A. cbn in *. lia.
  - assert (NE : is_empty q = false). { destruct (is_empty q); auto. destruct EM as [EM _]. specialize (EM eq_refl). discriminate. }
    rewrite NE in R. unfold room in R. cbn [hd_slot tl] in *.
    assert (IDX' : forall st', (forall y, In y (ids t) -> st' y = st y) ->
              forall i y, nth_error (abs q') i = Some (Some y) ->
              exists node k, st' y = enc node (k + 1) /\ coord q' node k (hp q' + Z.of_nat i)).
    { intros st' Hst i y Hi. rewrite A in Hi. destruct (IDX (S i) y Hi) as (node & k & S1 & C1).
      exists node, k. rewrite Hst by (apply ids_In; eauto). split; auto. apply CO.
      replace (hp q' + Z.of_nat i) with (hp q + Z.of_nat (S i)) by lia. exact C1. }
    destruct h as [x|]; eexists _, _; (split; [reflexivity|]); cbn [lw_locks lw_count lw_free lw_time set_locks].
    + cbn [ids] in ND, CNT. apply NoDup_cons_iff in ND. destruct ND as [NI ND].
      split; [|split; [exact A|split; [lia|split; reflexivity]]].
      constructor; cbn [lw_locks lw_count lw_free lw_time set_locks]; auto.
      * rewrite F5. auto. * rewrite F1. auto. * rewrite A. auto.
      * apply IDX'. intros y Hy. apply iset_other. intros ->. tauto.
      * rewrite A. cbn [length] in CNT. lia.
    + cbn [ids] in ND, CNT.
      split; [|split; [exact A|split; [lia|split; reflexivity]]].
      constructor; cbn [lw_locks lw_count lw_free lw_time set_locks]; auto.
      * rewrite F5. auto. * rewrite F1. auto. * rewrite A. auto.
      * rewrite A. lia.
Qed.

(* ---------- Remove ---------- *)
Lemma lw_remove_spec st l x :
  LWInv st l -> In x (ids (lw_abs l)) ->
  exists l' st', lw_remove st l x = Ok (l', st') /\ LWInv st' l' /\ lw_abs l' = blank x (lw_abs l) /\
    lw_count l' = lw_count l /\ lw_free l' = lw_free l + 1 /\ lw_time l' = lw_time l /\
    queues (lw_locks l') = queues (lw_locks l) /\ tailNodeIndex (lw_locks l') = tailNodeIndex (lw_locks l) /\
    baseQueueSize (lw_locks l') = baseQueueSize (lw_locks l).
Proof.
  intros [I B LN ND IDX CNT] IN. unfold lw_abs in *. set (q := lw_locks l) in *.
  destruct (proj1 (ids_In _ _) IN) as (i & Hi).
  destruct (IDX i x Hi) as (node & k & S1 & C1).
  pose proof (abs_length q I) as AL.
  assert (Li : (i < length (abs q))%nat) by (apply nth_error_Some; congruence).
  assert (W : hp q <= hp q + Z.of_nat i < tp q) by lia.
  assert (NB : 0 <= node < P31 /\ 0 <= k < P31 - 1).
  { destruct C1 as (N0 & s & Hs & Hk & Hp).
    assert ((Z.to_nat node < length (nodeQueueSizes q))%nat) by (apply nth_error_Some; congruence).
    rewrite (nodes_ok_length q (I_nodes q I)) in H.
    pose proof (I_szb q I) as SB. rewrite Forall_forall in SB. specialize (SB s (nth_error_In _ _ Hs)).
    unfold P31, POW30 in *. lia. }
  destruct (dec_enc node k (proj1 NB) (proj2 NB)) as (D1 & D2 & D3).
  destruct (Hole_spec q node k _ I C1 W) as (a & h' & G1 & G2 & G3 & G4).
  unfold lw_remove. fold q. rewrite S1, D1, D2, G1, bind_Ok, G2, bind_Ok.
  eexists _, _. split; [reflexivity|]. cbn [lw_locks lw_count lw_free lw_time].
  replace (Z.to_nat (hp q + Z.of_nat i - hp q)) with i in G4 by lia.
  rewrite <- (blank_upd x (abs q) i ND Hi) in G4.
  split; [|split; [exact G4|split; [reflexivity|split; [reflexivity|split; [reflexivity|split; [reflexivity|split; reflexivity]]]]]].
  constructor; cbn [lw_locks lw_count lw_free lw_time set_locks]; auto.
  - rewrite G4, ids_blank. apply NoDup_filter. exact ND.
  - intros j y Hj. rewrite G4 in Hj.
    assert (YX : y <> x).
    { intros ->. assert (In x (ids (blank x (abs q)))) by (apply ids_In; eauto).
      rewrite ids_blank, filter_In, N.eqb_refl in H. cbn in H. destruct H; discriminate. }
    assert (Hj' : nth_error (abs q) j = Some (Some y)).
    { unfold blank in Hj. rewrite nth_error_map in Hj. destruct (nth_error (abs q) j) as [[z|]|]; cbn in Hj; try discriminate.
      destruct (N.eqb z x); [discriminate|]. exact Hj. }
    destruct (IDX j y Hj') as (n2 & k2 & S2 & C2). exists n2, k2. rewrite iset_other by auto. split; auto.
  - rewrite G4, ids_blank. pose proof (filter_neq_length x (ids (abs q)) ND IN). lia.
Qed.

Lemma lw_len_spec st l : LWInv st l -> lw_len l = Ok (Z.of_nat (length (lw_abs l))).
Proof. intros [I _ _ _ _ _]. apply Len_spec. exact I. Qed.
