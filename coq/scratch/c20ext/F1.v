From Coq Require Import List ZArith Bool Lia.
From Slock Require Import Queue.SegQueue Queue.ListLemmas Queue.SegQueueInv Queue.SegQueueOps.
Import ListNotations.
Open Scope Z_scope.

Lemma firstn_app_le {A} (l r : list A) n : (n <= length l)%nat -> firstn n (l ++ r) = firstn n l.
Proof. intros. rewrite firstn_app. replace (n - length l)%nat with O by lia. cbn. apply app_nil_r. Qed.

Lemma bind_Panic {A B} (f : A -> res B) : bind Panic f = Panic.
Proof. reflexivity. Qed.

(* symbolic execution of a monadic hypothesis: reduce `bind (Ok _)`, case-split every checked access `lift (..)` *)
Ltac run_in H :=
  repeat first
    [ rewrite bind_Ok in H; sq_cbn
    | match type of H with context [bind (lift ?z) _] => let E := fresh "E" in destruct z eqn:E; cbn [lift] in H end
    | rewrite bind_Panic in H ];
  try discriminate.

Lemma malloc_frame q q' : 0 <= tailNodeIndex q -> (Z.to_nat (tailNodeIndex q) < length (nodeQueueSizes q))%nat ->
  mallocQueue q = Ok q' ->
  baseQueueSize q' = baseQueueSize q /\ tailNodeIndex q' = tailNodeIndex q + 1 /\
  (length (queues q') <= S (length (queues q)))%nat /\
  firstn (S (Z.to_nat (tailNodeIndex q))) (nodeQueueSizes q') = firstn (S (Z.to_nat (tailNodeIndex q))) (nodeQueueSizes q) /\
  (forall id, tailNodeIndex q + 1 < nodeSize q -> zget (queues q) (tailNodeIndex q + 1) = Some (Some id) ->
     queues q' = queues q /\ nodeQueueSizes q' = nodeQueueSizes q /\ heap q' = heap q).
Proof.
  intros T0 TL H. unfold mallocQueue in H. sq_cbn.
  destruct (Z.geb_spec (tailNodeIndex q + 1) (nodeSize q)) as [G|G].
  - unfold make, getq, gets in H. sq_cbn. destruct (next_size (queueSize q) <? 0); [cbn [bind] in H; discriminate|].
    run_in H. sq_cbn. injection H as <-. sq_cbn. repeat split; auto; try (intros; lia).
    + rewrite app_length. cbn. lia.
    + apply firstn_app_le. lia.
  - unfold getq at 1 in H. sq_cbn. destruct (zget (queues q) (tailNodeIndex q + 1)) as [a|] eqn:EA; [|cbn [lift bind] in H; discriminate].
    cbn [lift] in H. rewrite bind_Ok in H. sq_cbn.
    destruct a as [id|].
    + unfold getq, gets in H. sq_cbn. run_in H. injection H as <-. sq_cbn. repeat split; auto.
    + unfold make, setq, sets, getq, gets in H. sq_cbn. destruct (next_size (queueSize q) <? 0); [cbn [bind] in H; discriminate|].
      run_in H. sq_cbn. injection H as <-. sq_cbn.
      repeat match goal with E : zset _ _ _ = Some _ |- _ => unfold zset in E end.
      repeat match goal with E : (if ?c then _ else _) = Some _ |- _ => destruct c; [injection E as <-|discriminate] end.
      repeat split; auto; try (intros; congruence).
      * rewrite upd_length. lia.
      * apply firstn_upd_ge. lia.
Qed.

(* ---------- Push with its frame ---------- *)
Lemma Push_strong q v : Inv q ->
  exists q', Push q v = Ok q' /\ Inv q' /\ abs q' = abs q ++ [v] /\ hp q' = hp q /\ tp q' = tp q + 1 /\
    baseQueueSize q' = baseQueueSize q /\
    tailNodeIndex q <= tailNodeIndex q' <= tailNodeIndex q + 1 /\
    (length (queues q') <= S (length (queues q)))%nat /\
    firstn (S (Z.to_nat (tailNodeIndex q))) (nodeQueueSizes q') = firstn (S (Z.to_nat (tailNodeIndex q))) (nodeQueueSizes q) /\
    ((tailQueueIndex q + 1 < tailQueueSize q \/ exists id, zget (queues q) (tailNodeIndex q + 1) = Some (Some id)) ->
       queues q' = queues q /\ nodeQueueSizes q' = nodeQueueSizes q /\ flat q' = upd (flat q) (Z.to_nat (tp q)) v).
Proof.
  intros I. destruct (Push_spec q v I) as (q' & E & I' & A & R). exists q'.
  split; [exact E|]. split; [exact I'|]. split; [exact A|]. split; [exact R|].
  assert (TP : tp q' = tp q + 1).
  { pose proof (abs_length q I) as L1. pose proof (abs_length q' I') as L2. rewrite A, app_length, Nat2Z.inj_add in L2.
    cbn [length] in L2. change (Z.of_nat 1) with 1 in L2. unfold room in R. lia. }
  split; [exact TP|].
  destruct (Inv_pos q I) as (P0 & P1 & P2 & PE & Hhs & Hts & Hh & Ht).
  destruct (wr_node q _ _ _ (tailQueueIndex q) v (I_nodes q I) (I_nodup q I) Ht Hts (I_tqi q I)) as (h' & W & HL & NO & FL).
  fold (tp q) in FL.
  unfold Push in E. rewrite W in E. rewrite bind_Ok in E. sq_cbn.
  pose proof (nodes_ok_length q (I_nodes q I)) as LEN.
  destruct (Z.geb_spec (tailQueueIndex q + 1) (tailQueueSize q)) as [G|G].
  - rewrite malloc_ignores_tqi in E.
    assert (T0 : 0 <= tailNodeIndex (set_heap q h')) by (sq_cbn; destruct I; lia).
    assert (T1 : (Z.to_nat (tailNodeIndex (set_heap q h')) < length (nodeQueueSizes (set_heap q h')))%nat) by (sq_cbn; destruct I; lia).
    destruct (malloc_frame _ _ T0 T1 E) as (F1 & F2 & F3 & F4 & F5).
    sq_cbn. split; [exact F1|]. split; [lia|]. split; [exact F3|]. split; [exact F4|].
    intros [C|(id & C)]; [lia|].
    assert (NS : tailNodeIndex q + 1 < nodeSize q).
    { apply zget_inv in C. rewrite (I_ns q I). lia. }
    destruct (F5 id NS C) as (G1 & G2 & G3). sq_cbn. split; [exact G1|]. split; [exact G2|].
    rewrite (flat_ext q' (set_heap q h')) by (sq_cbn; auto). apply FL; reflexivity.
  - injection E as <-. sq_cbn. split; [reflexivity|]. split; [lia|]. split; [lia|]. split; [reflexivity|].
    intros _. split; [reflexivity|]. split; [reflexivity|].
    rewrite (flat_ext _ (set_heap q h')) by reflexivity. apply FL; reflexivity.
Qed.

(* ---------- Pop: computational frame ---------- *)
Lemma Pop_frame q q' v : Pop q = Ok (q', v) ->
  queues q' = queues q /\ nodeQueueSizes q' = nodeQueueSizes q /\ tailNodeIndex q' = tailNodeIndex q /\
  tailQueueIndex q' = tailQueueIndex q /\ baseQueueSize q' = baseQueueSize q.
Proof.
  intros H. unfold Pop in H. destruct (is_empty q).
  - injection H as <- <-. auto.
  - unfold rd, wr in H. destruct (headQueue q) as [id|]; [|run_in H].
    run_in H. destruct (zset (arr q (Some id)) (headQueueIndex q) None); [|run_in H].
    run_in H. destruct (headQueueIndex q + 1 >=? headQueueSize q).
    + unfold getq, gets in H. sq_cbn. run_in H. injection H as <- <-. sq_cbn. auto.
    + run_in H. injection H as <- <-. sq_cbn. auto.
Qed.

(* ---------- coordinates of a flat position ---------- *)
Definition coord (q : sq) (node k p : Z) : Prop :=
  0 <= node /\ exists s, nth_error (nodeQueueSizes q) (Z.to_nat node) = Some s /\ 0 <= k < s /\
                         off (nodeQueueSizes q) (Z.to_nat node) + k = p.

Lemma locate_list (sz : list Z) : Forall (fun s => 0 <= s) sz -> forall j p, 0 <= p < off sz j ->
  exists n s, (n < j)%nat /\ nth_error sz n = Some s /\ 0 <= p - off sz n < s.
Proof.
  intros NN. induction j as [|j IH]; intros p Hp.
  - rewrite off_0 in Hp. lia.
  - destruct (nth_error sz j) as [s|] eqn:E.
    + rewrite (off_S _ _ _ E) in Hp. destruct (Z.lt_ge_cases p (off sz j)).
      * destruct (IH p ltac:(lia)) as (n & s' & A & B & C). exists n, s'. split; [lia|auto].
      * exists j, s. split; [lia|]. split; auto. lia.
    + assert (off sz (S j) = off sz j).
      { unfold off. apply nth_error_None in E. rewrite !firstn_all2 by lia. reflexivity. }
      destruct (IH p ltac:(lia)) as (n & s' & A & B & C). exists n, s'. split; [lia|auto].
Qed.

Lemma coord_exists q p : Inv q -> 0 <= p < tp q -> exists node k, coord q node k p /\ node <= tailNodeIndex q.
Proof.
  intros I Hp. destruct (Inv_pos q I) as (P0 & P1 & P2 & PE & Hhs & Hts & Hh & Ht).
  pose proof (sizes_nonneg q (I_nodes q I)) as NN.
  assert (B : p < off (nodeQueueSizes q) (S (Z.to_nat (tailNodeIndex q)))).
  { rewrite (off_S _ _ _ Hts). unfold tp in Hp. pose proof (I_tqi q I). lia. }
  destruct (locate_list _ NN (S (Z.to_nat (tailNodeIndex q))) p ltac:(lia)) as (n & s & A1 & A2 & A3).
  exists (Z.of_nat n), (p - off (nodeQueueSizes q) n). split.
  - split; [lia|]. exists s. rewrite Nat2Z.id. split; auto. split; [lia|lia].
  - pose proof (I_hni q I). pose proof (I_ht q I). lia.
Qed.

(* ---------- clearing a live slot in place ---------- *)
Lemma firstn_upd_lt {A} (l : list A) n v k : (n < k)%nat -> firstn k (upd l n v) = upd (firstn k l) n v.
Proof.
  revert n k; induction l; intros n k H; destruct n, k; simpl; auto; try lia. f_equal. apply IHl. lia.
Qed.

Lemma seg_upd_in {A} (l : list A) a b p v : 0 <= a <= p -> p < b ->
  seg (upd l (Z.to_nat p) v) a b = upd (seg l a b) (Z.to_nat (p - a)) v.
Proof.
  intros H1 H2. unfold seg. rewrite skipn_upd_ge by lia. rewrite firstn_upd_lt by lia.
  f_equal. lia.
Qed.

Lemma Hole_spec q node k p : Inv q -> coord q node k p -> hp q <= p < tp q ->
  exists a h', getq q node = Ok a /\ wr q a k None = Ok (set_heap q h') /\ Inv (set_heap q h') /\
               abs (set_heap q h') = upd (abs q) (Z.to_nat (p - hp q)) None.
Proof.
  intros I (N0 & s & Hs & Hk & Hp) W.
  destruct (Forall2_nth_error_r _ _ _ _ _ (I_nodes q I) Hs) as (a & Ha & OK).
  destruct (wr_node q _ _ _ k None (I_nodes q I) (I_nodup q I) Ha Hs Hk) as (h' & Wr & HL & NO & FL).
  rewrite Hp in FL. exists a, h'. split; [unfold getq; rewrite zget_some by lia; rewrite Ha; reflexivity|].
  split; [exact Wr|]. split; [eapply Inv_write; eauto; lia|].
  unfold abs. change (hp (set_heap q h')) with (hp q). change (tp (set_heap q h')) with (tp q).
  rewrite FL by reflexivity. destruct (Inv_pos q I) as (P0 & _). apply seg_upd_in; lia.
Qed.
