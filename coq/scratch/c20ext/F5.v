From Coq Require Import List ZArith NArith Bool Lia.
From Slock Require Import Queue.SegQueue Queue.ListLemmas Queue.SegQueueInv Queue.SegQueueOps Queue.SegQueueRefine Queue.SegQueueFrame Queue.LongWait.
From Slock Require Import scratch.c20ext.F2 scratch.c20ext.F3 scratch.c20ext.F4.
Import ListNotations.
Open Scope Z_scope.

(* the int32 no-overflow side conditions (the model keeps cursors unbounded, see LongWait.v):
   fewer than 2^31 - 1 nodes, and baseQueueSize << tailNodeIndex (computed by the restructure) fits in int32 *)
Definition lw_guard (l : lwq) : Prop :=
  Z.of_nat (length (queues (lw_locks l))) + 1 < P31 /\
  baseQueueSize (lw_locks l) * 2 ^ tailNodeIndex (lw_locks l) < P31.

Lemma lw_restructure_spec st l : LWInv st l -> lw_guard l ->
  exists l' st', lw_restructure st l = Ok (l', st') /\ LWInv st' l' /\ lw_abs l' = live (lw_abs l) /\
    lw_free l' = 0 /\ lw_count l' = Z.of_nat (length (ids (lw_abs l))) /\ lw_time l' = lw_time l.
Proof.
  intros LW [G1 G2]. pose proof LW as [I B LN ND IDX CNT].
  destruct (restructure_q0 (lw_locks l) (lw_time l) I G1 ND B G2 st l eq_refl eq_refl) as (l' & st' & E & LW' & A & FR & TM).
  exists l', st'. split; [exact E|]. split; [exact LW'|]. split; [exact A|]. split; [exact FR|]. split; [|exact TM].
  pose proof (L_cnt _ _ LW') as C. unfold lw_abs in A. rewrite A, FR, ids_live in C. unfold lw_abs. lia.
Qed.

(* ---------- constructor ---------- *)
Lemma lw_new_spec st base nodes size time :
  1 <= base -> 1 <= nodes -> nodes + 1 < P31 -> 1 <= size < POW30 ->
  exists l, lw_new base nodes size time = Ok l /\ LWInv st l /\ lw_abs l = [] /\ lw_count l = 0 /\ lw_free l = 0 /\
            lw_time l = time /\ baseQueueSize (lw_locks l) = size /\ Z.of_nat (length (queues (lw_locks l))) = nodes.
Proof.
  intros Hb Hn Hn2 Hs. destruct (new_spec base nodes size Hb Hn Hs) as (q & E & I & A & R).
  unfold lw_new. rewrite E, bind_Ok. eexists. split; [reflexivity|].
  assert (F : baseQueueSize q = size /\ Z.of_nat (length (queues q)) = nodes).
  { unfold new in E. destruct (nodes <? 1); [discriminate|]. destruct (size <? 0); [discriminate|].
    injection E as <-. cbn [baseQueueSize queues length]. rewrite repeat_length. split; [reflexivity|lia]. }
  destruct F as [F1 F2]. unfold lw_abs. cbn [lw_locks lw_count lw_free lw_time].
  split; [|repeat split; auto].
  constructor; cbn [lw_locks lw_count lw_free lw_time]; auto; try lia.
  - rewrite A. constructor.
  - intros i x Hi. rewrite A in Hi. destruct i; discriminate.
  - rewrite A. reflexivity.
Qed.

(* ---------- the consumer idiom: n times Pop(), keeping the non-nil results ---------- *)
Lemma consume_spec : forall n st l acc, LWInv st l -> (n <= length (lw_abs l))%nat ->
  exists l' st', consume n st l acc = Ok (l', st', acc ++ ids (firstn n (lw_abs l))) /\ LWInv st' l' /\
    lw_abs l' = skipn n (lw_abs l) /\ lw_count l' = lw_count l - Z.of_nat (length (ids (firstn n (lw_abs l)))) /\
    lw_free l' = lw_free l /\ lw_time l' = lw_time l.
Proof.
  induction n as [|n IH]; intros st l acc LW Hn.
  - cbn [consume firstn skipn ids length]. exists l, st. rewrite app_nil_r.
    split; [reflexivity|]. split; [exact LW|]. split; [reflexivity|]. split; [cbn; lia|]. split; reflexivity.
  - cbn [consume]. destruct (lw_pop_spec st l LW) as (l1 & st1 & E1 & LW1 & A1 & C1 & F1 & T1).
    rewrite E1, bind_Ok. cbv beta iota.
    destruct (lw_abs l) as [|h t] eqn:EA; [cbn in Hn; lia|]. cbn [hd_slot tl length] in *.
    destruct (IH st1 l1 (match h with Some x => acc ++ [x] | None => acc end) LW1 ltac:(rewrite A1; lia))
      as (l2 & st2 & E2 & LW2 & A2 & C2 & F2 & T2).
    exists l2, st2. rewrite E2, A1. cbn [firstn skipn]. rewrite A1 in A2, C2.
    split; [|split; [exact LW2|split; [exact A2|split; [|split; congruence]]]].
    + destruct h as [x|]; cbn [ids]; [rewrite <- app_assoc|]; reflexivity.
    + destruct h as [x|]; cbn [ids length] in *; lia.
Qed.

(* ---------- specification: a plain sequence with deletions (holes), its two counters, compaction ---------- *)
Definition sstate : Type := (list slot * Z * Z)%type.
Definition s_trigger (c f : Z) : bool := (f * 3 >=? c) && ((f >=? c) || (f >=? 256)).

Definition spec_step (s : sstate) (o : lop) : sstate * lobs :=
  let '(sl, c, f) := s in
  match o with
  | LPush x => ((sl ++ [Some x], c + 1, f), LUnit)
  | LRemove x => ((blank x sl, c, f + 1), LUnit)
  | LRemovePolicy x =>
    if s_trigger c (f + 1) then ((live (blank x sl), Z.of_nat (length (ids (blank x sl))), 0), LRestr true)
    else ((blank x sl, c, f + 1), LRestr false)
  | LPop => ((tl sl, c - (match hd_slot sl with Some _ => 1 | None => 0 end), f), LVal (hd_slot sl))
  | LLen => (s, LLens (Z.of_nat (length sl)) c f)
  | LRestructure => ((live sl, Z.of_nat (length (ids sl)), 0), LUnit)
  | LConsume => (([], c - Z.of_nat (length (ids sl)), f), LList (ids sl))
  end.

Fixpoint spec_run (s : sstate) (ops : list lop) : list lobs :=
  match ops with
  | [] => []
  | o :: r => let '(s', ob) := spec_step s o in ob :: spec_run s' r
  end.

(* callers' contract: a lock is pushed only while it is not queued, removed only while it is queued *)
Definition wf_op (sl : list slot) (o : lop) : Prop :=
  match o with
  | LPush x => ~ In x (ids sl)
  | LRemove x | LRemovePolicy x => In x (ids sl)
  | _ => True
  end.

Definition lw_rel (l : lwq) : sstate := (lw_abs l, lw_count l, lw_free l).

Theorem lw_step_refines st l o : LWInv st l -> wf_op (lw_abs l) o -> lw_guard l ->
  exists l' st', lw_step st l o = Ok (l', st', snd (spec_step (lw_rel l) o)) /\ LWInv st' l' /\
                 lw_rel l' = fst (spec_step (lw_rel l) o) /\ lw_time l' = lw_time l.
Proof.
  intros LW WF [G1 G2]. unfold lw_rel. destruct o as [x|x|x| | | |]; cbn [lw_step spec_step wf_op fst snd] in *.
  - destruct (lw_push_spec st l x LW WF G1) as (l' & st' & E & LW' & A & C & F & T & _).
    exists l', st'. rewrite E, bind_Ok. split; [reflexivity|]. split; [exact LW'|]. rewrite A, C, F. auto.
  - destruct (lw_remove_spec st l x LW WF) as (l' & st' & E & LW' & A & C & F & T & _).
    exists l', st'. rewrite E, bind_Ok. split; [reflexivity|]. split; [exact LW'|]. rewrite A, C, F. auto.
  - destruct (lw_remove_spec st l x LW WF) as (l1 & st1 & E & LW1 & A & C & F & T & Q1 & Q2 & Q3).
    rewrite E, bind_Ok. cbv beta iota.
    assert (TR : lw_trigger l1 = s_trigger (lw_count l) (lw_free l + 1)).
    { unfold lw_trigger, s_trigger, LONG_LOCKS_QUEUE_INIT_SIZE. rewrite C, F. reflexivity. }
    rewrite TR. destruct (s_trigger (lw_count l) (lw_free l + 1)); cbn [fst snd].
    + destruct (lw_restructure_spec st1 l1 LW1) as (l2 & st2 & E2 & LW2 & A2 & F2 & C2 & T2).
      { split; rewrite ?Q1, ?Q2, ?Q3; auto. }
      exists l2, st2. rewrite E2, bind_Ok. split; [reflexivity|]. split; [exact LW2|]. rewrite A2, C2, F2, A. split; [reflexivity|congruence].
    + exists l1, st1. split; [reflexivity|]. split; [exact LW1|]. rewrite A, C, F. auto.
  - destruct (lw_pop_spec st l LW) as (l' & st' & E & LW' & A & C & F & T).
    exists l', st'. rewrite E, bind_Ok. split; [reflexivity|]. split; [exact LW'|]. rewrite A, C, F. auto.
  - exists l, st. rewrite (lw_len_spec st l LW), bind_Ok. auto.
  - destruct (lw_restructure_spec st l LW (conj G1 G2)) as (l' & st' & E & LW' & A & F & C & T).
    exists l', st'. rewrite E, bind_Ok. split; [reflexivity|]. split; [exact LW'|]. rewrite A, C, F. auto.
  - rewrite (lw_len_spec st l LW), bind_Ok, Nat2Z.id.
    destruct (consume_spec (length (lw_abs l)) st l [] LW ltac:(lia)) as (l' & st' & E & LW' & A & C & F & T).
    rewrite firstn_all in E, C. rewrite skipn_all in A.
    exists l', st'. rewrite E, bind_Ok. split; [reflexivity|]. split; [exact LW'|]. rewrite A, C, F. auto.
Qed.

(* side conditions along a run: the callers' contract on the abstract content and the int32 guards on the concrete state *)
Fixpoint lw_okrun (st : istore) (l : lwq) (ops : list lop) : Prop :=
  match ops with
  | [] => True
  | o :: r => wf_op (lw_abs l) o /\ lw_guard l /\
              forall l' st' ob, lw_step st l o = Ok (l', st', ob) -> lw_okrun st' l' r
  end.

Theorem lw_run_refines : forall ops st l, LWInv st l -> lw_okrun st l ops ->
  lw_run st l ops = (spec_run (lw_rel l) ops, EDone).
Proof.
  induction ops as [|o r IH]; intros st l LW OK; [reflexivity|].
  cbn [lw_okrun] in OK. destruct OK as (WF & G & K).
  destruct (lw_step_refines st l o LW WF G) as (l' & st' & E & LW' & R & _).
  cbn [lw_run spec_run]. rewrite E. specialize (K _ _ _ E). rewrite (IH st' l' LW' K), R.
  destruct (spec_step (lw_rel l) o). reflexivity.
Qed.

(* what the callers rely on *)
Corollary lw_len_counts_slots st l : LWInv st l ->
  lw_len l = Ok (Z.of_nat (length (lw_abs l))) /\
  lw_count l - lw_free l = Z.of_nat (length (ids (lw_abs l))).
Proof. intros LW. split; [apply (lw_len_spec st); auto | apply (L_cnt _ _ LW)]. Qed.

Corollary lw_consume_complete st l : LWInv st l ->
  exists n l' st', lw_len l = Ok n /\ consume (Z.to_nat n) st l [] = Ok (l', st', ids (lw_abs l)) /\ lw_abs l' = [] /\ LWInv st' l'.
Proof.
  intros LW. exists (Z.of_nat (length (lw_abs l))).
  destruct (consume_spec (length (lw_abs l)) st l [] LW ltac:(lia)) as (l' & st' & E & LW' & A & _).
  rewrite firstn_all in E. rewrite skipn_all in A. exists l', st'. rewrite Nat2Z.id.
  split; [apply (lw_len_spec st); auto|]. auto.
Qed.
