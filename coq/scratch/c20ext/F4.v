From Coq Require Import List ZArith NArith Bool Lia.
From Slock Require Import Queue.SegQueue Queue.ListLemmas Queue.SegQueueInv Queue.SegQueueOps Queue.SegQueueFrame Queue.LongWait.
From Slock Require Import scratch.c20ext.F2 scratch.c20ext.F3.
Import ListNotations.
Open Scope Z_scope.

(* ---------- list facts for the compaction scan ---------- *)
Lemma live_app a b : live (a ++ b) = live a ++ live b.
Proof. unfold live. apply filter_app. Qed.

Lemma live_length_le l : (length (live l) <= length l)%nat.
Proof. unfold live. induction l as [|[y|] l IH]; cbn; lia. Qed.

Lemma upd_mid {A} (a b : list A) x y n : n = length a -> upd (a ++ x :: b) n y = a ++ y :: b.
Proof. intros ->. rewrite upd_app_r by lia. rewrite Nat.sub_diag. reflexivity. Qed.

Lemma repeat_snoc {A} (x : A) n : repeat x n ++ [x] = x :: repeat x n.
Proof. induction n; cbn; auto. rewrite IHn. reflexivity. Qed.

Lemma repeat_shift {A} (x : A) n l : repeat x n ++ x :: l = x :: repeat x n ++ l.
Proof. induction n; cbn; auto. rewrite IHn. reflexivity. Qed.

Section Scan.
Variable F : list slot.

Definition Cn (s : nat) : list slot := live (firstn s F).
Definition form (s : nat) : list slot := Cn s ++ repeat None (s - length (Cn s)) ++ skipn s F.

Lemma Cn_le s : (length (Cn s) <= s)%nat.
Proof. unfold Cn. pose proof (live_length_le (firstn s F)). rewrite firstn_length in H. lia. Qed.

Lemma form_0 : form 0 = F.
Proof. reflexivity. Qed.

Lemma form_nth s : (s < length F)%nat -> nth_error (form s) s = nth_error F s.
Proof.
  intros H. unfold form. pose proof (Cn_le s).
  rewrite app_assoc. rewrite nth_error_app2 by (rewrite app_length, repeat_length; lia).
  rewrite app_length, repeat_length. replace (s - (length (Cn s) + (s - length (Cn s))))%nat with O by lia.
  rewrite nth_error_skipn. f_equal. lia.
Qed.

Lemma Cn_S_none s : nth_error F s = Some None -> Cn (S s) = Cn s.
Proof. intros H. unfold Cn. rewrite (firstn_S_snoc _ _ _ H), live_app. cbn. apply app_nil_r. Qed.

Lemma Cn_S_some s y : nth_error F s = Some (Some y) -> Cn (S s) = Cn s ++ [Some y].
Proof. intros H. unfold Cn. rewrite (firstn_S_snoc _ _ _ H), live_app. reflexivity. Qed.

Lemma form_S_none s : nth_error F s = Some None -> form (S s) = form s.
Proof.
  intros H. unfold form. rewrite (Cn_S_none s H). pose proof (Cn_le s). f_equal.
  replace (S s - length (Cn s))%nat with (S (s - length (Cn s))) by lia.
  rewrite (skipn_nth_cons _ _ _ H). cbn [repeat]. rewrite repeat_shift. reflexivity.
Qed.

Lemma form_S_some s y : nth_error F s = Some (Some y) ->
  form (S s) = upd (upd (form s) s None) (length (Cn s)) (Some y).
Proof.
  intros H. unfold form. rewrite (Cn_S_some s y H). pose proof (Cn_le s).
  rewrite (skipn_nth_cons _ _ _ H).
  set (C := Cn s). set (r := (s - length C)%nat).
  assert (E1 : upd (C ++ repeat None r ++ Some y :: skipn (S s) F) s None = C ++ repeat None r ++ None :: skipn (S s) F).
  { rewrite !app_assoc. apply upd_mid. rewrite app_length, repeat_length. unfold r. fold C in H0. lia. }
  rewrite E1. rewrite app_length. cbn [length].
  replace (S s - (length C + 1))%nat with r by (unfold r; lia).
  rewrite repeat_shift.
  rewrite upd_mid by reflexivity. rewrite <- app_assoc. reflexivity.
Qed.

Lemma form_firstn s : firstn (length (Cn s)) (form s) = Cn s.
Proof. unfold form. rewrite firstn_app, Nat.sub_diag. cbn. rewrite app_nil_r. apply firstn_all. Qed.

Lemma form_length s : (s <= length F)%nat -> length (form s) = length F.
Proof.
  intros H. unfold form. pose proof (Cn_le s). rewrite !app_length, repeat_length, skipn_length. lia.
Qed.
End Scan.

Lemma ids_allnone l : Forall (fun x : slot => x = None) l -> ids l = [].
Proof. induction 1; cbn; auto. subst. exact IHForall. Qed.

Lemma NoDup_snoc_notin {A} (l : list A) x : NoDup (l ++ [x]) -> ~ In x l.
Proof.
  induction l; cbn; intros H; [tauto|]. inversion H; subst. intros [->|C].
  - apply H2. rewrite in_app_iff. right. left. reflexivity.
  - apply IHl; auto.
Qed.

Lemma NoDup_app_l {A} (a b : list A) : NoDup (a ++ b) -> NoDup a.
Proof. induction a; cbn; intros H; [constructor|]. inversion H; subst. constructor; auto. rewrite in_app_iff in H2. tauto. Qed.

Lemma seg0 {A} (l : list A) b : seg l 0 b = firstn (Z.to_nat b) l.
Proof. unfold seg. rewrite Z.sub_0_r. reflexivity. Qed.

Section Restructure.
Variable q0 : sq.
Variable time0 : Z.
Hypothesis I0 : Inv q0.
Hypothesis LEN0 : Z.of_nat (length (queues q0)) + 1 < P31.
Hypothesis ND0 : NoDup (ids (abs q0)).

Let F0 := flat q0.
Let T := tailNodeIndex q0.
Let tp0 := tp q0.

Record RI (s : nat) (st : istore) (l : lwq) : Prop := mkRI {
  RI_lw : LWInv st l;
  RI_q : queues (lw_locks l) = queues q0;
  RI_sz : nodeQueueSizes (lw_locks l) = nodeQueueSizes q0;
  RI_bqs : baseQueueSize (lw_locks l) = baseQueueSize q0;
  RI_hp : hp (lw_locks l) = 0;
  RI_tp : tp (lw_locks l) = Z.of_nat (length (Cn F0 s));
  RI_flat : flat (lw_locks l) = form F0 s;
  RI_free : lw_free l = 0;
  RI_time : lw_time l = time0
}.

Lemma RI_abs s st l : RI s st l -> abs (lw_locks l) = Cn F0 s.
Proof.
  intros R. unfold abs. rewrite (RI_hp _ _ _ R), (RI_tp _ _ _ R), (RI_flat _ _ _ R), seg0, Nat2Z.id. apply form_firstn.
Qed.

Lemma ids_prefix_tp0 : ids (firstn (Z.to_nat tp0) F0) = ids (abs q0).
Proof.
  destruct (Inv_pos q0 I0) as (P0 & P1 & P2 & _). unfold abs, seg, F0, tp0.
  rewrite <- (firstn_skipn (Z.to_nat (hp q0)) (firstn (Z.to_nat (tp q0)) (flat q0))), ids_app.
  rewrite firstn_firstn. replace (Nat.min (Z.to_nat (hp q0)) (Z.to_nat (tp q0))) with (Z.to_nat (hp q0)) by lia.
  rewrite (ids_allnone _ (I_clean q0 I0)). cbn [app]. f_equal.
  rewrite skipn_firstn_comm. f_equal. lia.
Qed.

Lemma notin_prefix s y : Z.of_nat s < tp0 -> nth_error F0 s = Some (Some y) -> ~ In y (ids (Cn F0 s)).
Proof.
  intros Lt H. unfold Cn. rewrite ids_live.
  assert (ND : NoDup (ids (firstn (S s) F0))).
  { rewrite <- ids_prefix_tp0 in ND0.
    rewrite <- (firstn_skipn (S s) (firstn (Z.to_nat tp0) F0)), ids_app in ND0. apply NoDup_app_l in ND0.
    rewrite firstn_firstn in ND0. replace (Nat.min (S s) (Z.to_nat tp0)) with (S s) in ND0 by lia. exact ND0. }
  rewrite (firstn_S_snoc _ _ _ H), ids_app in ND. cbn in ND. apply NoDup_snoc_notin in ND. exact ND.
Qed.

Lemma slot_step s st l j k : RI s st l -> Z.of_nat s < tp0 -> coord q0 j k (Z.of_nat s) ->
  exists st' l', lwr_slot j k (l, st) = Ok (l', st') /\ RI (S s) st' l'.
Proof.
  intros R Lt C0. pose proof (RI_abs _ _ _ R) as AB. destruct R as [LW Q SZ BQ HP TP FL FR TM]. set (q := lw_locks l) in *.
  pose proof (L_inv _ _ LW) as I. fold q in I.
  assert (JT : j <= T) by (eapply coord_le_tail; eauto).
  destruct C0 as (J0 & sj & Hsj & Hk & Hp).
  destruct (I_alloc q0 I0 j ltac:(unfold T in JT; lia)) as [id Hid].
  pose proof (zget_inv _ _ _ Hid) as (_ & Hid' & _).
  destruct (Inv_pos q0 I0) as (Q0 & Q1 & Q2 & _ & _ & Hts0 & _ & _).
  assert (SL : (s < length F0)%nat) by (unfold F0, tp0 in *; lia).
  assert (GQ : getq q j = Ok (Some id)). { unfold getq. rewrite Q, Hid. reflexivity. }
  rewrite <- Q in Hid'. rewrite <- SZ in Hsj, Hp.
  destruct (rd_node q _ _ _ k (I_nodes q I) Hid' Hsj Hk) as (x & RD & NX).
  rewrite Hp, Nat2Z.id, FL, form_nth in NX by exact SL.
  pose proof (Cn_le F0 s) as CL.
  unfold lwr_slot. cbv beta iota. fold q. rewrite GQ, bind_Ok, RD, bind_Ok.
  destruct x as [y|].
  - rewrite GQ, bind_Ok.
    destruct (wr_node q _ _ _ k None (I_nodes q I) (I_nodup q I) Hid' Hsj Hk) as (h' & W & HL & NO & FLw).
    rewrite Hp, Nat2Z.id in FLw. rewrite W, bind_Ok.
    set (q1 := set_heap q h').
    assert (I1 : Inv q1) by (eapply Inv_write; eauto; lia).
    assert (F1 : flat q1 = upd (flat q) s None) by (apply FLw; reflexivity).
    assert (A1 : abs q1 = abs q).
    { unfold abs. change (hp q1) with (hp q). change (tp q1) with (tp q). rewrite F1. apply seg_upd_after; lia. }
    assert (LW1 : LWInv st (set_locks l q1)).
    { destruct LW as [_ B LN ND IDX CNT]. constructor; cbn [lw_locks lw_count lw_free lw_time set_locks]; auto.
      - rewrite A1. exact ND.
      - intros i z Hi. rewrite A1 in Hi. exact (IDX i z Hi).
      - rewrite A1. exact CNT. }
    assert (NI : ~ In y (ids (lw_abs (set_locks l q1)))).
    { unfold lw_abs. cbn [lw_locks set_locks]. rewrite A1, AB. apply notin_prefix; auto. }
    assert (G : Z.of_nat (length (queues (lw_locks (set_locks l q1)))) + 1 < P31).
    { cbn [lw_locks set_locks]. change (queues q1) with (queues q). rewrite Q. exact LEN0. }
    destruct (lw_push_spec st (set_locks l q1) y LW1 NI G) as (l2 & st2 & E2 & LW2 & A2 & C2 & FR2 & TM2 & _ & HP2 & TP2 & BQ2 & FRM).
    cbn [lw_locks set_locks] in *.
    rewrite E2. exists st2, l2. split; [reflexivity|].
    destruct (Inv_pos q I) as (P0 & P1 & P2 & _ & _ & Hts & _ & _).
    pose proof (sizes_nonneg q (I_nodes q I)) as NN.
    assert (PRE : tailQueueIndex q1 + 1 < tailQueueSize q1 \/ exists id', zget (queues q1) (tailNodeIndex q1 + 1) = Some (Some id')).
    { change (tailQueueIndex q1) with (tailQueueIndex q). change (tailQueueSize q1) with (tailQueueSize q).
      change (tailNodeIndex q1) with (tailNodeIndex q). change (queues q1) with (queues q).
      destruct (Z.lt_ge_cases (tailQueueIndex q + 1) (tailQueueSize q)); [left; auto|right].
      assert (TN : tailNodeIndex q + 1 <= T).
      { destruct (Z.le_gt_cases (tailNodeIndex q + 1) T); auto. exfalso.
        pose proof (off_mono (nodeQueueSizes q) (S (Z.to_nat T)) (S (Z.to_nat (tailNodeIndex q))) NN
                     ltac:(pose proof (I_hni q0 I0); pose proof (I_ht q0 I0); unfold T in *; lia)) as OM.
        rewrite (off_S _ _ _ Hts) in OM. rewrite SZ in OM at 1. unfold T in OM. rewrite (off_S _ _ _ Hts0) in OM.
        pose proof (I_tqi q I). pose proof (I_tqi q0 I0). unfold tp in TP. unfold tp0, tp in Lt. rewrite SZ in *. lia. }
      destruct (I_alloc q0 I0 (tailNodeIndex q + 1) ltac:(pose proof (I_hni q I); pose proof (I_ht q I); unfold T in TN; lia)) as [id' Hid2].
      exists id'. rewrite Q. exact Hid2. }
    destruct (FRM PRE) as (Q2' & SZ2 & FL2).
    change (tp q1) with (tp q) in *. change (hp q1) with (hp q) in *. change (queues q1) with (queues q) in *.
    change (nodeQueueSizes q1) with (nodeQueueSizes q) in *. change (baseQueueSize q1) with (baseQueueSize q) in *.
    constructor; auto; try congruence.
    + rewrite TP2, TP, (Cn_S_some F0 s y NX), app_length. cbn [length]. lia.
    + rewrite FL2, F1, TP, Nat2Z.id, FL. symmetry. apply form_S_some. exact NX.
    + cbn in FR2. congruence.
    + cbn in TM2. congruence.
  - exists st, l. split; [reflexivity|]. constructor; auto.
    + rewrite (Cn_S_none F0 s NX). exact TP.
    + rewrite (form_S_none F0 s NX). exact FL.
Qed.
