From Coq Require Import List ZArith Bool Lia.
From Slock Require Import Queue.SegQueue Queue.ListLemmas Queue.SegQueueInv Queue.SegQueueOps.
Import ListNotations.
Open Scope Z_scope.

Lemma firstn_app_le {A} (l r : list A) n : (n <= length l)%nat -> firstn n (l ++ r) = firstn n l.
Proof. intros. rewrite firstn_app. replace (n - length l)%nat with O by lia. cbn. apply app_nil_r. Qed.

Lemma bind_Panic {A B} (f : A -> res B) : bind Panic f = Panic.
Proof. reflexivity. Qed.

(* symbolic execution of a monadic hypothesis: reduce `bind (Ok _)`, case-split every checked access `lift (..)` *)
Ltac run_in H :=
  repeat first
    [ rewrite bind_Ok in H; sq_cbn
    | match type of H with context [bind (lift ?z) _] => let E := fresh "E" in destruct z eqn:E; cbn [lift] in H end
    | rewrite bind_Panic in H ];
  try discriminate.

Lemma malloc_frame q q' : 0 <= tailNodeIndex q -> (Z.to_nat (tailNodeIndex q) < length (nodeQueueSizes q))%nat ->
  mallocQueue q = Ok q' ->
  baseQueueSize q' = baseQueueSize q /\ tailNodeIndex q' = tailNodeIndex q + 1 /\
  (length (queues q') <= S (length (queues q)))%nat /\
  firstn (S (Z.to_nat (tailNodeIndex q))) (nodeQueueSizes q') = firstn (S (Z.to_nat (tailNodeIndex q))) (nodeQueueSizes q) /\
  (forall id, tailNodeIndex q + 1 < nodeSize q -> zget (queues q) (tailNodeIndex q + 1) = Some (Some id) ->
     queues q' = queues q /\ nodeQueueSizes q' = nodeQueueSizes q /\ heap q' = heap q).
Proof.
  intros T0 TL H. unfold mallocQueue in H. sq_cbn.
  destruct (Z.geb_spec (tailNodeIndex q + 1) (nodeSize q)) as [G|G].
  - unfold make, getq, gets in H. sq_cbn. destruct (next_size (queueSize q) <? 0); [cbn [bind] in H; discriminate|].
    run_in H. sq_cbn. injection H as <-. sq_cbn. repeat split; auto; try (intros; lia).
    + rewrite app_length. cbn. lia.
    + apply firstn_app_le. lia.
  - unfold getq at 1 in H. sq_cbn. destruct (zget (queues q) (tailNodeIndex q + 1)) as [a|] eqn:EA; [|cbn [lift bind] in H; discriminate].
    cbn [lift] in H. rewrite bind_Ok in H. sq_cbn.
    destruct a as [id|].
    + unfold getq, gets in H. sq_cbn. run_in H. injection H as <-. sq_cbn. repeat split; auto.
    + unfold make, setq, sets, getq, gets in H. sq_cbn. destruct (next_size (queueSize q) <? 0); [cbn [bind] in H; discriminate|].
      run_in H. sq_cbn. injection H as <-. sq_cbn.
      repeat match goal with E : zset _ _ _ = Some _ |- _ => unfold zset in E end.
      repeat match goal with E : (if ?c then _ else _) = Some _ |- _ => destruct c; [injection E as <-|discriminate] end.
      repeat split; auto; try (intros; congruence).
      * rewrite upd_length. lia.
      * apply firstn_upd_ge. lia.
Qed.

(* ---------- Push with its frame ---------- *)
Lemma Push_strong q v : Inv q ->
  exists q', Push q v = Ok q' /\ Inv q' /\ abs q' = abs q ++ [v] /\ hp q' = hp q /\ tp q' = tp q + 1 /\
    baseQueueSize q' = baseQueueSize q /\
    tailNodeIndex q <= tailNodeIndex q' <= tailNodeIndex q + 1 /\
    (length (queues q') <= S (length (queues q)))%nat /\
    firstn (S (Z.to_nat (tailNodeIndex q))) (nodeQueueSizes q') = firstn (S (Z.to_nat (tailNodeIndex q))) (nodeQueueSizes q) /\
    ((tailQueueIndex q + 1 < tailQueueSize q \/ exists id, zget (queues q) (tailNodeIndex q + 1) = Some (Some id)) ->
       queues q' = queues q /\ nodeQueueSizes q' = nodeQueueSizes q /\ flat q' = upd (flat q) (Z.to_nat (tp q)) v).
Proof.
  intros I. destruct (Push_spec q v I) as (q' & E & I' & A & R). exists q'.
  split; [exact E|]. split; [exact I'|]. split; [exact A|]. split; [exact R|].
  assert (TP : tp q' = tp q + 1).
  { pose proof (abs_length q I) as L1. pose proof (abs_length q' I') as L2. rewrite A, app_length, Nat2Z.inj_add in L2.
    cbn [length] in L2. change (Z.of_nat 1) with 1 in L2. unfold room in R. Set Printing All. Show. Abort.
