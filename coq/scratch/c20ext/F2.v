From Coq Require Import List ZArith NArith Bool Lia.
From Slock Require Import Queue.SegQueue Queue.ListLemmas Queue.SegQueueInv Queue.SegQueueOps Queue.SegQueueFrame Queue.LongWait.
Import ListNotations.
Open Scope Z_scope.

(* ---------- longWaitIndex encoding ---------- *)
Definition P31 : Z := 2147483648.

Lemma lor_disjoint a b : 0 <= a -> 0 < b < P32 -> Z.lor (a * P32) b = a * P32 + b.
Proof.
  intros Ha Hb.
  assert (L : Z.land (a * P32) b = 0).
  { change P32 with (2 ^ 32) in *. rewrite <- Z.shiftl_mul_pow2 by lia.
    apply Z.bits_inj'. intros n Hn. rewrite Z.land_spec, Z.bits_0.
    destruct (Z.lt_ge_cases n 32).
    - rewrite Z.shiftl_spec_low by lia. reflexivity.
    - rewrite (Z.bits_above_log2 b n); [apply andb_false_r | lia |].
      assert (Z.log2 b < 32) by (apply Z.log2_lt_pow2; lia). lia. }
  rewrite (Z.add_nocarry_lxor _ _ L). symmetry. apply Z.lxor_lor. exact L.
Qed.

Lemma dec_enc node k : 0 <= node < P31 -> 0 <= k < P31 - 1 ->
  dec_node (enc node (k + 1)) = node /\ dec_idx1 (enc node (k + 1)) - 1 = k /\ 0 < enc node (k + 1).
Proof.
  intros Hn Hk. unfold enc, P31 in *.
  assert (E : Z.lor (((node mod P64) * P32) mod P64) ((k + 1) mod P64) = node * P32 + (k + 1)).
  { unfold P64, P32 in *. rewrite (Z.mod_small node) by lia. rewrite (Z.mod_small (node * _)) by lia.
    rewrite (Z.mod_small (k + 1)) by lia. apply (lor_disjoint node (k + 1)); unfold P32; lia. }
  rewrite E. unfold dec_node, dec_idx1, wrap32, P32.
  replace ((node * 4294967296 + (k + 1)) / 4294967296) with node by (apply Z.div_unique with (r := k + 1); lia).
  replace ((node * 4294967296 + (k + 1)) mod 4294967296) with (k + 1) by (apply Z.mod_unique with (q := node); lia).
  rewrite !Z.mod_small by lia. lia.
Qed.

(* ---------- the specification: a plain sequence with deletions ---------- *)
Definition is_someb (s : slot) : bool := match s with Some _ => true | None => false end.
Definition live (l : list slot) : list slot := filter is_someb l.
Fixpoint ids (l : list slot) : list N :=
  match l with [] => [] | Some x :: r => x :: ids r | None :: r => ids r end.
Definition blank1 (x : N) (s : slot) : slot :=
  match s with Some y => if N.eqb y x then None else s | None => None end.
Definition blank (x : N) (l : list slot) : list slot := map (blank1 x) l.

Lemma ids_app a b : ids (a ++ b) = ids a ++ ids b.
Proof. induction a as [|[y|] a IH]; cbn; auto. rewrite IH. reflexivity. Qed.

Lemma ids_live l : ids (live l) = ids l.
Proof. unfold live. induction l as [|[y|] l IH]; cbn; auto. rewrite IH. reflexivity. Qed.

Lemma live_map_ids l : live l = map Some (ids l).
Proof. unfold live. induction l as [|[y|] l IH]; cbn; auto. rewrite IH. reflexivity. Qed.

Lemma ids_In l x : In x (ids l) <-> exists i, nth_error l i = Some (Some x).
Proof.
  induction l as [|[y|] l IH]; cbn.
  - split; [tauto|]. intros [[|i] H]; discriminate.
  - rewrite IH. split.
    + intros [->|[i H]]; [exists O; reflexivity | exists (S i); exact H].
    + intros [[|i] H]; cbn in H; [left; congruence | right; eauto].
  - rewrite IH. split.
    + intros [i H]. exists (S i). exact H.
    + intros [[|i] H]; cbn in H; [discriminate | eauto].
Qed.

Lemma ids_blank x l : ids (blank x l) = filter (fun y => negb (N.eqb y x)) (ids l).
Proof.
  unfold blank. induction l as [|[y|] l IH]; cbn; auto. destruct (N.eqb y x); cbn; rewrite IH; reflexivity.
Qed.

Lemma blank_notin x l : ~ In x (ids l) -> blank x l = l.
Proof.
  unfold blank. induction l as [|[y|] l IH]; cbn; intros H; auto.
  - destruct (N.eqb_spec y x); [exfalso; apply H; auto|]. rewrite IH; auto.
  - rewrite IH; auto.
Qed.

Lemma blank_upd x l i : NoDup (ids l) -> nth_error l i = Some (Some x) -> blank x l = upd l i None.
Proof.
  pose proof (blank_notin x) as BN. unfold blank in *.
  revert i. induction l as [|[y|] l IH]; intros i ND H; destruct i; cbn in *; try discriminate.
  - injection H as ->. rewrite N.eqb_refl. f_equal. apply BN. inversion ND; auto.
  - inversion ND; subst. destruct (N.eqb_spec y x).
    + subst. exfalso. apply H2. apply ids_In. eauto.
    + f_equal. apply IH; auto.
  - f_equal. apply IH; auto.
Qed.

Lemma filter_neq_length x (l : list N) : NoDup l -> In x l ->
  S (length (filter (fun y => negb (N.eqb y x)) l)) = length l.
Proof.
  induction l as [|y l IH]; cbn; intros ND H; [tauto|]. inversion ND; subst.
  destruct (N.eqb_spec y x).
  - subst. cbn. f_equal. clear IH ND H. induction l as [|z l IH]; cbn; auto.
    destruct (N.eqb_spec z x); cbn.
    + subst. exfalso. apply H2. left. reflexivity.
    + f_equal. apply IH. * intros C. apply H2. right. exact C. * inversion H3; auto.
  - cbn. f_equal. apply IH; auto. destruct H; [congruence|auto].
Qed.

Lemma NoDup_filter {A} (f : A -> bool) l : NoDup l -> NoDup (filter f l).
Proof.
  induction 1; cbn; [constructor|]. destruct (f x); auto. constructor; auto. rewrite filter_In. tauto.
Qed.

Lemma NoDup_app_snoc {A} (l : list A) x : NoDup l -> ~ In x l -> NoDup (l ++ [x]).
Proof.
  induction 1; cbn; intros NI; [constructor; [tauto|constructor]|].
  constructor; [|apply IHNoDup; tauto]. rewrite in_app_iff. cbn. intros [C|[C|[]]]; [tauto|subst; tauto].
Qed.

Lemma NoDup_nth_eq l i j x : NoDup (ids l) -> nth_error l i = Some (Some x) -> nth_error l j = Some (Some x) -> i = j.
Proof.
  revert i j. induction l as [|[y|] l IH]; intros i j ND Hi Hj; destruct i, j; cbn in *; try discriminate; auto.
  - injection Hi as ->. inversion ND; subst. exfalso. apply H1. apply ids_In. eauto.
  - injection Hj as ->. inversion ND; subst. exfalso. apply H1. apply ids_In. eauto.
  - f_equal. inversion ND; subst. eapply IH; eauto.
Qed.

(* ---------- invariant of a LongWaitLockQueue ---------- *)
Record LWInv (st : istore) (l : lwq) : Prop := mkLWInv {
  L_inv : Inv (lw_locks l);
  L_bqs : 1 <= baseQueueSize (lw_locks l);
  L_len : Z.of_nat (length (queues (lw_locks l))) < P31;
  L_nodup : NoDup (ids (abs (lw_locks l)));
  L_idx : forall i x, nth_error (abs (lw_locks l)) i = Some (Some x) ->
            exists node k, st x = enc node (k + 1) /\ coord (lw_locks l) node k (hp (lw_locks l) + Z.of_nat i);
  L_cnt : lw_count l - lw_free l = Z.of_nat (length (ids (abs (lw_locks l))))
}.

Definition lw_abs (l : lwq) : list slot := abs (lw_locks l).

Lemma coord_le_tail q node k p : Inv q -> coord q node k p -> p < tp q -> node <= tailNodeIndex q.
Proof.
  intros I (N0 & s & Hs & Hk & Hp) Lt.
  destruct (Inv_pos q I) as (P0 & P1 & P2 & PE & Hhs & Hts & Hh & Ht).
  pose proof (sizes_nonneg q (I_nodes q I)) as NN.
  destruct (Z.le_gt_cases node (tailNodeIndex q)); auto. exfalso.
  pose proof (off_mono (nodeQueueSizes q) (S (Z.to_nat (tailNodeIndex q))) (Z.to_nat node) NN ltac:(pose proof (I_hni q I); pose proof (I_ht q I); lia)).
  rewrite (off_S _ _ _ Hts) in H0. unfold tp in Lt. pose proof (I_tqi q I). lia.
Qed.

Lemma nth_error_firstn_lt {A} (l : list A) n i : (i < n)%nat -> nth_error (firstn n l) i = nth_error l i.
Proof. revert n i; induction l; intros n i H; destruct n, i; cbn; auto; try lia. apply IHl. lia. Qed.

Lemma coord_prefix q q' node k p :
  firstn (S (Z.to_nat node)) (nodeQueueSizes q') = firstn (S (Z.to_nat node)) (nodeQueueSizes q) ->
  coord q node k p -> coord q' node k p.
Proof.
  intros F (N0 & s & Hs & Hk & Hp). split; auto. exists s.
  assert (nth_error (nodeQueueSizes q') (Z.to_nat node) = nth_error (nodeQueueSizes q) (Z.to_nat node)).
  { rewrite <- (nth_error_firstn_lt (nodeQueueSizes q') (S (Z.to_nat node)) (Z.to_nat node)) by lia.
    rewrite <- (nth_error_firstn_lt (nodeQueueSizes q) (S (Z.to_nat node)) (Z.to_nat node)) by lia. rewrite F. reflexivity. }
  split; [congruence|]. split; auto.
  rewrite (off_firstn_agree _ _ _ F) by lia. exact Hp.
Qed.
