From Coq Require Import List ZArith NArith Bool Lia.
From Slock Require Import Queue.SegQueue Queue.ListLemmas Queue.SegQueueInv Queue.SegQueueOps Queue.SegQueueFrame Queue.LongWait.
From Slock Require Import scratch.c20ext.F2 scratch.c20ext.F3.
Import ListNotations.
Open Scope Z_scope.

(* ---------- list facts for the compaction scan ---------- *)
Lemma live_app a b : live (a ++ b) = live a ++ live b.
Proof. unfold live. apply filter_app. Qed.

Lemma live_length_le l : (length (live l) <= length l)%nat.
Proof. unfold live. induction l as [|[y|] l IH]; cbn; lia. Qed.

Lemma upd_mid {A} (a b : list A) x y n : n = length a -> upd (a ++ x :: b) n y = a ++ y :: b.
Proof. intros ->. rewrite upd_app_r by lia. rewrite Nat.sub_diag. reflexivity. Qed.

Lemma repeat_snoc {A} (x : A) n : repeat x n ++ [x] = x :: repeat x n.
Proof. induction n; cbn; auto. rewrite IHn. reflexivity. Qed.

Lemma repeat_shift {A} (x : A) n l : repeat x n ++ x :: l = x :: repeat x n ++ l.
Proof. induction n; cbn; auto. rewrite IHn. reflexivity. Qed.

Section Scan.
Variable F : list slot.

Definition Cn (s : nat) : list slot := live (firstn s F).
Definition form (s : nat) : list slot := Cn s ++ repeat None (s - length (Cn s)) ++ skipn s F.

Lemma Cn_le s : (length (Cn s) <= s)%nat.
Proof. unfold Cn. pose proof (live_length_le (firstn s F)). rewrite firstn_length in H. lia. Qed.

Lemma form_0 : form 0 = F.
Proof. reflexivity. Qed.

Lemma form_nth s : (s < length F)%nat -> nth_error (form s) s = nth_error F s.
Proof.
  intros H. unfold form. pose proof (Cn_le s).
  rewrite app_assoc. rewrite nth_error_app2 by (rewrite app_length, repeat_length; lia).
  rewrite app_length, repeat_length. replace (s - (length (Cn s) + (s - length (Cn s))))%nat with O by lia.
  rewrite nth_error_skipn. f_equal. lia.
Qed.

Lemma Cn_S_none s : nth_error F s = Some None -> Cn (S s) = Cn s.
Proof. intros H. unfold Cn. rewrite (firstn_S_snoc _ _ _ H), live_app. cbn. apply app_nil_r. Qed.

Lemma Cn_S_some s y : nth_error F s = Some (Some y) -> Cn (S s) = Cn s ++ [Some y].
Proof. intros H. unfold Cn. rewrite (firstn_S_snoc _ _ _ H), live_app. reflexivity. Qed.

Lemma form_S_none s : nth_error F s = Some None -> form (S s) = form s.
Proof.
  intros H. unfold form. rewrite (Cn_S_none s H). pose proof (Cn_le s). f_equal.
  replace (S s - length (Cn s))%nat with (S (s - length (Cn s))) by lia.
  rewrite (skipn_nth_cons _ _ _ H). cbn [repeat]. rewrite repeat_shift. reflexivity.
Qed.

Lemma form_S_some s y : nth_error F s = Some (Some y) ->
  form (S s) = upd (upd (form s) s None) (length (Cn s)) (Some y).
Proof.
  intros H. unfold form. rewrite (Cn_S_some s y H). pose proof (Cn_le s).
  rewrite (skipn_nth_cons _ _ _ H).
  set (C := Cn s). set (r := (s - length C)%nat).
  assert (E1 : upd (C ++ repeat None r ++ Some y :: skipn (S s) F) s None = C ++ repeat None r ++ None :: skipn (S s) F).
  { rewrite !app_assoc. apply upd_mid. rewrite app_length, repeat_length. unfold r. fold C in H0. lia. }
  rewrite E1. rewrite app_length. cbn [length].
  replace (S s - (length C + 1))%nat with r by (unfold r; lia).
  rewrite repeat_shift.
  rewrite upd_mid by reflexivity. rewrite <- app_assoc. reflexivity.
Qed.

Lemma form_firstn s : firstn (length (Cn s)) (form s) = Cn s.
Proof. unfold form. rewrite firstn_app, Nat.sub_diag. cbn. rewrite app_nil_r. apply firstn_all. Qed.

Lemma form_length s : (s <= length F)%nat -> length (form s) = length F.
Proof.
  intros H. unfold form. pose proof (Cn_le s). rewrite !app_length, repeat_length, skipn_length. lia.
Qed.
End Scan.

Lemma ids_allnone l : Forall (fun x : slot => x = None) l -> ids l = [].
Proof. induction 1; cbn; auto. subst. exact IHForall. Qed.

Lemma NoDup_snoc_notin {A} (l : list A) x : NoDup (l ++ [x]) -> ~ In x l.
Proof.
  induction l; cbn; intros H; [tauto|]. inversion H; subst. intros [->|C].
  - apply H2. rewrite in_app_iff. right. left. reflexivity.
  - apply IHl; auto.
Qed.

Lemma NoDup_app_l {A} (a b : list A) : NoDup (a ++ b) -> NoDup a.
Proof. induction a; cbn; intros H; [constructor|]. inversion H; subst. constructor; auto. rewrite in_app_iff in H2. tauto. Qed.

Lemma seg0 {A} (l : list A) b : seg l 0 b = firstn (Z.to_nat b) l.
Proof. unfold seg. rewrite Z.sub_0_r. reflexivity. Qed.

(* ---------- the freeing loop of restructuringLong*Queue: queues[t] = nil; nodeQueueSizes[t] = 0; t-- ---------- *)
Lemma free_step q t : Inv q -> tailNodeIndex q + 2 <= t < Z.of_nat (length (queues q)) ->
  exists q', restr_free false (q, t) = Ok (q', t - 1) /\ Inv q' /\ abs q' = abs q /\ hp q' = hp q /\ tp q' = tp q /\
    tailNodeIndex q' = tailNodeIndex q /\ baseQueueSize q' = baseQueueSize q /\ length (queues q') = length (queues q) /\
    firstn (Z.to_nat (tailNodeIndex q) + 2) (nodeQueueSizes q') = firstn (Z.to_nat (tailNodeIndex q) + 2) (nodeQueueSizes q).
Proof.
  intros I Ht. destruct (Inv_pos q I) as (P0 & P1 & P2 & PE & Hhs & Hts & Hh & Ht').
  pose proof (nodes_ok_length q (I_nodes q I)) as LEN.
  pose proof (sizes_nonneg q (I_nodes q I)) as NN.
  pose proof (I_hni q I) as H0. pose proof (I_ht q I) as H1.
  set (tn := Z.to_nat t).
  set (q' := set_nodeQueueSizes (set_queues q (upd (queues q) tn None)) (upd (nodeQueueSizes q) tn 0)).
  exists q'. split.
  { unfold restr_free.
    assert (SQ : setq q t None = Ok (set_queues q (upd (queues q) tn None))) by (unfold setq; rewrite zset_some by lia; reflexivity).
    rewrite SQ, bind_Ok.
    assert (SS : sets (set_queues q (upd (queues q) tn None)) t 0 = Ok q') by (unfold sets; sq_cbn; rewrite zset_some by lia; reflexivity).
    rewrite SS, bind_Ok. reflexivity. }
  assert (OFF : forall i, (i <= tn)%nat -> off (nodeQueueSizes q') i = off (nodeQueueSizes q) i).
  { intros. unfold q'. sq_cbn. apply off_upd_ge. auto. }
  assert (HP : hp q' = hp q).
  { unfold hp. change (headNodeIndex q') with (headNodeIndex q). change (headQueueIndex q') with (headQueueIndex q).
    rewrite OFF by (unfold tn; lia). reflexivity. }
  assert (TP : tp q' = tp q).
  { unfold tp. change (tailNodeIndex q') with (tailNodeIndex q). change (tailQueueIndex q') with (tailQueueIndex q).
    rewrite OFF by (unfold tn; lia). reflexivity. }
  assert (VW : firstn tn (view q') = firstn tn (view q)).
  { unfold view, q'. sq_cbn. unfold arr. sq_cbn. rewrite map_upd. apply firstn_upd_ge. lia. }
  assert (BND : tp q < Z.of_nat (offn (view q) tn)).
  { rewrite (view_offn q tn (I_nodes q I)).
    pose proof (off_mono (nodeQueueSizes q) (S (Z.to_nat (tailNodeIndex q))) tn NN ltac:(unfold tn; lia)) as OM.
    rewrite (off_S _ _ _ Hts) in OM. unfold tp. pose proof (I_tqi q I). lia. }
  assert (FA : forall n, (n <= Z.to_nat (tp q) + 1)%nat -> firstn n (flat q') = firstn n (flat q)).
  { intros n Hn. unfold flat. apply (firstn_concat_agree _ _ tn); [exact VW|].
    unfold offn. rewrite VW. fold (offn (view q) tn). lia. }
  split; [|split; [|repeat split; auto]].
  - dI I. constructor; unfold q'; sq_cbn; auto; try lia.
    + rewrite upd_length. auto.
    + unfold nodes_ok. sq_cbn. apply Forall2_upd; [exact I_nodes0|reflexivity].
    + unfold nodup. sq_cbn. intros i j id Hi Hj.
      rewrite nth_error_upd in Hi, Hj.
      destruct (Nat.eqb_spec i tn); [destruct (Nat.ltb tn (length (queues q))); discriminate|].
      destruct (Nat.eqb_spec j tn); [destruct (Nat.ltb tn (length (queues q))); discriminate|].
      eapply I_nodup0; eauto.
    + rewrite upd_length. lia.
    + rewrite zget_some by lia. rewrite nth_error_upd_other by (unfold tn; lia). rewrite <- zget_some by lia. auto.
    + rewrite zget_some by lia. rewrite nth_error_upd_other by (unfold tn; lia). rewrite <- zget_some by lia. auto.
    + rewrite zget_some by lia. rewrite nth_error_upd_other by (unfold tn; lia). rewrite <- zget_some by lia. auto.
    + rewrite zget_some by lia. rewrite nth_error_upd_other by (unfold tn; lia). rewrite <- zget_some by lia. auto.
    + intros i Hi. destruct (I_alloc0 i Hi) as [id Hid]. exists id.
      rewrite zget_some in * by lia. rewrite nth_error_upd_other by (unfold tn; lia). auto.
    + apply Forall_upd; auto. unfold POW30. lia.
    + fold q'. rewrite HP. rewrite FA by lia. exact I_clean0.
  - unfold abs. rewrite HP, TP. apply seg_agree; [|lia]. apply FA. lia.
  - unfold q'. sq_cbn. apply upd_length.
  - unfold q'. sq_cbn. apply firstn_upd_ge. unfold tn. lia.
Qed.

Lemma free_loop : forall m q t, Inv q -> t < Z.of_nat (length (queues q)) -> tailNodeIndex q + 2 <= t - Z.of_nat m + 1 ->
  exists q', iter m (restr_free false) (q, t) = Ok (q', t - Z.of_nat m) /\ Inv q' /\ abs q' = abs q /\ hp q' = hp q /\ tp q' = tp q /\
    tailNodeIndex q' = tailNodeIndex q /\ baseQueueSize q' = baseQueueSize q /\ length (queues q') = length (queues q) /\
    firstn (Z.to_nat (tailNodeIndex q) + 2) (nodeQueueSizes q') = firstn (Z.to_nat (tailNodeIndex q) + 2) (nodeQueueSizes q).
Proof.
  induction m as [|m IH]; intros q t I Ht Hm.
  - cbn [iter]. exists q. replace (t - Z.of_nat 0) with t by lia. split; [reflexivity|]. split; [exact I|]. repeat split; auto.
  - cbn [iter]. destruct (free_step q t I ltac:(lia)) as (q1 & E1 & I1 & A1 & H1 & T1 & N1 & B1 & L1 & S1).
    rewrite E1, bind_Ok.
    destruct (IH q1 (t - 1) I1 ltac:(lia) ltac:(lia)) as (q2 & E2 & I2 & A2 & H2 & T2 & N2 & B2 & L2 & S2).
    exists q2. replace (t - Z.of_nat (S m)) with (t - 1 - Z.of_nat m) by lia.
    split; [exact E2|]. split; [exact I2|]. rewrite N1 in *. repeat split; auto; congruence.
Qed.

Lemma Inv_set_queueSize q v : Inv q -> 1 <= v < POW30 -> Inv (set_queueSize q v).
Proof. intros I Hv. dI I. constructor; sq_cbn; auto. Qed.

Lemma live_allnone l : Forall (fun x : slot => x = None) l -> live l = [].
Proof. unfold live. induction 1; cbn; auto. subst. exact IHForall. Qed.

Lemma shl_queueSize bqs t T : 0 <= t <= T -> 1 <= bqs -> bqs * 2 ^ T < P31 ->
  let sz := wrap32 (bqs * shl1_32 t) in 1 <= (if sz >? QUEUE_MAX_MALLOC_SIZE then QUEUE_MAX_MALLOC_SIZE else sz) < POW30.
Proof.
  intros Ht Hb G. unfold P31 in G.
  assert (P1 : 0 < 2 ^ t) by (apply Z.pow_pos_nonneg; lia).
  assert (P2 : 2 ^ t <= 2 ^ T) by (apply Z.pow_le_mono_r; lia).
  assert (T31 : T < 31). { apply (Z.pow_lt_mono_r_iff 2); [lia|lia|]. change (2 ^ 31) with 2147483648. nia. }
  assert (S1 : shl1_32 t = 2 ^ t).
  { unfold shl1_32. rewrite Z.mod_small by lia. destruct (Z.ltb_spec t 32); [|lia]. unfold wrap32.
    rewrite Z.mod_small by nia. lia. }
  cbv zeta. rewrite S1. unfold wrap32. rewrite Z.mod_small by nia.
  unfold QUEUE_MAX_MALLOC_SIZE, POW30. destruct (Z.gtb_spec (bqs * 2 ^ t + 2147483648 - 2147483648) 67108863); nia.
Qed.

Section Restructure.
Variable q0 : sq.
Variable time0 : Z.
Hypothesis I0 : Inv q0.
Hypothesis LEN0 : Z.of_nat (length (queues q0)) + 1 < P31.
Hypothesis ND0 : NoDup (ids (abs q0)).

Let F0 := flat q0.
Let T := tailNodeIndex q0.
Let tp0 := tp q0.

Record RI (s : nat) (st : istore) (l : lwq) : Prop := mkRI {
  RI_lw : LWInv st l;
  RI_q : queues (lw_locks l) = queues q0;
  RI_sz : nodeQueueSizes (lw_locks l) = nodeQueueSizes q0;
  RI_bqs : baseQueueSize (lw_locks l) = baseQueueSize q0;
  RI_hp : hp (lw_locks l) = 0;
  RI_tp : tp (lw_locks l) = Z.of_nat (length (Cn F0 s));
  RI_flat : flat (lw_locks l) = form F0 s;
  RI_free : lw_free l = 0;
  RI_time : lw_time l = time0
}.

Lemma RI_abs s st l : RI s st l -> abs (lw_locks l) = Cn F0 s.
Proof.
  intros R. unfold abs. rewrite (RI_hp _ _ _ R), (RI_tp _ _ _ R), (RI_flat _ _ _ R), seg0, Nat2Z.id. apply form_firstn.
Qed.

Lemma ids_prefix_tp0 : ids (firstn (Z.to_nat tp0) F0) = ids (abs q0).
Proof.
  destruct (Inv_pos q0 I0) as (P0 & P1 & P2 & _). unfold abs, seg, F0, tp0.
  rewrite <- (firstn_skipn (Z.to_nat (hp q0)) (firstn (Z.to_nat (tp q0)) (flat q0))), ids_app.
  rewrite firstn_firstn. replace (Nat.min (Z.to_nat (hp q0)) (Z.to_nat (tp q0))) with (Z.to_nat (hp q0)) by lia.
  rewrite (ids_allnone _ (I_clean q0 I0)). cbn [app]. f_equal.
  rewrite skipn_firstn_comm. f_equal. lia.
Qed.

Lemma notin_prefix s y : Z.of_nat s < tp0 -> nth_error F0 s = Some (Some y) -> ~ In y (ids (Cn F0 s)).
Proof.
  intros Lt H. unfold Cn. rewrite ids_live.
  assert (ND : NoDup (ids (firstn (S s) F0))).
  { rewrite <- ids_prefix_tp0 in ND0.
    rewrite <- (firstn_skipn (S s) (firstn (Z.to_nat tp0) F0)), ids_app in ND0. apply NoDup_app_l in ND0.
    rewrite firstn_firstn in ND0. replace (Nat.min (S s) (Z.to_nat tp0)) with (S s) in ND0 by lia. exact ND0. }
  rewrite (firstn_S_snoc _ _ _ H), ids_app in ND. cbn in ND. apply NoDup_snoc_notin in ND. exact ND.
Qed.

Lemma slot_step s st l j k : RI s st l -> Z.of_nat s < tp0 -> coord q0 j k (Z.of_nat s) ->
  exists st' l', lwr_slot j k (l, st) = Ok (l', st') /\ RI (S s) st' l'.
Proof.
  intros R Lt C0. pose proof (RI_abs _ _ _ R) as AB. destruct R as [LW Q SZ BQ HP TP FL FR TM]. set (q := lw_locks l) in *.
  pose proof (L_inv _ _ LW) as I. fold q in I.
  assert (JT : j <= T) by (eapply coord_le_tail; eauto).
  destruct C0 as (J0 & sj & Hsj & Hk & Hp).
  destruct (I_alloc q0 I0 j ltac:(unfold T in JT; lia)) as [id Hid].
  pose proof (zget_inv _ _ _ Hid) as (_ & Hid' & _).
  destruct (Inv_pos q0 I0) as (Q0 & Q1 & Q2 & _ & _ & Hts0 & _ & _).
  assert (SL : (s < length F0)%nat) by (unfold F0, tp0 in *; lia).
  assert (GQ : getq q j = Ok (Some id)). { unfold getq. rewrite Q, Hid. reflexivity. }
  rewrite <- Q in Hid'. rewrite <- SZ in Hsj, Hp.
  destruct (rd_node q _ _ _ k (I_nodes q I) Hid' Hsj Hk) as (x & RD & NX).
  rewrite Hp, Nat2Z.id, FL, form_nth in NX by exact SL.
  pose proof (Cn_le F0 s) as CL.
  destruct x as [y|].
  -     destruct (wr_node q _ _ _ k None (I_nodes q I) (I_nodup q I) Hid' Hsj Hk) as (h' & W & HL & NO & FLw).
    rewrite Hp, Nat2Z.id in FLw.
    set (q1 := set_heap q h').
    assert (I1 : Inv q1).
    { apply (Inv_write q h' (Z.of_nat s) None I); [lia | exact NO | intros; rewrite Nat2Z.id; apply FLw; auto]. }
    assert (F1 : flat q1 = upd (flat q) s None) by (apply FLw; reflexivity).
    assert (A1 : abs q1 = abs q).
    { unfold abs. change (hp q1) with (hp q). change (tp q1) with (tp q). rewrite F1. apply seg_upd_after; lia. }
    assert (LW1 : LWInv st (set_locks l q1)).
    { destruct LW as [_ B LN ND IDX CNT]. constructor; cbn [lw_locks lw_count lw_free lw_time set_locks]; auto.
      - rewrite A1. exact ND.
      - intros i z Hi. rewrite A1 in Hi. exact (IDX i z Hi).
      - rewrite A1. exact CNT. }
    assert (NI : ~ In y (ids (lw_abs (set_locks l q1)))).
    { unfold lw_abs. cbn [lw_locks set_locks]. rewrite A1, AB. apply notin_prefix; auto. }
    assert (G : Z.of_nat (length (queues (lw_locks (set_locks l q1)))) + 1 < P31).
    { cbn [lw_locks set_locks]. change (queues q1) with (queues q). rewrite Q. exact LEN0. }
    destruct (lw_push_spec st (set_locks l q1) y LW1 NI G) as (l2 & st2 & E2 & LW2 & A2 & C2 & FR2 & TM2 & _ & HP2 & TP2 & BQ2 & FRM).
    cbn [lw_locks set_locks] in E2, A2, C2, FR2, TM2, HP2, TP2, BQ2, FRM.
    exists st2, l2. split.
    { unfold lwr_slot. cbv beta iota. fold q. rewrite GQ, bind_Ok. cbv beta. rewrite RD, bind_Ok. cbv beta iota.
      rewrite bind_Ok. cbv beta. rewrite W, bind_Ok. cbv beta. exact E2. }
    destruct (Inv_pos q I) as (P0 & P1 & P2 & _ & _ & Hts & _ & _).
    pose proof (sizes_nonneg q (I_nodes q I)) as NN.
    assert (PRE : tailQueueIndex q1 + 1 < tailQueueSize q1 \/ exists id', zget (queues q1) (tailNodeIndex q1 + 1) = Some (Some id')).
    { change (tailQueueIndex q1) with (tailQueueIndex q). change (tailQueueSize q1) with (tailQueueSize q).
      change (tailNodeIndex q1) with (tailNodeIndex q). change (queues q1) with (queues q).
      destruct (Z.lt_ge_cases (tailQueueIndex q + 1) (tailQueueSize q)); [left; auto|right].
      assert (TN : tailNodeIndex q + 1 <= T).
      { destruct (Z.le_gt_cases (tailNodeIndex q + 1) T); auto. exfalso.
        pose proof (off_mono (nodeQueueSizes q) (S (Z.to_nat T)) (S (Z.to_nat (tailNodeIndex q))) NN
                     ltac:(pose proof (I_hni q0 I0); pose proof (I_ht q0 I0); unfold T in *; lia)) as OM.
        rewrite (off_S _ _ _ Hts) in OM. rewrite SZ in OM at 1. unfold T in OM. rewrite (off_S _ _ _ Hts0) in OM.
        pose proof (I_tqi q I). pose proof (I_tqi q0 I0). unfold tp in TP. unfold tp0, tp in Lt. rewrite SZ in *. lia. }
      destruct (I_alloc q0 I0 (tailNodeIndex q + 1) ltac:(pose proof (I_hni q I); pose proof (I_ht q I); unfold T in TN; lia)) as [id' Hid2].
      exists id'. rewrite Q. exact Hid2. }
    destruct (FRM PRE) as (Q2' & SZ2 & FL2).
    change (tp q1) with (tp q) in *. change (hp q1) with (hp q) in *. change (queues q1) with (queues q) in *.
    change (nodeQueueSizes q1) with (nodeQueueSizes q) in *. change (baseQueueSize q1) with (baseQueueSize q) in *.
    constructor; auto; try congruence.
    + rewrite TP2, TP, (Cn_S_some F0 s y NX), app_length. cbn [length]. lia.
    + rewrite FL2, F1, TP, Nat2Z.id, FL. symmetry. apply form_S_some. exact NX.
    + cbn in FR2. congruence.
    + cbn in TM2. congruence.
  - exists st, l. split.
    { unfold lwr_slot. cbv beta iota. fold q. rewrite GQ, bind_Ok. cbv beta. rewrite RD, bind_Ok. reflexivity. }
    constructor; auto.
    + rewrite (Cn_S_none F0 s NX). exact TP.
    + rewrite (form_S_none F0 s NX). exact FL.
Qed.

Lemma inner_steps (bound : sq -> res Z) j : forall n k s st l fuel b,
  RI s st l -> b = k + Z.of_nat n ->
  (forall q, nodeQueueSizes q = nodeQueueSizes q0 -> bound q = Ok b) ->
  (forall i, (i < n)%nat -> coord q0 j (k + Z.of_nat i) (Z.of_nat (s + i))) ->
  Z.of_nat (s + n) <= tp0 -> (n < fuel)%nat ->
  exists st' l', lwr_inner fuel bound j k (l, st) = Ok (l', st') /\ RI (s + n) st' l'.
Proof.
  induction n as [|n IH]; intros k s st l fuel b R Hb HB HC HT HF; (destruct fuel as [|fuel]; [lia|]).
  - cbn [lwr_inner fst]. rewrite (HB _ (RI_sz _ _ _ R)), bind_Ok. subst b.
    replace (k <? k + Z.of_nat 0) with false by (symmetry; apply Z.ltb_ge; lia).
    exists st, l. rewrite Nat.add_0_r. auto.
  - cbn [lwr_inner fst]. rewrite (HB _ (RI_sz _ _ _ R)), bind_Ok. subst b.
    replace (k <? k + Z.of_nat (S n)) with true by (symmetry; apply Z.ltb_lt; lia).
    destruct (slot_step s st l j k R ltac:(lia)) as (st1 & l1 & E1 & R1).
    { specialize (HC O ltac:(lia)). rewrite Z.add_0_r, Nat.add_0_r in HC. exact HC. }
    rewrite E1, bind_Ok.
    destruct (IH (k + 1) (S s) st1 l1 fuel (k + Z.of_nat (S n)) R1 ltac:(lia)) as (st2 & l2 & E2 & R2); auto.
    + intros i Hi. specialize (HC (S i) ltac:(lia)).
      replace (k + 1 + Z.of_nat i) with (k + Z.of_nat (S i)) by lia. replace (S s + i)%nat with (s + S i)%nat by lia. exact HC.
    + lia.
    + lia.
    + exists st2, l2. split; [exact E2|]. replace (s + S n)%nat with (S s + n)%nat by lia. exact R2.
Qed.

Definition posn (j : Z) : nat := Z.to_nat (off (nodeQueueSizes q0) (Z.to_nat j)).

Lemma posn_S j s : 0 <= j -> nth_error (nodeQueueSizes q0) (Z.to_nat j) = Some s -> 0 <= s -> posn (j + 1) = (posn j + Z.to_nat s)%nat.
Proof.
  intros J H S0. unfold posn. replace (Z.to_nat (j + 1)) with (S (Z.to_nat j)) by lia. rewrite (off_S _ _ _ H).
  pose proof (off_nonneg _ (Z.to_nat j) (sizes_nonneg q0 (I_nodes q0 I0))). lia.
Qed.

Lemma posn_le_tp0 j : 0 <= j <= T -> Z.of_nat (posn j) <= tp0.
Proof.
  intros H. unfold posn. pose proof (sizes_nonneg q0 (I_nodes q0 I0)) as NN.
  pose proof (off_nonneg _ (Z.to_nat j) NN). rewrite Z2Nat.id by lia.
  pose proof (off_mono _ (Z.to_nat j) (Z.to_nat T) NN ltac:(lia)). unfold tp0, tp. fold T. pose proof (I_tqi q0 I0). lia.
Qed.

Lemma node_step j st l : 0 <= j < T -> RI (posn j) st l ->
  exists st' l', lwr_node (l, st, j) = Ok (l', st', j + 1) /\ RI (posn (j + 1)) st' l'.
Proof.
  intros J R. destruct (Inv_node q0 j I0 ltac:(unfold T in J; lia)) as (id & sj & Q1 & S1 & S2).
  pose proof (zget_inv _ _ _ S1) as (_ & S1' & _).
  pose proof (sizes_nonneg q0 (I_nodes q0 I0)) as NN.
  pose proof (off_nonneg _ (Z.to_nat j) NN) as ON.
  unfold lwr_node. cbn [fst]. unfold gets at 1. rewrite (RI_sz _ _ _ R), S1. cbn [lift]. rewrite bind_Ok.
  destruct (inner_steps (fun q => gets q j) j (Z.to_nat sj) 0 (posn j) st l (Z.to_nat sj + 1) sj R ltac:(lia)) as (st' & l' & E & R').
  - intros q Hq. unfold gets. rewrite Hq, S1. reflexivity.
  - intros i Hi. split; [lia|]. exists sj. split; auto. split; [lia|]. unfold posn. lia.
  - rewrite <- (posn_S j sj) by (auto; lia). apply posn_le_tp0. lia.
  - lia.
  - exists st', l'. rewrite E, bind_Ok. split; [reflexivity|]. rewrite (posn_S j sj) by (auto; lia). exact R'.
Qed.

Lemma outer_steps : forall m j st l, 0 <= j -> j + Z.of_nat m <= T -> RI (posn j) st l ->
  exists st' l', iter m lwr_node (l, st, j) = Ok (l', st', j + Z.of_nat m) /\ RI (posn (j + Z.of_nat m)) st' l'.
Proof.
  induction m as [|m IH]; intros j st l J JT R.
  - cbn [iter]. exists st, l. rewrite Z.add_0_r. auto.
  - cbn [iter]. destruct (node_step j st l ltac:(lia) R) as (st1 & l1 & E1 & R1). rewrite E1, bind_Ok.
    destruct (IH (j + 1) st1 l1 ltac:(lia) ltac:(lia) R1) as (st2 & l2 & E2 & R2).
    exists st2, l2. replace (j + Z.of_nat (S m)) with (j + 1 + Z.of_nat m) by lia. auto.
Qed.

Lemma final_steps st l : RI (posn T) st l ->
  exists st' l', lwr_inner (Z.to_nat (tailQueueIndex q0) + 1) (fun _ => Ok (tailQueueIndex q0)) T 0 (l, st) = Ok (l', st') /\
                 RI (Z.to_nat tp0) st' l'.
Proof.
  intros R. destruct (Inv_pos q0 I0) as (P0 & P1 & P2 & _ & _ & Hts & _ & _).
  pose proof (sizes_nonneg q0 (I_nodes q0 I0)) as NN.
  pose proof (off_nonneg _ (Z.to_nat T) NN) as ON. pose proof (I_tqi q0 I0) as TQ. pose proof (I_hni q0 I0). pose proof (I_ht q0 I0).
  assert (E : (posn T + Z.to_nat (tailQueueIndex q0))%nat = Z.to_nat tp0). { unfold posn, tp0, tp. fold T. lia. }
  destruct (inner_steps (fun _ => Ok (tailQueueIndex q0)) T (Z.to_nat (tailQueueIndex q0)) 0 (posn T) st l
              (Z.to_nat (tailQueueIndex q0) + 1) (tailQueueIndex q0) R ltac:(lia)) as (st' & l' & E' & R').
  - reflexivity.
  - intros i Hi. split; [unfold T; lia|]. exists (tailQueueSize q0). split; [exact Hts|]. split; [lia|]. unfold posn. lia.
  - rewrite E. lia.
  - lia.
  - exists st', l'. rewrite <- E. auto.
Qed.

Hypothesis B0 : 1 <= baseQueueSize q0.
Hypothesis G0 : baseQueueSize q0 * 2 ^ T < P31.

Lemma reset_RI st : exists q1, reset_cursors q0 = Ok q1 /\ RI 0 st (mkLW q1 time0 0 0).
Proof.
  destruct (Inv_node q0 0 I0 ltac:(pose proof (I_hni q0 I0); pose proof (I_ht q0 I0); lia)) as (id & s0 & Q1 & S1 & S2).
  unfold reset_cursors. unfold getq, gets. sq_cbn. rewrite Q1, S1. cbn [lift]. rewrite !bind_Ok. sq_cbn.
  eexists. split; [reflexivity|].
  set (q1 := set_tailQueueSize _ _).
  assert (HP1 : hp q1 = 0) by reflexivity.
  assert (TP1 : tp q1 = 0) by reflexivity.
  assert (I1 : Inv q1).
  { pose proof I0 as I. dI I. constructor; unfold q1; sq_cbn; auto; try lia.
    - intros i Hi. assert (i = 0) by lia. subst i. exists id. exact Q1.
    - fold q1. rewrite HP1. constructor. }
  assert (A1 : abs q1 = []). { unfold abs. rewrite HP1, TP1. apply seg_empty. lia. }
  constructor; cbn [lw_locks lw_count lw_free lw_time]; auto.
  - constructor; cbn [lw_locks lw_count lw_free lw_time]; auto.
    + change (queues q1) with (queues q0). lia.
    + rewrite A1. constructor.
    + intros i x Hi. rewrite A1 in Hi. destruct i; discriminate.
Qed.

Lemma live_prefix_tp0 : Cn F0 (Z.to_nat tp0) = live (abs q0).
Proof.
  destruct (Inv_pos q0 I0) as (P0 & P1 & P2 & _). unfold Cn, abs, seg, F0, tp0.
  rewrite <- (firstn_skipn (Z.to_nat (hp q0)) (firstn (Z.to_nat (tp q0)) (flat q0))), live_app.
  rewrite firstn_firstn. replace (Nat.min (Z.to_nat (hp q0)) (Z.to_nat (tp q0))) with (Z.to_nat (hp q0)) by lia.
  rewrite (live_allnone _ (I_clean q0 I0)). cbn [app]. f_equal.
  rewrite skipn_firstn_comm. f_equal. lia.
Qed.

Lemma restructure_q0 st l : lw_locks l = q0 -> lw_time l = time0 ->
  exists l' st', lw_restructure st l = Ok (l', st') /\ LWInv st' l' /\ lw_abs l' = live (abs q0) /\
                 lw_free l' = 0 /\ lw_time l' = time0.
Proof.
  intros EL ET. pose proof (I_hni q0 I0) as H0. pose proof (I_ht q0 I0) as H1. pose proof (I_tni q0 I0) as H2.
  destruct (reset_RI st) as (q1 & E1 & R1).
  destruct (outer_steps (Z.to_nat T) 0 st _ ltac:(lia) ltac:(lia) R1) as (st2 & l2 & E2 & R2).
  rewrite Z.add_0_l, Z2Nat.id in E2, R2 by (unfold T; lia).
  destruct (final_steps st2 l2 R2) as (st3 & l3 & E3 & R3).
  pose proof (RI_abs _ _ _ R3) as A3. rewrite live_prefix_tp0 in A3.
  destruct R3 as [LW3 Q3 SZ3 BQ3 HP3 TP3 FL3 FR3 TM3]. set (q3 := lw_locks l3) in *.
  pose proof (L_inv _ _ LW3) as I3. fold q3 in I3.
  assert (TN3 : tailNodeIndex q3 <= T).
  { destruct (Z.le_gt_cases (tailNodeIndex q3) T); auto. exfalso.
    destruct (Inv_pos q3 I3) as (P0 & P1 & P2 & _ & _ & Hts & _ & _).
    destruct (Inv_pos q0 I0) as (R0 & R1' & R2' & _ & _ & Hts0 & _ & _).
    pose proof (sizes_nonneg q3 (I_nodes q3 I3)) as NN.
    pose proof (off_mono (nodeQueueSizes q3) (S (Z.to_nat T)) (Z.to_nat (tailNodeIndex q3)) NN ltac:(lia)) as OM.
    rewrite SZ3 in OM at 1. unfold T in OM at 1. rewrite (off_S _ _ _ Hts0) in OM.
    pose proof (Cn_le F0 (Z.to_nat tp0)). pose proof (I_tqi q3 I3). pose proof (I_tqi q0 I0).
    unfold tp in TP3. unfold tp0, tp in H3. rewrite SZ3 in *. fold T in H3. Show. Abort.
End Restructure.
