From Coq Require Import List ZArith NArith Bool Lia.
From Slock Require Import Queue.SegQueue Queue.ListLemmas Queue.SegQueueInv Queue.SegQueueOps Queue.SegQueueRefine Queue.SegQueueFrame Queue.LongWait.
From Slock Require Import scratch.c20ext.F2 scratch.c20ext.F3 scratch.c20ext.F4 scratch.c20ext.F5.
Import ListNotations.
Open Scope Z_scope.

(* ---------- decidable form of the side conditions (for concrete runs) ---------- *)
Definition wf_opb (sl : list slot) (o : lop) : bool :=
  match o with
  | LPush x => negb (existsb (N.eqb x) (ids sl))
  | LRemove x | LRemovePolicy x => existsb (N.eqb x) (ids sl)
  | _ => true
  end.
Definition lw_guardb (l : lwq) : bool :=
  (Z.of_nat (length (queues (lw_locks l))) + 1 <? P31) &&
  (baseQueueSize (lw_locks l) * 2 ^ tailNodeIndex (lw_locks l) <? P31).

Fixpoint lw_okrunb (st : istore) (l : lwq) (ops : list lop) : bool :=
  match ops with
  | [] => true
  | o :: r => wf_opb (lw_abs l) o && lw_guardb l &&
              match lw_step st l o with Ok (l', st', _) => lw_okrunb st' l' r | _ => false end
  end.

Lemma existsb_In x l : existsb (N.eqb x) l = true <-> In x l.
Proof.
  rewrite existsb_exists. split.
  - intros (y & H & E). apply N.eqb_eq in E. subst. exact H.
  - intros H. exists x. split; auto. apply N.eqb_refl.
Qed.

Lemma lw_okrunb_sound : forall ops st l, lw_okrunb st l ops = true -> lw_okrun st l ops.
Proof.
  induction ops as [|o r IH]; intros st l H; cbn [lw_okrunb lw_okrun] in *; auto.
  apply andb_true_iff in H. destruct H as [H H3]. apply andb_true_iff in H. destruct H as [H1 H2].
  split; [|split].
  - destruct o; cbn [wf_opb wf_op] in *; auto.
    + intros C. apply existsb_In in C. rewrite C in H1. discriminate.
    + apply existsb_In. exact H1.
    + apply existsb_In. exact H1.
  - unfold lw_guardb in H2. apply andb_true_iff in H2. destruct H2 as [A B]. split; [apply Z.ltb_lt; exact A | apply Z.ltb_lt; exact B].
  - intros l' st' ob E. rewrite E in H3. apply IH. exact H3.
Qed.

Theorem lw_new_run_refines base nodes size ops :
  1 <= base -> 1 <= nodes -> nodes + 1 < P31 -> 1 <= size < POW30 ->
  (forall l, lw_new base nodes size 0 = Ok l -> lw_okrun (fun _ => 0) l ops) ->
  lw_run_new base nodes size ops = (spec_run ([], 0, 0) ops, EDone).
Proof.
  intros Hb Hn Hn2 Hs OK.
  destruct (lw_new_spec (fun _ => 0) base nodes size 0 Hb Hn Hn2 Hs) as (l & E & LW & A & C & F & _).
  unfold lw_run_new. rewrite E. rewrite (lw_run_refines ops _ l LW (OK l E)). unfold lw_rel. rewrite A, C, F. reflexivity.
Qed.

(* ---------- LongWaitLockFreeQueue: a LIFO stack of released queues with a fixed capacity ---------- *)
Definition fq_rep (f : lwfree) (s : list lwq) : Prop :=
  fq_index f = Z.of_nat (length s) - 1 /\ Z.of_nat (length (fq_slots f)) = fq_max f + 1 /\
  Z.of_nat (length s) <= fq_max f + 1 /\ firstn (length s) (fq_slots f) = map Some s.

Lemma fq_new_rep n : 0 <= n -> fq_rep (fq_new n) [].
Proof. intros H. unfold fq_rep, fq_new. cbn. rewrite repeat_length. repeat split; lia. Qed.

Lemma fq_len_rep f s : fq_rep f s -> fq_len f = Z.of_nat (length s).
Proof. intros (H & _). unfold fq_len. lia. Qed.

Lemma firstn_snoc_nth {A} (l : list A) n x : firstn (S n) l = firstn n l ++ [x] -> nth_error l n = Some x.
Proof.
  revert n. induction l as [|a l IH]; intros n H; destruct n; cbn in *; try discriminate.
  - injection H as ->. reflexivity.
  - injection H as H. apply IH. exact H.
Qed.

Lemma fq_get_empty f t : fq_rep f [] ->
  fq_get f t = (l <- lw_new 4 64 LONG_LOCKS_QUEUE_INIT_SIZE t ;; Ok (f, l)).
Proof. intros (H & _). unfold fq_get. cbn in H. destruct (Z.ltb_spec (fq_index f) 0); [reflexivity|lia]. Qed.

Lemma fq_top f s top : fq_rep f (s ++ [top]) ->
  0 <= fq_index f < Z.of_nat (length (fq_slots f)) /\ Z.to_nat (fq_index f) = length s /\
  nth_error (fq_slots f) (length s) = Some (Some top) /\
  fq_rep (mkFQ (upd (fq_slots f) (length s) None) (fq_index f - 1) (fq_max f)) s.
Proof.
  intros (H1 & H2 & H3 & H4). rewrite app_length in *. cbn [length] in *.
  replace (length s + 1)%nat with (S (length s)) in H4 by lia.
  assert (F : firstn (length s) (fq_slots f) = map Some s).
  { pose proof (f_equal (firstn (length s)) H4) as X. rewrite firstn_firstn in X.
    replace (Nat.min (length s) (S (length s))) with (length s) in X by lia. rewrite X, map_app.
    rewrite firstn_app. rewrite map_length, Nat.sub_diag. cbn. rewrite app_nil_r. apply firstn_all2. rewrite map_length. lia. }
  assert (N : nth_error (fq_slots f) (length s) = Some (Some top)).
  { apply firstn_snoc_nth. rewrite H4, F, map_app. reflexivity. }
  split; [lia|]. split; [lia|]. split; [exact N|].
  unfold fq_rep. cbn [fq_index fq_slots fq_max]. rewrite upd_length. repeat split; try lia.
  rewrite firstn_upd_ge by lia. exact F.
Qed.

Lemma fq_get_top f s top t : fq_rep f (s ++ [top]) ->
  exists f', fq_get f t = Ok (f', mkLW (lw_locks top) t 0 0) /\ fq_rep f' s.
Proof.
  intros R. destruct (fq_top f s top R) as (B & E & N & R').
  unfold fq_get. destruct (Z.ltb_spec (fq_index f) 0); [lia|].
  rewrite zget_some, zset_some by lia. rewrite E, N. cbn [lift]. rewrite !bind_Ok. eexists. split; [reflexivity|exact R'].
Qed.

Lemma fq_pop_rep f s : fq_rep f s ->
  match rev s with
  | [] => fq_pop f = Ok (f, false)
  | _ :: r => exists f', fq_pop f = Ok (f', true) /\ fq_rep f' (rev r)
  end.
Proof.
  intros R. destruct (rev s) as [|top r] eqn:E.
  - assert (s = []) by (rewrite <- (rev_involutive s), E; reflexivity). subst. destruct R as (H & _).
    unfold fq_pop. cbn in H. destruct (Z.ltb_spec (fq_index f) 0); [reflexivity|lia].
  - assert (S : s = rev r ++ [top]) by (rewrite <- (rev_involutive s), E; reflexivity). rewrite S in R.
    destruct (fq_top f (rev r) top R) as (B & E' & N & R').
    unfold fq_pop. destruct (Z.ltb_spec (fq_index f) 0); [lia|].
    rewrite zget_some, zset_some by lia. rewrite E', N. cbn [lift]. rewrite !bind_Ok. eexists. split; [reflexivity|exact R'].
Qed.

Lemma fq_free_rep f s l now q' : fq_rep f s -> Reset (lw_locks l) = Ok q' ->
  if Z.of_nat (length s) <=? fq_max f
  then exists f', fq_free f l now = Ok f' /\ fq_rep f' (s ++ [mkLW q' now (-1) (-1)])
  else fq_free f l now = Ok f.
Proof.
  intros (H1 & H2 & H3 & H4) RS. unfold fq_free.
  destruct (Z.leb_spec (Z.of_nat (length s)) (fq_max f)).
  - destruct (Z.ltb_spec (fq_index f) (fq_max f)); [|lia]. rewrite RS, bind_Ok.
    rewrite zset_some by lia. cbn [lift]. rewrite bind_Ok. eexists. split; [reflexivity|].
    unfold fq_rep. cbn [fq_index fq_slots fq_max]. rewrite upd_length, app_length. cbn [length].
    replace (Z.to_nat (fq_index f + 1)) with (length s) by lia. repeat split; try lia.
    replace (length s + 1)%nat with (S (length s)) by lia.
    rewrite (firstn_S_snoc _ _ (Some (mkLW q' now (-1) (-1)))) by (apply nth_error_upd_same; lia).
    rewrite firstn_upd_ge by lia. rewrite H4, map_app. reflexivity.
  - destruct (Z.ltb_spec (fq_index f) (fq_max f)); [lia|]. reflexivity.
Qed.

(* ---------- Len counts the holes: popping "live count" times instead would lose elements ---------- *)
Lemma lw_len_counts_holes_example :
  lw_run_new 4 64 256 [LPush 1%N; LPush 2%N; LPush 3%N; LRemove 1%N; LLen; LConsume] =
    ([LUnit; LUnit; LUnit; LUnit; LLens 3 3 1; LList [2%N; 3%N]], EDone).
Proof. vm_compute. reflexivity. Qed.

Example lw_okrun_nonvacuous :
  forall l, lw_new 1 1 1 0 = Ok l ->
  lw_okrun (fun _ => 0) l [LPush 1%N; LPush 2%N; LPush 3%N; LPush 4%N; LRemovePolicy 2%N; LLen; LRemove 3%N; LPop; LRestructure; LLen; LConsume].
Proof. intros l E. vm_compute in E. injection E as <-. apply lw_okrunb_sound. vm_compute. reflexivity. Qed.
