From Coq Require Import List ZArith NArith Bool Lia.
From Slock Require Import Queue.SegQueue Queue.ListLemmas Queue.SegQueueInv Queue.SegQueueOps Queue.SegQueueFrame Queue.LongWait.
From Slock Require Import scratch.c20ext.F2.
Import ListNotations.
Open Scope Z_scope.

Lemma iset_same st x v : iset st x v x = v.
Proof. unfold iset. rewrite N.eqb_refl. reflexivity. Qed.
Lemma iset_other st x v y : y <> x -> iset st x v y = st y.
Proof. unfold iset. intros. destruct (N.eqb_spec y x); congruence. Qed.

Lemma firstn_le_agree {A} (l l' : list A) n m : (m <= n)%nat -> firstn n l = firstn n l' -> firstn m l = firstn m l'.
Proof.
  intros H E. replace m with (Nat.min m n) by lia. rewrite <- !firstn_firstn. rewrite E. reflexivity.
Qed.

(* ---------- Push ---------- *)
Lemma lw_push_spec st l x :
  LWInv st l -> ~ In x (ids (lw_abs l)) -> Z.of_nat (length (queues (lw_locks l))) + 1 < P31 ->
  exists l' st', lw_push st l x = Ok (l', st') /\ LWInv st' l' /\ lw_abs l' = lw_abs l ++ [Some x] /\
    lw_count l' = lw_count l + 1 /\ lw_free l' = lw_free l /\ lw_time l' = lw_time l /\
    (forall y, y <> x -> st' y = st y) /\
    hp (lw_locks l') = hp (lw_locks l) /\ tp (lw_locks l') = tp (lw_locks l) + 1 /\
    baseQueueSize (lw_locks l') = baseQueueSize (lw_locks l) /\
    ((tailQueueIndex (lw_locks l) + 1 < tailQueueSize (lw_locks l) \/
      exists id, zget (queues (lw_locks l)) (tailNodeIndex (lw_locks l) + 1) = Some (Some id)) ->
       queues (lw_locks l') = queues (lw_locks l) /\ nodeQueueSizes (lw_locks l') = nodeQueueSizes (lw_locks l) /\
       flat (lw_locks l') = upd (flat (lw_locks l)) (Z.to_nat (tp (lw_locks l))) (Some x)).
Proof.
  intros [I B LN ND IDX CNT] NI G. unfold lw_abs in *. set (q := lw_locks l) in *.
  destruct (Push_strong q (Some x) I) as (q' & E & I' & A & HP & TP & BQ & TN & LQ & SZ & FR).
  unfold lw_push. fold q. rewrite E, bind_Ok. eexists _, _. split; [reflexivity|].
  cbn [lw_locks lw_count lw_free lw_time].
  destruct (Inv_pos q I) as (P0 & P1 & P2 & PE & Hhs & Hts & Hh & Ht).
  pose proof (abs_length q I) as AL.
  split; [|split; [exact A|split; [reflexivity|split; [reflexivity|split; [reflexivity|split; [intros; apply iset_other; auto|]]]]]].
  2:{ split; [exact HP|]. split; [exact TP|]. split; [exact BQ|exact FR]. }
  constructor; cbn [lw_locks lw_count lw_free lw_time]; auto.
  - lia.
  - lia.
  - rewrite A, ids_app. cbn. apply NoDup_app_snoc; auto.
  - intros i y Hi. rewrite A in Hi. rewrite HP.
    destruct (Nat.lt_ge_cases i (length (abs q))) as [Lt|Ge].
    + rewrite nth_error_app1 in Hi by auto.
      assert (y <> x). { intros ->. apply NI. apply ids_In. eauto. }
      destruct (IDX i y Hi) as (node & k & S1 & C1). exists node, k. rewrite iset_other by auto. split; auto.
      assert (node <= tailNodeIndex q) by (eapply coord_le_tail; eauto; lia).
      eapply coord_prefix; [|exact C1]. eapply firstn_le_agree; [|exact SZ]. destruct C1. lia.
    + rewrite nth_error_app2 in Hi by auto. destruct (i - length (abs q))%nat eqn:D; cbn in Hi; [|destruct n; discriminate].
      injection Hi as <-. assert (i = length (abs q)) by lia. subst i.
      exists (tailNodeIndex q), (tailQueueIndex q). rewrite iset_same. split; auto.
      eapply coord_prefix; [exact SZ|]. split; [pose proof (I_hni q I); pose proof (I_ht q I); lia|].
      exists (tailQueueSize q). split; auto. split; [apply (I_tqi q I)|]. unfold tp in AL. unfold tp, hp in *. lia.
  - rewrite A, ids_app, app_length. cbn. lia.
Qed.

(* ---------- Pop ---------- *)
Lemma lw_pop_spec st l :
  LWInv st l ->
  exists l' st', lw_pop st l = Ok (l', st', hd_slot (lw_abs l)) /\ LWInv st' l' /\ lw_abs l' = tl (lw_abs l) /\
    lw_count l' = lw_count l - (match hd_slot (lw_abs l) with Some _ => 1 | None => 0 end) /\
    lw_free l' = lw_free l /\ lw_time l' = lw_time l.
Proof.
  intros [I B LN ND IDX CNT]. unfold lw_abs in *. set (q := lw_locks l) in *.
  destruct (Pop_spec q I) as (q' & E & I' & A & R).
  destruct (Pop_frame _ _ _ E) as (F1 & F2 & F3 & F4 & F5).
  unfold lw_pop. fold q. rewrite E, bind_Ok.
  assert (CO : forall node k p, coord q node k p -> coord q' node k p).
  { intros node k p (N0 & s & Hs & Hk & Hp). split; auto. exists s. rewrite F2. auto. }
  assert (EM : is_empty q = true <-> abs q = []).
  { destruct (Inv_pos q I) as (P0 & P1 & P2 & PE & _). pose proof (abs_length q I) as L.
    destruct (is_empty q); split; intros; auto; try discriminate.
    - destruct (abs q); auto. cbn [length] in L. lia.
    - rewrite H in L. cbn in L. lia. }
  destruct (abs q) as [|h t] eqn:EA.
  - (* empty *)
    cbn [hd_slot tl] in *. Show. Abort.
