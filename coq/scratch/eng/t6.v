From Coq Require Import String ZifyN ZifyBool.
From Slock Require Import Engine.Types Engine.Queues Engine.Timers Engine.Engine Engine.Engine2 Engine.LocalBase Engine.LocalFrames Engine.LocalC01.
Open Scope N_scope.
Check msub_hq_push. Check msub_get_wait_lock. Check msub_add_timeout. Check msub_remove_mgr. Check msub_updm_K. Check msub_updm_at.

Definition le_locked (m m' : mgr) : Prop := m_locked m <= m_locked m'.
Lemma lecond_le_locked : lecond le_locked.
Proof. split; unfold Lrel, le_locked; intros; cbn; lia. Qed.
Lemma le_locked_wait : lecond_wait le_locked.
Proof. intros m f. unfold Lrel, le_locked. cbn. lia. Qed.
#[export] Hint Resolve lecond_le_locked le_locked_wait : msdb.

Lemma cancel_wait_lock_wake s conn c s' ev w :
  cancel_wait_lock s conn c = (s', ev, w) -> msub (option_map w_key w) le_locked s s'.
Proof.
  unfold cancel_wait_lock. intros H. repeat (split_hyp H); inv_tuple H; cbn [option_map w_key].
  Time all: ms.
Qed.

Lemma unlock_step_wake s conn c s' ev w :
  unlock_step s conn c = (s', ev, w) -> msub (option_map w_key w) le_locked s s'.
Proof.
  unfold unlock_step. intros H. repeat (split_hyp H); inv_tuple H; cbn [option_map w_key].
  all: try (eapply cancel_wait_lock_wake; eassumption).
  Time all: ms.
Qed.
