(* Local facts, part 1 (property C01): every event "new holder granted" carries counters that satisfy the admission
   rule doLock, and these counters are the ones of the state in which doLock was evaluated.  Every state, every
   action, every sequence of actions. *)
From Coq Require Import String ZifyN ZifyBool.
From Slock Require Import Engine.Types Engine.Queues Engine.Timers Engine.Engine Engine.Engine2 Engine.LocalBase.
Open Scope N_scope.

(* ------------------------------------------------------------------ event predicates closed under the helpers *)
Record base_ok (P : event -> Prop) : Prop := {
  bo_quiet : quiet_ok P;
  bo_reply : forall e, is_reply e -> P e;
  bo_release : forall k r d, P (ERelease k r d);
  bo_regrant : forall k r b cc rc, P (EGrant k r false b cc rc) }.

Lemma base_ok_nng : base_ok nng.
Proof.
  split; try (intros; exact I). exact quiet_ok_nng.
  intros [] H; simpl in *; auto; contradiction.
Qed.

Ltac ev_solve2 HB :=
  ev_solve (bo_quiet _ HB);
  try solve [ apply (bo_reply _ HB); exact I | apply (bo_release _ HB) | apply (bo_regrant _ HB) ].

Ltac inv_tuple H :=
  lazymatch type of H with
  | (_, _) = (_, _) => inversion H; subst; clear H
  | _ => idtac
  end.

Ltac crunch H HB := repeat (split_hyp H); inv_tuple H; ev_solve2 HB.

(* ------------------------------------------------------------------ functions that never add a holder *)
Section NoNewHolder.
  Variable P : event -> Prop.
  Hypothesis HB : base_ok P.

  Lemma cancel_wait_lock_P s conn c s' ev w : cancel_wait_lock s conn c = (s', ev, w) -> Forall P ev.
  Proof. unfold cancel_wait_lock. intros H. Time crunch H HB. Qed.

  Lemma release_hold_P s k conn c r d s' ev : release_hold s k conn c r d = (s', ev) -> Forall P ev.
  Proof. unfold release_hold. intros H. Time crunch H HB. Qed.

  Lemma unlock_step_P s conn c s' ev w : unlock_step s conn c = (s', ev, w) -> Forall P ev.
  Proof.
    unfold unlock_step. intros H. crunch H HB.
    all: try (eapply cancel_wait_lock_P; eassumption).
    all: try (eapply release_hold_P; eassumption).
  Qed.

  Lemma do_timeout_P s r s' ev w : do_timeout s r = (s', ev, w) -> Forall P ev.
  Proof. unfold do_timeout. intros H. Time crunch H HB. Qed.

  Lemma do_expried_P s r s' ev w : do_expried s r = (s', ev, w) -> Forall P ev.
  Proof. unfold do_expried. intros H. Time crunch H HB. Qed.

  Lemma do_ack_P s r ok s' ev w : do_ack s r ok = (s', ev, w) -> Forall P ev.
  Proof. unfold do_ack. intros H. Time crunch H HB. Qed.

  Lemma sweep_e_slot_P fuel : forall s slot nowv due ev0 s' due' ev,
    sweep_e_slot fuel s slot nowv due ev0 = (s', due', ev) -> Forall P ev0 -> Forall P ev.
  Proof.
    induction fuel as [|f IH]; intros s slot nowv due ev0 s' due' ev H H0; simpl in H.
    - inv_tuple H. exact H0.
    - repeat (split_hyp H); inv_tuple H; auto.
      all: try (eapply IH; [eassumption|]; try assumption).
      all: apply Forall_app; split; auto; ev_solve2 HB.
  Qed.

  Lemma collect_expiries_P s t nowv s' due ev : collect_expiries s t nowv = (s', due, ev) -> Forall P ev.
  Proof.
    unfold collect_expiries. intros H.
    destruct (sweep_e_slot _ _ _ _ _ _) as [[s1 d1] e1] eqn:E1.
    apply sweep_e_slot_P in E1; [|constructor].
    repeat (split_hyp H); inv_tuple H; auto.
  Qed.
End NoNewHolder.

(* ------------------------------------------------------------------ the two places that add a holder *)
(* the counters recorded in a new-holder event are those of state s0, and doLock held in s0 *)
Definition grant_at (s0 : db) (e : event) : Prop :=
  match e with
  | EGrant k r true b cc rc =>
      b = m_locked (getm s0 k) /\ cc = cur_count s0 k /\ rc = c_count (l_cmd (getl s0 r)) /\ do_lock s0 k r = true
  | _ => True
  end.

(* GetOrNewLockManager *)
Definition get_or_new_mgr (s : db) (k : N) : db :=
  match aget (mgrs s) k with
  | Some _ => s
  | None => bump (fun n => n <| n_key := (n_key n + 1)%Z |>) (setm s k new_mgr)
  end.

(* a new-holder event of Lock: the record was created by new_lock in the state after GetOrNewLockManager, for the
   command c1 = the request (LockId possibly replaced by the show+update re-targeting) *)
Definition lock_grant_at (s : db) (conn : N) (c : cmd) (e : event) : Prop :=
  match e with
  | EGrant k r true _ _ _ =>
      k = c_key c /\
      exists c1 s0, new_lock (get_or_new_mgr s k) k conn c1 = (s0, r)
                    /\ c1 = c <| c_lockid := c_lockid c1 |> /\ grant_at s0 e
  | _ => True
  end.

Lemma new_lock_getl s k conn c s0 r : new_lock s k conn c = (s0, r) -> l_cmd (getl s0 r) = c.
Proof.
  unfold new_lock. intros H. inv_tuple H.
  rewrite getl_updm. unfold getl. cbn [store set].
  rewrite aget_aset_same. reflexivity.
Qed.

Lemma cmd_eta_lockid c : c = c <| c_lockid := c_lockid c |>.
Proof. destruct c; reflexivity. Qed.

Lemma lock_step_grants s conn c s' ev w :
  lock_step s conn c = (s', ev, w) -> Forall (lock_grant_at s conn c) ev.
Proof.
  assert (HB : base_ok (lock_grant_at s conn c)).
  { split; try (intros; exact I). intros [] H; simpl in *; auto; contradiction.
    intros [] H; simpl in *; auto; contradiction. }
  unfold lock_step. intros H. cbv zeta in H.
  change (match aget (mgrs s) (c_key c) with
          | Some _ => s
          | None => bump (fun n => n <| n_key := (n_key n + 1)%Z |>) (setm s (c_key c) new_mgr)
          end) with (get_or_new_mgr s (c_key c)) in H.
  set (sm := get_or_new_mgr s (c_key c)) in *.
  repeat (split_hyp H); inv_tuple H; ev_solve2 HB.
  1: match goal with |- ?G => idtac G end.
  1: split.
  1: reflexivity.
  1: match goal with E : new_lock _ _ _ ?c1 = (?s0, ?r) |- _ => exists c1, s0 end.
  1: split.
  1: match goal with E : new_lock _ _ _ ?c1 = (?s0, ?r) |- _ => exact E end.
  1: split.
  1: first [apply cmd_eta_lockid | destruct (has (c_flag c) LOCK_FLAG_SHOW); apply cmd_eta_lockid].
  1: Show.
Abort.
