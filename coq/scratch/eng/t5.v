(* Local facts, part 3: frame relations through every helper of the engine model.
   msub K le s s' : every key manager of s' (key other than K) was a manager of s, related by `le`
                    (no manager is created; managers may be removed; `le` is a preorder insensitive to the fields
                    refCount/currentLock/locks/currentData/waited).
   All lemmas are in right-extension form  `msub K le s x -> msub K le s (op x)`  so that they chain by eauto. *)
From Coq Require Import String ZifyN ZifyBool.
From Slock Require Import Engine.Types Engine.Queues Engine.Timers Engine.Engine Engine.Engine2 Engine.LocalBase.
Open Scope N_scope.

(* wrapper with a constant head symbol (hint databases cannot index on a variable relation) *)
Definition Lrel (le : mgr -> mgr -> Prop) (a b : mgr) : Prop := le a b.

Record lecond (le : mgr -> mgr -> Prop) : Prop := {
  le_refl : forall m, Lrel le m m;
  le_trans : forall a b c, Lrel le a b -> Lrel le b c -> Lrel le a c;
  le_ref : forall m f, Lrel le m (set m_ref f m);
  le_cur : forall m f, Lrel le m (set m_cur f m);
  le_locks : forall m f, Lrel le m (set m_locks f m);
  le_data : forall m f, Lrel le m (set m_data f m);
  le_waited : forall m f, Lrel le m (set m_waited f m) }.
Definition lecond_wait (le : mgr -> mgr -> Prop) : Prop := forall m f, Lrel le m (set m_wait f m).
Definition lecond_locked (le : mgr -> mgr -> Prop) : Prop := forall m f, Lrel le m (set m_locked f m).

Definition msub (K : option N) (le : mgr -> mgr -> Prop) (s s' : db) : Prop :=
  forall k m', K <> Some k -> aget (mgrs s') k = Some m' -> exists m, aget (mgrs s) k = Some m /\ Lrel le m m'.

Create HintDb msdb.

Section MS.
  Variable K : option N.
  Variable le : mgr -> mgr -> Prop.
  Hypothesis HL : lecond le.

  Lemma lx_ref a m f : Lrel le a m -> Lrel le a (set m_ref f m).
  Proof. intros H. eapply le_trans; eauto. apply le_ref; auto. Qed.
  Lemma lx_cur a m f : Lrel le a m -> Lrel le a (set m_cur f m).
  Proof. intros H. eapply le_trans; eauto. apply le_cur; auto. Qed.
  Lemma lx_locks a m f : Lrel le a m -> Lrel le a (set m_locks f m).
  Proof. intros H. eapply le_trans; eauto. apply le_locks; auto. Qed.
  Lemma lx_data a m f : Lrel le a m -> Lrel le a (set m_data f m).
  Proof. intros H. eapply le_trans; eauto. apply le_data; auto. Qed.
  Lemma lx_waited a m f : Lrel le a m -> Lrel le a (set m_waited f m).
  Proof. intros H. eapply le_trans; eauto. apply le_waited; auto. Qed.
  Lemma lx_wait a m f : lecond_wait le -> Lrel le a m -> Lrel le a (set m_wait f m).
  Proof. intros Hw H. eapply le_trans; eauto. Qed.
  Lemma lx_locked a m f : lecond_locked le -> Lrel le a m -> Lrel le a (set m_locked f m).
  Proof. intros Hw H. eapply le_trans; eauto. Qed.
  Lemma lx_refl m : Lrel le m m. Proof. apply le_refl; auto. Qed.

  Lemma msub_refl s : msub K le s s.
  Proof. intros k m' _ H. exists m'. split; auto. apply lx_refl. Qed.

  Lemma msub_mgrs_eq s x x' : mgrs x' = mgrs x -> msub K le s x -> msub K le s x'.
  Proof. intros E H k m' HK Hg. rewrite E in Hg. eauto. Qed.

  Lemma msub_updl s x r f : msub K le s x -> msub K le s (updl x r f).
  Proof. apply msub_mgrs_eq, mgrs_updl. Qed.
  Lemma msub_setl s x r l : msub K le s x -> msub K le s (setl x r l).
  Proof. apply msub_mgrs_eq. reflexivity. Qed.
  Lemma msub_updc s x f : msub K le s x -> msub K le s (updc x f).
  Proof. apply msub_mgrs_eq. reflexivity. Qed.
  Lemma msub_bump s x f : msub K le s x -> msub K le s (bump f x).
  Proof. apply msub_mgrs_eq. reflexivity. Qed.

  Lemma msub_updm_at s x k f :
    (forall m, aget (mgrs x) k = Some m -> Lrel le m (f m)) -> msub K le s x -> msub K le s (updm x k f).
  Proof.
    intros Hf H k0 m' HK Hg. rewrite aget_mgrs_updm in Hg.
    destruct (k =? k0) eqn:E.
    - apply N.eqb_eq in E. subst k0. destruct (aget (mgrs x) k) as [m1|] eqn:E1; [|discriminate].
      simpl in Hg. inv Hg. destruct (H k m1 HK E1) as (m & Hm & Hle). exists m. split; auto.
      eapply le_trans; eauto.
    - eauto.
  Qed.

  Lemma msub_updm s x k f : (forall m, Lrel le m (f m)) -> msub K le s x -> msub K le s (updm x k f).
  Proof. intros Hf. apply msub_updm_at. intros; apply Hf. Qed.

  Lemma msub_updm_K s x k f : K = Some k -> msub K le s x -> msub K le s (updm x k f).
  Proof.
    intros HKk H k0 m' HK Hg. rewrite aget_mgrs_updm in Hg.
    destruct (k =? k0) eqn:E; [apply N.eqb_eq in E; subst; contradiction|]. eauto.
  Qed.

  Lemma msub_remove_mgr s x k : msub K le s x -> msub K le s (remove_mgr_if_unref x k).
  Proof.
    intros H. unfold remove_mgr_if_unref. destruct (aget (mgrs x) k) as [m|] eqn:E; auto.
    destruct (m_ref m =? 0); auto.
    intros k0 m' HK Hg. cbn in Hg. rewrite aget_adel in Hg. destruct (k =? k0); [discriminate|]. eauto.
  Qed.
End MS.

#[export] Hint Resolve lx_ref lx_cur lx_locks lx_data lx_waited lx_wait lx_locked lx_refl : msdb.
#[export] Hint Resolve msub_refl msub_updl msub_setl msub_updc msub_bump msub_remove_mgr : msdb.
#[export] Hint Resolve msub_updm | 2 : msdb.
#[export] Hint Resolve msub_updm_K | 3 : msdb.
(* record updates of db fields other than the key table *)
#[export] Hint Extern 1 (msub _ _ _ (set _ _ _)) => (eapply msub_mgrs_eq; [reflexivity|]) : msdb.
#[export] Hint Extern 1 (msub _ _ _ (if ?c then _ else _)) => destruct c : msdb.
#[export] Hint Extern 1 (msub _ _ _ (match ?c with _ => _ end)) => destruct c : msdb.

Ltac ms := eauto 80 with msdb.

Section MS2.
  Variable K : option N.
  Variable le : mgr -> mgr -> Prop.
  Hypothesis HL : lecond le.

  Lemma msub_free_lock s x r : msub K le s x -> msub K le s (free_lock x r).
  Proof. intros H. unfold free_lock. destruct (aget (store x) r); ms. Qed.
  Hint Resolve msub_free_lock : msdb.

  Lemma msub_unref s x r : msub K le s x -> msub K le s (unref x r).
  Proof. intros H. unfold unref. destruct (aget (store x) r); ms. Qed.
  Hint Resolve msub_unref : msdb.

  Lemma msub_hq_compact items : forall s x x' kept,
    hq_compact x items = (x', kept) -> msub K le s x -> msub K le s x'.
  Proof.
    induction items as [|r rest IH]; intros s x x' kept H Hs; simpl in H.
    - inv_tuple H. auto.
    - destruct (0 <? l_locked (getl x r)).
      + destruct (hq_compact x rest) as [x1 k1] eqn:E. inv_tuple H. eauto.
      + eapply IH; [exact H|]. ms.
  Qed.

  Lemma msub_hq_push s x q r x' q' : hq_push x q r = (x', q') -> msub K le s x -> msub K le s x'.
  Proof.
    intros H Hs. unfold hq_push in H. repeat (split_hyp H); inv_tuple H; auto.
    all: eapply msub_hq_compact; eauto.
  Qed.

  Lemma msub_promote fuel : forall s x q x' q' nc,
    promote fuel x q = (x', q', nc) -> msub K le s x -> msub K le s x'.
  Proof.
    induction fuel as [|f IH]; intros s x q x' q' nc H Hs; simpl in H.
    - inv_tuple H. auto.
    - destruct (hq_pop q) as [[r|] q1]; [|inv_tuple H; auto].
      destruct (0 <? l_locked (getl x r)); [inv_tuple H; auto|].
      eapply IH; [exact H|]. ms.
  Qed.

  Lemma msub_drop_dead_heads fuel : forall s x q x' q',
    drop_dead_heads fuel x q = (x', q') -> msub K le s x -> msub K le s x'.
  Proof.
    induction fuel as [|f IH]; intros s x q x' q' H Hs; simpl in H.
    - inv_tuple H. auto.
    - destruct (hq_head q) as [r|]; [|inv_tuple H; auto].
      destruct (0 <? l_locked (getl x r)); [inv_tuple H; auto|].
      destruct (hq_pop q) as [o q1]. eapply IH; [exact H|]. ms.
  Qed.

  Lemma msub_remove_lock s x k r : msub K le s x -> msub K le s (remove_lock x k r).
  Proof.
    intros Hs. unfold remove_lock. cbv zeta.
    match goal with |- msub _ _ _ (if ?c then _ else _) => destruct c end.
    - destruct (m_locks (getm _ k)) as [q|]; [|ms].
      destruct (promote _ _ q) as [[x1 q1] nc] eqn:E.
      apply msub_updm; [auto|ms|]. eapply msub_promote; [exact E|]. ms.
    - destruct (m_locks (getm _ k)) as [q|]; [|ms].
      destruct (drop_dead_heads _ _ _) as [x1 q1] eqn:E.
      apply msub_updm; [auto|ms|]. eapply msub_drop_dead_heads; [exact E|]. ms.
  Qed.

  Lemma msub_wq_compact items : forall s x x' kept,
    wq_compact x items = (x', kept) -> msub K le s x -> msub K le s x'.
  Proof.
    induction items as [|r rest IH]; intros s x x' kept H Hs; simpl in H.
    - inv_tuple H. auto.
    - destruct (dead_waiter (getl x r)).
      + eapply IH; [exact H|]. ms.
      + destruct (wq_compact x rest) as [x1 k1] eqn:E. inv_tuple H. eauto.
  Qed.

  Lemma msub_wq_push s x q r x' q' : wq_push x q r = (x', q') -> msub K le s x -> msub K le s x'.
  Proof.
    intros H Hs. unfold wq_push in H. repeat (split_hyp H); inv_tuple H; auto.
    all: eapply msub_wq_compact; eauto.
  Qed.

  Lemma msub_add_wait_lock s x k r : lecond_wait le -> msub K le s x -> msub K le s (add_wait_lock x k r).
  Proof.
    intros Hw Hs. unfold add_wait_lock. cbv zeta.
    destruct (wq_push x _ r) as [x1 q1] eqn:E.
    apply msub_updm; [auto|ms|]. apply msub_updl; auto. eapply msub_wq_push; eauto.
  Qed.

  Lemma msub_get_wait_loop fuel : forall s x q x' q' res,
    get_wait_loop fuel x q = (x', q', res) -> msub K le s x -> msub K le s x'.
  Proof.
    induction fuel as [|f IH]; intros s x q x' q' res H Hs; simpl in H.
    - inv_tuple H. auto.
    - destruct (wq_head q) as [r|]; [|inv_tuple H; auto].
      destruct (dead_waiter (getl x r)); [|inv_tuple H; auto].
      eapply IH; [exact H|]. ms.
  Qed.

  Lemma msub_get_wait_lock s x k x' res :
    lecond_wait le -> get_wait_lock x k = (x', res) -> msub K le s x -> msub K le s x'.
  Proof.
    intros Hw H Hs. unfold get_wait_lock in H.
    destruct (m_wait (getm x k)) as [q|]; [|inv_tuple H; auto].
    destruct (get_wait_loop _ x q) as [[x1 q1] r1] eqn:E. inv_tuple H.
    apply msub_updm; [auto|ms|]. eapply msub_get_wait_loop; eauto.
  Qed.

  Lemma msub_push_lock_aof s x k r fl x' ev : push_lock_aof x k r fl = (x', ev) -> msub K le s x -> msub K le s x'.
  Proof. intros H Hs. unfold push_lock_aof in H. repeat (split_hyp H); inv_tuple H; ms. Qed.

  Lemma msub_push_unlock_aof s x k r lc uc b fl x' ev :
    push_unlock_aof x k r lc uc b fl = (x', ev) -> msub K le s x -> msub K le s x'.
  Proof. intros H Hs. unfold push_unlock_aof in H. repeat (split_hyp H); inv_tuple H; ms. Qed.

  Lemma msub_repeat_push_lock_aof n : forall s x k r x' ev,
    repeat_push_lock_aof n x k r = (x', ev) -> msub K le s x -> msub K le s x'.
  Proof.
    induction n as [|n IH]; intros s x k r x' ev H Hs; simpl in H.
    - inv_tuple H. auto.
    - destruct (push_lock_aof x k r 0) as [x1 e1] eqn:E1.
      destruct (repeat_push_lock_aof n x1 k r) as [x2 e2] eqn:E2. inv_tuple H.
      eapply IH; [exact E2|]. eapply msub_push_lock_aof; eauto.
  Qed.

  Lemma msub_add_timeout s x r : msub K le s x -> msub K le s (add_timeout x r).
  Proof. intros Hs. unfold add_timeout. cbv zeta. 
  debug eauto 8 with msdb.
