From Coq Require Import String ZifyN ZifyBool.
From Slock Require Import Engine.Types Engine.Queues Engine.Timers Engine.Engine Engine.Engine2 Engine.LocalBase Engine.LocalFrames Engine.LocalC01 Engine.LocalC04.
Open Scope N_scope.

Lemma do_lock_rule_bound b cc rc : do_lock_rule b cc rc = true -> b < 2147483647.
Proof. intros H. apply do_lock_rule_meaning in H. lia. Qed.

Lemma add_lock_locked d k r m :
  aget (mgrs (add_lock d k r)) k = Some m -> m_locked m = m_locked (getm d k).
Proof.
  intros H.
  assert (Hs : msub None eq_locked d (add_lock d k r)) by ms.
  destruct (Hs k m) as (m0 & H0 & Hle); [discriminate|exact H|].
  unfold getm. rewrite H0. exact Hle.
Qed.

Lemma grant_incr_ok A d k r m :
  A && do_lock d k r = true -> aget (mgrs (add_lock d k r)) k = Some m ->
  Lrel le_locked m (m <| m_locked := add32 (m_locked m) 1 |>).
Proof.
  intros HA Hm. apply andb_prop in HA. destruct HA as [_ Hd].
  unfold do_lock in Hd. apply do_lock_rule_bound in Hd.
  rewrite <- (add_lock_locked d k r m Hm) in Hd.
  unfold Lrel, le_locked. cbn. unfold add32. lia.
Qed.

#[export] Hint Extern 2 (msub None le_locked _ (updm (add_lock _ _ _) _ _)) =>
  (apply msub_updm_at; [auto with msdb | intros ? ?; eapply grant_incr_ok; eassumption | ]) : msdb.

Lemma lock_step_wake s conn c s' ev w :
  lock_step s conn c = (s', ev, w) -> msub (wake_key w) le_locked (get_or_new_mgr s (c_key c)) s'.
Proof.
  unfold lock_step. intros H. cbv zeta in H.
  change (match aget (mgrs s) (c_key c) with
          | Some _ => s
          | None => bump (fun n => n <| n_key := (n_key n + 1)%Z |>) (setm s (c_key c) new_mgr)
          end) with (get_or_new_mgr s (c_key c)) in H.
  set (sm := get_or_new_mgr s (c_key c)) in *.
  Time repeat (split_hyp H). all: inv_tuple H.
  all: repeat match goal with |- context [wake_key (if ?c then _ else _)] => destruct c end.
  all: cbn [wake_key option_map w_key].
  Time all: try solve [ms].
  all: match goal with |- ?G => idtac G end.
Abort.
