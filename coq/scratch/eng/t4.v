From Coq Require Import String ZifyN ZifyBool.
From Slock Require Import Engine.Types Engine.Queues Engine.Timers Engine.Engine Engine.Engine2 Engine.LocalBase Engine.LocalC01.
Open Scope N_scope.
Lemma tuple3_inv {A B C} (a a':A) (b b':B) (c c':C) : (a,b,c) = (a',b',c') -> a = a' /\ b = b' /\ c = c'.
Proof. intros H. inversion H. auto. Qed.
Lemma tuple2_inv {A B} (a a':A) (b b':B) : (a,b) = (a',b') -> a = a' /\ b = b'.
Proof. intros H. inversion H. auto. Qed.
Ltac inv_tuple2 H :=
  lazymatch type of H with
  | (_, _, _) = (_, _, _) => apply tuple3_inv in H; destruct H as (<- & <- & <-)
  | (_, _) = (_, _) => apply tuple2_inv in H; destruct H as (<- & <-)
  | _ => idtac
  end.
Section X.
  Variable P : event -> Prop.
  Hypothesis HB : base_ok P.
  Lemma do_ack_P s r ok s' ev w : do_ack s r ok = (s', ev, w) -> Forall P ev.
  Proof. unfold do_ack. intros H. Time repeat (split_hyp H). Time all: inv_tuple2 H. Time all: ev_solve2 HB. Qed.
End X.
