From Coq Require Import String.
From Slock Require Import Engine.Types Engine.Queues Engine.Timers Engine.Engine Engine.Engine2 Engine.InvDef.
Open Scope N_scope.

Fixpoint nodup_b (l : list N) : bool :=
  match l with [] => true | x :: t => negb (existsb (N.eqb x) t) && nodup_b t end.
Definition awf_b {V} (m : amap V) := nodup_b (map fst m).
Definition chk (b : bool) (name : string) : list string := if b then [] else [name].

Definition rec_fail (s : db) (r : ref) (l : lockrec) : list string :=
  let m := getm s (l_key l) in
  let g := g0 in
  let h := occ r (holders m) in let w := occ r (m_wq m) in
  chk (match aget (mgrs s) (l_key l) with Some _ => true | None => false end) "ro_mgr"%string
  ++ chk (r <? next s) "ro_lt"%string
  ++ chk (Nat.eqb (N.to_nat (l_refc l)) (h + w + tcount s g r + ecount s g r)) "ro_refc"%string
  ++ chk (Nat.leb (tcount s g r) 1) "ro_tc"%string ++ chk (Nat.leb (ecount s g r) 1) "ro_ec"%string
  ++ chk (l_timeouted l || (Nat.eqb h 0 && Nat.eqb (ecount s g r) 0 && (l_locked l =? 0) && Nat.eqb w 1)) "ro_live"%string
  ++ chk (negb (0 <? l_locked l) || Nat.eqb h 1) "ro_held"%string
  ++ chk (negb (l_long l) || (if l_timeouted l then Nat.eqb (occ r (wheel_get (elong s) (lkey (l_eT l)))) 1
                              else Nat.eqb (occ r (wheel_get (tlong s) (lkey (l_tT l)))) 1)) "ro_long"%string
  ++ chk (cmd_core_b (l_cmd l)) "ro_cmd"%string ++ chk (l_ack l =? 255) "ro_ack"%string ++ chk (l_locked l <=? 255) "ro_depth"%string
  (* candidates for later stages *)
  ++ chk (0 <? l_refc l) "x_refpos"%string
  ++ chk (negb (0 <? l_locked l) || Nat.eqb (ecount s g r) 1) "x_held_ecount"%string
  ++ chk (l_timeouted l || Nat.eqb (tcount s g r) 1) "x_live_tcount"%string
  ++ chk (negb (0 <? l_locked l) || negb (l_expried l)) "x_held_notexpried"%string.

Definition in_store_key (s : db) (k : N) (r : ref) : bool :=
  match aget (store s) r with Some l => l_key l =? k | None => false end.

Definition mgr_fail (s : db) (k : N) (m : mgr) : list string :=
  chk (forallb (in_store_key s k) (holders m ++ m_wq m)) "mo_refs"%string
  ++ chk (nodup_b (holders m)) "mo_nd"%string ++ chk (nodup_b (m_wq m)) "mo_ndw"%string
  ++ chk (m_locked m =? sumdepth s (holders m)) "mo_sum"%string
  ++ chk (match m_cur m with Some c => 0 <? l_locked (getl s c) | None => true end) "mo_cur"%string
  ++ chk (match m_cur m with Some c => true | None => match m_hq m with [] => true | _ => false end end) "mo_nocur"%string
  ++ chk (Nat.eqb (N.to_nat (m_ref m)) (key_cnt k (store s))) "mo_ref"%string
  ++ chk (match m_locks m with
          | Some q => match hq_scale q with
                      | Some (items, mp) =>
                          forallb (fun ir => existsb (N.eqb (snd ir)) items && (0 <? l_locked (getl s (snd ir)))
                                             && (c_lockid (l_cmd (getl s (snd ir))) =? fst ir)) mp
                      | None => true end
          | None => true end) "mo_map"%string
  ++ chk (0 <? m_ref m) "x_mrefpos"%string.

Definition inv_fail (s : db) : list string :=
  chk (awf_b (mgrs s)) "wf_m"%string ++ chk (awf_b (store s)) "wf_s"%string ++ chk (awf_b (twheel s)) "wf_tw"%string
  ++ chk (awf_b (tlong s)) "wf_tl"%string ++ chk (awf_b (ewheel s)) "wf_ew"%string ++ chk (awf_b (elong s)) "wf_el"%string
  ++ chk (N.of_nat (length (store s)) <? next s) "gi_len"%string
  ++ flat_map (fun rl => rec_fail s (fst rl) (snd rl)) (store s)
  ++ flat_map (fun km => mgr_fail s (fst km) (snd km)) (mgrs s)
  ++ chk (forallb (fun r => match aget (store s) r with Some _ => true | None => false end)
            (wrefs (twheel s) ++ wrefs (tlong s) ++ wrefs (ewheel s) ++ wrefs (elong s))) "gi_str"%string
  ++ chk (n_locked (cnt s) =? Z.of_N (sum_locked (mgrs s)))%Z "gi_nlocked"%string
  ++ chk (n_wait (cnt s) =? Z.of_nat (live_cnt (store s)))%Z "gi_nwait"%string
  ++ chk (n_key (cnt s) =? Z.of_nat (length (mgrs s)))%Z "gi_nkey"%string.

Definition is_panic (e : event) := match e with EPanic _ => true | _ => false end.

Fixpoint check_run (i : nat) (s : db) (acts : list action) : option (nat * list string) :=
  match acts with
  | [] => None
  | a :: rest =>
      let '(s', ev) := step s a in
      match inv_fail s' ++ (if existsb is_panic ev then ["panic"%string] else []) with
      | [] => check_run (S i) s' rest
      | f => Some (i, f)
      end
  end.
Definition L := make_cmd true.
Definition U := make_cmd false.
