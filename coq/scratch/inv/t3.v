From Slock Require Import Engine.Types Engine.Queues Engine.Timers Engine.Engine Engine.Engine2 Engine.InvDef Engine.InvProps Properties.C01_global.
Definition c17_demo : list action :=
  [AReq 1 (make_cmd true 1 0 101 7 0 5 0 10 0 0 None); AReq 2 (make_cmd true 2 0 102 7 0 5 0 10 0 0 None);
   AReq 2 (make_cmd true 3 0 103 9 0 0 0 70 1 0 None); AAdvance 3; ASweepT; ASweepE;
   AReq 1 (make_cmd false 4 0 101 7 0 0 0 0 0 0 None)].
Eval vm_compute in (let s := fst (run (init_db 1000000 1) c17_demo) in (ewheel s, elong s, twheel s, tlong s)).
