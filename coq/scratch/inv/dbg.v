From Coq Require Import String ZifyN ZifyBool ZifyNat Permutation.
From Slock Require Import Engine.Types Engine.Queues Engine.Timers Engine.Engine Engine.Engine2 Engine.InvDef Engine.InvBase.
Open Scope N_scope.
Definition liveb (l : lockrec) : Z := if l_timeouted l then 0%Z else 1%Z.
Lemma live_cnt_aset st r l l' : awf st -> aget st r = Some l ->
  (Z.of_nat (live_cnt (aset st r l')) = Z.of_nat (live_cnt st) + liveb l' - liveb l)%Z.
Proof.
  intros W H. rewrite !live_cnt_asum.
  pose proof (asum_aset (fun l => if l_timeouted l then O else 1%nat) st r l' W) as A.
  rewrite H in A. unfold oget in A. cbv beta in A. unfold liveb. destruct (l_timeouted l), (l_timeouted l'); cbv beta iota in A |- *. Show.
