From Coq Require Import String.
From Slock Require Import Engine.Types Engine.Queues Engine.Timers Engine.Engine Engine.Engine2 Engine.InvDef.
Open Scope N_scope.
Definition is_uaf (e : event) := match e with EPanic s => String.prefix "uaf:" s | _ => false end.
Definition st (h : list action) := let '(s, evs) := run (init_db 1000000 0) h in (map (existsb is_uaf) evs, match aget (store s) 1 with Some l => Some (l_refc l, l_locked l) | None => None end, m_cur (getm s 7), m_locked (getm s 7), map fst (mgrs s)).
Definition L1 := AReq 1 (make_cmd true 1 0 101 7 0 5 0 10 0 2 None).
Definition L2 := AReq 1 (make_cmd true 2 0 101 7 4096 5 0 10 0 2 None).
Eval vm_compute in st [L1].
Eval vm_compute in st [L1; L2].
Eval vm_compute in st [L1; L2; AAck 1 true].
Eval vm_compute in st [L1; L2; AAck 1 true; AAck 1 true].
Eval vm_compute in st [L1; L2; L2; AAck 1 true; AAck 1 true].
Eval vm_compute in st [L1; L2; L2; AAck 1 true; AAck 1 true; AAdvance 20; ASweepE].
Eval vm_compute in st [L1; L2; L2; AAck 1 true; AAck 1 true; AReq 2 (make_cmd false 9 0 101 7 0 0 0 0 0 2 None)].
