From Slock Require Import Engine.Types Engine.InvDef.
Goal forall g x y, g_dl (g <| g_dl := x |> <| g_cl := y |>) = x /\ g_ph (g <| g_dl := x |> <| g_cl := y |>) = g_ph g.
intros. cbn [g_dl g_ph g_cl set eta_ghost]. Show.
unfold set. Show. cbn [g_dl g_ph g_cl eta_ghost]. Show.
Abort.
Print RecordSet.set.
