(* Invariant proof, part 7: the critical sections (wake-up pass, Lock, UnLock, cancelWaitLock, doTimeOut, doExpried). *)
From Coq Require Import String ZifyN ZifyBool ZifyNat Permutation.
From Slock Require Import Engine.Types Engine.Queues Engine.Timers Engine.Engine Engine.Engine2 Engine.InvDef Engine.InvBase
  Engine.InvPrims Engine.InvRec Engine.InvWheel Engine.InvQueue Engine.InvQueue2.
Open Scope N_scope.

(* the ghost of a critical section on key k at rest (sweepers may hold references) *)
Definition gk (xt xe : list ref) (k : N) : ghost := mkGhost xt xe [] [] [] [] k false false 0 0 0.

Lemma gk_rekey s xt xe k k' : GInv s (gk xt xe k) -> GInv s (gk xt xe k').
Proof. intros G. apply (ginv_set_dk s (gk xt xe k) k' G); reflexivity. Qed.
Lemma inv_gk s k : Inv s -> GInv s (gk [] [] k).
Proof. intros G. apply (ginv_set_dk s g0 k G); reflexivity. Qed.
Lemma gk_inv s k : GInv s (gk [] [] k) -> Inv s.
Proof. intros G. apply (ginv_set_dk s (gk [] [] k) 0 G); reflexivity. Qed.

(* a granter / new waiter borrows a sweeper slot for the record it is about to put on a wheel *)
Lemma ginv_borrow_e s g r l : GInv s g -> aget (store s) r = Some l -> ecount s g r = O -> l_timeouted l = true ->
  GInv s (g <| g_xe := r :: g_xe g |> <| g_owe := r :: g_owe g |>).
Proof.
  intros G Hr He Ht.
  eapply (wheels_ginv s s g); eauto; gs; try apply G.
  - intros r0 l0 H0. destruct (gi_rec _ _ G r0 l0 H0) as [A1 A2 A3 A4 A5 A6 A7 A8 A9 A10 A11].
    unfold tcount, ecount in *. gs. rewrite !occ_cons.
    destruct (r =? r0) eqn:E.
    + apply N.eqb_eq in E; subst r0. assert (l0 = l) by congruence. subst l0.
      repeat split; try lia; auto; try (intros; congruence).
    + repeat split; try lia; auto; try (intros Hti; destruct (A6 Hti) as [_ [Q _]]; lia).
  - intros r0 H0. pose proof (gi_str _ _ G r0 H0) as S. unfold tcount, ecount in *. gs. rewrite occ_cons.
    destruct (r =? r0) eqn:E; [apply N.eqb_eq in E; congruence|lia].
Qed.

Lemma ginv_borrow_t s g r l : GInv s g -> aget (store s) r = Some l -> tcount s g r = O ->
  GInv s (g <| g_xt := r :: g_xt g |> <| g_owe := r :: g_owe g |>).
Proof.
  intros G Hr He.
  eapply (wheels_ginv s s g); eauto; gs; try apply G.
  - intros r0 l0 H0. destruct (gi_rec _ _ G r0 l0 H0) as [A1 A2 A3 A4 A5 A6 A7 A8 A9 A10 A11].
    unfold tcount, ecount in *. gs. rewrite !occ_cons.
    destruct (r =? r0) eqn:E.
    + apply N.eqb_eq in E; subst r0. assert (l0 = l) by congruence. subst l0.
      repeat split; try lia; auto; try (intros Hti; destruct (A6 Hti) as [_ [Q _]]; lia).
    + repeat split; try lia; auto; try (intros Hti; destruct (A6 Hti) as [_ [Q _]]; lia).
  - intros r0 H0. pose proof (gi_str _ _ G r0 H0) as S. unfold tcount, ecount in *. gs. rewrite occ_cons.
    destruct (r =? r0) eqn:E; [apply N.eqb_eq in E; congruence|lia].
Qed.

(* ---------------------------------------------------------------- wakeUpWaitLock (non-ack part) *)
Definition wg_pre (s : db) (r : ref) : db :=
  let l := getl s r in
  let s := updl s r (fun l => l <| l_timeouted := true |>) in
  if l_long l then remove_long_timeout s r else s.

(* marking a live waiter as answered (timeouted := true) and taking it out of the long table *)
Lemma wg_pre_ginv s xt xe k r l :
  GInv s (gk xt xe k) -> aget (store s) r = Some l -> l_timeouted l = false ->
  GInv (wg_pre s r) (gk xt xe k <| g_cw := (-1)%Z |>)
  /\ exists l2, aget (store (wg_pre s r)) r = Some l2 /\ l_key l2 = l_key l /\ l_cmd l2 = l_cmd l /\ l_locked l2 = 0
       /\ l_timeouted l2 = true /\ l_long l2 = false /\ l_conn l2 = l_conn l
       /\ mgrs (wg_pre s r) = mgrs s /\ ewheel (wg_pre s r) = ewheel s /\ elong (wg_pre s r) = elong s
       /\ cnt (wg_pre s r) = cnt s /\ next (wg_pre s r) = next s.
Proof.
  intros G Hr Ht. set (g := gk xt xe k) in *.
  destruct (gi_rec _ _ G r l Hr) as [A1 A2 A3 A4 A5 A6 A7 A8 A9 A10 A11].
  destruct (A6 Ht) as [Q1 [Q2 [Q3 Q4]]].
  unfold wg_pre. rewrite (getl_some _ _ _ Hr), (updl_some _ _ _ _ Hr). cbv zeta.
  set (l1 := l <| l_timeouted := true |>).
  pose proof (ginv_pend_add s g r G) as G1.
  assert (G2 : GInv (setl s r l1) (g <| g_pend := [r] |> <| g_cw := (-1)%Z |>)).
  { eapply ginv_geq; [apply (setl_flags s _ r l l1 G1 Hr); auto; unfold g, gk; gs|].
    - intros _ Hpe. rewrite occ_cons_eq in Hpe. discriminate.
    - unfold g, gk. gs. unfold liveb. change (l_timeouted l1) with true. rewrite Ht. reflexivity. }
  assert (Hr1 : aget (store (setl s r l1)) r = Some l1) by (rewrite store_setl, aget_aset_same; auto).
  destruct (l_long l) eqn:Elong.
  - assert (Hb : occ r (wheel_get (tlong s) (lkey (l_tT l))) = 1%nat) by (apply A8; auto).
    assert (G3 : GInv (remove_long_timeout (setl s r l1) r) (g <| g_pend := [r] |> <| g_cw := (-1)%Z |>)).
    { apply (remove_long_timeout_ginv _ _ r l1 G2 Hr1); unfold g, gk; gs; auto;
        try (rewrite occ_cons_eq; lia); try (change (l_locked l1) with (l_locked l); lia). }
    assert (Hs3 : exists q, remove_long_timeout (setl s r l1) r =
              setl (setl s r l1 <| tlong := q |>) r (l1 <| l_long := false |> <| l_refc := dec8 (l_refc l1) |>)).
    { unfold remove_long_timeout. rewrite (getl_some _ _ _ Hr1). change (tlong (setl s r l1)) with (tlong s). change (l_tT l1) with (l_tT l).
      destruct (wheel_get_some (tlong s) (lkey (l_tT l)) r) as [q [Hq1 Hq2]]; [lia|]. rewrite Hq1.
 Show. 
