From Slock Require Import Engine.InvMain.
Print Assumptions inv_run_bounded.
Print Assumptions inv_init.
