From Coq Require Import String.
From Slock Require Import Engine.Types Engine.Queues Engine.Timers Engine.Engine Engine.Engine2 Engine.InvDef.
Open Scope N_scope.
Definition h : list action := [AReq 1 (make_cmd true 1 0 101 7 0 5 0 10 0 2 None); AReq 1 (make_cmd true 2 0 101 7 4096 5 0 10 0 2 None); AAck 1 true; AAdvance 20; ASweepE].
Definition is_uaf (e : event) := match e with EPanic s => String.prefix "uaf:" s | _ => false end.
Eval vm_compute in (let '(s, evs) := run (init_db 1000000 0) h in (map (existsb is_uaf) evs, aget (store s) 1, m_cur (getm s 7), m_locked (getm s 7))).
Definition h2 : list action := [AReq 1 (make_cmd true 1 0 101 7 0 5 0 10 0 2 None); AReq 1 (make_cmd true 2 0 101 7 4096 5 0 10 0 2 None); AAck 1 true; AAck 1 true].
Eval vm_compute in (let '(s, evs) := run (init_db 1000000 0) h2 in (map (existsb is_uaf) evs, aget (store s) 1, m_cur (getm s 7), m_locked (getm s 7))).
