#!/bin/bash
# usage: dbg.sh file line [extra tactic]  -> shows goals after `line` lines of file
f=$1; n=$2; extra=${3:-}
head -n $n /verif/coq/$f > /verif/coq/scratch/inv/dbgtmp.v
echo "$extra Show. " >> /verif/coq/scratch/inv/dbgtmp.v
cd /verif/coq && timeout 300 coqc -Q . Slock scratch/inv/dbgtmp.v 2>&1 | grep -v "pending proofs" | head -${4:-80}
