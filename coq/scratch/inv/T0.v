From Slock Require Import Engine.Types Engine.Queues Engine.Timers Engine.Engine Engine.Engine2 Engine.InvDef.
From Slock Require Import scratch.inv.InvCheck.
Open Scope N_scope.
(* sanity: ack scenario must fail some clause *)
Eval vm_compute in check_run 0 (init_db 1000000 1) [AReq 1 (L 1 0 101 7 0 5 0 10 0 2 None); AReq 1 (L 2 0 101 7 4096 5 0 10 0 2 None); AAck 1 true; AAdvance 20; ASweepE; ASweepT].
Eval vm_compute in (let s := fst (run (init_db 1000000 1) [AReq 1 (L 1 0 101 7 0 5 0 10 0 2 None); AReq 1 (L 2 0 102 7 0 5 0 10 0 2 None)]) in (store s, mgrs s, twheel s, ewheel s, cnt s)).
