import random, sys
seed=int(sys.argv[1]); ncases=int(sys.argv[2]); prof=sys.argv[3] if len(sys.argv)>3 else "mix"
r=random.Random(seed)
def lockcmd(req,keys,ids,p):
    flag=r.choices([0,1,2,3,8,4,6,10],[60,5,12,4,5,3,2,2])[0]
    count=r.choice(p.get('counts',[0,0,0,1,2,3,65535,65534]))
    rcount=r.choice(p.get('rcounts',[0,0,1,2,255]))
    timeout=r.choice(p.get('timeouts',[0,0,1,2,3,5,9,12,40,70]))
    tflag=0
    if r.random()<p.get('p_prio',0.08): tflag|=0x10; rcount=r.choice([0,1,1,2,3])
    if r.random()<0.05: tflag|=0x200
    if r.random()<0.03 and timeout<=3: tflag|=0x40
    if r.random()<0.03: tflag|=0x100
    if r.random()<0.03: tflag|=0x2000
    if r.random()<0.02: tflag|=0x8
    expried=r.choice(p.get('expr',[0,1,2,3,5,10,20,60,100]))
    eflag=r.choice([0,0,0,0,0x100,0x200,0x1000,0x2000])
    if r.random()<0.04: eflag|=0x4000
    if r.random()<0.03 and expried<=3: eflag|=0x40
    return "AReq %d (L %d %d %d %d %d %d %d %d %d %d None)"%(r.choice([1,2,3]),req,flag,r.choice(ids),r.choice(keys),tflag,timeout,eflag,expried,count,rcount)
def unlockcmd(req,keys,ids,p):
    flag=r.choices([0,1,2,3,4],[75,8,12,3,2])[0]
    rcount=r.choice([0,0,1,1,2]); tflag=0x10 if r.random()<0.03 else 0
    return "AReq %d (U %d %d %d %d %d 0 0 0 %d %d None)"%(r.choice([1,2,3]),req,flag,r.choice(ids),r.choice(keys),tflag,r.choice([0,1,65535]),rcount)
PROF={
 'mix':dict(),
 'wait':dict(timeouts=[3,5,8,12,20,30,70],counts=[0,0,0,1,2],nkeys=1,nids=10,p_prio=0.25,p_unlock=0.35,expr=[1,2,3,5,30]),
 'time':dict(timeouts=[0,1,2,7,9,10,15,17,25,70,100],nkeys=2,nids=12,p_unlock=0.15,p_time=0.45,expr=[0,5,30,60,100]),
 'reent':dict(rcounts=[0,1,2,3,254,255],nids=3,nkeys=1,p_unlock=0.4,counts=[0,0,2,5]),
 'many':dict(nkeys=1,nids=300,counts=[65535,300,200],timeouts=[30,60],expr=[50,100],p_unlock=0.2,length=(200,500),p_time=0.03),
 'role':dict(p_role=0.08,nkeys=2),
}
out=["From Slock Require Import Engine.Types Engine.Queues Engine.Timers Engine.Engine Engine.Engine2 Engine.InvDef.","From Slock Require Import scratch.inv.InvCheck.","Open Scope N_scope."]
for c in range(ncases):
    pn = prof if prof!='all' else r.choice(list(PROF))
    p=PROF[pn]
    nkeys=p.get('nkeys',r.choice([1,1,2,3])); nids=p.get('nids',r.choice([2,3,4,6]))
    keys=[r.choice([3,7,11])+i for i in range(nkeys)]; ids=list(range(101,101+nids))
    lo,hi=p.get('length',(5,70)); n=r.randint(lo,hi)
    acts=[]; req=0
    pt=p.get('p_time',0.25); pu=p.get('p_unlock',0.25); pr=p.get('p_role',0.02)
    for _ in range(n):
        x=r.random(); req+=1
        if x<pt:
            acts.append("AAdvance %d"%r.choices([1,1,1,2,3,9,20,0],[50,20,10,8,5,4,3,2])[0])
            sw=["ASweepT","ASweepE"]; r.shuffle(sw)
            if r.random()<0.9: acts+=sw
            elif r.random()<0.5: acts.append(sw[0])
        elif x<pt+pu: acts.append(unlockcmd(req,keys,ids,p))
        elif x<pt+pu+pr: acts.append("ARole %s"%r.choice(["false","true","true"]))
        else: acts.append(lockcmd(req,keys,ids,p))
    if r.random()<0.7:
        acts.append("ARole true")
        for k in keys:
            for _ in range(12):
                req+=1; acts.append("AReq 1 (U %d 1 0 %d 0 0 0 0 0 0 None)"%(req,k))
        for stp in [1]*20+[5]*8+[60]*6:
            acts+=["AAdvance %d"%stp,"ASweepT","ASweepE"]
        for k in keys:
            for _ in range(12):
                req+=1; acts.append("AReq 1 (U %d 1 0 %d 0 0 0 0 0 0 None)"%(req,k))
        for stp in [1]*20:
            acts+=["AAdvance %d"%stp,"ASweepT","ASweepE"]
    out.append("Definition c%d : list action := [%s]."%(c,"; ".join(acts)))
    out.append('Eval vm_compute in (%d, check_run 0 (init_db %d %d) c%d).'%(c,1000000+r.choice([0,3,7,13,15]),r.choice([0,1,1,2]),c))
print("\n".join(out))
