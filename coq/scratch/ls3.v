From Coq Require Import String ZifyN ZifyBool ZifyNat.
From Slock Require Import Engine.Types Engine.Queues Engine.Timers Engine.Engine Engine.Engine2 Engine.ReplyBase Engine.ReplyLocal.
Open Scope N_scope.
(* ------------------------------------------------------------------ Lock *)
Lemma getm_bump_setm_new s k f : getm (bump f (setm s k new_mgr)) k = new_mgr.
Proof. unfold getm. change (mgrs (bump f (setm s k new_mgr))) with (aset (mgrs s) k new_mgr). rewrite aget_aset_same. reflexivity. Qed.

Definition lock_sum (s : db) (conn : N) (c : cmd) (s' : db) (ev : list event) (w : option wake) : Prop :=
  (exists res, keep s s' /\ rinfos ev = [(conn, c_req c, res)] /\ res <> R_EXPRIED)
  \/ (exists r c', (r = next s /\ r < next s') /\ c_req c' = c_req c /\ core_cmd c'
        /\ chg1 s s' r (fun v => v = (c', conn, true, false)) /\ rinfos ev = [(conn, c_req c, R_SUCCED)])
  \/ (exists r c', (r = next s /\ r < next s') /\ c_req c' = c_req c /\ core_cmd c'
        /\ chg1 s s' r (fun v => v = (c', conn, false, true)) /\ (forall x, href s' x -> href s x)
        /\ rinfos ev = [] /\ w = None /\ waiting_in s' (c_key c) r)
  \/ (exists r c' res, href s r /\ c_req c' = c_req c /\ core_cmd c'
        /\ chg1 s s' r (fun v => v_cmd v = c' /\ v_conn v = conn /\ v_to v = l_timeouted (getl s r))
        /\ rinfos ev = [(conn, c_req c, res)] /\ (res = R_SUCCED \/ res = R_LOCKED_ERROR)).

Lemma update_and_rearm_norep s k r c s' ev : update_and_rearm s k r c = (s', ev) -> rinfos ev = [].
Proof.
  intros H.
  assert (Hb : ovr (base s) r (view_of (getl s r)) r = Some (view_of (getl s r)))
    by (unfold ovr; rewrite N.eqb_refl; auto).
  destruct (update_and_rearm_tr _ _ _ _ _ _ _ _ _ _ _ H (tr_refl_ovr s r) Hb) as (fv & _ & R & _); auto.
  intros Habs. unfold idg, getl. rewrite Habs. reflexivity.
Qed.

Lemma update_chg1 s X k r c1 conn Y aev s' :
  keep s X -> (present s r -> present X r) ->
  update_and_rearm X k r c1 = (Y, aev) -> keep (updl Y r (fun l => l <| l_conn := conn |>)) s' ->
  chg1 s s' r (fun v => v_cmd v = c1 /\ v_conn v = conn /\ v_to v = l_timeouted (getl s r)).
Proof. intros. eapply update_chg; eauto. Qed.

Lemma lock_step_sum s conn c s' ev w : lock_step s conn c = (s', ev, w) -> core_cmd c -> lock_sum s conn c s' ev w.
Proof.
  intros H Hcore. assert (Hcore0 := Hcore). destruct Hcore as (Hack & Hms & Hems & Hdata).
  unfold lock_step in H. cbv beta zeta in H.
  set (k := c_key c) in *.
  match type of H with context [if has (c_flag c) LOCK_FLAG_SHOW then ?a else c] =>
    set (c1 := if has (c_flag c) LOCK_FLAG_SHOW then a else c) in H end.
  assert (Hc1 : c_req c1 = c_req c /\ c_tflag c1 = c_tflag c /\ c_eflag c1 = c_eflag c /\ c_data c1 = c_data c
                /\ c_key c1 = c_key c).
  { subst c1. destruct (has (c_flag c) LOCK_FLAG_SHOW); cbn; auto. }
  clearbody c1. destruct Hc1 as (Hreq1 & Htf1 & Hef1 & Hd1 & Hk1).
  assert (Hcore1 : core_cmd c1) by (unfold core_cmd; rewrite Htf1, Hef1, Hd1; auto).
  destruct (aget (mgrs s) k) as [m0|] eqn:Hmgr.
  all: cbv iota in H.
  all: brk.
  all: repeat match goal with HP : process_data _ _ _ _ _ = _ |- _ =>
         rewrite process_data_nodata in HP by congruence; injs end.
  all: try congruence.
  all: try solve [exfalso; match goal with HB : (0 <? m_locked (getm (bump _ (setm _ _ new_mgr)) _)) = true |- _ =>
         rewrite getm_bump_setm_new in HB; vm_compute in HB; discriminate HB end].
  all: try solve [exfalso; rewrite ?Htf1 in *; rewrite ?Hef1 in *;
         repeat match goal with HB : _ && _ = true |- _ => apply andb_true_iff in HB; destruct HB end; congruence].
  (* A: no record *)
  all: try solve [left; eexists; split; [keep_x|split; [norep2; cbn; rewrite ?Hreq1; reflexivity|neq_res]]].
  (* A': record created and freed *)
  all: try solve [left; eexists; split;
         [eapply keep_trans; [|eapply new_free_keep; [eassumption| |keep_x]; keep_x]; keep_x
         |split; [norep2; cbn; rewrite ?Hreq1; reflexivity|neq_res]]].
  (* B2: update / re-lock *)
  all: try solve [
    match goal with HG : get_locked_lock _ _ _ = Some ?r, HU : update_and_rearm _ _ ?r ?c0 = (_, ?aev) |- _ =>
      right; right; right; exists r, c0; eexists;
      split; [apply (getm_href _ k); eapply get_locked_lock_href; eassumption|];
      split; [exact Hreq1|]; split; [exact Hcore1|];
      assert (HR := update_and_rearm_norep _ _ _ _ _ _ HU);
      split; [eapply update_chg1; [ | |eassumption| ]; [keep_x | intros; repeat first [apply present_updl | apply present_updm]; assumption | keep_x]
             |split; [norep2; rewrite HR; cbn; rewrite ?Hreq1; reflexivity|auto]]
    end].
  (* B1: new hold *)
  all: try solve [
    assert (Hf : forall (m : mgr) (x : ref), href_m ((fun m => m <| m_locked := add32 (m_locked m) 1 |>) m) x -> href_m m x)
      by (intros ? ? HH; exact HH);
    match goal with Hn : new_lock ?S0 ?k' ?conn' ?c' = (?s1, ?r), HE : add_expried ?X _ ?r = (?Y, ?aev) |- lock_sum _ _ _ ?S' _ _ =>
      assert (K1 : keep (updm (add_lock s1 k' r) k' (fun m => m <| m_locked := add32 (m_locked m) 1 |>)) X) by apply keep_refl;
      assert (K2 : keep Y S') by keep_x;
      destruct (new_hold_chg S0 k' conn' c' s1 r _ X Y aev S' Hn Hf K1 HE K2) as ((Hr & Hlt) & Hc & Hrn);
      right; left; exists r, c'; split; [split; [rewrite Hr; reflexivity|exact Hlt]|];
      split; [first [exact Hreq1|reflexivity]|]; split; [assumption|];
      split; [eapply chg1_pre; [|exact Hc]; keep_x|norep2; rewrite ?Hrn; cbn; rewrite ?Hreq1; reflexivity]
    end].
  (* C: queued *)
  all: try solve [
    match goal with Hn : new_lock ?S0 ?k' ?conn' ?c' = (?s1, ?r) |- lock_sum _ _ _ ?S' _ _ =>
      destruct (new_wait_chg S0 k' conn' c' s1 r S' Hn ltac:(keep_x)) as ((Hr & Hlt) & Hc & Hh);
      right; right; left; exists r, c'; split; [split; [rewrite Hr; reflexivity|exact Hlt]|];
      split; [first [exact Hreq1|reflexivity]|]; split; [assumption|];
      split; [eapply chg1_pre; [|exact Hc]; keep_x|];
      split; [intros x Hx; apply Hh in Hx; revert Hx; apply keep_h; keep_x|];
      split; [reflexivity|]; split; [reflexivity|];
      eapply new_wait_waiting; [exact Hn| |cbn [mgrs bump updc]; rewrite ?mgrs_updl, ?add_timeout_mgrs; reflexivity];
      first [ unfold has_mgr; rewrite Hmgr; discriminate
            | unfold has_mgr; change (aget (aset (mgrs s) k new_mgr) k <> None); rewrite aget_aset_same; discriminate ]
    end].
  all: let n := numgoals in idtac n.
  1: {
    match goal with Hn : new_lock ?S0 ?k' ?conn' ?c' = (?s1, ?r) |- lock_sum _ _ _ ?S' _ _ =>
      destruct (new_wait_chg S0 k' conn' c' s1 r S' Hn ltac:(keep_x)) as ((Hr & Hlt) & Hc & Hh);
      right; right; left; exists r, c'; split; [split; [rewrite Hr; reflexivity|exact Hlt]|];
      split; [first [exact Hreq1|reflexivity]|]; split; [assumption|];
      split; [eapply chg1_pre; [|exact Hc]; keep_x|];
      split; [intros x Hx; apply Hh in Hx; revert Hx; apply keep_h; keep_x|];
      split; [reflexivity|]; split; [reflexivity|];
      eapply new_wait_waiting; [exact Hn| |cbn [mgrs bump updc]; rewrite ?mgrs_updl, ?add_timeout_mgrs] end.
    Show.
  }
Abort.
