From Coq Require Import List NArith ZArith Bool String Lia.
From Slock Require Import Base.Util Data.Data Data.DataProofs Data.Spec Data.Refine.
Lemma aof_lock_data_abs b cur ld :
  let '(d, cur2, ld2) := aof_lock_data b cur ld in
  abs all_fixes cur2 = abs all_fixes cur /\ (wf_cur cur -> wf_cur cur2) /\ get_lock_data cur2 = get_lock_data cur.
Proof.
  unfold aof_lock_data.
  destruct ld as [ldv|]; [destruct ldv as [a lc lr rv]; destruct a as [a|]|].
  Show.
Abort.
