(* C15_text -- what the lock engine (Engine.lock_step / Engine2.unlock_step) does with the requests the Redis-style
   text commands are converted to, on the three shapes a key has under those commands:
     free            no key manager
     held (K)        one hold, LockId = key (created by SET/GETSET/APPEND/INCR.. on a free key), never expiring
     held (G)        one hold under a generated LockId (created by SETNX on a free key), never expiring
   Lemmas:  lock_new (grant on a free key), lock_update (flag UPDATE on a K hold), unlock_free, unlock_held.
   Each gives the reply, "no panic", the new local view (KvBase.moves) and the value after the data operation. *)
From Coq Require Import List NArith ZArith Bool String Lia.
From Slock Require Import Base.Util Data.Data Data.DataProofs Data.Spec Data.Refine
     Engine.Types Engine.Queues Engine.Timers Engine.Engine Engine.Engine2 Engine.LocalBase
     Kv.KvModel Kv.KvSpec Kv.KvData Kv.KvBase.
Import ListNotations.
Open Scope N_scope.

Definition EF_KV : N := 24832.   (* UNLIMITED_EXPRIED_TIME | ZEOR_AOF_TIME | UPDATE_NO_RESET_EXPRIED_CHECKED_COUNT *)
(* a LOCK request of the Redis-style converters without options *)
Definition kvc (rq fl lid k tmo ex : N) (d : option bytes) : cmd := mkCmd true rq fl lid k 0 tmo EF_KV ex 0 0 d.

(* ---------------------------------------------------------------------------------------------- values through the log *)
Lemma aof_lock_data_abs b cur ld :
  let '(d, cur2, ld2) := aof_lock_data b cur ld in
  abs all_fixes cur2 = abs all_fixes cur /\ (wf_cur cur -> wf_cur cur2) /\ get_lock_data cur2 = get_lock_data cur.
Proof.
  unfold aof_lock_data.
  destruct ld as [ldv|]; [destruct ldv as [a lc lr rv]; destruct a as [a|]|];
    destruct cur as [[bts cp t i]|]; try destruct lc; destruct b; try destruct i; cbn; auto.
Qed.

(* ---------------------------------------------------------------------------------------------- helpers *)
Definition fresh_lock (k : N) (c : cmd) (conn : N) (nw : Z) : lockrec :=
  mkLock k c conn None nw 0 (timeout_deadline c nw) false 1 1 0 0 255 true true 0 false.

Lemma new_lock_mv s k conn c m q :
  aget (mgrs s) k = Some m -> aget (elong s) KMAX = q -> has (c_tflag c) TF_UNRENEW = false ->
  exists s', new_lock s k conn c = (s', next s) /\ next s' = next s + 1 /\
             moves s s' k (next s) (mkV (Some (m <| m_ref := add32 (m_ref m) 1 |>)) (Some (fresh_lock k c conn (now s))) q).
Proof.
  intros Hm Hq Hu. unfold new_lock. rewrite Hu. cbv iota zeta beta.
  eexists. split; [reflexivity|]. split.
  - unfold updm. cbn [mgrs set]. cbn. rewrite Hm. reflexivity.
  - pose proof (mv_alloc s k (mkV (Some m) None q) (fresh_lock k c conn (now s)) Hm Hq) as M1. cbn [v_m v_l v_q] in M1.
    pose proof (mv_updm _ k (next s) _ (fun m => m <| m_ref := add32 (m_ref m) 1 |>) (proj1 M1)) as M2.
    cbn [option_map v_m v_l v_q] in M2.
    exact (moves_trans _ _ _ _ _ _ _ M1 M2).
Qed.

(* ProcessLockData of one of the three frames, not requiring recovery *)
Lemma process_data_mv s k r c m l q o :
  sees s k r (mkV (Some m) (Some l) q) -> c_data c = Some (frame_of_op o) -> kv_op o -> wf_op o -> wf_cur (m_data m) ->
  fixes8 current_fixes ->
  exists s' cur' ld', process_data s k r c false = (s', []) /\
    abs all_fixes cur' = apply (abs all_fixes (m_data m)) o /\ wf_cur cur' /\
    moves s s' k r (mkV (Some (m <| m_data := cur' |>)) (Some (l <| l_data := ld' |>)) q).
Proof.
  intros S Hc Ho Hw Hcur Hfx. unfold process_data. rewrite Hc.
  rewrite (sees_getm _ _ _ _ _ S eq_refl), (sees_getl _ _ _ _ _ S eq_refl).
  unfold process_lock_data.
  destruct (process_kv_op current_fixes (pd_env_of s k c false) o (m_data m) (l_data l) Hfx Ho Hw Hcur) as (cur' & ld' & E & Ha & Hc').
  rewrite E. eexists _, cur', ld'. split; [reflexivity|]. split; [exact Ha|]. split; [exact Hc'|].
  pose proof (mv_updm s k r _ (fun m => m <| m_data := cur' |>) S) as M1. cbn [option_map v_m v_l v_q] in M1.
  pose proof (mv_updl _ k r _ (fun l => l <| l_data := ld' |>) (proj1 M1)) as M2. cbn [option_map v_m v_l v_q] in M2.
  exact (moves_trans _ _ _ _ _ _ _ M1 M2).
Qed.

(* LockManager.PushLockAof of a hold that does not come from the log *)
Lemma push_lock_aof_mv s k r fl m l q :
  sees s k r (mkV (Some m) (Some l) q) -> leader s = true -> has (c_flag (l_cmd l)) LOCK_FLAG_FROM_AOF = false ->
  exists s' rec cur2 ld2, push_lock_aof s k r fl = (s', [EAof rec]) /\
    abs all_fixes cur2 = abs all_fixes (m_data m) /\ (wf_cur (m_data m) -> wf_cur cur2) /\
    get_lock_data cur2 = get_lock_data (m_data m) /\
    moves s s' k r (mkV (Some (m <| m_data := cur2 |>)) (Some (l <| l_data := ld2 |> <| l_isaof := true |>)) q).
Proof.
  intros S HL Hf. unfold push_lock_aof. rewrite HL. cbn [negb].
  rewrite (sees_getl _ _ _ _ _ S eq_refl), Hf, (sees_getm _ _ _ _ _ S eq_refl).
  pose proof (aof_lock_data_abs true (m_data m) (l_data l)) as A.
  destruct (aof_lock_data true (m_data m) (l_data l)) as [[d cur2] ld2]. destruct A as (A1 & A2 & A3).
  eexists _, _, cur2, ld2. split; [reflexivity|]. split; [exact A1|]. split; [exact A2|]. split; [exact A3|].
  pose proof (mv_updm s k r _ (fun m => m <| m_data := cur2 |>) S) as M1. cbn [option_map v_m v_l v_q] in M1.
  pose proof (mv_updl _ k r _ (fun l => l <| l_data := ld2 |>) (proj1 M1)) as M2. cbn [option_map v_m v_l v_q] in M2.
  pose proof (mv_updl _ k r _ (fun l => l <| l_isaof := true |>) (proj1 M2)) as M3. cbn [option_map v_m v_l v_q] in M3.
  exact (moves_trans _ _ _ _ _ _ _ M1 (moves_trans _ _ _ _ _ _ _ M2 M3)).
Qed.

(* LockManager.AddLock of the first holder of a key *)
Lemma add_lock_mv s k r m l q :
  sees s k r (mkV (Some m) (Some l) q) -> m_cur m = None ->
  c_eflag (l_cmd l) = EF_KV -> c_tflag (l_cmd l) = 0 -> has (c_flag (l_cmd l)) LOCK_FLAG_FROM_AOF = false ->
  (now s < MAXT - 5)%Z ->
  moves s (add_lock s k r) k r
        (mkV (Some (m <| m_cur := Some r |>))
             (Some (l <| l_start := now s |> <| l_eT := MAXT |> <| l_ecc := 9 |> <| l_aoftime := 0 |> <| l_locked := 1 |>
                      <| l_refc := add8 (l_refc l) 1 |>)) q).
Proof.
  intros S Hcur He Ht Hf Hn. unfold add_lock.
  rewrite (sees_getl _ _ _ _ _ S eq_refl), (sees_getm _ _ _ _ _ S eq_refl).
  rewrite Ht, Hcur, Hf. change (has 0 TF_UNRENEW) with false. change (has 0 TF_REQUIRE_ACKED) with false.
  cbv iota beta zeta.
  unfold expiry_deadline, initial_ecc, aoftime_of. rewrite He.
  change (has EF_KV EF_UNLIMITED) with true. change (has EF_KV EF_ZERO_AOF) with true.
  change (N.land EF_KV 4864 =? EF_ZERO_AOF) with true. cbv iota beta.
  replace (5 <? MAXT - now s)%Z with true by (symmetry; apply Z.ltb_lt; lia). cbn [andb].
  match goal with |- moves _ (updm (setl _ _ ?l') _ ?f) _ _ _ =>
    pose proof (mv_setl s k r _ l' S) as M1; cbn [v_m v_l v_q] in M1;
    pose proof (mv_updm _ k r _ f (proj1 M1)) as M2; cbn [option_map v_m v_l v_q] in M2
  end.
  exact (moves_trans _ _ _ _ _ _ _ M1 M2).
Qed.

(* LockDB.AddExpried of a fresh hold that never expires: long table + the log record that is due at once *)
Lemma add_expried_mv s k r m l q :
  sees s k r (mkV (Some m) (Some l) q) -> leader s = true -> (checkE s <= MAXT)%Z ->
  l_ecc l = 9 -> l_eT l = MAXT -> l_isaof l = false -> l_aoftime l = 0 -> l_start l = now s -> l_locked l = 1 ->
  has (c_flag (l_cmd l)) LOCK_FLAG_FROM_AOF = false ->
  exists s' rec cur2 ld2, add_expried s k r = (s', [EAof rec]) /\
    abs all_fixes cur2 = abs all_fixes (m_data m) /\ (wf_cur (m_data m) -> wf_cur cur2) /\
    get_lock_data cur2 = get_lock_data (m_data m) /\
    moves s s' k r (mkV (Some (m <| m_data := cur2 |>))
                        (Some (l <| l_expried := false |> <| l_eT := MAXT |> <| l_long := true |> <| l_data := ld2 |> <| l_isaof := true |>))
                        (Some (match q with Some x => x | None => [] end ++ [r]))).
Proof.
  intros S HL Hc Hecc HeT Hia Hat Hst Hlk Hf. unfold add_expried.
  pose proof (mv_updl s k r _ (fun l => l <| l_expried := false |>) S) as M1. cbn [option_map v_m v_l v_q] in M1.
  rewrite (sees_getl _ _ _ _ _ (proj1 M1) eq_refl). cbn [l_ecc l_eT set]. rewrite Hecc, HeT.
  change (QUEUE_MAX_WAIT <? 9) with true. cbv iota beta.
  assert (Hck : checkE (updl s r (fun l0 : lockrec => l0 <| l_expried := false |>)) = checkE s) by apply (f_checkE _ _ _ _ (proj2 M1)).
  rewrite Hck. replace (MAXT <? checkE s)%Z with false by (symmetry; apply Z.ltb_ge; lia). cbv iota beta zeta.
  match goal with |- context [updl ?s0 r ?f] =>
    lazymatch s0 with updl _ _ _ =>
      pose proof (mv_updl s0 k r _ f (proj1 M1)) as M2; cbn [option_map v_m v_l v_q] in M2 end end.
  match type of M2 with moves _ ?s2 _ _ _ =>
    pose proof (mv_set_elong s2 k r _ (wheel_push (elong s2) (lkey MAXT) r)
                             (Some (match q with Some x => x | None => [] end ++ [r])) (proj1 M2)) as M3 end.
  cbn [v_m v_l v_q] in M3.
  match type of M3 with ?A -> _ => assert (HA : A) end.
  { unfold wheel_push. change (lkey MAXT) with KMAX. rewrite aget_aset_same. unfold wheel_get.
    destruct M2 as [(_ & _ & Hq) _]. cbn [v_q] in Hq. rewrite Hq. reflexivity. }
  specialize (M3 HA). clear HA.
  match type of M3 with moves _ ?t _ _ _ => set (s3 := t) in * end.
  assert (M13 : moves s s3 k r _) by exact (moves_trans _ _ _ _ _ _ _ M1 (moves_trans _ _ _ _ _ _ _ M2 M3)).
  rewrite (sees_getl _ _ _ _ _ (proj1 M3) eq_refl).
  cbn [l_isaof l_aoftime l_start l_locked set]. rewrite Hia, Hat, Hst, Hlk.
  rewrite (f_now _ _ _ _ (proj2 M13)).
  replace (Z.of_N 0 <=? now s - now s)%Z with true by (symmetry; apply Z.leb_le; lia).
  cbn [negb andb N.eqb N.to_nat Pos.to_nat Pos.iter_op Nat.add repeat_push_lock_aof].
  destruct (push_lock_aof_mv s3 k r 0 _ _ _ (proj1 M3)) as (s' & rec & cur2 & ld2 & E & A1 & A2 & A3 & M4).
  { rewrite (f_leader _ _ _ _ (proj2 M13)). exact HL. }
  { cbn [l_cmd set]. exact Hf. }
  change (Pos.to_nat 1) with 1%nat. cbn [repeat_push_lock_aof]. rewrite E. exists s', rec, cur2, ld2. cbn [app]. split; [reflexivity|]. split; [exact A1|]. split; [exact A2|]. split; [exact A3|].
  exact (moves_trans _ _ _ _ _ _ _ M13 M4).
Qed.

(* ---------------------------------------------------------------------------------------------- shapes *)
(* the lock record of the single, never expiring hold of a key *)
Definition hold_ok (l : lockrec) (k lid : N) : Prop :=
  l_key l = k /\ l_locked l = 1 /\ l_ack l = 255 /\ l_long l = true /\ l_eT l = MAXT /\ l_isaof l = true /\
  l_expried l = false /\ l_refc l = 2 /\
  c_lockid (l_cmd l) = lid /\ c_count (l_cmd l) = 0 /\ c_rcount (l_cmd l) = 0 /\
  has (c_tflag (l_cmd l)) TF_PRIORITY = false /\ has (c_flag (l_cmd l)) LOCK_FLAG_FROM_AOF = false.

Definition held_mgr (r : N) (d : option mdata) : mgr := mkMgr 1 1 (Some r) d None None false.

Definition kv_flags (fl ex : N) : Prop := (fl = 34 \/ fl = 32) /\ (ex = 32767 \/ ex = 65535).

Lemma getm_bump_setm f s k m : getm (bump f (setm s k m)) k = m.
Proof.
  unfold getm. change (mgrs (bump f (setm s k m))) with (aset (mgrs s) k m). rewrite aget_aset_same. reflexivity.
Qed.

(* ---------------------------------------------------------------------------------------------- LOCK on a free key *)
Lemma lock_new s rq fl lid k tmo ex o :
  aget (mgrs s) k = None -> leader s = true -> (now s < MAXT - 5)%Z -> (checkE s <= MAXT)%Z ->
  kv_flags fl ex -> kv_op o -> wf_op o -> fixes8 current_fixes ->
  exists s' evs cur' l',
    finish (lock_step s the_conn (kvc rq fl lid k tmo ex (Some (frame_of_op o)))) = (s', evs) /\
    find_panic evs = None /\ find_reply rq evs = Some (R_SUCCED, None) /\
    abs all_fixes cur' = apply None o /\ wf_cur cur' /\ hold_ok l' k lid /\ next s < next s' /\
    moves s s' k (next s) (mkV (Some (held_mgr (next s) cur')) (Some l')
                               (Some (match aget (elong s) KMAX with Some x => x | None => [] end ++ [next s]))).
Proof.
  intros H HL Hn Hc [Hfl Hex] Ho Hw Hfx.
  set (c := kvc rq fl lid k tmo ex (Some (frame_of_op o))).
  assert (Hcc : has fl LOCK_FLAG_CONCURRENT_CHECK = false) by (destruct Hfl; subst; reflexivity).
  assert (Hfa : has fl LOCK_FLAG_FROM_AOF = false) by (destruct Hfl; subst; reflexivity).
  assert (Hdf : has fl LOCK_FLAG_CONTAINS_DATA = true) by (destruct Hfl; subst; reflexivity).
  assert (Hex0 : (0 <? ex) = true) by (destruct Hex; subst; reflexivity).
  unfold lock_step. cbn [c_key kvc c c_flag c_timeout c_tflag c_count].
  rewrite H, Hcc. cbn [andb]. cbv zeta.
  rewrite getm_bump_setm.
  set (a0 := bump _ (setm s k new_mgr)).
  assert (S0 : sees s k (next s) (mkV None (aget (Types.store s) (next s)) (aget (elong s) KMAX))) by (repeat split; auto).
  pose proof (mv_setm s k (next s) _ new_mgr S0) as M0. cbn [v_m v_l v_q] in M0.
  pose proof (mv_bump _ k (next s) _ (fun n : counters => n <| n_key := (n_key n + 1)%Z |>) (proj1 M0)) as M0'.
  fold a0 in M0'. pose proof (moves_trans _ _ _ _ _ _ _ M0 M0') as Ma0. clear M0 M0'.
  assert (HLa : leader a0 = true) by exact HL.
  rewrite HLa. cbn [negb andb new_mgr m_locked N.ltb N.compare].
  change (has 0 TF_WAIT_WHEN_UNLOCK) with false. cbv iota beta.
  (* new_lock *)
  destruct (new_lock_mv a0 k the_conn c new_mgr (aget (elong s) KMAX)) as (s0 & En & Hnx & M1).
  { apply Ma0. } { apply Ma0. } { reflexivity. }
  assert (Hna : next a0 = next s) by reflexivity. rewrite Hna in *.
  fold c. rewrite En. cbv iota beta.
  assert (G0 : getm s0 k = new_mgr <| m_ref := add32 (m_ref new_mgr) 1 |>) by (apply (sees_getm _ _ _ _ _ (proj1 M1) eq_refl)).
  unfold do_lock. rewrite G0. cbn [m_locked m_waited new_mgr set do_lock_rule N.eqb negb orb andb].
  change (0 <? c_expried c) with (0 <? ex). rewrite Hex0. cbv iota beta.
  (* add_lock *)
  pose proof (add_lock_mv s0 k (next s) _ _ _ (proj1 M1)) as M2.
  specialize (M2 eq_refl eq_refl eq_refl Hfa).
  assert (Hn0 : now s0 = now s).
  { rewrite (f_now _ _ _ _ (proj2 M1)). reflexivity. }
  rewrite Hn0 in M2. specialize (M2 Hn).
  pose proof (mv_updm _ k (next s) _ (fun m : mgr => m <| m_locked := add32 (m_locked m) 1 |>) (proj1 M2)) as M3.
  cbn [option_map v_m v_l v_q] in M3.
  match type of M3 with moves _ ?t _ _ _ => set (s3 := t) in * end.
  (* no acknowledgement required *)
  change (has (c_tflag c) TF_REQUIRE_ACKED) with false. cbn [andb].
  change (has_data_flag c) with (has fl LOCK_FLAG_CONTAINS_DATA). rewrite Hdf.
  (* the data operation *)
  destruct (process_data_mv s3 k (next s) c _ _ _ o (proj1 M3) eq_refl Ho Hw I Hfx) as (s4 & cur' & ld' & Ep & Ha & Hwc & M4).
  rewrite Ep. change (has (c_eflag c) EF_MILLISECOND) with false. cbv iota beta.
  (* add_expried *)
  assert (F04 : frame a0 s4 k (next s)).
  { eapply frame_trans; [exact (proj2 M1)|]. eapply frame_trans; [exact (proj2 M2)|].
    eapply frame_trans; [exact (proj2 M3)|exact (proj2 M4)]. }
  destruct (add_expried_mv s4 k (next s) _ _ _ (proj1 M4)) as (s5 & rec & cur2 & ld2 & Ee & A1 & A2 & A3 & M5).
  { rewrite (f_leader _ _ _ _ F04). exact HLa. }
  { rewrite (f_checkE _ _ _ _ F04). exact Hc. }
  { reflexivity. } { reflexivity. } { reflexivity. } { reflexivity. }
  { cbn [l_start set fresh_lock]. rewrite (f_now _ _ _ _ F04). reflexivity. }
  { reflexivity. } { exact Hfa. }
  rewrite Ee.
  pose proof (mv_updl _ k (next s) _ (fun l : lockrec => l <| l_refc := add8 (l_refc l) 1 |>) (proj1 M5)) as M6.
  cbn [option_map v_m v_l v_q] in M6.
  match type of M6 with moves _ ?t _ _ _ =>
    pose proof (mv_bump t k (next s) _ (fun n : counters => n <| n_lock := (n_lock n + 1)%Z |> <| n_locked := (n_locked n + 1)%Z |>) (proj1 M6)) as M7 end.
  match type of M7 with moves _ ?t _ _ _ => set (s7 := t) in * end.
  unfold finish.
  match type of M7 with moves _ _ _ _ {| v_m := _; v_l := Some ?lf; v_q := _ |} => eexists s7, _, cur2, lf end.
  split; [reflexivity|].
  split; [reflexivity|].
  split.
  { cbn [app find_reply reply]. cbn [c_req c kvc]. unfold the_conn. rewrite !N.eqb_refl. cbn [andb].
    unfold data_of. rewrite (sees_getm _ _ _ _ _ (proj1 M3) eq_refl). reflexivity. }
  split; [rewrite A1; exact Ha|]. split; [apply A2; exact Hwc|].
  split.
  { unfold hold_ok. cbn. repeat split; try reflexivity. exact Hfa. }
  assert (F : frame s0 s7 k (next s)).
  { eapply frame_trans; [exact (proj2 M2)|]. eapply frame_trans; [exact (proj2 M3)|].
    eapply frame_trans; [exact (proj2 M4)|]. eapply frame_trans; [exact (proj2 M5)|].
    eapply frame_trans; [exact (proj2 M6)|exact (proj2 M7)]. }
  split.
  { pose proof (f_next _ _ _ _ F). lia. }
  split.
  { destruct M7 as [S7 _]. destruct S7 as (X1 & X2 & X3). cbn [v_m v_l v_q] in *.
    repeat split; cbn [v_m v_l v_q].
    - rewrite X1. reflexivity.
    - exact X2.
    - exact X3. }
  eapply frame_trans; [exact (proj2 Ma0)|]. eapply frame_trans; [exact (proj2 M1)|exact F].
Qed.

(* ---------------------------------------------------------------------------------------------- LOCK with the UPDATE flag on a held key *)
Lemma hold_ok_cmd l k lid c :
  hold_ok l k lid -> c_lockid c = lid -> c_count c = 0 -> c_rcount c = 0 -> c_tflag c = 0 ->
  has (c_flag c) LOCK_FLAG_FROM_AOF = false ->
  forall l', l_key l' = l_key l -> l_locked l' = l_locked l -> l_ack l' = l_ack l -> l_long l' = l_long l ->
             l_eT l' = MAXT -> l_isaof l' = l_isaof l -> l_expried l' = l_expried l -> l_refc l' = l_refc l ->
             l_cmd l' = c -> hold_ok l' k lid.
Proof.
  intros (H1 & H2 & H3 & H4 & H5 & H6 & H7 & H8 & _) C1 C2 C3 C4 C5 l' E1 E2 E3 E4 E5 E6 E7 E8 E9.
  unfold hold_ok. rewrite E1, E2, E3, E4, E5, E6, E7, E8, E9, C1, C2, C3, C4. repeat split; auto.
Qed.

Lemma hold_ok_data l k lid ld : hold_ok l k lid -> hold_ok (l <| l_data := ld |>) k lid.
Proof. destruct l. intros H. exact H. Qed.
Lemma hold_ok_logged l k lid x y : hold_ok l k lid -> hold_ok (l <| l_conn := x |> <| l_data := y |> <| l_isaof := true |>) k lid.
Proof. destruct l. unfold hold_ok. cbn. intros (H1 & H2 & H3 & H4 & H5 & H6 & H7); repeat split; tauto. Qed.

Lemma update_and_rearm_mv s k r d l q rq tmo ex o :
  sees s k r (mkV (Some (held_mgr r d)) (Some l) q) -> hold_ok l k k -> (ex = 32767 \/ ex = 65535) ->
  exists l', update_and_rearm s k r (kvc rq 34 k k tmo ex o) = (setl s r l', []) /\ hold_ok l' k k /\ l_data l' = l_data l.
Proof.
  intros S Hh Hex. pose proof Hh as (H1 & H2 & H3 & H4 & H5 & H6 & H7 & H8 & H9 & H10 & H11 & H12 & H13).
  unfold update_and_rearm. rewrite (sees_getl _ _ _ _ _ S eq_refl), H4.
  unfold update_locked_lock. rewrite (sees_getl _ _ _ _ _ S eq_refl), (sees_getm _ _ _ _ _ S eq_refl).
  cbn [c_eflag c_expried c_tflag kvc held_mgr m_cur m_locks].
  change (has EF_KV EF_UNLIMITED) with true. change (has EF_KV EF_NO_RESET_ECC) with true.
  change (has EF_KV EF_MILLISECOND) with false. change (has 0 TF_NO_RESET_TCC) with false.
  rewrite N.eqb_refl. cbn [negb orb andb].
  destruct Hex as [-> | ->].
  - change (32767 <? 65535) with true. cbv iota beta zeta.
    unfold expiry_deadline. cbn [c_eflag kvc]. change (has EF_KV EF_UNLIMITED) with true. cbv iota.
    cbn [l_isaof set]. rewrite H6. cbn [negb andb].
    match goal with |- context [setl s r ?lf] => set (lf' := lf) end.
    assert (G : getl (setl s r lf') r = lf').
    { unfold getl. change (Types.store (setl s r lf')) with (aset (Types.store s) r lf'). rewrite aget_aset_same. reflexivity. }
    rewrite G. replace (l_eT lf') with MAXT by reflexivity. rewrite H5, Z.eqb_refl. cbn [negb].
    exists lf'. split; [reflexivity|]. split; [|reflexivity].
    apply (hold_ok_cmd l k k (kvc rq 34 k k tmo 32767 o) Hh); try reflexivity.
  - change (65535 <? 65535) with false. cbv iota beta zeta.
    cbn [l_isaof set]. rewrite H6. cbn [negb andb].
    match goal with |- context [setl s r ?lf] => set (lf' := lf) end.
    assert (G : getl (setl s r lf') r = lf').
    { unfold getl. change (Types.store (setl s r lf')) with (aset (Types.store s) r lf'). rewrite aget_aset_same. reflexivity. }
    rewrite G. replace (l_eT lf') with (l_eT l) by reflexivity. rewrite H5, Z.eqb_refl. cbn [negb].
    exists lf'. split; [reflexivity|]. split; [|reflexivity].
    apply (hold_ok_cmd l k k (kvc rq 34 k k tmo 65535 o) Hh); try reflexivity. exact H5.
Qed.

Lemma lock_update s rq k tmo ex o r d l q :
  sees s k r (mkV (Some (held_mgr r d)) (Some l) q) -> hold_ok l k k -> leader s = true -> wf_cur d ->
  (ex = 32767 \/ ex = 65535) -> kv_op o -> wf_op o -> fixes8 current_fixes ->
  exists s' evs cur' l',
    finish (lock_step s the_conn (kvc rq 34 k k tmo ex (Some (frame_of_op o)))) = (s', evs) /\
    find_panic evs = None /\ find_reply rq evs = Some (R_LOCKED_ERROR, get_lock_data d) /\
    abs all_fixes cur' = apply (abs all_fixes d) o /\ wf_cur cur' /\ hold_ok l' k k /\
    moves s s' k r (mkV (Some (held_mgr r cur')) (Some l') q).
Proof.
  intros S Hh HL Hwd Hex Ho Hw Hfx.
  pose proof Hh as (H1 & H2 & H3 & H4 & H5 & H6 & H7 & H8 & H9 & H10 & H11 & H12 & H13).
  set (c := kvc rq 34 k k tmo ex (Some (frame_of_op o))).
  unfold lock_step. cbn [c_key kvc c c_flag c_timeout c_tflag c_count].
  change (has 34 LOCK_FLAG_CONCURRENT_CHECK) with false. cbn [andb].
  destruct S as (Sm & Sl & Sq). cbn [v_m v_l v_q] in Sm, Sl, Sq. rewrite Sm.
  assert (S : sees s k r (mkV (Some (held_mgr r d)) (Some l) q)) by (repeat split; assumption).
  cbv zeta. rewrite (sees_getm _ _ _ _ _ S eq_refl). rewrite HL.
  cbn [negb andb held_mgr m_locked m_cur m_waited N.ltb N.compare].
  change (1 ?= 0) with Gt. cbv iota beta.
  change (has 34 LOCK_FLAG_SHOW) with false. cbn [andb]. cbv iota beta.
  unfold get_locked_lock. cbn [m_cur held_mgr]. change (c_lockid c) with k.
  rewrite (sees_getl _ _ _ _ _ S eq_refl), H9, N.eqb_refl.
  rewrite !(sees_getl _ _ _ _ _ S eq_refl), H3. change (negb (255 =? 255)) with false. cbv iota beta.
  change (has (c_flag c) LOCK_FLAG_UPDATE) with true. cbv iota beta.
  change (has_data_flag c) with true. cbv iota beta.
  destruct (process_data_mv s k r c _ _ _ o S eq_refl Ho Hw Hwd Hfx) as (s1 & cur' & ld' & Ep & Ha & Hwc & M1).
  cbn [m_data held_mgr] in Ha.
  rewrite Ep.
  set (l1 := l <| l_data := ld' |>) in *.
  assert (G1 : getl s1 r = l1) by apply (sees_getl _ _ _ _ _ (proj1 M1) eq_refl).
  assert (Gm1 : getm s1 k = held_mgr r d <| m_data := cur' |>) by apply (sees_getm _ _ _ _ _ (proj1 M1) eq_refl).
  assert (Hh1 : hold_ok l1 k k) by (apply hold_ok_data; exact Hh).
  rewrite !G1, !Gm1.
  match goal with |- context [if ?b then _ else _] =>
    lazymatch b with _ && check_locked_equal _ _ _ => destruct b eqn:Eeq end end.
  - (* nothing to update: answered at once *)
    unfold finish. exists s1, ([] ++ [reply the_conn c R_LOCKED_ERROR (m_locked (held_mgr r d <| m_data := cur' |>)) (l_locked l1) (data_of s k)]), cur', l1.
    split; [reflexivity|]. split; [reflexivity|]. split.
    { cbn [app find_reply reply c_req c kvc]. unfold the_conn. rewrite !N.eqb_refl. cbn [andb].
      unfold data_of. rewrite (sees_getm _ _ _ _ _ S eq_refl). reflexivity. }
    split; [exact Ha|]. split; [exact Hwc|]. split; [exact Hh1|]. exact M1.
  - (* new terms: update, log record, (empty) wake-up pass *)
    destruct (update_and_rearm_mv s1 k r _ _ _ rq tmo ex (Some (frame_of_op o)) (proj1 M1) Hh1 Hex) as (l2 & Eu & Hh2 & Hd2).
    fold c in Eu. rewrite Eu.
    pose proof (mv_setl s1 k r _ l2 (proj1 M1)) as M2. cbn [v_m v_l v_q] in M2.
    pose proof (mv_updl _ k r _ (fun l : lockrec => l <| l_conn := the_conn |>) (proj1 M2)) as M3. cbn [option_map v_m v_l v_q] in M3.
    match type of M3 with moves _ ?t _ _ _ => set (s3 := t) in * end.
    change (has (c_flag c) LOCK_FLAG_FROM_AOF) with false. change (has (c_tflag c) TF_REQUIRE_ACKED) with false.
    cbn [negb andb]. cbv iota beta.
    rewrite (sees_getl _ _ _ _ _ (proj1 M3) eq_refl). cbn [l_isaof set].
    pose proof Hh2 as (_ & _ & _ & _ & _ & Hia2 & _). rewrite Hia2. cbv iota beta.
    assert (F13 : frame s s3 k r).
    { eapply frame_trans; [exact (proj2 M1)|]. eapply frame_trans; [exact (proj2 M2)|exact (proj2 M3)]. }
    destruct (push_lock_aof_mv s3 k r AOF_FLAG_UPDATED _ _ _ (proj1 M3)) as (s4 & rec & cur2 & ld2 & Ea & A1 & A2 & A3 & M4).
    { rewrite (f_leader _ _ _ _ F13). exact HL. }
    { cbn [l_cmd set]. apply Hh2. }
    rewrite Ea.
    unfold finish, run_wake, wake_fuel. cbn [w_key].
    unfold wake_iter. cbn [w_key]. destruct M4 as [S4 F4]. pose proof S4 as (Sm4 & _). cbn [v_m] in Sm4. rewrite Sm4.
    cbn [m_waited held_mgr set negb]. cbv iota beta.
    eexists s4, _, cur2, _. split; [reflexivity|]. split; [reflexivity|]. split.
    { cbn [app find_reply reply c_req c kvc]. unfold the_conn. rewrite !N.eqb_refl. cbn [andb].
      unfold data_of. rewrite (sees_getm _ _ _ _ _ S eq_refl). reflexivity. }
    split; [rewrite A1; exact Ha|]. split; [apply A2; exact Hwc|].
    split; [|split; [exact S4|eapply frame_trans; [exact F13|exact F4]]].
    apply hold_ok_logged. exact Hh2.
Qed.

(* ---------------------------------------------------------------------------------------------- UNLOCK (DEL) *)
Definition delc (rq k : N) : cmd := mkCmd false rq 1 k k 0 0 0 0 0 0 None.

Lemma unlock_free s rq k :
  aget (mgrs s) k = None ->
  exists s' evs, finish (unlock_step s the_conn (delc rq k)) = (s', evs) /\
    find_panic evs = None /\ find_reply rq evs = Some (R_UNLOCK_ERROR, None) /\
    mgrs s' = mgrs s /\ Types.store s' = Types.store s /\ elong s' = elong s /\ next s' = next s /\
    leader s' = leader s /\ now s' = now s /\ checkE s' = checkE s.
Proof.
  intros H. unfold unlock_step. cbn [c_key delc]. rewrite H. unfold finish.
  eexists _, _. split; [reflexivity|]. split; [reflexivity|]. split.
  { cbn [find_reply reply c_req]. unfold the_conn. rewrite !N.eqb_refl. reflexivity. }
  repeat split; reflexivity.
Qed.

(* LockManager.PushUnLockAof of a released hold *)
Lemma push_unlock_aof_mv s k r hc c isaof fl m l q :
  sees s k r (mkV (Some m) (Some l) q) -> leader s = true -> has (c_flag c) UNLOCK_FLAG_FROM_AOF = false ->
  exists s' rec cur2 ld2, push_unlock_aof s k r hc (Some c) isaof fl = (s', [EAof rec]) /\
    moves s s' k r (mkV (Some (m <| m_data := cur2 |>)) (Some (l <| l_data := ld2 |> <| l_isaof := isaof |>)) q).
Proof.
  intros S HL Hf. unfold push_unlock_aof. rewrite HL, Hf. cbn [negb].
  rewrite (sees_getl _ _ _ _ _ S eq_refl), (sees_getm _ _ _ _ _ S eq_refl).
  destruct (aof_lock_data false (m_data m) (l_data l)) as [[dd cur2] ld2].
  eexists _, _, cur2, ld2. split; [reflexivity|].
  pose proof (mv_updm s k r _ (fun m => m <| m_data := cur2 |>) S) as M1. cbn [option_map v_m v_l v_q] in M1.
  pose proof (mv_updl _ k r _ (fun l => l <| l_data := ld2 |>) (proj1 M1)) as M2. cbn [option_map v_m v_l v_q] in M2.
  pose proof (mv_updl _ k r _ (fun l => l <| l_isaof := isaof |>) (proj1 M2)) as M3. cbn [option_map v_m v_l v_q] in M3.
  exact (moves_trans _ _ _ _ _ _ _ M1 (moves_trans _ _ _ _ _ _ _ M2 M3)).
Qed.

(* the `unlocked` part of UnLock for the single hold of a key *)
Lemma release_hold_mv s k r m l q c :
  sees s k r (mkV (Some m) (Some l) (Some q)) ->
  m_ref m = 1 -> m_cur m = Some r -> m_locks m = None ->
  l_key l = k -> l_long l = true -> l_eT l = MAXT -> l_isaof l = true -> l_refc l = 2 ->
  leader s = true -> c_flag c = 1 ->
  exists s' evs, release_hold s k the_conn c r 1 = (s', evs) /\
    find_panic evs = None /\ find_reply (c_req c) evs = Some (R_SUCCED, get_lock_data (m_data m)) /\
    moves s s' k r (mkV None None (match remove_ref q r with [] => None | x => Some x end)).
Proof.
  intros S Hmr Hmc Hml Hk Hlong HeT Hia Hrc HL Hcf.
  unfold release_hold.
  pose proof (mv_updl s k r _ (fun l : lockrec => l <| l_expried := true |>) S) as M1. cbn [option_map v_m v_l v_q] in M1.
  match type of M1 with moves _ ?t _ _ _ => set (s1 := t) in * end.
  unfold has_udata_flag. rewrite Hcf. change (has 1 UNLOCK_FLAG_CONTAINS_DATA) with false. cbv iota beta.
  rewrite !(sees_getl _ _ _ _ _ (proj1 M1) eq_refl). cbn [l_long l_eT set]. rewrite Hlong, HeT.
  (* remove_long_expried *)
  unfold remove_long_expried. change (lkey MAXT) with KMAX.
  destruct M1 as [S1 F1]. pose proof S1 as (_ & _ & Sq1). cbn [v_q] in Sq1. rewrite Sq1.
  match goal with |- context [updl (s1 <| elong := ?e |>) r ?f] =>
    pose proof (mv_set_elong s1 k r _ e (match remove_ref q r with [] => None | x => Some x end) S1) as M2;
    cbn [v_m v_l v_q] in M2;
    assert (HA : aget e KMAX = match remove_ref q r with [] => None | x => Some x end)
      by (destruct (remove_ref q r); [apply aget_adel_same|apply aget_aset_same]);
    specialize (M2 HA); clear HA;
    pose proof (mv_updl _ k r _ f (proj1 M2)) as M3; cbn [option_map v_m v_l v_q] in M3
  end.
  match type of M3 with moves _ ?t _ _ _ => set (s3 := t) in * end.
  rewrite !(sees_getl _ _ _ _ _ (proj1 M3) eq_refl). cbn [l_isaof l_cmd set]. rewrite Hia.
  assert (F03 : frame s s3 k r).
  { eapply frame_trans; [exact F1|]. eapply frame_trans; [exact (proj2 M2)|exact (proj2 M3)]. }
  destruct (push_unlock_aof_mv s3 k r (l_cmd l) c false 0 _ _ _ (proj1 M3)) as (s4 & rec & cur2 & ld2 & Ea & M4).
  { rewrite (f_leader _ _ _ _ F03). exact HL. }
  { rewrite Hcf. reflexivity. }
  Show. rewrite Ea.
  (* remove_lock *)
  unfold remove_lock.
  pose proof (mv_updl s4 k r _ (fun l : lockrec => l <| l_locked := 0 |> <| l_ack := 255 |>) (proj1 M4)) as M5. cbn [option_map v_m v_l v_q] in M5.
  match type of M5 with moves _ ?t _ _ _ => set (s5 := t) in * end.
  rewrite (sees_getm _ _ _ _ _ (proj1 M5) eq_refl). cbn [m_cur m_locks set]. rewrite Hmc, Hml, N.eqb_refl.
  pose proof (mv_updl s5 k r _ (fun l : lockrec => l <| l_refc := dec8 (l_refc l) |>) (proj1 M5)) as M6. cbn [option_map v_m v_l v_q] in M6.
  match type of M6 with moves _ ?t _ _ _ =>
    pose proof (mv_updm t k r _ (fun m : mgr => m <| m_cur := None |>) (proj1 M6)) as M7; cbn [option_map v_m v_l v_q] in M7 end.
  match type of M7 with moves _ ?t _ _ _ => set (s7 := t) in * end.
  rewrite !(sees_getl _ _ _ _ _ (proj1 M7) eq_refl). cbn [l_refc set]. rewrite Hrc.
  change (dec8 (dec8 2) =? 0) with true. cbv iota beta.
  (* free_lock, remove_mgr_if_unref *)
  unfold free_lock. destruct M7 as [S7 F7]. pose proof S7 as (Sm7 & Sl7 & Sq7). cbn [v_m v_l v_q] in Sm7, Sl7, Sq7. rewrite Sl7.
  pose proof (mv_del_store s7 k r _ S7) as M8. cbn [v_m v_l v_q] in M8.
  cbn [l_key set]. rewrite Hk.
  match type of M8 with moves _ ?t _ _ _ =>
    pose proof (mv_updm t k r _ (fun m : mgr => m <| m_ref := dec32 (m_ref m) |>) (proj1 M8)) as M9; cbn [option_map v_m v_l v_q] in M9 end.
  match type of M9 with moves _ ?t _ _ _ => set (s9 := t) in * end.
  unfold remove_mgr_if_unref. destruct M9 as [S9 F9]. pose proof S9 as (Sm9 & _). cbn [v_m] in Sm9. rewrite Sm9.
  cbn [m_ref set]. rewrite Hmr. change (dec32 1 =? 0) with true. cbv iota beta.
  pose proof (mv_del_mgr s9 k r _ S9) as M10. cbn [v_m v_l v_q] in M10.
  match type of M10 with moves _ ?t _ _ _ =>
    pose proof (mv_updc t k r _ (fun c0 : counters => c0 <| n_key := (n_key c0 - 1)%Z |>) (proj1 M10)) as M11 end.
  match type of M11 with moves _ ?t _ _ _ =>
    pose proof (mv_bump t k r _ (fun n : counters => n <| n_unlock := (n_unlock n + Z.of_N 1)%Z |> <| n_locked := (n_locked n - Z.of_N 1)%Z |>) (proj1 M11)) as M12 end.
  eexists _, _. split; [reflexivity|]. split; [reflexivity|]. split.
  { cbn [app find_reply reply]. unfold the_conn. rewrite !N.eqb_refl. cbn [andb].
    unfold data_of. rewrite (sees_getm _ _ _ _ _ S1 eq_refl). reflexivity. }
  split; [exact (proj1 M12)|].
  eapply frame_trans; [exact F03|]. eapply frame_trans; [exact (proj2 M4)|]. eapply frame_trans; [exact (proj2 M5)|].
  eapply frame_trans; [exact (proj2 M6)|]. eapply frame_trans; [exact F7|]. eapply frame_trans; [exact (proj2 M8)|].
  eapply frame_trans; [exact F9|]. eapply frame_trans; [exact (proj2 M10)|]. eapply frame_trans; [exact (proj2 M11)|exact (proj2 M12)].
Qed.

Lemma unlock_held s rq k r d l q lid :
  sees s k r (mkV (Some (held_mgr r d)) (Some l) (Some q)) -> hold_ok l k lid -> leader s = true ->
  exists s' evs,
    finish (unlock_step s the_conn (delc rq k)) = (s', evs) /\
    find_panic evs = None /\ find_reply rq evs = Some (R_SUCCED, get_lock_data d) /\
    moves s s' k r (mkV None None (match remove_ref q r with [] => None | x => Some x end)).
Proof.
  intros S Hh HL.
  pose proof Hh as (H1 & H2 & H3 & H4 & H5 & H6 & H7 & H8 & H9 & H10 & H11 & H12 & H13).
  unfold unlock_step. cbn [c_key delc c_flag].
  destruct S as (Sm & Sl & Sq). cbn [v_m v_l v_q] in Sm, Sl, Sq. rewrite Sm.
  assert (S : sees s k r (mkV (Some (held_mgr r d)) (Some l) (Some q))) by (repeat split; assumption).
  rewrite HL. cbn [negb andb held_mgr m_locked N.eqb].
  change (has 1 UNLOCK_FLAG_FROM_AOF) with false.
  unfold get_locked_lock.
  match goal with |- context [finish (match ?T with inl _ => _ | inr _ => _ end)] =>
    assert (XT : exists c', c_flag c' = 1 /\ c_req c' = rq /\ T = inl (Some (r, c'))) end.
  { cbn [m_cur held_mgr m_locks c_lockid delc]. rewrite !(sees_getl _ _ _ _ _ S eq_refl), H9.
    destruct (lid =? k).
    - cbv iota beta. rewrite ?(sees_getl _ _ _ _ _ S eq_refl), H3. change (negb (255 =? 255)) with false. cbv iota.
      eexists. split; [|split; [|reflexivity]]; reflexivity.
    - change (has 1 UNLOCK_FLAG_FIRST) with true. cbv iota beta.
      rewrite ?(sees_getl _ _ _ _ _ S eq_refl), H3. change (negb (255 =? 255)) with false. cbv iota.
      eexists. split; [|split; [|reflexivity]]; reflexivity. }
  destruct XT as (c' & Cf & Cr & ->).
  rewrite !(sees_getl _ _ _ _ _ S eq_refl), H2. change (1 <? 1) with false. cbv iota beta.
  pose proof (mv_updm s k r _ (fun m : mgr => m <| m_locked := sub32 (m_locked m) 1 |>) S) as M1. cbn [option_map v_m v_l v_q] in M1.
  destruct (release_hold_mv _ k r _ l q c' (proj1 M1)) as (s' & evs & Er & Hp & Hr & M2); auto.
  { rewrite (f_leader _ _ _ _ (proj2 M1)). exact HL. }
  rewrite Er. unfold finish, run_wake, wake_fuel, wake_iter. cbn [w_key].
  destruct M2 as [S2 F2]. pose proof S2 as (Sm2 & _). cbn [v_m] in Sm2. rewrite Sm2.
  exists s', (evs ++ []). split; [reflexivity|]. rewrite app_nil_r. split; [exact Hp|]. split; [rewrite <- Cr; exact Hr|].
  split; [exact S2|eapply frame_trans; [exact (proj2 M1)|exact F2]].
Qed.
