From Coq Require Import List NArith ZArith Bool String Lia.
From Slock Require Import Base.Util Data.Data Data.Spec Engine.Types Engine.Queues Engine.Timers Engine.Engine Engine.Engine2 Engine.LocalBase Kv.KvModel Kv.KvSpec Kv.KvData.
Import ListNotations.
Open Scope N_scope.

Definition kvc (lock : bool) (rq fl lid k tfl tmo efl ex : N) (d : option bytes) : cmd := mkCmd lock rq fl lid k tfl tmo efl ex 0 0 d.

Lemma getm_bump_setm f s k m : getm (bump f (setm s k m)) k = m.
Proof. unfold getm, bump, updc, setm. cbn. rewrite N.eqb_refl. reflexivity. Qed.

Definition EF_KV : N := 24832.   (* UNLIMITED_EXPRIED | ZEOR_AOF | UPDATE_NO_RESET_EXPRIED_CHECKED_COUNT *)

Goal forall s conn rq k lid tmo fr ex fl,
  aget (mgrs s) k = None -> leader s = true -> (now s < MAXT - 5)%Z -> (checkE s <= MAXT)%Z ->
  (fl = 34 \/ fl = 32) -> (ex = 32767 \/ ex = 65535) ->
  lock_step s conn (kvc true rq fl lid k 0 tmo EF_KV ex (Some fr)) = (s, [], None).
Proof.
  intros s conn rq k lid tmo fr ex fl H HL Hn Hc Hfl Hex.
  unfold lock_step. cbn [c_key kvc c_flag c_timeout c_tflag c_count].
  rewrite H.
  replace (has fl LOCK_FLAG_CONCURRENT_CHECK) with false by (destruct Hfl; subst; reflexivity). cbn [andb].
  cbv zeta.
  rewrite getm_bump_setm.
  replace (has fl LOCK_FLAG_FROM_AOF) with false by (destruct Hfl; subst; reflexivity).
  replace (has_data_flag (kvc true rq fl lid k 0 tmo EF_KV ex (Some fr))) with true by (destruct Hfl; subst; reflexivity).
  replace (0 <? c_expried (kvc true rq fl lid k 0 tmo EF_KV ex (Some fr))) with true by (destruct Hex; subst; reflexivity).
  Time cbn -[new_lock add_lock process_data add_expried bump setm do_lock kvc].
Show.
Abort.
