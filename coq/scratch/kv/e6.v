From Coq Require Import List NArith ZArith Bool String Lia.
From Slock Require Import Base.Util Data.Data Data.Spec Engine.Types Engine.Queues Engine.Timers Engine.Engine Engine.Engine2 Engine.LocalBase Kv.KvModel Kv.KvSpec Kv.KvData.
Import ListNotations.
Open Scope N_scope.

Definition EF_KV : N := 24832.   (* UNLIMITED_EXPRIED | ZEOR_AOF | UPDATE_NO_RESET_EXPRIED_CHECKED_COUNT *)
Definition kvc (lock : bool) (rq fl lid k tmo ex : N) (d : option bytes) : cmd := mkCmd lock rq fl lid k 0 tmo EF_KV ex 0 0 d.

Lemma getm_bump_setm f s k m : getm (bump f (setm s k m)) k = m.
Proof. unfold getm, bump, updc, setm. cbn. rewrite N.eqb_refl. reflexivity. Qed.

Ltac obs :=
  repeat first
    [ rewrite mgrs_updl | rewrite mgrs_setl | rewrite mgrs_updc | rewrite store_updm | rewrite store_setm | rewrite store_updc
    | rewrite aget_mgrs_updm | rewrite aget_store_updl | rewrite aget_aset | rewrite aget_adel | rewrite N.eqb_refl
    | rewrite leader_updl | rewrite leader_updm | rewrite now_updl | rewrite now_updm
    | progress cbn [mgrs store next elong now checkE checkT leader cnt cfg_aoftime twheel tlong ewheel option_map bump updc setm setl set] ].

Goal forall s conn rq k lid tmo fr,
  aget (mgrs s) k = None -> leader s = true -> (now s < MAXT - 5)%Z -> (checkE s <= MAXT)%Z ->
  lock_step s conn (kvc true rq 34 lid k tmo 32767 (Some fr)) = (s, [], None).
Proof.
  intros s conn rq k lid tmo fr H HL Hn Hc.
  unfold lock_step. cbn [c_key kvc c_flag c_timeout c_tflag c_count].
  rewrite H.
  change (has 34 LOCK_FLAG_CONCURRENT_CHECK) with false. cbn [andb].
  cbv zeta.
  rewrite getm_bump_setm.
  cbn -[new_lock add_lock process_data add_expried bump setm do_lock].
  replace (leader (bump (fun n : counters => n <| n_key := (n_key n + 1)%Z |>) (setm s k new_mgr))) with true by (symmetry; exact HL).
  cbn [negb andb].
  set (a0 := bump _ (setm s k new_mgr)).
  unfold new_lock. cbn [c_tflag kvc]. change (has 0 TF_UNRENEW) with false. cbv iota beta zeta.
  cbn -[add_lock process_data add_expried bump setm do_lock a0 timeout_deadline].
Show.
Abort.
