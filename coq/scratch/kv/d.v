Set Default Timeout 30.
(* C15_text -- the value layer under the Redis-style commands: the three frames the converters build (SET / INCR /
   APPEND with the KEY property) are constructor-built frames of Data/Spec.v, so ProcessLockData on them is the
   sequential interpreter Spec.apply (Data/Refine.v, reused); rendering of a stored frame by the text result writers. *)
From Coq Require Import List NArith ZArith Bool String Lia ZifyN ZifyBool.
From Slock Require Import Base.Util Data.Data Data.DataProofs Data.Spec Data.Refine Kv.KvModel Kv.KvSpec.
Import ListNotations.
Open Scope N_scope.
Ltac Zify.zify_post_hook ::= Z.div_mod_to_equations.

(* ---------------------------------------------------------------------------------------------- source switches *)
(* the eight repairs of the value layer that are in the tree (checks/C15_data.py derives Data/FixFlags.v from the source);
   the PIPELINE switch is irrelevant for the three frames used here *)
Definition fixes8 (fx : fixes) : Prop :=
  fx_short_frame fx = true /\ fx_cmd_offset fx = true /\ fx_val_offset fx = true /\ fx_shift fx = true /\
  fx_incr_nil fx = true /\ fx_pipeline_len fx = true /\ fx_pop_bounds fx = true /\ fx_recover_nil fx = true.

Definition kv_op (o : op) : Prop := match o with OSet _ _ _ | OIncr _ _ _ | OAppend _ _ _ => True | _ => False end.

Lemma process_ex_fixes8 fx env o cur ld :
  fixes8 fx -> kv_op o -> N.testbit (match o with OSet f _ _ | OIncr f _ _ | OAppend f _ _ => f | _ => 0 end) 5 = false ->
  process_lock_data_ex fx env (frame_of_op o) cur ld = process_lock_data_ex all_fixes env (frame_of_op o) cur ld.
Proof.
  intros (H1 & H2 & H3 & H4 & H5 & H6 & H7 & H8) Ho Hf.
  destruct fx as [a b c d e f g h i]. cbn in H1, H2, H3, H4, H5, H6, H7, H8. subst.
  destruct h; [reflexivity|].
  assert (Hl : forall d cap, lcd_of_bytes {| fx_short_frame := true; fx_cmd_offset := true; fx_val_offset := true; fx_shift := true;
              fx_incr_nil := true; fx_pipeline_len := true; fx_pop_bounds := true; fx_pipeline_fold := false;
              fx_recover_nil := true |} d cap = lcd_of_bytes all_fixes d cap) by reflexivity.
  destruct o as [fl hd p|fl|fl hd z|fl hd p|n|fl hd p|n|items]; cbn [kv_op] in Ho; try contradiction;
    unfold process_lock_data_ex; cbn [frame_of_op]; rewrite Hl, !lcd_of_bytes_frame; cbn [bind process_lcd];
    rewrite !gate_lcd_of by (try lia; assumption); cbn [negb];
    repeat match goal with |- context [c_type (lcd_of ?t ?f ?h ?q ?cp)] => change (c_type (lcd_of t f h q cp)) with t end;
    cbv [T_SET T_UNSET T_INCR T_APPEND T_SHIFT T_EXECUTE T_PIPELINE T_PUSH T_POP N.eqb Pos.eqb]; reflexivity.
Qed.

(* ---------------------------------------------------------------------------------------------- the key header *)
Lemma blen_len (b : list N) : blen b = len b.
Proof. unfold blen. rewrite len_eq. reflexivity. Qed.

Lemma key_hdr_ok f k : N.testbit f 4 = true -> key_ok k = true -> hdr_ok f (key_hdr k).
Proof.
  intros Hf Hk. unfold hdr_ok. rewrite Hf. unfold key_hdr, le16. cbn [app].
  do 3 eexists. split; [reflexivity|].
  unfold key_ok in Hk. apply N.ltb_lt in Hk. rewrite !len_cons, <- blen_len. lia.
Qed.

Lemma frame_set_op k v : frame_set k v = frame_of_op (OSet 16 (key_hdr k) v).
Proof. reflexivity. Qed.
Lemma frame_append_op k v : frame_append k v = frame_of_op (OAppend 16 (key_hdr k) v).
Proof. reflexivity. Qed.
Lemma frame_incr_op k d : frame_incr k d = frame_of_op (OIncr 17 (key_hdr k) d).
Proof. reflexivity. Qed.

(* ---------------------------------------------------------------------------------------------- ProcessLockData *)
(* what the engine calls: process_lock_data = process_lock_data_fx current_fixes *)
Lemma process_kv_op fx env o cur ld :
  fixes8 fx -> kv_op o -> wf_op o -> wf_cur cur ->
  exists cur' ld', process_lock_data_fx fx env (frame_of_op o) cur ld = Ok (cur', ld')
                   /\ abs all_fixes cur' = apply (abs all_fixes cur) o /\ wf_cur cur'.
Proof.
  intros Hfx Ho Hw Hc.
  assert (Hs : simple_op o) by (destruct o; cbn in *; auto).
  assert (Hb : N.testbit (match o with OSet f _ _ | OIncr f _ _ | OAppend f _ _ => f | _ => 0 end) 5 = false)
    by (destruct o; cbn in *; try contradiction; tauto).
  destruct (process_refines_spec_simple o env cur ld Hs Hw Hc) as (cur' & ld' & fr' & E & Ha & Hc').
  exists cur', ld'. unfold process_lock_data_fx. rewrite (process_ex_fixes8 fx env o cur ld Hfx Ho Hb), E.
  cbn [bind fst snd]. auto.
Qed.

(* ---------------------------------------------------------------------------------------------- stored values *)
(* the value of a key as the commands of the fragment leave it: a byte string (flag 0x10) or a counter (flag 0x11),
   with the property header of whichever key string wrote it last *)
Definition str_val (a : absval) (s : list N) : Prop := a_flag a = 16 /\ hdr_ok 16 (a_hdr a) /\ a_payload a = s.
Definition num_val (a : absval) (z : Z) : Prop :=
  a_flag a = 17 /\ hdr_ok 17 (a_hdr a) /\ a_payload a = le64 z /\ wrap64 z = z.

Lemma enc_bytes a : exists b0 b1 b2 b3, enc a = b0 :: b1 :: b2 :: b3 :: 0 :: a_flag a :: a_hdr a ++ a_payload a.
Proof. destruct (enc_shape a) as (c0 & c1 & c2 & c3 & E). eauto. Qed.

Lemma hdr_ok4_len f h : N.testbit f 4 = true -> hdr_ok f h -> 2 <= len h /\ exists lo hi props, h = lo :: hi :: props /\ len props = lo + 256 * hi.
Proof.
  intros Hf H. unfold hdr_ok in H. rewrite Hf in H. destruct H as (lo & hi & props & -> & Hl).
  split; [rewrite !len_cons; lia|eauto].
Qed.

Section Render.
  Variable a : absval.
  Hypothesis Hf4 : N.testbit (a_flag a) 4 = true.
  Hypothesis Hh : hdr_ok (a_flag a) (a_hdr a).

  Lemma res_len : len (enc a) = 6 + len (a_hdr a) + len (a_payload a).
  Proof. apply len_enc. Qed.

  Lemma res_flag_enc : res_flag (enc a) = a_flag a.
  Proof. destruct (enc_bytes a) as (b0 & b1 & b2 & b3 & E). unfold res_flag. rewrite E. reflexivity. Qed.

  Lemma res_unset_enc : res_is_unset (enc a) = false.
  Proof. destruct (enc_bytes a) as (b0 & b1 & b2 & b3 & E). unfold res_is_unset. rewrite E. reflexivity. Qed.

  Lemma res_offset_enc : res_value_offset (enc a) = 6 + len (a_hdr a).
  Proof.
    unfold res_value_offset. rewrite res_flag_enc, Hf4.
    destruct (hdr_ok4_len _ _ Hf4 Hh) as (H2 & lo & hi & props & Eh & Hl).
    pose proof res_len as HL.
    destruct (enc_bytes a) as (b0 & b1 & b2 & b3 & E). rewrite E in *. rewrite Eh in *.
    unfold nthd. cbn [app nth_n N.eqb N.pred Pos.pred_N Pos.pred_double].
    rewrite !len_cons in *. rewrite ?len_app, ?len_cons in *.
    repeat match goal with |- context [?x <? ?y] => destruct (N.ltb_spec x y) end; lia.
  Qed.

  Lemma res_string_enc : res_string (enc a) = a_payload a.
  Proof.
    unfold res_string. rewrite res_unset_enc, res_offset_enc.
    destruct (enc_bytes a) as (b0 & b1 & b2 & b3 & E). rewrite E.
    rewrite skipn_n_6. apply skipn_n_app_len.
  Qed.

  Lemma res_incr_enc : res_incr (enc a) = number_of (a_payload a).
  Proof.
    unfold res_incr. rewrite res_unset_enc, res_offset_enc.
    destruct (enc_bytes a) as (b0 & b1 & b2 & b3 & E). rewrite E.
    rewrite skipn_n_6, skipn_n_app_len. reflexivity.
  Qed.

  Lemma res_len_gt6 : 6 < len (enc a).
  Proof. rewrite res_len. destruct (hdr_ok4_len _ _ Hf4 Hh) as (H2 & _). lia. Qed.
End Render.

Lemma number_of_le64 z : number_of (le64 z) = wrap64 z.
Proof.
  unfold number_of. rewrite firstn_n_all by (rewrite len_le64; lia). apply le_dec_le64.
Qed.

(* what GetLockData returns for a stored value *)
Lemma data_of_abs cur a : wf_cur cur -> abs all_fixes cur = Some a -> get_lock_data cur = Some (enc a) /\ wf_abs a.
Proof.
  intros Hc Ha. pose proof (wf_cur_abs all_fixes cur Hc) as H. destruct cur as [m|]; [|discriminate].
  destruct H as [[_ E]|(Hu & a' & Hw & Eb & E)]; [congruence|].
  rewrite Ha in E. injection E as ->. split; [|assumption].
  unfold get_lock_data, val_get_data. destruct (N.eqb_spec (d_type m) T_UNSET); [contradiction|]. congruence.
Qed.
Lemma data_of_none cur : wf_cur cur -> abs all_fixes cur = None -> get_lock_data cur = None.
Proof.
  intros Hc Ha. pose proof (wf_cur_abs all_fixes cur Hc) as H. destruct cur as [m|]; [|reflexivity].
  destruct H as [[Hu _]|(Hu & a' & Hw & Eb & E)]; [|congruence].
  unfold get_lock_data, val_get_data. rewrite Hu. reflexivity.
Qed.
