From Coq Require Import List NArith ZArith Bool String Lia.
From Slock Require Import Base.Util Engine.Types Engine.Queues Engine.Timers Engine.Engine Engine.Engine2 Kv.KvModel.
Import ListNotations.
Open Scope N_scope.

Definition kvc (lock : bool) (rq fl lid k tfl tmo efl ex : N) (d : option bytes) : cmd := mkCmd lock rq fl lid k tfl tmo efl ex 0 0 d.
Local Opaque process_data push_lock_aof.
Goal forall nw cT cE aoft M S nx TW TL EW EL C conn rq k lid tmo fr,
  aget M k = None -> (nw < MAXT - 5)%Z -> (cE <= MAXT)%Z ->
  finish (lock_step (mkDb nw cT cE true aoft M S nx TW TL EW EL C) conn (kvc true rq 34 lid k 0 tmo 24832 32767 (Some fr))) = (mkDb nw cT cE true aoft M S nx TW TL EW EL C, []).
Proof.
  intros. unfold lock_step. cbn [c_key kvc mgrs c_flag c_timeout]. rewrite H.
  change (has 34 LOCK_FLAG_CONCURRENT_CHECK) with false. cbn [andb].
  Time cbn.
Show.
Abort.
