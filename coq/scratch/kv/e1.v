From Coq Require Import List NArith ZArith Bool String Lia.
From Slock Require Import Base.Util Engine.Types Engine.Queues Engine.Timers Engine.Engine Engine.Engine2 Kv.KvModel.
Import ListNotations.
Open Scope N_scope.

Lemma aget_aset_same' {V} (m : amap V) k v : aget (aset m k v) k = Some v. Proof. apply aget_aset_same. Qed.

Definition kvc (lock : bool) (rq fl lid k tfl tmo efl ex : N) (d : option bytes) : cmd := mkCmd lock rq fl lid k tfl tmo efl ex 0 0 d.

Goal forall nw cT cE aoft M S nx TW TL EW EL C conn rq k,
  aget M k = None ->
  finish (unlock_step (mkDb nw cT cE true aoft M S nx TW TL EW EL C) conn (kvc false rq 1 k k 0 0 0 0 None)) = (mkDb nw cT cE true aoft M S nx TW TL EW EL C, []).
Proof.
  intros. unfold unlock_step. cbn [c_key kvc mgrs]. rewrite H. cbn.
Show.
Abort.
