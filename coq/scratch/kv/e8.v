From Coq Require Import List NArith ZArith Bool String Lia.
From Slock Require Import Base.Util Data.Data Data.DataProofs Data.Spec Data.Refine
     Engine.Types Engine.Queues Engine.Timers Engine.Engine Engine.Engine2 Engine.LocalBase
     Kv.KvModel Kv.KvSpec Kv.KvData Kv.KvBase Kv.KvEngine.
Import ListNotations.
Open Scope N_scope.

(* LockManager.AddLock of the first holder of a key *)
Lemma add_lock_mv s k r m l q :
  sees s k r (mkV (Some m) (Some l) q) -> m_cur m = None ->
  c_eflag (l_cmd l) = EF_KV -> c_tflag (l_cmd l) = 0 -> has (c_flag (l_cmd l)) LOCK_FLAG_FROM_AOF = false ->
  (now s < MAXT - 5)%Z ->
  moves s (add_lock s k r) k r
        (mkV (Some (m <| m_cur := Some r |>))
             (Some (l <| l_start := now s |> <| l_eT := MAXT |> <| l_ecc := 9 |> <| l_aoftime := 0 |> <| l_locked := 1 |>
                      <| l_refc := add8 (l_refc l) 1 |>)) q).
Proof.
  intros S Hcur He Ht Hf Hn. unfold add_lock.
  rewrite (sees_getl _ _ _ _ _ S eq_refl), (sees_getm _ _ _ _ _ S eq_refl).
  rewrite Ht, Hcur, Hf. change (has 0 TF_UNRENEW) with false. change (has 0 TF_REQUIRE_ACKED) with false.
  cbv iota beta zeta.
  unfold expiry_deadline, initial_ecc, aoftime_of. rewrite He.
  change (has EF_KV EF_UNLIMITED) with true. change (has EF_KV EF_ZERO_AOF) with true.
  change (N.land EF_KV 4864 =? EF_ZERO_AOF) with true. cbv iota beta.
  replace (5 <? MAXT - now s)%Z with true by (symmetry; apply Z.ltb_lt; lia). cbn [andb].
  Show.
Abort.
