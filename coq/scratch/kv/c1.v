From Coq Require Import List NArith ZArith Bool String Lia.
From Slock Require Import Base.Util Data.Data Data.Spec Engine.Types Kv.KvModel Kv.KvSpec Kv.KvData Kv.KvEngine.
Import ListNotations.
Open Scope N_scope.
Section T.
Variable md5 : bytes -> bytes.
Lemma convert_set k v : convert (encode (KSet k v)) = CWrite (mkT true 34 0 0 32767 EF_KV false (Some (frame_of_op (OSet 16 (key_hdr k) v)))) WSet.
Proof. Time reflexivity. Qed.
Lemma convert_setnx k v : convert (encode (KSetNX k v)) = CWrite (mkT true 32 15 0 65535 EF_KV true (Some (frame_of_op (OSet 16 (key_hdr k) v)))) WSetNX.
Proof. Time reflexivity. Qed.
Lemma convert_incr k : convert (encode (KIncr k)) = CWrite (mkT true 34 0 0 65535 EF_KV false (Some (frame_of_op (OIncr 17 (key_hdr k) 1)))) (WIncr 1).
Proof. Time reflexivity. Qed.
Lemma convert_incrby k d : convert (encode (KIncrBy k d)) =
  match parse_int d with
  | None => CErr "Command Parse Increment Value Error"
  | Some z => CWrite (mkT true 34 0 0 65535 EF_KV false (Some (frame_of_op (OIncr 17 (key_hdr k) z)))) (WIncr z)
  end.
Proof. Time (cbv [encode]; unfold convert; cbn [upper map]). 
Show.
Abort.
End T.
