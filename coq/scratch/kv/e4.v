From Coq Require Import List NArith ZArith Bool String Lia.
From Slock Require Import Base.Util Engine.Types Engine.Queues Engine.Timers Engine.Engine Engine.Engine2 Kv.KvModel.
Import ListNotations.
Open Scope N_scope.

Definition kvc (lock : bool) (rq fl lid k tfl tmo efl ex : N) (d : option bytes) : cmd := mkCmd lock rq fl lid k tfl tmo efl ex 0 0 d.

Lemma getm_bump_setm f s k m : getm (bump f (setm s k m)) k = m.
Proof. unfold getm, bump, updc, setm. cbn. rewrite N.eqb_refl. reflexivity. Qed.

Goal forall s conn rq k lid tmo fr,
  aget (mgrs s) k = None -> leader s = true -> (now s < MAXT - 5)%Z -> (checkE s <= MAXT)%Z ->
  lock_step s conn (kvc true rq 34 lid k 0 tmo 24832 32767 (Some fr)) = (s, [], None).
Proof.
  intros s conn rq k lid tmo fr H HL Hn Hc.
  unfold lock_step. cbn [c_key kvc c_flag c_timeout c_tflag c_count].
  rewrite H.
  change (has 34 LOCK_FLAG_CONCURRENT_CHECK) with false. cbn [andb].
  cbv zeta.
  rewrite getm_bump_setm.
  Time cbn -[new_lock add_lock process_data add_expried bump setm do_lock].
Show.
Abort.
