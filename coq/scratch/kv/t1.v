From Coq Require Import List NArith ZArith Bool String Lia.
From Slock Require Import Base.Util Data.Spec Data.Refine Engine.Types Engine.Queues Engine.Timers Engine.Engine Engine.Engine2 Kv.KvModel.
Import ListNotations.
Open Scope N_scope.

Definition fxb : fixes := {| fx_short_frame := true; fx_cmd_offset := true; fx_val_offset := true; fx_shift := true;
     fx_incr_nil := true; fx_pipeline_len := true; fx_pop_bounds := true; fx_pipeline_fold := false;
     fx_recover_nil := true |}.
Goal forall env c cur ld, op_incr fxb env c cur ld = op_incr all_fixes env c cur ld.
Proof. intros. Time reflexivity. Qed.
Goal forall env c cur ld, op_append fxb env c cur ld = op_append all_fixes env c cur ld.
Proof. intros. Time reflexivity. Qed.
Goal forall d cap, lcd_of_bytes fxb d cap = lcd_of_bytes all_fixes d cap.
Proof. intros. Time reflexivity. Qed.
