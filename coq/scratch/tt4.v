From Coq Require Import List NArith ZArith Bool Lia String.
From Slock Require Import Engine.Types Engine.Queues Engine.Timers Engine.Engine Engine.Engine2.
Import ListNotations.
Open Scope N_scope.
Definition s1 := fst (step (init_db 1000000 1) (AReq 1 (make_cmd true 1 0 101 7 0 5 0 10 0 0 None))).
Definition c2 := make_cmd true 2 0 102 7 0 0 0 10 0 0 None.
Eval vm_compute in (lock_step s1 2 c2).
Eval vm_compute in s1.
