(* Extraction of the C09 ring model and of the full-transfer boundary (Transfer.send_files).
   ExtrOcamlBasic only: N/positive/nat stay Coq datatypes. *)
From Slock Require Import Repl.Sync Repl.Transfer Repl.Ring.
Require Import ExtrOcamlBasic.
Extraction "model.ml" Ring.init_state Ring.mkid Ring.mkRcfg Ring.run Ring.dump Transfer.send_files.
