(* Extraction of the C09 ring model.  ExtrOcamlBasic only: N/positive/nat stay Coq datatypes. *)
From Slock Require Import Repl.Ring.
Require Import ExtrOcamlBasic.
Extraction "model.ml" init_state mkid mkRcfg run dump.
