(* Line-oriented driver for the extracted C09 ring model; same case/observation format as the Go harness
   (harness/repl/inj/zz_verif_repl.go): one case per line, one observation line per case, numbers in hex. *)
open Model

let rec pos_of_int n = if n = 1 then XH else if n land 1 = 0 then XO (pos_of_int (n lsr 1)) else XI (pos_of_int (n lsr 1))
let n_of_int n = if n = 0 then N0 else Npos (pos_of_int n)

(* hex printing of an arbitrarily large N directly from the binary representation *)
let bits_of_pos p =
  let rec go p acc = match p with XH -> 1 :: acc | XO q -> go q (0 :: acc) | XI q -> go q (1 :: acc) in
  go p []   (* most significant first *)
let hex_of_n = function
  | N0 -> "0"
  | Npos p ->
    let bits = bits_of_pos p in
    let pad = (4 - (List.length bits mod 4)) mod 4 in
    let bits = List.init pad (fun _ -> 0) @ bits in
    let b = Buffer.create 16 in
    let rec go = function
      | a :: c :: d :: e :: tl -> Buffer.add_char b "0123456789abcdef".[a * 8 + c * 4 + d * 2 + e]; go tl
      | _ -> () in
    go bits; Buffer.contents b

let obs l = String.concat "." (List.map hex_of_n l)
let ni s = n_of_int (int_of_string s)

let op_of_fields f =
  match f with
  | ["P"; off; idx; tm; tag; dl; fill] ->
    let d = if dl = "-1" then None else Some (ni dl, ni fill) in
    OPush (ni off, ni idx, ni tm, ni tag, d)
  | ["C"; k] -> ONewCur (ni k)
  | ["O"; k] -> OPop (ni k)
  | ["H"; k] -> OHead (ni k)
  | ["S"; k; off; idx; tm] -> OSearch (ni k, ni off, ni idx, ni tm)
  | ["A"; k] -> OAddPoll (ni k)
  | ["R"; k] -> ORemovePoll (ni k)
  | ["W"; k] -> OSent (ni k)
  | ["Y"; k; off; idx; tm] -> OSync (ni k, ni off, ni idx, ni tm)
  | _ -> failwith ("bad op " ^ String.concat " " f)

let fields s = List.filter (fun x -> x <> "") (String.split_on_char ' ' (String.trim s))

(* model switches derived from the source by checks/C09.py: modelrun <fresh_exempt 0|1> <poll_freed 0|1> *)
let rc = ref { rc_fresh_exempt = true; rc_poll_freed = true }

(* modelrun transfer: one line per case `lex|off ; idx:off idx:off ... ; bidx:boff` (the persisted ids in load order, the
   boundary waofLock) -> the ids Transfer.send_files delivers, same format *)
let int_of_n n = int_of_string ("0x" ^ hex_of_n n)
let id_of_tok t = match String.split_on_char ':' t with
  | [i; o] -> { xidx = ni i; xoff = ni o; xtime = N0 }
  | _ -> failwith ("bad id " ^ t)
let transfer_main () =
  try
    while true do
      let line = String.trim (input_line stdin) in
      if line <> "" then begin
        match String.split_on_char ';' line with
        | [v; ids; b] ->
          let v = if String.trim v = "lex" then CmpLex else CmpOffOnly in
          let l = List.mapi (fun k t -> { rid_of = id_of_tok t; rpay = n_of_int k }) (fields ids) in
          let sent = send_files v l (id_of_tok (String.trim b)) in
          print_endline (String.concat " " (List.map (fun r -> Printf.sprintf "%d:%d" (int_of_n r.rid_of.xidx) (int_of_n r.rid_of.xoff)) sent))
        | _ -> failwith ("bad transfer case " ^ line)
      end
    done
  with End_of_file -> ()

let () =
  if Array.length Sys.argv >= 2 && Sys.argv.(1) = "transfer" then (transfer_main (); exit 0);
  if Array.length Sys.argv >= 3 then
    rc := { rc_fresh_exempt = (Sys.argv.(1) = "1"); rc_poll_freed = (Sys.argv.(2) = "1") };
  try
    while true do
      let line = String.trim (input_line stdin) in
      if line <> "" then begin
        match String.split_on_char '|' line with
        | hdr :: ops ->
          let h = Array.of_list (fields hdr) in
          let ops = List.filter (fun f -> f <> []) (List.map fields ops) in
          let last = if Array.length h >= 5 then mkid (ni h.(2)) (ni h.(3)) (ni h.(4)) else N0 in
          let s0 = init_state (ni h.(0)) (ni h.(1)) last in
          let (s1, os) = run !rc s0 (List.map op_of_fields ops) in
          print_string (String.concat " " (List.map obs os));
          print_string " | ";
          print_endline (String.concat " " (List.map obs (dump s1)))
        | [] -> ()
      end
    done
  with End_of_file -> ()
