(* Extraction of the pure C13 model functions for the correspondence check (ExtrOcamlBasic only; N/Z/positive stay
   Coq datatypes).  The wrappers fix the source-derived switches and constants of the tree under test. *)
Require Import ExtrOcamlBasic.
From Coq Require Import List NArith ZArith.
Import ListNotations.
From Slock Require Import Gen.GenConsts Proto.Binary Proto.TextCmds Proto.SrcFlags.

Definition m_read_bytes_frame (inp : list N) := read_bytes_frame CONTENT_DATA_MAX_LENGTH inp.
Definition m_new_lock_data (data : list N) := new_lock_data current_fixes data.
Definition m_decode_lock_command (data : list N) :=
  match new_lock_data current_fixes data with
  | Ok d => decode_lock_command current_fixes d
  | Err e => Err e
  | Panic => Panic
  end.
Definition m_call_dbs_index (dbid : N) := call_dbs_index current_fixes 256 dbid.
Definition m_convert (a : list (list N)) := convert current_tfixes 15 0%Z 0%Z a.
Definition m_scan_args (re : list N -> bool) (a : list (list N)) := scan_args current_tfixes re a.
Definition m_write_lock_result (r : N) := write_lock_result len_ERROR_MSG r.
Definition m_write_append (r : N) (vs : option N) (al : N) := write_append_result current_tfixes r vs al.
Definition m_parse_int := parse_int.
Definition m_fixbits : list bool :=
  [fx_short_frame current_fixes; fx_cmd_offset current_fixes; fx_call_dbid current_fixes;
   fx_args2flag current_tfixes; fx_setex_args current_tfixes; fx_append_nil current_tfixes; fx_scan_args current_tfixes].

Extraction "model.ml" m_read_bytes_frame m_new_lock_data m_decode_lock_command m_call_dbs_index m_convert m_scan_args
  m_write_lock_result m_write_append m_parse_int m_fixbits N.of_nat N.to_nat Z.of_nat Z.to_nat.
