(* modelrun: one observation line per case line (same format as `crashrun pure`).  Case grammar: see
   harness/crash/c13coq.py (corr_cases).  Fields are TAB separated; byte strings are hex ("-" = empty);
   argument lists are comma separated hex strings ("=" = empty list). *)
open Model

let rec n_of_int (i : int) : n = if i = 0 then N0 else Npos (pos_of_int i)
and pos_of_int i = if i = 1 then XH else if i land 1 = 0 then XO (pos_of_int (i lsr 1)) else XI (pos_of_int (i lsr 1))
let rec int_of_pos = function XH -> 1 | XO p -> 2 * int_of_pos p | XI p -> 2 * int_of_pos p + 1
let int_of_n = function N0 -> 0 | Npos p -> int_of_pos p
(* decimal string of a possibly large positive (values up to 2^64) *)
let rec big_of_pos p = match p with
  | XH -> [1]
  | XO q -> dbl (big_of_pos q) 0
  | XI q -> dbl (big_of_pos q) 1
and dbl digits carry0 =     (* digits little endian base 10 *)
  let rec go ds c = match ds with
    | [] -> if c = 0 then [] else [c]
    | d :: r -> let v = 2 * d + c in (v mod 10) :: go r (v / 10) in
  go digits carry0
let string_of_big ds = String.concat "" (List.rev_map string_of_int ds)
let string_of_z = function Z0 -> "0" | Zpos p -> string_of_big (big_of_pos p) | Zneg p -> "-" ^ string_of_big (big_of_pos p)

let unhex s =
  if s = "-" || s = "" then [] else
  List.init (String.length s / 2) (fun i -> n_of_int (int_of_string ("0x" ^ String.sub s (2 * i) 2)))
let unargs s = if s = "=" then [] else List.map unhex (String.split_on_char ',' s)
let len l = List.length l

let regexp_ok (p : n list) =        (* the patterns used by the generator: "[" and "(" do not compile *)
  match List.map int_of_n p with [91] | [40] -> false | _ -> true

let () =
  try
    while true do
      let line = input_line stdin in
      let f = Array.of_list (String.split_on_char '\t' line) in
      let out =
        match f.(0) with
        | "RBF" -> (match m_read_bytes_frame (unhex f.(1)) with
                    | Ok (buf, _) -> Printf.sprintf "ok %d" (len buf)
                    | Err e -> if int_of_n e = 2 then "err:overmax" else "err:eof"
                    | Panic -> "panic")
        | "NLD" -> (match m_new_lock_data (unhex f.(1)) with
                    | Ok d -> Printf.sprintf "ok %d %d %d" (int_of_n d.d_stage) (int_of_n d.d_type) (int_of_n d.d_flag)
                    | Err _ -> "err" | Panic -> "panic")
        | "DLC" -> (match m_decode_lock_command (unhex f.(1)) with
                    | Ok e -> let c = e.e_cmd in
                              (match c.c_data with
                               | None -> Printf.sprintf "ok %d %d 0 0" (int_of_n c.c_flag) (int_of_n c.c_dbid)
                               | Some d -> Printf.sprintf "ok %d %d 1 %d" (int_of_n c.c_flag) (int_of_n c.c_dbid) (len d.d_data))
                    | Err _ -> "err" | Panic -> "panic")
        | "DBI" -> (match m_call_dbs_index (n_of_int (int_of_string f.(1))) with
                    | Ok true -> "ok" | Ok false -> "unknown-db" | Err _ -> "err" | Panic -> "panic")
        | "CV" -> (match m_convert (unargs f.(1)) with
                   | Ok c -> Printf.sprintf "ok %d %d %d %d %d %d" (int_of_n c.t_type) (int_of_n c.t_flag) (int_of_n c.t_timeout)
                               (int_of_n c.t_tflag) (int_of_n c.t_expried) (int_of_n c.t_eflag)
                   | Err _ -> "err" | Panic -> "panic")
        | "SC" -> (match m_scan_args regexp_ok (unargs f.(1)) with Ok _ -> "ok" | Err _ -> "err" | Panic -> "panic")
        | "WL" -> (match m_write_lock_result (n_of_int (int_of_string f.(1))) with Ok _ -> "ok" | Err _ -> "err" | Panic -> "panic")
        | "PI" -> (match m_parse_int (unhex f.(1)) with Some z -> "ok " ^ string_of_z z | None -> "err")
        | "FX" -> String.concat "" (List.map (fun b -> if b then "1" else "0") m_fixbits)
        | k -> "unknown-case-kind " ^ k in
      print_endline out
    done
  with End_of_file -> ()
