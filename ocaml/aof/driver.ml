(* Line-oriented driver for the extracted AOF model: accepts the same command script as the Go harness
   (`aofh file`, harness/aof/inj/zz_verif_aof.go) and prints the same observation lines, so that the check can diff
   the two outputs line by line.  Extra command (ignored by the Go side): fx <rl_nerr> <rl_short> <hdr> <trunc>. *)
open Model

let rec nat_of_int i = if i <= 0 then O else S (nat_of_int (i - 1))
let rec int_of_nat = function O -> 0 | S k -> 1 + int_of_nat k
let rec pos_of_int i = if i = 1 then XH else if i land 1 = 1 then XI (pos_of_int (i lsr 1)) else XO (pos_of_int (i lsr 1))
let n_of_int i = if i = 0 then N0 else Npos (pos_of_int i)
let rec int_of_pos = function XH -> 1 | XO p -> 2 * int_of_pos p | XI p -> 2 * int_of_pos p + 1
let int_of_n = function N0 -> 0 | Npos p -> int_of_pos p
let z_of_int i = if i = 0 then Z0 else if i > 0 then Zpos (pos_of_int i) else Zneg (pos_of_int (-i))

let unhex s : bytes option =
  if s = "-" then None
  else if s = "e" then Some []
  else begin
    let n = String.length s / 2 in
    let r = ref [] in
    for i = n - 1 downto 0 do
      r := n_of_int (int_of_string ("0x" ^ String.sub s (2 * i) 2)) :: !r
    done;
    Some !r
  end

let hex_tab = Array.init 256 (fun i -> Printf.sprintf "%02x" i)
let hex_of (b : bytes) =
  match b with
  | [] -> "e"
  | _ -> let buf = Buffer.create 256 in
    List.iter (fun x -> let i = int_of_n x in
                Buffer.add_string buf (if i < 256 then hex_tab.(i) else Printf.sprintf "%02x" i)) b;
    Buffer.contents buf

let hex_opt = function None -> "-" | Some b -> hex_of b
let unhex_b s = match unhex s with Some b -> b | None -> []

let err_name = function
  | EOF -> "EOF"
  | ELockLen -> "Lock_Len_error"
  | ENotAof -> "File_is_not_AOF_FIle"
  | EMagic -> "File_is_not_AOF_File"
  | EVersion -> "AOF_File_Unknown_Version"
  | ENoFile -> "nofile"
  | ENoDataFile -> "data_file_error"
  | EFuel -> "model_fuel_exhausted"   (* never produced by the code: a loop of the model ran out of fuel *)

let fname_of_string s =
  let pre = "append.aof." in
  let pl = String.length pre in
  if s = "rewrite.aof" then FRewrite
  else if s = "rewrite.aof.dat" then FRewriteDat
  else if s = "rewrite.aof.tmp" then FTmp
  else if s = "rewrite.aof.tmp.dat" then FTmpDat
  else if String.length s > pl && String.sub s 0 pl = pre then begin
    let rest = String.sub s pl (String.length s - pl) in
    let l = String.length rest in
    if l > 4 && String.sub rest (l - 4) 4 = ".dat" then FAppendDat (n_of_int (int_of_string (String.sub rest 0 (l - 4))))
    else FAppend (n_of_int (int_of_string rest))
  end else failwith ("bad file name " ^ s)

let size_of d f = match dget d f with None -> -1 | Some b -> List.length b

let item_str ((b, v) : item) = hex_of b ^ ":" ^ hex_opt v

let () =
  let fx = ref today in
  let fresh_tmp = ref false in
  let master = ref ([] : dir) in
  let image = ref ([] : dir) in
  let wname = ref (FAppend (n_of_int 1)) in
  let wbs = ref 4096 in
  let ws = ref { w_buf = []; w_dbuf = [] } in
  let datn f = match f with FAppend i -> FAppendDat i | FRewrite -> FRewriteDat | FTmp -> FTmpDat | g -> g in
  let getb d f = match dget d f with Some b -> b | None -> [] in
  let apply_master t =
    let (a, d) = apply_trace t (getb !master !wname) (getb !master (datn !wname)) in
    master := dset (dset !master !wname a) (datn !wname) d in
  let sz d f = Printf.sprintf "sz %d %d" (size_of d f) (size_of d (datn f)) in
  let eff_bs i = i - (i mod 64) in
  (try
    while true do
      let line = String.trim (input_line stdin) in
      if line <> "" then begin
        let t = Array.of_list (Str.split (Str.regexp "[ \t]+") line) in
        (match t.(0) with
         | "fx" ->
           let b i = t.(i) = "1" in
           fx := { fx_rl_nerr = b 1; fx_rl_short = b 2; fx_hdr = b 3; fx_trunc = b 4 }
         | "tmpfresh" -> fresh_tmp := (t.(1) = "1")   (* source switch of loadRewriteAofFiles (C16) *)
         | "new" ->
           wbs := eff_bs (int_of_string t.(1));
           wname := if Array.length t > 2 then fname_of_string t.(2) else FAppend (n_of_int 1);
           master := [];
           ws := { w_buf = []; w_dbuf = [] };
           let (a, d) = open_append !fx None None in
           master := dset (dset !master !wname a) (datn !wname) d;
           print_endline (sz !master !wname)
         | "w" ->
           let (tr, s') = write_item (nat_of_int !wbs) !ws (unhex_b t.(1)) (unhex_b t.(2)) in
           ws := s'; apply_master tr;
           print_endline (sz !master !wname ^ " ok")
         | "f" ->
           let (tr, s') = flush !ws in
           ws := s'; apply_master tr;
           print_endline (sz !master !wname ^ " true")
         | "close" ->
           let (tr, s') = flush !ws in
           ws := s'; apply_master tr;
           print_endline (sz !master !wname)
         | "image" ->
           let cut f n =
             image := ddel !image f;
             if n >= 0 then image := dset !image f (firstn (nat_of_int n) (getb !master f)) in
           cut !wname (int_of_string t.(1));
           cut (datn !wname) (int_of_string t.(2));
           print_endline "ok"
         | "imagefull" ->
           let cp f = image := ddel !image f; (match dget !master f with Some b -> image := dset !image f b | None -> ()) in
           cp !wname; cp (datn !wname);
           print_endline "ok"
         | "put" ->
           image := dset !image (fname_of_string t.(1)) (unhex_b t.(2));
           print_endline "ok"
         | "clear" -> image := []; print_endline "ok"
         | "load" ->
           let now = z_of_int (int_of_string t.(1)) in
           let bs = eff_bs (int_of_string t.(2)) in
           let (st, its) =
             match recover !fx (nat_of_int bs) !image now with
             | ROk its -> ("ok", its)
             | RStartFails (e, its) -> ("err:" ^ err_name e, its)
             | RFindError -> ("finderr:append.aof_file_index_error", [])
             | RUnsupported -> ("unsupported", []) in
           Printf.printf "load %s %d %s\n" st (List.length its) (String.concat " " (List.map item_str its))
         | "append" ->
           let bs = eff_bs (int_of_string t.(1)) in
           let f = fname_of_string t.(2) in
           let (a0, d0) = open_append !fx (dget !image f) (dget !image (datn f)) in
           let ops = ref [] in
           let i = ref 3 in
           while !i + 1 < Array.length t do
             ops := OItem (unhex_b t.(!i), unhex_b t.(!i + 1)) :: !ops;
             i := !i + 2
           done;
           let tr = run_ops (nat_of_int bs) { w_buf = []; w_dbuf = [] } (List.rev !ops) in
           let (a, d) = apply_trace tr a0 d0 in
           image := dset (dset !image f a) (datn f) d;
           Printf.printf "sz %d %d ok\n" (List.length a) (List.length d)
         | "dump" ->
           let f = fname_of_string t.(1) in
           Printf.printf "dump %s %s\n" (hex_of (getb !image f)) (hex_opt (dget !image (datn f)))
         | "mdump" ->
           Printf.printf "dump %s %s\n" (hex_of (getb !master !wname)) (hex_of (getb !master (datn !wname)))
         | "compact" ->
           (* compact <rotate 0|1> <cur> <now> <bs> <live rechex>... : directory after every prefix of the mutation list
              (variant of loadRewriteAofFiles: command `tmpfresh 0|1`) *)
           let rotate = t.(1) = "1" in
           let cur = n_of_int (int_of_string t.(2)) in
           let now = z_of_int (int_of_string t.(3)) in
           let bs = nat_of_int (eff_bs (int_of_string t.(4))) in
           let live = List.map unhex_b (List.tl (List.tl (List.tl (List.tl (List.tl (Array.to_list t)))))) in
           let steps = compact_steps_v (has_lock_of live) !fx bs !fresh_tmp rotate !image cur now in
           let name_of = function
             | FRewrite -> "rewrite.aof" | FRewriteDat -> "rewrite.aof.dat" | FTmp -> "rewrite.aof.tmp"
             | FTmpDat -> "rewrite.aof.tmp.dat" | FAppend i -> Printf.sprintf "append.aof.%d" (int_of_n i)
             | FAppendDat i -> Printf.sprintf "append.aof.%d.dat" (int_of_n i) in
           let show d =
             String.concat " " (List.sort compare (List.map (fun (f, b) -> name_of f ^ "=" ^ hex_of b) d)) in
           let n = List.length steps in
           Printf.printf "steps %d\n" n;
           for k = 0 to n do
             let d = run_steps !image (firstn (nat_of_int k) steps) in
             let rec_str = match recover !fx bs d now with
               | ROk its -> "ok " ^ String.concat "," (List.map (fun (b, _) -> hex_of b) its)
               | RStartFails (e, _) -> "err:" ^ err_name e
               | RFindError -> "finderr" | RUnsupported -> "unsupported" in
             Printf.printf "state %d %s | %s\n" k (show d) rec_str
           done
         | "guard" ->
           (* guard <on_rewriting 0|1> <ev>... : ev in R(equest) D(efer) B(arrier) F(inish); the guard state machine of
              rewriteAofFiles: one line per event `g <rewriting> <wait> <active> <marks>` *)
           let sw = t.(1) = "1" in
           let g = ref g_idle in
           let b x = if x then 1 else 0 in
           Printf.printf "g %d %d %d -\n" (b !g.g_rewriting) (b !g.g_wait) (int_of_nat !g.g_active);
           for i = 2 to Array.length t - 1 do
             let e = match t.(i) with "R" -> GRequest | "D" -> GDefer | "B" -> GBarrier | "F" -> GFinish
                                    | x -> failwith ("bad guard event " ^ x) in
             let marks = glog sw [e] !g in
             g := gstep sw !g e;
             Printf.printf "g %d %d %d %s\n" (b !g.g_rewriting) (b !g.g_wait) (int_of_nat !g.g_active)
               (match marks with [] -> "-" | _ -> String.concat "," (List.map (function GStarted -> "started" | GFinished -> "finished") marks))
           done
         | "holds" ->
           (* holds <rechex>... : reference replayer *)
           let recs = List.map unhex_b (List.tl (Array.to_list t)) in
           let hs = holds_of recs in
           let hstr (((db, key), lid), depth) =
             Printf.sprintf "%d/%s/%s/%d" (int_of_n db) (hex_of key) (hex_of lid) (int_of_n depth) in
           print_endline ("holds " ^ String.concat " " (List.sort compare (List.map hstr hs)))
         | c -> failwith ("unknown command " ^ c));
        Stdlib.flush stdout
      end
    done
  with End_of_file -> ())
