(* Extraction of the executable AOF model (C08/C16). ExtrOcamlBasic only; N/Z/positive/nat stay Coq datatypes. *)
Require Import ExtrOcamlBasic.
From Slock Require Import Aof.AofRec Aof.AofFile Aof.AofLoad Aof.Rewrite.
Extraction "model.ml" mkfixes today repaired write_item flush apply_trace crash_image fresh_trace run_ops open_append
  load_files recover holds_of zero_buf header decode dset dget ddel find_aof_files
  compact_steps compact crash_after run_steps apply_mut has_lock_of
  g_idle gstep grun glog alternates local_file compact_steps_v.
