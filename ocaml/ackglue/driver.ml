(* Line-oriented driver for the extracted models coq/AckGlue/Quorum.v and coq/AckGlue/Flush.v.
   Same case / observation format as harness/ackglue/inj/zz_verif_ackglue.go.

   Q <mode> <arb> ; add c | rm c | db d | reg d | leader | arb <bits>      arb, bits: - (no replica set) | e (empty) | 0101..
       -> per operation   n=<followers> dbs=<d:c,..|-> out=<c|->
   F <cap> ; a <ack> <dlen|-> <mb> <db> | f <via> <mb> <db> | c <mb> <db>   mb/db: main / data file broken (0/1)
       -> per operation   err=<0|1|-> rep=<id:T|F:m:d,..|-> w=<records> dw=<bytes> ai=<requests> open=<0|1> *)
module M = Model

let rec pos_of_int (i : int) : M.positive =
  if i = 1 then M.XH else if i land 1 = 0 then M.XO (pos_of_int (i lsr 1)) else M.XI (pos_of_int (i lsr 1))
let n_of_int (i : int) : M.n = if i = 0 then M.N0 else M.Npos (pos_of_int i)
let rec int_of_pos (p : M.positive) : int =
  match p with M.XH -> 1 | M.XO q -> 2 * int_of_pos q | M.XI q -> 2 * int_of_pos q + 1
let int_of_n (n : M.n) : int = match n with M.N0 -> 0 | M.Npos p -> int_of_pos p
let rec nat_of_int (i : int) : M.nat = if i = 0 then M.O else M.S (nat_of_int (i - 1))

let fields s = List.filter (fun x -> x <> "") (String.split_on_char ' ' s)
let steps s = List.map String.trim (Str.split (Str.regexp_string ";") s)

let bits s : bool list =
  if s = "e" then [] else List.init (String.length s) (fun i -> s.[i] = '1')

(* ---------------------------------------------------------------- quorum *)
let run_quorum hdr ops =
  let mode, arb = match hdr with [_; m; a] -> (int_of_string m, a) | _ -> failwith "bad Q header" in
  let q0 = M.q_init (n_of_int mode) (if arb = "-" then None else Some (bits arb)) in
  let q = ref q0 in
  let out = List.map (fun o ->
    let op = match fields o with
      | ["add"; c] -> M.QAdd (n_of_int (int_of_string c))
      | ["rm"; c] -> M.QRemove (n_of_int (int_of_string c))
      | ["db"; d] -> M.QGetDB (n_of_int (int_of_string d))
      | ["reg"; d] -> M.QReg (n_of_int (int_of_string d))
      | ["leader"] -> M.QLeader
      | ["arb"; b] -> M.QArbiter (bits b)
      | _ -> failwith ("bad quorum op: " ^ o) in
    let (q', o') = M.qstep !q op in
    q := q';
    let dbs = List.sort compare (List.map (fun (d, c) -> (int_of_n d, int_of_n c)) q'.M.q_dbs) in
    let dbs_s = if dbs = [] then "-" else String.concat "," (List.map (fun (d, c) -> Printf.sprintf "%d:%d" d c) dbs) in
    Printf.sprintf "n=%d dbs=%s out=%s" (List.length q'.M.q_chans) dbs_s
      (match o' with None -> "-" | Some c -> string_of_int (int_of_n c))) ops in
  String.concat " ; " out

(* ---------------------------------------------------------------- flush *)
let wres broken = if broken = "1" then M.WFail M.N0 else M.WOk

let run_flush hdr ops =
  let cap = match hdr with [_; c] -> int_of_string c | _ -> failwith "bad F header" in
  let capn = nat_of_int cap in
  let st = ref M.f_init in
  let out = List.map (fun o ->
    let op, show_err = match fields o with
      | ["a"; ack; dlen; mb; db] ->
          (M.FAppend (ack = "1", (if dlen = "-" then None else Some (n_of_int (int_of_string dlen))), wres mb, wres db, wres db), true)
      | ["f"; via; mb; db] -> (M.FFlush (via = "1", wres mb, wres db), via <> "1")
      | ["c"; mb; db] -> (M.FClose (wres mb, wres db), false)
      | _ -> failwith ("bad flush op: " ^ o) in
    let ((st', rep), err) = M.fstep capn !st op in
    st := st';
    let rep_s = if rep = [] then "-" else
      String.concat "," (List.map (fun (r, b) ->
        let (m, d) = M.durableb st' r in
        Printf.sprintf "%d:%s:%d:%d" (int_of_n r) (if b then "T" else "F") (if m then 1 else 0) (if d then 1 else 0)) rep) in
    Printf.sprintf "err=%s rep=%s w=%d dw=%d ai=%d open=%d"
      (if show_err then (if err then "1" else "0") else "-") rep_s
      (List.length st'.M.f_main) (int_of_n (M.dsum st'.M.f_data)) (List.length st'.M.f_acks)
      (if st'.M.f_open then 1 else 0)) ops in
  String.concat " ; " out

let () =
  try
    while true do
      let line = input_line stdin in
      let line = String.trim line in
      if line = "" || line.[0] = '#' then print_endline ""
      else begin
        match steps line with
        | [] -> print_endline ""
        | h :: ops ->
            let hdr = fields h in
            (match hdr with
             | "Q" :: _ -> print_endline (run_quorum hdr ops)
             | "F" :: _ -> print_endline (run_flush hdr ops)
             | _ -> failwith ("bad case: " ^ line))
      end
    done
  with End_of_file -> ()
