(* Extraction of the two glue models of C11 (ExtrOcamlBasic only; N/Z/positive/nat stay Coq datatypes). *)
Require Import ExtrOcamlBasic.
From Slock Require Import AckGlue.Quorum AckGlue.Flush.
Extraction "model.ml" qstep q_init fstep f_init durableb dsum.
