(* line-oriented driver for the extracted connection-layer model: same case / observation format as connrun (Go) *)
open Model

let rec pos_of_i64 (n : int64) : positive =
  if Int64.equal n 1L then XH
  else if Int64.equal (Int64.logand n 1L) 0L then XO (pos_of_i64 (Int64.shift_right_logical n 1))
  else XI (pos_of_i64 (Int64.shift_right_logical n 1))
let n_of_i64 n = if Int64.equal n 0L then N0 else Npos (pos_of_i64 n)
let z_of_i64 n = if Int64.equal n 0L then Z0 else if Int64.compare n 0L > 0 then Zpos (pos_of_i64 n) else Zneg (pos_of_i64 (Int64.neg n))
let rec i64_of_pos = function XH -> 1L | XO p -> Int64.shift_left (i64_of_pos p) 1 | XI p -> Int64.logor (Int64.shift_left (i64_of_pos p) 1) 1L
let i64_of_n = function N0 -> 0L | Npos p -> i64_of_pos p
let i64_of_z = function Z0 -> 0L | Zpos p -> i64_of_pos p | Zneg p -> Int64.neg (i64_of_pos p)
let sn n = Printf.sprintf "%Lu" (i64_of_n n)
let sz z = Printf.sprintf "%Ld" (i64_of_z z)
let nof s = n_of_i64 (Int64.of_string ("0u" ^ s))
let b2i b = if b then 1 else 0
(* request ids >= 1000000 stand for the ids the server generates for text commands *)
let sreq n = if Int64.unsigned_compare (i64_of_n n) 1000000L >= 0 then "T" else sn n

let lock_desc s r =
  match aget s.store r with
  | None -> "freed"
  | Some l when l.l_timeouted && l.l_expried -> Printf.sprintf "dead:%s" (sn l.l_refc)
  | Some l ->
    Printf.sprintf "%s:%s:%s:%d:%d:%s:%s:%s:%s" (sn l.l_cmd.c_lockid) (sn l.l_locked) (sn l.l_refc)
      (b2i l.l_timeouted) (b2i l.l_expried) (sz l.l_eT) (sz l.l_tT) (sreq l.l_cmd.c_req) (sn l.l_conn)

let snapshot (st : cstate) =
  let s = st.cs_db in
  let c = s.cnt in
  Printf.printf "snap now=%s L=%s U=%s LD=%s W=%s K=%s T=%s E=%s UE=%s\n" (sz s.now)
    (sz c.n_lock) (sz c.n_unlock) (sz c.n_locked) (sz c.n_wait) (sz c.n_key) (sz c.n_timeouted) (sz c.n_expried) (sz c.n_unlockerr);
  let ms = List.sort (fun (a, _) (b, _) -> Int64.unsigned_compare (i64_of_n a) (i64_of_n b)) s.mgrs in
  List.iter (fun (k, m) ->
    let b = Buffer.create 256 in
    Buffer.add_string b (Printf.sprintf "key %s locked=%s waited=%d ref=%s cur=%s holders=[" (sn k) (sn m.m_locked) (b2i m.m_waited) (sn m.m_ref)
      (match m.m_cur with None -> "nil" | Some r -> lock_desc s r));
    (match m.m_locks with
     | None -> ()
     | Some q ->
       List.iter (fun r -> Buffer.add_string b (lock_desc s r ^ " ")) q.hq_fast;
       (match q.hq_scale with
        | None -> ()
        | Some (items, _) -> Buffer.add_string b "| "; List.iter (fun r -> Buffer.add_string b (lock_desc s r ^ " ")) items));
    Buffer.add_string b "] waiters=[";
    (match m.m_wait with None -> () | Some q -> List.iter (fun r -> Buffer.add_string b (lock_desc s r ^ " ")) (wq_items q));
    Buffer.add_string b "]";
    print_endline (Buffer.contents b)) ms;
  let cs = List.sort (fun (a, _) (b, _) -> Int64.unsigned_compare (i64_of_n a) (i64_of_n b)) st.cs_conns in
  List.iter (fun (id, k) ->
    let (((isbin, opn), inited), cid) = conn_fields k in
    let tgt = match aget st.cs_rs.r_target id with
      | Some (Some c) -> sn c | _ -> "-" in
    Printf.printf "conn %s %s open=%d inited=%d cid=%s wills=%d target=%s await=%d chan=%s stuck=%d\n" (sn id) (if isbin then "B" else "T")
      (b2i opn) (b2i inited) (sn cid) (List.length (wills_of st id)) tgt
      (b2i (getN st.cs_rs.r_await id <> N0)) (sn (getN st.cs_rs.r_chan id)) (b2i (List.mem id st.cs_stuck))) cs;
  let cl = List.sort compare (List.map (fun (k, v) -> Printf.sprintf "%s>%s" (sn k) (sn v)) st.cs_clients) in
  Printf.printf "clients %s\n" (String.concat " " cl)

let cmd_of f o =
  (* fields from index o: L|U reqid flag lockid key tflag timeout eflag expried count rcount [dbid] *)
  let db = if Array.length f > o + 11 then nof f.(o+11) else N0 in
  mk_xcmd db (make_cmd (f.(o) = "L") (nof f.(o+1)) (nof f.(o+2)) (nof f.(o+3)) (nof f.(o+4)) (nof f.(o+5)) (nof f.(o+6)) (nof f.(o+7)) (nof f.(o+8)) (nof f.(o+9)) (nof f.(o+10)) None)

let () =
  let flag i = Array.length Sys.argv > i && Sys.argv.(i) = "1" in
  let cf = mk_cfg (flag 1) (flag 2) (flag 3) (flag 4) (flag 5) in
  let ic = if Array.length Sys.argv > 6 then open_in Sys.argv.(6) else stdin in
  let st = ref (init_cstate Z0 N0) in
  let dead = ref false in
  (try while true do
    let line = String.trim (input_line ic) in
    if line <> "" then begin
      let f = Array.of_list (List.filter (fun x -> x <> "") (String.split_on_char ' ' line)) in
      match f.(0) with
      | "case" ->
        Printf.printf "case %s\n" f.(1);
        st := init_cstate (z_of_i64 (Int64.of_string f.(2))) (nof f.(3)); dead := false
      | "end" -> if not !dead then print_endline "end"
      | _ when !dead -> ()
      | a ->
        Printf.printf "act %s\n" (String.concat " " (Array.to_list f));
        let ignorable c = not (usable !st c) in
        (* outside the modelled fragment (a LOCK creating another database, a DbId on a text connection): never generated *)
        let check_modelled c x =
          if usable !st c then begin
            let (((isbin, _), _), _) = conn_fields (conn_of (!st).cs_conns c) in
            if not (modelled (if isbin then KBin else KText) x) then print_endline "ev unmodelled"
          end in
        let act, ign = match a with
          | "open" -> COpen (nof f.(1), if f.(2) = "T" then KText else KBin), false
          | "init" ->
            let c = nof f.(1) in
            let istext = match aget (!st).cs_conns c with Some k -> let (((isbin, _), _), _) = conn_fields k in not isbin | None -> true in
            CInit (c, nof f.(2)), (istext || ignorable c)
          | "req" -> let c = nof f.(1) in let x = cmd_of f 2 in check_modelled c x; CReq (c, x), ignorable c
          | "will" -> let c = nof f.(1) in let x = cmd_of f 2 in check_modelled c x; CWill (c, x), ignorable c
          | "close" -> let c = nof f.(1) in CClose c, ignorable c
          | "adv" -> CAdvance (z_of_i64 (Int64.of_string f.(1))), false
          | "sweept" -> CSweepT, false
          | "sweepe" -> CSweepE, false
          | _ -> failwith ("unknown action " ^ a) in
        if ign then print_endline "ev ignored";
        let (s', evs) = cstep cf !st act in
        st := s';
        if List.exists (function CCrash _ -> true | _ -> false) evs then begin
          print_endline "ev crash"; dead := true
        end else begin
          let frames = List.filter_map (function
            | CFrame (t, _, r) -> Some (i64_of_n t, Printf.sprintf "ev frame %s %s %s %s %s %s" (sn t) (sreq r.rp_req) (sn r.rp_res) (sn r.rp_lc) (sn r.rp_lrc) (sn r.rp_lockid))
            | CInitOk (c, ity) -> Some (i64_of_n c, Printf.sprintf "ev init %s 0 %s" (sn c) (sn ity))
            | CWillOk c -> Some (i64_of_n c, Printf.sprintf "ev ok %s" (sn c))
            | _ -> None) evs in
          List.iter (fun (_, l) -> print_endline l) (List.stable_sort (fun (a, _) (b, _) -> Int64.unsigned_compare a b) frames);
          List.iter (function
            | CDropped (o, r) -> Printf.printf "# dropped origin=%s req=%s res=%s\n" (sn o) (sreq r.rp_req) (sn r.rp_res)
            | CSwallowed (c, r) -> Printf.printf "# swallowed conn=%s req=%s res=%s\n" (sn c) (sreq r.rp_req) (sn r.rp_res)
            | CEngine (c, w, cm) -> Printf.printf "# engine conn=%s will=%d req=%s\n" (sn c) (b2i w) (sreq cm.x_cmd.c_req)
            | CNoDb (c, w, cm) -> Printf.printf "# nodb conn=%s will=%d req=%s db=%s\n" (sn c) (b2i w) (sreq cm.x_cmd.c_req) (sn cm.x_db)
            | CRegistered (c, cm) -> Printf.printf "# registered conn=%s req=%s\n" (sn c) (sreq cm.x_cmd.c_req)
            | CRequeued (c, cm) -> Printf.printf "# requeued conn=%s req=%s\n" (sn c) (sreq cm.x_cmd.c_req)
            | CBlocked c -> Printf.printf "# blocked conn=%s\n" (sn c)
            | CLoopFuel -> print_endline "# loopfuel"
            | _ -> ()) evs;
          snapshot !st
        end
    end
  done with End_of_file -> ());
  flush stdout
