From Coq Require Import ExtrOcamlBasic.
From Slock Require Import Engine.Types Engine.Queues Engine.Timers Engine.Engine Engine.Engine2 Conn.Conn.
Extraction Language OCaml.
Extraction "model.ml" cstep init_cstate mk_cfg mk_xcmd modelled conn_of conn_fields usable wills_of getN wq_items getl aget make_cmd.
