(* line-oriented driver for the extracted engine model: same case format / observation format as implrun *)
open Model

let rec pos_of_i64 (n : int64) : positive =
  if Int64.equal n 1L then XH
  else if Int64.equal (Int64.logand n 1L) 0L then XO (pos_of_i64 (Int64.shift_right_logical n 1))
  else XI (pos_of_i64 (Int64.shift_right_logical n 1))
let n_of_i64 n = if Int64.equal n 0L then N0 else Npos (pos_of_i64 n)
let z_of_i64 n = if Int64.equal n 0L then Z0 else if Int64.compare n 0L > 0 then Zpos (pos_of_i64 n) else Zneg (pos_of_i64 (Int64.neg n))
let rec i64_of_pos = function XH -> 1L | XO p -> Int64.shift_left (i64_of_pos p) 1 | XI p -> Int64.logor (Int64.shift_left (i64_of_pos p) 1) 1L
let i64_of_n = function N0 -> 0L | Npos p -> i64_of_pos p
let i64_of_z = function Z0 -> 0L | Zpos p -> i64_of_pos p | Zneg p -> Int64.neg (i64_of_pos p)
let sn n = Printf.sprintf "%Lu" (i64_of_n n)
let sz z = Printf.sprintf "%Ld" (i64_of_z z)
let nof s = n_of_i64 (Int64.of_string ("0u" ^ s))
let b2i b = if b then 1 else 0

let hex_of bytes = "x" ^ String.concat "" (List.map (fun b -> Printf.sprintf "%02x" (Int64.to_int (i64_of_n b))) bytes)
let shex = function None -> "-" | Some b -> hex_of b
let bytes_of_hex s =
  if s = "-" then None else begin
    let n = (String.length s - 1) / 2 in
    Some (List.init n (fun i -> n_of_i64 (Int64.of_string ("0x" ^ String.sub s (1 + 2 * i) 2))))
  end
let char_of_ascii (Ascii (b0, b1, b2, b3, b4, b5, b6, b7)) =
  let v b i = if b then 1 lsl i else 0 in
  Char.chr (v b0 0 + v b1 1 + v b2 2 + v b3 3 + v b4 4 + v b5 5 + v b6 6 + v b7 7)
let rec string_of_chars = function EmptyString -> "" | String (a, r) -> String.make 1 (char_of_ascii a) ^ string_of_chars r

let lock_desc s r =
  match aget s.store r with
  | None -> "freed"
  | Some l ->
    Printf.sprintf "%s:%s:%s:%s:%d:%d:%s:%s:%d:%s:%s:%s:%s" (sn l.l_cmd.c_lockid) (sn l.l_locked) (sn l.l_ack) (sn l.l_refc)
      (b2i l.l_timeouted) (b2i l.l_expried) (sz l.l_eT) (sz l.l_tT) (b2i l.l_isaof) (sn l.l_cmd.c_count) (sn l.l_cmd.c_rcount) (sn l.l_cmd.c_tflag) (sn l.l_cmd.c_req)

let nthreads = ref 0
let snapshot s =
  let c = s.cnt in
  let freed_in w = List.fold_left (fun acc (_, l) -> acc + List.length (List.filter (fun r -> aget s.store r = None) l)) 0 w in
  let uafw = freed_in s.twheel + freed_in s.tlong + freed_in s.ewheel + freed_in s.elong in
  Printf.printf "snap now=%s ct=%s ce=%s L=%s U=%s LD=%s W=%s K=%s T=%s E=%s UE=%s uafw=%d thr=%d\n" (sz s.now) (sz s.checkT) (sz s.checkE)
    (sz c.n_lock) (sz c.n_unlock) (sz c.n_locked) (sz c.n_wait) (sz c.n_key) (sz c.n_timeouted) (sz c.n_expried) (sz c.n_unlockerr) uafw !nthreads;
  let ms = List.sort (fun (a, _) (b, _) -> Int64.unsigned_compare (i64_of_n a) (i64_of_n b)) s.mgrs in
  List.iter (fun (k, m) ->
    let b = Buffer.create 256 in
    Buffer.add_string b (Printf.sprintf "key %s locked=%s waited=%d ref=%s cur=%s holders=[" (sn k) (sn m.m_locked) (b2i m.m_waited) (sn m.m_ref)
      (match m.m_cur with None -> "nil" | Some r -> lock_desc s r));
    (match m.m_locks with
     | None -> ()
     | Some q ->
       List.iter (fun r -> Buffer.add_string b (lock_desc s r ^ " ")) q.hq_fast;
       (match q.hq_scale with
        | None -> ()
        | Some (items, _) -> Buffer.add_string b "| "; List.iter (fun r -> Buffer.add_string b (lock_desc s r ^ " ")) items));
    Buffer.add_string b "]";
    (match m.m_locks with
     | Some q when i64_of_n q.hq_cap <> 0L && not (q.hq_fast = [] && i64_of_n q.hq_fidx = 0L && i64_of_n q.hq_cap = 6L) -> Buffer.add_string b (Printf.sprintf " hq=%s/%s" (sn q.hq_fidx) (sn q.hq_cap))
     | _ -> Buffer.add_string b " hq=-");
    (match m.m_wait with
     | Some q when i64_of_n q.wq_cap <> 0L && q.wq_mode <> WPrio && not (q.wq_fast = [] && i64_of_n q.wq_fidx = 0L && i64_of_n q.wq_cap = 8L) -> Buffer.add_string b (Printf.sprintf " wq=%s/%s" (sn q.wq_fidx) (sn q.wq_cap))
     | _ -> Buffer.add_string b " wq=-");
    Buffer.add_string b " waiters=[";
    (match m.m_wait with None -> () | Some q -> List.iter (fun r -> Buffer.add_string b (lock_desc s r ^ " ")) (wq_items q));
    Buffer.add_string b "] data=";
    (match m.m_data with
     | None -> Buffer.add_string b "nil"
     | Some d -> Buffer.add_string b (Printf.sprintf "%s/%s/%d" (hex_of d.d_bytes) (sn d.d_type) (b2i d.d_isaof)));
    print_endline (Buffer.contents b)) ms

let () =
  let ic = if Array.length Sys.argv > 1 then open_in Sys.argv.(1) else stdin in
  let st = ref (init_astate Z0 N0 (n_of_i64 1L)) in
  let nacks = ref 0 in
  let sched = ref false in
  let sst = ref (init_sstate Z0 N0) in
  let stopped = ref false in
  (try while true do
    let line = String.trim (input_line ic) in
    if line <> "" then begin
      let f = Array.of_list (List.filter (fun x -> x <> "") (String.split_on_char ' ' line)) in
      match f.(0) with
      | "case" ->
        Printf.printf "case %s\n" f.(1); nthreads := 0;
        st := init_astate (z_of_i64 (Int64.of_string f.(2))) (nof f.(3)) (n_of_i64 1L); nacks := 0; stopped := false;
        sched := false;
        sst := init_sstate (z_of_i64 (Int64.of_string f.(2))) (nof f.(3))
      | "end" -> print_endline "end"
      | a when !stopped -> ()
      | ("start" | "resume" | "drain" | "startsweept" | "startsweepe" | "drainsweeps") as a ->
        Printf.printf "act %s\n" a;
        if not !sched then begin sched := true; sst := { s_db = (!st).a_db; s_threads = []; s_epochs = [] } end;
        let print_evs evs =
          List.iter (function
            | _ when !stopped -> ()
            | EReply (conn, req, res, lc, lrc, lockid, cnt, rc, data) ->
              Printf.printf "ev reply %s %s %s %s %s %s %s %s %s\n" (sn conn) (sn req) (sn res) (sn lc) (sn lrc) (sn lockid) (sn cnt) (sn rc) (shex data)
            | EPanic site -> Printf.printf "ev panic %s\n" (string_of_chars site); stopped := true
            | _ -> ()) evs;
          if not !stopped then
            List.iter (function
              | EAof a ->
                Printf.printf "ev aof %d %s %s %s %s %s %s %s %s %s %s %s %d\n" (b2i a.a_lock) (sn a.a_flag) (sn a.a_lockid) (sn a.a_key) (sn a.a_aofflag)
                  (sz a.a_ctime) (sn a.a_start) (sn a.a_eflag) (sn a.a_etime) (sn a.a_count) (sn a.a_rcount) (shex a.a_data) (-1)
              | _ -> ()) evs in
        let one act = let (s', evs) = sstep !sst act in sst := s'; print_evs evs in
        (match a with
         | "start" ->
           let c = make_cmd (f.(2) = "L") (nof f.(3)) (nof f.(4)) (nof f.(5)) (nof f.(6)) (nof f.(7)) (nof f.(8)) (nof f.(9)) (nof f.(10)) (nof f.(11)) (nof f.(12)) (bytes_of_hex f.(13)) in
           one (SStart (nof f.(1), c))
         | "resume" -> one (SResume (nof f.(1)))
         | "startsweept" -> one (SStartSweep true)
         | "startsweepe" -> one (SStartSweep false)
         | "drainsweeps" ->
           let first_sweep () =
             let rec go i = function [] -> -1 | TSweep _ :: _ -> i | _ :: r -> go (i + 1) r in go 0 (!sst).s_threads in
           let n = ref 0 in
           while first_sweep () >= 0 && !n < 100000 && not !stopped do
             one (SResume (n_of_i64 (Int64.of_int (first_sweep ())))); incr n done
         | _ ->
           let n = ref 0 in
           while (!sst).s_threads <> [] && !n < 100000 && not !stopped do one (SResume N0); incr n done);
        st := { !st with a_db = (!sst).s_db };
        nthreads := List.length (!sst).s_threads;
        if not !stopped then snapshot (!st).a_db
      | a ->
        if !sched then sst := { !sst with s_db = (!st).a_db };
        Printf.printf "act %s\n" a;
        let act = match a with
          | "req" ->
            let c = make_cmd (f.(2) = "L") (nof f.(3)) (nof f.(4)) (nof f.(5)) (nof f.(6)) (nof f.(7)) (nof f.(8)) (nof f.(9)) (nof f.(10)) (nof f.(11)) (nof f.(12)) (bytes_of_hex f.(13)) in
            Some (AAct (AReq (nof f.(1), c)))
          | "adv" -> Some (AAct (AAdvance (z_of_i64 (Int64.of_string f.(1)))))
          | "sweept" -> Some (AAct ASweepT)
          | "sweepe" -> Some (AAct ASweepE)
          | "ack" ->
            let i = int_of_string f.(1) in
            if i < !nacks then Some (AAckEvt (n_of_i64 (Int64.of_int i), f.(2) = "1")) else (print_endline "ev noack"; None)
          | "ackcfg" -> st := { !st with a_cfg = nof f.(1) }; None
          | "role" -> Some (AAct (ARole (f.(1) = "1")))   (* every state other than leader behaves alike *)
          | _ -> failwith ("unknown action " ^ a) in
        (match act with
         | None -> snapshot (!st).a_db
         | Some act ->
           let (s', evs) =
             match act with
             | AAct ea when !sched ->
               (* scheduled mode: same engine step, but through the scheduler state (manager epochs) *)
               let (ss, evs) = sstep { !sst with s_db = (!st).a_db } (SAtomic ea) in
               sst := ss; ({ !st with a_db = ss.s_db }, evs)
             | _ -> astep !st act in
           st := s';
           if !sched then sst := { !sst with s_db = s'.a_db };
           let replies = List.filter (function EReply _ | EPanic _ -> true | _ -> false) evs in
           let aofs = List.filter (function EAof _ -> true | _ -> false) evs in
           List.iter (function
             | _ when !stopped -> ()     (* the implementation stops at the panic: nothing after it is observable *)
             | EReply (conn, req, res, lc, lrc, lockid, cnt, rc, data) ->
               Printf.printf "ev reply %s %s %s %s %s %s %s %s %s\n" (sn conn) (sn req) (sn res) (sn lc) (sn lrc) (sn lockid) (sn cnt) (sn rc) (shex data)
             | EPanic site -> Printf.printf "ev panic %s\n" (string_of_chars site); stopped := true
             | _ -> ()) replies;
           if not !stopped then begin
             List.iter (function
               | EAof a ->
                 let ackidx = match a.a_ref with
                   | Some r when a.a_lock -> incr nacks; !nacks - 1
                   | _ -> -1 in
                 Printf.printf "ev aof %d %s %s %s %s %s %s %s %s %s %s %s %d\n" (b2i a.a_lock) (sn a.a_flag) (sn a.a_lockid) (sn a.a_key) (sn a.a_aofflag)
                   (sz a.a_ctime) (sn a.a_start) (sn a.a_eflag) (sn a.a_etime) (sn a.a_count) (sn a.a_rcount) (shex a.a_data) ackidx
               | _ -> ()) aofs;
             snapshot (!st).a_db
           end)
    end
  done with End_of_file -> ());
  flush stdout
