From Coq Require Import ExtrOcamlBasic.
From Slock Require Import Engine.Types Engine.Queues Engine.Timers Engine.Engine Engine.Engine2 Engine.Ack.
Extraction Language OCaml.
Extraction "model.ml" astep init_astate step init_db wq_items getl aget make_cmd.
