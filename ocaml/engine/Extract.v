From Coq Require Import ExtrOcamlBasic.
From Slock Require Import Engine.Types Engine.Queues Engine.Timers Engine.Engine Engine.Engine2 Engine.Ack Engine.Sched.
Extraction Language OCaml.
Extraction "model.ml" sstep init_sstate astep init_astate step init_db wq_items getl aget make_cmd.
