(* modelrun: runs the extracted generated codec definitions (Gen/GenCodecRun.v gen_run, Codec/CodecInst.v inst_run)
   on the same case lines as the Go harness.
     case:   <def> <fields> <arg,arg,...> <bufhex>
     answer: "R <outcome 0 ok|1 error|2 panic> <field,field,...>"  each field = its numbers joined by '.', (empty field = "e") *)
module M = Model

let rec pos_of_int64 (x : int64) : M.positive =
  if Int64.equal x 1L then M.XH
  else
    let rest = pos_of_int64 (Int64.shift_right_logical x 1) in
    if Int64.equal (Int64.logand x 1L) 1L then M.XI rest else M.XO rest

let n_of_int64 (x : int64) : M.n = if Int64.equal x 0L then M.N0 else M.Npos (pos_of_int64 x)

let rec int64_of_pos (p : M.positive) : int64 =
  match p with
  | M.XH -> 1L
  | M.XO q -> Int64.shift_left (int64_of_pos q) 1
  | M.XI q -> Int64.logor (Int64.shift_left (int64_of_pos q) 1) 1L

let int64_of_n (x : M.n) : int64 = match x with M.N0 -> 0L | M.Npos p -> int64_of_pos p

let n_of_dec (s : string) : M.n = n_of_int64 (Int64.of_string ("0u" ^ s))
let dec_of_n (x : M.n) : string = Printf.sprintf "%Lu" (int64_of_n x)

let bytes_of_hex (s : string) : M.n list =
  let l = String.length s / 2 in
  List.init l (fun i -> n_of_int64 (Int64.of_string ("0x" ^ String.sub s (2 * i) 2)))

let ascii_of_char (c : char) : M.ascii =
  let k = Char.code c in
  let b i = (k lsr i) land 1 = 1 in
  M.Ascii (b 0, b 1, b 2, b 3, b 4, b 5, b 6, b 7)

let coq_string (s : string) : M.string =
  let rec go i = if i = String.length s then M.EmptyString else M.String (ascii_of_char s.[i], go (i + 1)) in
  go 0

let z_of_dec (s : string) : M.z =
  if String.length s > 0 && s.[0] = '-' then
    (match n_of_dec (String.sub s 1 (String.length s - 1)) with M.N0 -> M.Z0 | M.Npos p -> M.Zneg p)
  else (match n_of_dec s with M.N0 -> M.Z0 | M.Npos p -> M.Zpos p)

let dec_of_z (x : M.z) : string =
  match x with M.Z0 -> "0" | M.Zpos p -> dec_of_n (M.Npos p) | M.Zneg p -> "-" ^ dec_of_n (M.Npos p)

let z_of_n (x : M.n) : M.z = match x with M.N0 -> M.Z0 | M.Npos p -> M.Zpos p

let parse_zarg (a : string) : M.z list =
  if String.length a > 0 && a.[0] = 'x' then List.map z_of_n (bytes_of_hex (String.sub a 1 (String.length a - 1)))
  else [ z_of_dec a ]

let parse_arg (a : string) : M.n list =
  if a = "nil" then []
  else if String.length a > 0 && a.[0] = 'x' then bytes_of_hex (String.sub a 1 (String.length a - 1))
  else [ n_of_dec a ]

let show_field (f : M.n list) : string = if f = [] then "e" else String.concat "." (List.map dec_of_n f)

let () =
  try
    while true do
      let line = String.trim (input_line stdin) in
      if line <> "" then begin
        match String.split_on_char ' ' line with
        | [ "Decide"; fn; args; _ ] ->
            let args = if args = "-" || args = "" then [] else List.map parse_zarg (String.split_on_char ',' args) in
            (match Model.gen_decide (coq_string fn) args with
             | Some r -> Printf.printf "R 0 %s\n" (dec_of_z r)
             | None -> print_string "R skip unknown_decision\n")
        | [ def; _fields; args; buf ] ->
            let args = if args = "-" || args = "" then [] else List.map parse_arg (String.split_on_char ',' args) in
            let buf = if buf = "-" then [] else bytes_of_hex buf in
            let r = match Model.gen_run (coq_string def) args buf with
              | Some r -> Some r
              | None -> Model.inst_run (coq_string def) args buf in
            (match r with
             | Some (oc, fields) ->
                 Printf.printf "R %s %s\n" (dec_of_n oc) (String.concat "," (List.map show_field fields))
             | None -> print_string "R skip unknown_def\n")
        | _ -> print_string "R skip bad_case\n"
      end
    done
  with End_of_file -> ()
