Require Import ExtrOcamlBasic.
From Slock Require Import Gen.GenCodecRun Gen.GenDecision Codec.InstRun.
Extraction "model.ml" gen_run inst_run gen_decide.
