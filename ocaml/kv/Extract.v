(* Extraction of the Redis-style text command model (ExtrOcamlBasic only; N/Z/positive/string stay Coq datatypes). *)
Require Import ExtrOcamlBasic.
From Slock Require Import Kv.KvModel.
Extraction Language OCaml.
Extraction "model.ml" kv_step_t kv_advance kv_init observe reply_bytes.
