(* Line-oriented driver for the extracted model coq/Kv/KvModel.v.
   Same case / observation format as harness/kv/inj/zz_verif_kv.go:
     case <id> <t0> / cmd <hex arg|-> ... / adv <n> / end
     -> case <id> / r <hex reply> <ticks> / st <now> <key:locked:waited:cur:eT:data>* / end
   md5 (keys longer than 16 bytes) is OCaml's Digest (trusted for the correspondence only). *)
module M = Model

let rec pos_of_int (i : int) : M.positive =
  if i = 1 then M.XH else if i land 1 = 0 then M.XO (pos_of_int (i lsr 1)) else M.XI (pos_of_int (i lsr 1))
let n_of_int (i : int) : M.n = if i = 0 then M.N0 else M.Npos (pos_of_int i)
let rec int_of_pos (p : M.positive) : int =
  match p with M.XH -> 1 | M.XO q -> 2 * int_of_pos q | M.XI q -> (2 * int_of_pos q) + 1
let int_of_n (n : M.n) : int = match n with M.N0 -> 0 | M.Npos p -> int_of_pos p

let rec pos_of_u64 (i : int64) : M.positive =
  if Int64.equal i 1L then M.XH
  else
    let h = Int64.shift_right_logical i 1 in
    if Int64.equal (Int64.logand i 1L) 0L then M.XO (pos_of_u64 h) else M.XI (pos_of_u64 h)
let rec u64_of_pos (p : M.positive) : int64 =
  match p with
  | M.XH -> 1L
  | M.XO q -> Int64.shift_left (u64_of_pos q) 1
  | M.XI q -> Int64.logor (Int64.shift_left (u64_of_pos q) 1) 1L
let z_of_i64 (i : int64) : M.z =
  if Int64.equal i 0L then M.Z0
  else if Int64.compare i 0L > 0 then M.Zpos (pos_of_u64 i)
  else M.Zneg (pos_of_u64 (Int64.neg i))
let i64_of_z (z : M.z) : int64 =
  match z with M.Z0 -> 0L | M.Zpos p -> u64_of_pos p | M.Zneg p -> Int64.neg (u64_of_pos p)

(* arbitrary-size N -> hex, padded to [width] digits *)
let hex_of_bign (n : M.n) (width : int) : string =
  let rec bits p = match p with M.XH -> [1] | M.XO q -> 0 :: bits q | M.XI q -> 1 :: bits q in
  let bs = match n with M.N0 -> [] | M.Npos p -> bits p in
  let rec nibbles l =
    match l with
    | [] -> []
    | [a] -> [a]
    | [a; b] -> [a + (2 * b)]
    | [a; b; c] -> [a + (2 * b) + (4 * c)]
    | a :: b :: c :: d :: r -> (a + (2 * b) + (4 * c) + (8 * d)) :: nibbles r
  in
  let ds = List.rev (nibbles bs) in
  let s = String.concat "" (List.map (fun d -> Printf.sprintf "%x" d) ds) in
  if String.length s >= width then s else String.make (width - String.length s) '0' ^ s

let string_of_coq (s : M.string) : string =
  let b = Buffer.create 32 in
  let bit x k = if x then 1 lsl k else 0 in
  let rec go s =
    match s with
    | M.EmptyString -> ()
    | M.String (M.Ascii (b0, b1, b2, b3, b4, b5, b6, b7), r) ->
        Buffer.add_char b
          (Char.chr (bit b0 0 + bit b1 1 + bit b2 2 + bit b3 3 + bit b4 4 + bit b5 5 + bit b6 6 + bit b7 7));
        go r
  in
  go s;
  Buffer.contents b

let hexdigit c =
  match c with
  | '0' .. '9' -> Char.code c - 48
  | 'a' .. 'f' -> Char.code c - 87
  | 'A' .. 'F' -> Char.code c - 55
  | _ -> failwith "bad hex"
let bytes_of_hex (h : string) : M.n list =
  let n = String.length h / 2 in
  let rec go i acc = if i < 0 then acc else go (i - 1) (n_of_int ((hexdigit h.[2 * i] * 16) + hexdigit h.[(2 * i) + 1]) :: acc) in
  go (n - 1) []
let hex_of_bytes (l : M.n list) : string =
  let b = Buffer.create 64 in
  List.iter (fun x -> Buffer.add_string b (Printf.sprintf "%02x" (int_of_n x land 255))) l;
  Buffer.contents b
let ocaml_string_of_bytes (l : M.n list) : string =
  let b = Buffer.create 64 in
  List.iter (fun x -> Buffer.add_char b (Char.chr (int_of_n x land 255))) l;
  Buffer.contents b
let bytes_of_ocaml_string (s : string) : M.n list =
  List.init (String.length s) (fun i -> n_of_int (Char.code s.[i]))

let md5 (b : M.n list) : M.n list = bytes_of_ocaml_string (Digest.string (ocaml_string_of_bytes b))

let maxt = 9223372036854775807L

let snapshot (st : M.kvstate) : string =
  let nowz, obs = M.observe st in
  let items =
    List.map
      (fun (o : M.keyobs) ->
        let cur, et =
          match o.M.o_cur with
          | None -> ("-", "-")
          | Some (isk, e) ->
              ((if isk then "K" else "G"), if Int64.equal (i64_of_z e) maxt then "inf" else Int64.to_string (i64_of_z e))
        in
        let data =
          match o.M.o_data with None -> "-" | Some (b, t) -> hex_of_bytes b ^ "/" ^ string_of_int (int_of_n t)
        in
        Printf.sprintf "%s:%d:%d:%s:%s:%s" (hex_of_bign o.M.o_key 32) (int_of_n o.M.o_locked)
          (if o.M.o_waited then 1 else 0) cur et data)
      obs
  in
  let items = List.sort compare items in
  String.concat " " (("st " ^ Int64.to_string (i64_of_z nowz)) :: items)

let () =
  let ic = if Array.length Sys.argv > 1 then open_in Sys.argv.(1) else stdin in
  let st = ref (M.kv_init M.Z0) in
  let stopped = ref false in
  (try
     while true do
       let line = String.trim (input_line ic) in
       if line <> "" then begin
         let f = List.filter (fun s -> s <> "") (String.split_on_char ' ' line) in
         match f with
         | "case" :: id :: t0 :: _ ->
             Printf.printf "case %s\n" id;
             st := M.kv_init (z_of_i64 (Int64.of_string t0));
             stopped := false
         | [ "end" ] -> print_endline "end"
         | "cmd" :: args ->
             if not !stopped then begin
               let a = List.map (fun h -> if h = "-" then [] else bytes_of_hex h) args in
               let (st', r), n = M.kv_step_t md5 !st a in
               st := st';
               (match r with
               | M.RHang ->
                   Printf.printf "r hang %d\n" (int_of_n n);
                   stopped := true
               | M.RUnmodelled why ->
                   Printf.printf "r unmodelled %s\n" (String.map (fun c -> if c = ' ' then '_' else c) (string_of_coq why));
                   stopped := true
               | _ ->
                   Printf.printf "r %s %d\n" (hex_of_bytes (M.reply_bytes r)) (int_of_n n);
                   print_endline (snapshot !st))
             end
         | [ "adv"; n ] ->
             if not !stopped then begin
               let rec nat_of_int i = if i <= 0 then M.O else M.S (nat_of_int (i - 1)) in
               st := M.kv_advance !st (nat_of_int (int_of_string n));
               print_endline (snapshot !st)
             end
         | _ -> failwith ("bad line: " ^ line)
       end
     done
   with End_of_file -> ());
  flush stdout
