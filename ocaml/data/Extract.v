(* Extraction of the value-operation model (ExtrOcamlBasic only; N/Z/positive stay Coq datatypes). *)
Require Import ExtrOcamlBasic.
From Slock Require Import Data.Data.
Extraction "model.ml" process_lock_data_ex process_lock_data_fx process_recover_lock_data_fx
  process_ack_lock_data aof_lock_data get_lock_data no_fixes all_fixes.
