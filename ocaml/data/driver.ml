(* Line-oriented driver for the extracted value-operation model (coq/Data/Data.v).
   Same case / observation format as harness/data/inj/zz_verif_data.go.
   usage: modelrun <fixes>      fixes = 9 characters 0/1 in the field order of Data.Fixes.fixes *)
module M = Model

(* ---------- number conversions (trusted, correspondence only) ---------- *)
let rec pos_of_int (i : int) : M.positive =
  if i = 1 then M.XH else if i land 1 = 0 then M.XO (pos_of_int (i lsr 1)) else M.XI (pos_of_int (i lsr 1))
let n_of_int (i : int) : M.n = if i = 0 then M.N0 else M.Npos (pos_of_int i)
let rec int_of_pos (p : M.positive) : int =
  match p with M.XH -> 1 | M.XO q -> 2 * int_of_pos q | M.XI q -> 2 * int_of_pos q + 1
let int_of_n (n : M.n) : int = match n with M.N0 -> 0 | M.Npos p -> int_of_pos p

(* unsigned 64-bit <-> positive *)
let rec pos_of_u64 (i : int64) : M.positive =
  if Int64.equal i 1L then M.XH
  else
    let h = Int64.shift_right_logical i 1 in
    if Int64.equal (Int64.logand i 1L) 0L then M.XO (pos_of_u64 h) else M.XI (pos_of_u64 h)
let n_of_u64 (i : int64) : M.n = if Int64.equal i 0L then M.N0 else M.Npos (pos_of_u64 i)
let rec u64_of_pos (p : M.positive) : int64 =
  match p with
  | M.XH -> 1L
  | M.XO q -> Int64.shift_left (u64_of_pos q) 1
  | M.XI q -> Int64.logor (Int64.shift_left (u64_of_pos q) 1) 1L
let u64_of_n (n : M.n) : int64 = match n with M.N0 -> 0L | M.Npos p -> u64_of_pos p
let z_of_i64 (i : int64) : M.z =
  if Int64.equal i 0L then M.Z0
  else if Int64.compare i 0L > 0 then M.Zpos (pos_of_u64 i)
  else M.Zneg (pos_of_u64 (Int64.neg i))   (* Int64.neg min_int = min_int = 2^63 as unsigned: correct *)
let i64_of_z (z : M.z) : int64 =
  match z with M.Z0 -> 0L | M.Zpos p -> u64_of_pos p | M.Zneg p -> Int64.neg (u64_of_pos p)

let string_of_coq (s : M.string) : string =
  let b = Buffer.create 32 in
  let bit x k = if x then 1 lsl k else 0 in
  let rec go s =
    match s with
    | M.EmptyString -> ()
    | M.String (M.Ascii (b0, b1, b2, b3, b4, b5, b6, b7), r) ->
        Buffer.add_char b
          (Char.chr (bit b0 0 + bit b1 1 + bit b2 2 + bit b3 3 + bit b4 4 + bit b5 5 + bit b6 6 + bit b7 7));
        go r
  in
  go s;
  Buffer.contents b

(* ---------- hex ---------- *)
let hexdigit c =
  match c with
  | '0' .. '9' -> Char.code c - 48
  | 'a' .. 'f' -> Char.code c - 87
  | 'A' .. 'F' -> Char.code c - 55
  | _ -> failwith "bad hex"
let bytes_of_hex (h : string) : M.n list =
  let n = String.length h / 2 in
  let rec go i acc = if i < 0 then acc else go (i - 1) (n_of_int ((hexdigit h.[2 * i] * 16) + hexdigit h.[(2 * i) + 1]) :: acc) in
  go (n - 1) []
let hex_of_bytes (l : M.n list) : string =
  let b = Buffer.create 64 in
  List.iter (fun x -> Buffer.add_string b (Printf.sprintf "%02x" (int_of_n x land 255))) l;
  Buffer.contents b
let hex_opt o = match o with None -> "-" | Some l -> hex_of_bytes l

(* ---------- formatting ---------- *)
let fmt_m with_aof (m : M.mdata option) : string =
  match m with
  | None -> "-"
  | Some m ->
      let s = hex_of_bytes m.M.d_bytes ^ "/" ^ hex_of_bytes m.M.d_cap ^ "/" ^ string_of_int (int_of_n m.M.d_type) in
      if with_aof then s ^ if m.M.d_isaof then "/1" else "/0" else s
let fmt_rv (v : M.recval) : string =
  match v with
  | M.RVNil -> "n"
  | M.RVInt z -> "i" ^ Int64.to_string (i64_of_z z)
  | M.RVPos p -> "p" ^ Printf.sprintf "%Lu" (u64_of_n p)
  | M.RVBytes b -> "b" ^ hex_of_bytes b
  | M.RVValues l -> "v" ^ String.concat "," (List.map hex_of_bytes l)
let fmt_ld (ld : M.lockdata option) : string =
  match ld with
  | None -> "-"
  | Some l -> hex_opt l.M.ld_aof ^ "|" ^ fmt_m false l.M.ld_cur ^ "|" ^ fmt_m false l.M.ld_rec ^ "|" ^ fmt_rv l.M.ld_recval

(* ---------- parsing ---------- *)
let split c s = String.split_on_char c s
let parse_m (s : string) : M.mdata option =
  if s = "-" then None
  else
    match split '/' s with
    | d :: cap :: t :: rest ->
        Some { M.d_bytes = bytes_of_hex d; M.d_cap = bytes_of_hex cap; M.d_type = n_of_int (int_of_string t);
               M.d_isaof = (match rest with "1" :: _ -> true | _ -> false) }
    | _ -> failwith ("bad mdata " ^ s)
let parse_rv (s : string) : M.recval =
  let r = String.sub s 1 (String.length s - 1) in
  match s.[0] with
  | 'n' -> M.RVNil
  | 'i' -> M.RVInt (z_of_i64 (Int64.of_string r))
  | 'p' -> M.RVPos (n_of_u64 (Int64.of_string ("0u" ^ r)))
  | 'b' -> M.RVBytes (bytes_of_hex r)
  | 'v' -> M.RVValues (if r = "" then [] else List.map bytes_of_hex (split ',' r))
  | _ -> failwith ("bad recval " ^ s)
let parse_ld (s : string) : M.lockdata option =
  if s = "-" then None
  else
    match split '|' s with
    | a :: c :: r :: v :: _ ->
        Some { M.ld_aof = (if a = "-" then None else Some (bytes_of_hex a)); M.ld_cur = parse_m c; M.ld_rec = parse_m r;
               M.ld_recval = parse_rv v }
    | _ -> failwith ("bad lockdata " ^ s)

let parse_fixes (s : string) : M.fixes =
  let b i = String.length s > i && s.[i] = '1' in
  { M.fx_short_frame = b 0; M.fx_cmd_offset = b 1; M.fx_val_offset = b 2; M.fx_shift = b 3; M.fx_incr_nil = b 4;
    M.fx_pipeline_len = b 5; M.fx_pop_bounds = b 6; M.fx_pipeline_fold = b 7; M.fx_recover_nil = b 8 }

(* ---------- running ---------- *)
type state = { mutable cur : M.mdata option; lds : M.lockdata option array }

let dump st =
  "cur=" ^ fmt_m true st.cur ^ " ld=" ^ String.concat " " (Array.to_list (Array.map fmt_ld st.lds))

exception Stop of string

let fail_of (o : 'a M.outcome) : string =
  match o with
  | M.Panic s -> "panic:" ^ string_of_coq s
  | M.Unsupported -> "unsupported"
  | M.OutOfFuel -> "outoffuel"
  | M.Ok _ -> "ok"

let step fx st (f : string list) : string =
  match f with
  | [ "P"; slot; islock; flag; eflag; expried; locked; waited; recover; frame ] -> (
      let i = int_of_string slot in
      let env = { M.pe_islock = islock = "1"; M.pe_flag = n_of_int (int_of_string flag);
                  M.pe_eflag = n_of_int (int_of_string eflag); M.pe_expried = n_of_int (int_of_string expried);
                  M.pe_locked = n_of_int (int_of_string locked); M.pe_waited = waited = "1";
                  M.pe_recover = recover = "1" } in
      match M.process_lock_data_fx fx env (bytes_of_hex (String.sub frame 1 (String.length frame - 1))) st.cur st.lds.(i) with
      | M.Ok (c, l) -> st.cur <- c; st.lds.(i) <- l; "ok"
      | o -> raise (Stop (fail_of o)))
  | [ "R"; slot ] -> (
      let i = int_of_string slot in
      match M.process_recover_lock_data_fx fx st.cur st.lds.(i) with
      | M.Ok (c, l) -> st.cur <- c; st.lds.(i) <- l; "ok"
      | o -> raise (Stop (fail_of o)))
  | [ "A"; slot ] -> (
      let i = int_of_string slot in
      match M.process_ack_lock_data st.cur st.lds.(i) with
      | M.Ok (b, l) -> st.lds.(i) <- l; "ok:" ^ hex_opt b
      | o -> raise (Stop (fail_of o)))
  | [ "F"; slot; islock ] ->
      let i = int_of_string slot in
      let (b, c), l = M.aof_lock_data (islock = "1") st.cur st.lds.(i) in
      st.cur <- c; st.lds.(i) <- l; "ok:" ^ hex_opt b
  | [ "G" ] -> "ok:" ^ hex_opt (M.get_lock_data st.cur)
  | [ "C"; m ] -> st.cur <- parse_m m; "ok"
  | [ "L"; slot; ld ] -> st.lds.(int_of_string slot) <- parse_ld ld; "ok"
  | _ -> failwith ("bad step " ^ String.concat " " f)

let () =
  let fx = parse_fixes (if Array.length Sys.argv > 1 then Sys.argv.(1) else "") in
  let out = Buffer.create 65536 in
  (try
     while true do
       let line = String.trim (input_line stdin) in
       if line <> "" && line.[0] <> '#' then begin
         let st = { cur = None; lds = Array.make 4 None } in
         let parts = ref [] in
         (try
            List.iter
              (fun s ->
                let f = List.filter (fun x -> x <> "") (split ' ' (String.trim s)) in
                if f <> [] then begin
                  let r = step fx st f in
                  parts := (r ^ " " ^ dump st) :: !parts
                end)
              (split ';' line)
          with Stop r -> parts := r :: !parts);
         Buffer.add_string out (String.concat " ; " (List.rev !parts));
         Buffer.add_char out '\n';
         if Buffer.length out > 60000 then begin print_string (Buffer.contents out); Buffer.clear out end
       end
     done
   with End_of_file -> ());
  print_string (Buffer.contents out)
