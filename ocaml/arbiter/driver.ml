(* Line-oriented driver for the extracted C12 election model; same case / observation format as the Go harness
   (harness/arbiter/inj/zz_verif_arbiter.go).  `modelrun run` reads cases, `modelrun cmp` compares aof ids. *)
open Model

let rec pos_of_int n = if n = 1 then XH else if n land 1 = 0 then XO (pos_of_int (n lsr 1)) else XI (pos_of_int (n lsr 1))
let n_of_int n = if n = 0 then N0 else Npos (pos_of_int n)
let rec int_of_pos = function XH -> 1 | XO p -> 2 * int_of_pos p | XI p -> 2 * int_of_pos p + 1
let int_of_n = function N0 -> 0 | Npos p -> int_of_pos p
let int_of_z = function Z0 -> 0 | Zpos p -> int_of_pos p | Zneg p -> - (int_of_pos p)
let ten = n_of_int 10
(* decimal strings <-> N (values reach 2^64-1, beyond OCaml's native int) *)
let n_of_string s =
  let acc = ref N0 in
  String.iter (fun ch -> acc := N.add (N.mul !acc ten) (n_of_int (Char.code ch - 48))) s; !acc
let string_of_n n =
  if n = N0 then "0" else begin
    let b = Buffer.create 24 in
    let rec go n acc = if n = N0 then acc else go (N.div n ten) (string_of_int (int_of_n (N.modulo n ten)) :: acc) in
    List.iter (Buffer.add_string b) (go n []); Buffer.contents b end
let rec nat_of_int n = if n = 0 then O else S (nat_of_int (n - 1))

let aof a t = { aid = n_of_string a; ctime = n_of_string t }

let kind_s = function KVote -> "V" | KProp -> "P" | KCommit -> "C"
let resp_s self = function
  | RLost -> "lost"
  | RVote v -> if self then "vote" else
      Printf.sprintf "vote %s %s %s %s %s %s" (string_of_n v.v_host) (string_of_n v.v_weight) (string_of_n v.v_arbiter)
        (string_of_n v.v_aof.aid) (string_of_n v.v_aof.ctime) (string_of_n v.v_role)
  | RVoteErr -> "voteerr"
  | ROk id -> "ok " ^ string_of_n id
  | RErr (c, id) -> Printf.sprintf "err %s %s" (string_of_n c) (string_of_n id)
let b01 b = if b then "1" else "0"
let event_s = function
  | EvNone -> "none"
  | EvStart (c, k) -> Printf.sprintf "start %s %s" (string_of_n c) (kind_s k)
  | EvReply (f, t, k, r) -> Printf.sprintf "reply %s %s %s %s" (string_of_n f) (string_of_n t) (kind_s k) (resp_s false r)
  | EvSelf (c, k, r) -> Printf.sprintf "self %s %s %s" (string_of_n c) (kind_s k) (resp_s true r)
  | EvVoted (c, ok, h) -> Printf.sprintf "voted %s %s %s" (string_of_n c) (b01 ok) (string_of_n h)
  | EvProposed (c, ok, i) -> Printf.sprintf "proposed %s %s %s" (string_of_n c) (b01 ok) (string_of_n i)
  | EvWin (c, i, h) -> Printf.sprintf "win %s %s %s" (string_of_n c) (string_of_n i) (string_of_n h)
  | EvCommitFail c -> "cfail " ^ string_of_n c
  | EvSucceed c -> "succ " ^ string_of_n c
  | EvRestart m -> "rst " ^ string_of_n m
  | EvOverwrite _ | EvLostLock _ -> ""
let opt_s = function None -> "-1" | Some x -> string_of_n x
let state_s s =
  String.concat ";" (List.map (fun nd ->
    Printf.sprintf "%s,%s,%s,%s,%s,%s,%s" (string_of_n nd.n_pid) (string_of_n nd.n_cid) (opt_s nd.n_host) (opt_s nd.n_from)
      (string_of_n nd.n_saved) (string_of_n nd.n_pidx)
      (String.concat "/" (List.map (fun ve -> Printf.sprintf "%s:%s:%s" (string_of_n ve.ve_role) (string_of_n ve.ve_aof.aid)
                                      (string_of_n ve.ve_aof.ctime)) nd.n_view))) s.nodes)

let action_of f =
  let n i = n_of_string f.(i) in
  match f.(0) with
  | "SV" -> AStartVote (n 1) | "SP" -> AStartProp (n 1) | "SC" -> AStartCommit (n 1)
  | "SELF" -> ASelf (n 1) | "FIN" -> AFinish (n 1) | "SUCC" -> ASucceed (n 1) | "RST" -> ARestart (n 1)
  | "DEL" -> ADeliver (n 1, n 2, f.(3) <> "0")
  | "DELI" -> ADeliverIdx (n 1, f.(2) <> "0")
  | s -> failwith ("bad action " ^ s)

(* ---- schedule generator: `modelrun expand` copies case headers and replaces each line
        G <seed> <steps> <ploss%> <prestart%> <pdelayself%> <attempts> <c1> [<c2> [<c3>]]
   by A lines drawn at random among the moves that are enabled in the MODEL state (so the schedules are
   meaningful protocol runs), plus a few stale / duplicate / disabled ones. *)
let eqn a b = (a = b)
let has_resp_l rs m = List.exists (fun (x, _) -> x = m) rs
let expand_case cfg st0 g emit =
  let rs = Random.State.make [| int_of_string g.(1) |] in
  let steps = int_of_string g.(2) and ploss = int_of_string g.(3) and prst = int_of_string g.(4)
  and pdelay = int_of_string g.(5) and attempts = int_of_string g.(6) in
  let cands = Array.to_list (Array.sub g 7 (Array.length g - 7)) |> List.map int_of_string in
  let n = List.length st0.nodes in
  let tries = Array.make n 0 in
  let st = ref st0 in
  let pct p = Random.State.int rs 100 < p in
  let k = ref 0 and stop = ref false in
  while not !stop && !k < steps do
    incr k;
    let moves = ref [] in
    let add w m = moves := (w, m) :: !moves in
    List.iter (fun c ->
      let nd = List.nth !st.nodes c in
      let cn = n_of_int c in
      (match nd.n_phase with
       | PIdle -> if tries.(c) < attempts then add 3 (Printf.sprintf "SV %d" c)
       | PVoted -> add 5 (Printf.sprintf "SP %d" c)
       | PProposed -> add 5 (Printf.sprintf "SC %d" c)
       | PWon -> add 2 (Printf.sprintf "SUCC %d" c)
       | PDone -> ()
       | PVoting | PProposing | PCommitting ->
         if nd.n_selfpend then add (if pct pdelay then 1 else 8) (Printf.sprintf "SELF %d" c)
         else add 1 (Printf.sprintf "FIN %d" c);
         List.iteri (fun m ve ->
           if m <> c && ve.ve_online && not (has_resp_l nd.n_resps (n_of_int m)) then
             add 4 (Printf.sprintf "DEL %d %d %d" c m (if pct ploss then 1 else 0))) nd.n_view);
      ignore cn) cands;
    if !moves = [] then stop := true else begin
      if pct prst then add 2 (Printf.sprintf "RST %d" (Random.State.int rs n));
      let ns = List.length !st.sent in
      if ns > 0 && pct 8 then add 2 (Printf.sprintf "DELI %d %d" (Random.State.int rs ns) (Random.State.int rs 2));
      if pct 3 then add 1 (List.nth ["SP"; "SC"; "FIN"; "SELF"; "SUCC"; "SV"] (Random.State.int rs 6) ^ Printf.sprintf " %d" (Random.State.int rs n));
      if pct 2 then add 1 (Printf.sprintf "DEL %d %d 0" (Random.State.int rs n) (Random.State.int rs n));
      let total = List.fold_left (fun a (w, _) -> a + w) 0 !moves in
      let r = ref (Random.State.int rs total) in
      let chosen = ref "" in
      List.iter (fun (w, m) -> if !chosen = "" then (if !r < w then chosen := m else r := !r - w)) !moves;
      let f = Array.of_list (String.split_on_char ' ' !chosen) in
      (if f.(0) = "SV" then let c = int_of_string f.(1) in if c < n then tries.(c) <- tries.(c) + 1);
      let (s1, _) = step cfg !st (action_of f) in
      st := s1;
      emit ("A " ^ !chosen)
    end
  done

let run_cases expand =
  let n = ref 0 in
  let ms = ref [||] and vs = ref [||] in
  let st = ref None and cfg = ref [] and ai = ref 0 in
  let build () =
    let k = !n in
    cfg := List.init k (fun i -> let (w, a, _, _, _, _, _) = !ms.(i) in { c_weight = w; c_arbiter = a });
    let nodes = List.init k (fun i ->
      let (_, _, pid, cid, aid, ct, abst) = !ms.(i) in
      { n_pid = pid; n_cid = cid; n_host = None; n_from = None; n_saved = cid; n_log = { aid = aid; ctime = ct };
        n_abst = abst; n_view = List.init k (fun j -> !vs.(i).(j));
        n_pidx = N0; n_sidx = N0; n_phase = PIdle; n_vhost = N0; n_vaof = { aid = N0; ctime = N0 };
        n_epoch = N0; n_resps = []; n_selfpend = false }) in
    st := Some { nodes = nodes; sent = [] } in
  let get () = (match !st with None -> build () | Some _ -> ()); (match !st with Some s -> s | None -> assert false) in
  try
    while true do
      let line = String.trim (input_line stdin) in
      if line <> "" then begin
        let f = Array.of_list (List.filter (fun s -> s <> "") (String.split_on_char ' ' line)) in
        match f.(0) with
        | "CASE" -> print_string ("CASE " ^ f.(1) ^ "\n"); st := None; ai := 0
        | "G" when expand -> let s = get () in expand_case !cfg s f (fun l -> print_string (l ^ "\n"))
        | ("N" | "M" | "V") when expand && (print_string (line ^ "\n"); false) -> ()
        | "N" -> n := int_of_string f.(1);
          ms := Array.make !n (N0, N0, N0, N0, N0, N0, false);
          vs := Array.init !n (fun _ -> Array.make !n { ve_role = N0; ve_online = true; ve_aof = { aid = N0; ctime = N0 } })
        | "M" -> !ms.(int_of_string f.(1)) <- (n_of_string f.(2), n_of_string f.(3), n_of_string f.(4), n_of_string f.(5),
                                               n_of_string f.(6), n_of_string f.(7), f.(8) <> "0")
        | "V" -> !vs.(int_of_string f.(1)).(int_of_string f.(2)) <-
                   { ve_role = n_of_string f.(3); ve_online = f.(4) <> "0"; ve_aof = aof f.(5) f.(6) }
        | "A" when expand -> print_string (line ^ "\n")
        | "A" ->
          let s = get () in
          let (s1, e) = step !cfg s (action_of (Array.sub f 1 (Array.length f - 1))) in
          st := Some s1;
          let e = List.filter (function EvOverwrite _ | EvLostLock _ -> false | _ -> true) e in
          let es = if e = [] then "none" else String.concat " + " (List.map event_s e) in
          Printf.printf "E %d %s | %s\n" !ai es (state_s s1); incr ai
        | "END" -> ignore (get ()); print_string "END\n"
        | _ -> ()
      end
    done
  with End_of_file -> ()

let bytes_of_pair aid ct =
  (* same layout as the harness: a[0..3] = high half of aid (LE), a[4..7] = low half (LE), a[8..15] = ctime (LE) *)
  let two32 = n_of_string "4294967296" and b256 = n_of_int 256 in
  let le k x = let rec go k x = if k = 0 then [] else N.modulo x b256 :: go (k - 1) (N.div x b256) in go k x in
  le 4 (N.div aid two32) @ le 4 (N.modulo aid two32) @ le 8 ct

let run_cmp () =
  try
    while true do
      let line = String.trim (input_line stdin) in
      let f = Array.of_list (List.filter (fun s -> s <> "") (String.split_on_char ' ' line)) in
      if Array.length f = 4 then begin
        let a = aof f.(0) f.(1) and b = aof f.(2) f.(3) in
        let ba = bytes_of_pair a.aid a.ctime in
        let hex = String.concat "" (List.map (fun x -> Printf.sprintf "%02x" (int_of_n x)) ba) in
        let back = aofid_of_bytes ba in
        Printf.printf "%d %s %b\n" (int_of_z (compareAofId a b)) hex (back = a)
      end
    done
  with End_of_file -> ()

let () =
  if Array.length Sys.argv > 1 && Sys.argv.(1) = "cmp" then run_cmp ()
  else run_cases (Array.length Sys.argv > 1 && Sys.argv.(1) = "expand")
