(* Extraction of the C12 election model.  ExtrOcamlBasic only: N/Z/positive/nat stay Coq datatypes. *)
From Coq Require Import NArith ZArith.
From Slock Require Import Arbiter.Vote Arbiter.Select Arbiter.Paxosish.
Require Import ExtrOcamlBasic.
Extraction "model.ml" step run compareAofId aofid_of_bytes doVoteSelect N.add N.mul N.div N.modulo N.eqb.
