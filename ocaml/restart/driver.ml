(* line-oriented driver for the extracted restart model (property C07).
   input : case <id> <t0> <aoft> <ndbs> / actions (engine case format, optional trailing db id) /
           [disk ...] / restart <wall> <dbnow_0> ... <dbnow_{ndbs-1}> / [actions of phase 2 / [disk ...] / restart ...] / end
   output: same observation lines as `restarth hist` + `restarth restart` (replies, census before, census after).
   TWO-RESTART histories: after a `restart` line the model continues on the restarted databases
   (`recover_at` of the records found on disk when `disk` lines were given - what the real node was started on -,
   otherwise of the model's own record stream), as leader; the records emitted in phase 2 are appended to the kept
   records; the next `restart` line recovers from the whole list.  A line `phase2` separates the two output blocks. *)
open Model

let rec pos_of_i64 (n : int64) : positive =
  if Int64.equal n 1L then XH
  else if Int64.equal (Int64.logand n 1L) 0L then XO (pos_of_i64 (Int64.shift_right_logical n 1))
  else XI (pos_of_i64 (Int64.shift_right_logical n 1))
let n_of_i64 n = if Int64.equal n 0L then N0 else Npos (pos_of_i64 n)
let z_of_i64 n = if Int64.equal n 0L then Z0 else if Int64.compare n 0L > 0 then Zpos (pos_of_i64 n) else Zneg (pos_of_i64 (Int64.neg n))
let rec i64_of_pos = function XH -> 1L | XO p -> Int64.shift_left (i64_of_pos p) 1 | XI p -> Int64.logor (Int64.shift_left (i64_of_pos p) 1) 1L
let i64_of_n = function N0 -> 0L | Npos p -> i64_of_pos p
let i64_of_z = function Z0 -> 0L | Zpos p -> i64_of_pos p | Zneg p -> Int64.neg (i64_of_pos p)
let sn n = Printf.sprintf "%Lu" (i64_of_n n)
let sn20 n = Printf.sprintf "%020Lu" (i64_of_n n)
let sz z = Printf.sprintf "%Ld" (i64_of_z z)
let nof s = n_of_i64 (Int64.of_string ("0u" ^ s))
let zof s = z_of_i64 (Int64.of_string s)
let b2i b = if b then 1 else 0
let hex_of bytes = "x" ^ String.concat "" (List.map (fun b -> Printf.sprintf "%02x" (Int64.to_int (i64_of_n b))) bytes)
let shex = function None -> "-" | Some b -> hex_of b
let bytes_of_hex s =
  if s = "-" then None else begin
    let n = (String.length s - 1) / 2 in
    Some (List.init n (fun i -> n_of_i64 (Int64.of_string ("0x" ^ String.sub s (1 + 2 * i) 2))))
  end
let char_of_ascii (Ascii (b0, b1, b2, b3, b4, b5, b6, b7)) =
  let v b i = if b then 1 lsl i else 0 in
  Char.chr (v b0 0 + v b1 1 + v b2 2 + v b3 3 + v b4 4 + v b5 5 + v b6 6 + v b7 7)
let rec string_of_chars = function EmptyString -> "" | String (a, r) -> String.make 1 (char_of_ascii a) ^ string_of_chars r

let census dbi s =
  List.iter (fun h ->
    Printf.printf "hold db=%d key=%s lockid=%s depth=%s count=%s rcount=%s deadline=%s val=%s isaof=%d start=%s eflag=%s aoftime=%s mlocked=%s\n"
      dbi (sn20 h.h_key) (sn20 h.h_lockid) (sn h.h_depth) (sn h.h_count) (sn h.h_rcount) (sz h.h_deadline) (shex h.h_value)
      (b2i h.h_isaof) (sz h.h_start) (sn h.h_eflag) (sn h.h_aoftime) (sn (getm s h.h_key).m_locked)) (holds_full s)

let () =
  let ic = if Array.length Sys.argv > 1 then open_in Sys.argv.(1) else stdin in
  let dbs = ref [||] in
  let recs = ref [||] in
  let aoft = ref N0 in
  let disk = ref [||] in
  let have_disk = ref false in
  let stopped = ref false in
  (try while true do
    let line = String.trim (input_line ic) in
    if line <> "" then begin
      let f = Array.of_list (List.filter (fun x -> x <> "") (String.split_on_char ' ' line)) in
      match f.(0) with
      | "case" ->
        Printf.printf "case %s\n" f.(1);
        let n = int_of_string f.(4) in
        aoft := nof f.(3);
        dbs := Array.init n (fun _ -> init_db (zof f.(2)) !aoft);
        recs := Array.make n [];
        disk := Array.make n [];
        have_disk := false;
        stopped := false
      | "end" -> print_endline "end"
      | _ when !stopped -> ()
      | "disk" ->
        (* disk <db> <islock> <flag> <lockid> <key> <aofflag> <ctime> <start> <eflag> <etime> <count> <rcount> <data>: a record read from the real files *)
        have_disk := true;
        let d = int_of_string f.(1) in
        let r = { a_lock = (f.(2) = "1"); a_flag = nof f.(3); a_lockid = nof f.(4); a_key = nof f.(5); a_aofflag = nof f.(6);
                  a_ctime = zof f.(7); a_start = nof f.(8); a_eflag = nof f.(9); a_etime = nof f.(10); a_count = nof f.(11);
                  a_rcount = nof f.(12); a_data = bytes_of_hex f.(13); a_ref = None } in
        if d < Array.length !disk then (!disk).(d) <- r :: (!disk).(d)
      | "restart" ->
        let wall = zof f.(1) in
        Printf.printf "now-end %s\n" (sz (!dbs).(0).now);
        Array.iteri (fun i s -> census i s) !dbs;
        print_endline "census-end";
        Array.iteri (fun i rl ->
          List.iter (fun a ->
            Printf.printf "rec %d %d %s %s %s %s %s %s %s %s %s %s %s skip=%d\n" i (b2i a.a_lock) (sn a.a_flag) (sn a.a_lockid) (sn a.a_key) (sn a.a_aofflag)
              (sz a.a_ctime) (sn a.a_start) (sn a.a_eflag) (sn a.a_etime) (sn a.a_count) (sn a.a_rcount) (shex a.a_data) (b2i (load_skip a wall))) (List.rev rl)) !recs;
        Array.iteri (fun i rl ->
          let dbnow = if Array.length f > 2 + i && f.(2 + i) <> "-1" then zof f.(2 + i) else wall in
          let s' = recover_at !aoft (List.rev rl) wall dbnow in
          census i s') !recs;
        print_endline "census2-end";
        if !have_disk then begin
          Array.iteri (fun i rl ->
            let dbnow = if Array.length f > 2 + i && f.(2 + i) <> "-1" then zof f.(2 + i) else wall in
            census i (recover_at !aoft (List.rev rl) wall dbnow)) !disk;
          print_endline "census3-end"
        end;
        (* continuation (phase 2 of a two-restart history) *)
        let base = if !have_disk then Array.copy !disk else Array.copy !recs in
        dbs := Array.mapi (fun i rl ->
          let dbnow = if Array.length f > 2 + i && f.(2 + i) <> "-1" then zof f.(2 + i) else wall in
          recover_at !aoft (List.rev rl) wall dbnow) base;
        recs := base;
        disk := Array.make (Array.length base) [];
        have_disk := false;
        print_endline "phase2"
      | a ->
        Printf.printf "act %s\n" a;
        let apply i act =
          let (s', evs) = step (!dbs).(i) act in
          (!dbs).(i) <- s';
          List.iter (function
            | _ when !stopped -> ()
            | EReply (conn, req, res, lc, lrc, _, _, _, data) ->
              Printf.printf "ev reply %d %s %s %s %s %s %s\n" i (sn conn) (sn req) (sn res) (sn lc) (sn lrc) (shex data)
            | EPanic site -> Printf.printf "ev panic %s\n" (string_of_chars site); stopped := true
            | EAof r -> (!recs).(i) <- r :: (!recs).(i)
            | _ -> ()) evs in
        let all act = Array.iteri (fun i _ -> if not !stopped then apply i act) !dbs in
        (match a with
         | "req" ->
           let c = make_cmd (f.(2) = "L") (nof f.(3)) (nof f.(4)) (nof f.(5)) (nof f.(6)) (nof f.(7)) (nof f.(8)) (nof f.(9)) (nof f.(10)) (nof f.(11)) (nof f.(12)) (bytes_of_hex f.(13)) in
           let d = if Array.length f > 14 then int_of_string f.(14) else 0 in
           apply d (AReq (nof f.(1), c))
         | "adv" -> all (AAdvance (zof f.(1)))
         | "sweept" -> all ASweepT
         | "sweepe" -> all ASweepE
         | _ -> failwith ("unknown action " ^ a));
        if !stopped then print_endline "stopped"
    end
  done with End_of_file -> ());
  flush stdout
