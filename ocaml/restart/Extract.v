From Coq Require Import ExtrOcamlBasic.
From Slock Require Import Engine.Types Engine.Queues Engine.Timers Engine.Engine Engine.Engine2 Restart.Recover.
Extraction Language OCaml.
Extraction "model.ml" step init_db make_cmd getm aofs_of load_skip load_cmd recover_at holds_full holds_of.
