(* modelrun: runs the extracted Coq model (model.ml) on the cases read from stdin and prints one observation
   line per case, in exactly the format of harness/text/main.go. *)
open Model

let rec pos_of_int i = if i = 1 then XH else if i land 1 = 0 then XO (pos_of_int (i lsr 1)) else XI (pos_of_int (i lsr 1))
let n_of_int i = if i = 0 then N0 else Npos (pos_of_int i)
let z_of_int i = if i = 0 then Z0 else if i > 0 then Zpos (pos_of_int i) else Zneg (pos_of_int (- i))
let rec int_of_pos = function XH -> 1 | XO p -> 2 * int_of_pos p | XI p -> 2 * int_of_pos p + 1
let int_of_n = function N0 -> 0 | Npos p -> int_of_pos p
let int_of_z = function Z0 -> 0 | Zpos p -> int_of_pos p | Zneg p -> - (int_of_pos p)
(* decimal printing of arbitrarily large Z is not needed: all printed ints fit in 63 bits except cargLen/argsCount
   near the int64 limits; print those via Printf of an OCaml int (63-bit) when they fit, else as big decimal string *)
let rec pos_to_string p =
  (* big-number safe: repeated doubling on a decimal string *)
  let dbl s carry =
    let b = Bytes.of_string s in
    let c = ref carry in
    for i = Bytes.length b - 1 downto 0 do
      let d = (Char.code (Bytes.get b i) - 48) * 2 + !c in
      Bytes.set b i (Char.chr (48 + d mod 10)); c := d / 10
    done;
    (if !c > 0 then string_of_int !c else "") ^ Bytes.to_string b in
  match p with
  | XH -> "1"
  | XO q -> dbl (pos_to_string q) 0
  | XI q -> dbl (pos_to_string q) 1
let z_to_string = function Z0 -> "0" | Zpos p -> pos_to_string p | Zneg p -> "-" ^ pos_to_string p

let bytes_of_hex s =
  if s = "-" || s = "" then [] else begin
    let n = String.length s / 2 in
    let r = ref [] in
    for i = n - 1 downto 0 do
      r := n_of_int (int_of_string ("0x" ^ String.sub s (2 * i) 2)) :: !r
    done; !r end

let string_of_bytes l =
  let b = Buffer.create 64 in
  List.iter (fun c -> Buffer.add_char b (Char.chr (int_of_n c))) l; Buffer.contents b

let hex_of_string s =
  let b = Buffer.create (2 * String.length s) in
  String.iter (fun c -> Buffer.add_string b (Printf.sprintf "%02x" (Char.code c))) s; Buffer.contents b

let fnv s =
  let h = ref 0xcbf29ce484222325L in
  String.iter (fun c -> h := Int64.logxor !h (Int64.of_int (Char.code c)); h := Int64.mul !h 0x100000001b3L) s; !h

let repr_s s = if String.length s <= 64 then hex_of_string s else Printf.sprintf "#%d:%016Lx" (String.length s) (fnv s)
let repr l = repr_s (string_of_bytes l)
let repr_list l = Printf.sprintf "%d:%s" (List.length l) (String.concat "," (List.map repr l))

let perr_name = function
  | E_STAR -> "E_STAR" | E_COUNT -> "E_COUNT" | E_ATOI -> "E_ATOI" | E_DOLLAR -> "E_DOLLAR" | E_LEN -> "E_LEN"
  | E_ARG -> "E_ARG" | E_FIRST -> "E_FIRST" | E_MSG -> "E_MSG"

let state_line p =
  let a = p.args in
  let last = match List.rev a with [] -> -1 | x :: _ -> List.length x in
  Printf.sprintf "S:%s,%s,%s,%s,%s,%s,%s,%d,%d" (z_to_string p.stage) (z_to_string p.cargIndex) (z_to_string p.cargLen)
    (z_to_string p.argsCount) (z_to_string p.bufIndex) (z_to_string p.bufLen) (z_to_string p.argsType) (List.length a) last

let variant = ref { fix_cargidx = false; fix_msgend = false }
let fixed_bound = ref false
let error_msgs : bytes list ref = ref []
let md5_table : (string, bytes) Hashtbl.t = Hashtbl.create 64
let md5_missing = ref false
let md5 (s : bytes) : bytes =
  match Hashtbl.find_opt md5_table (string_of_bytes s) with
  | Some d -> d
  | None -> md5_missing := true; []

let run_parse resp cap chunks =
  let out = ref [] in
  let emit s = out := s :: !out in
  let rec go p = function
    | [] -> emit ("A:" ^ repr_list p.args)
    | c :: cs ->
      let ((p1, cmds), o) = feed !variant resp p c in
      List.iter (fun (ty, a) -> emit (Printf.sprintf "C:%s:%s" (z_to_string ty) (repr_list a))) cmds;
      (match o with
       | Model.Ok -> emit (state_line p1); emit "R:ok"; go p1 cs
       | Err e -> emit (state_line p1); emit ("R:err=" ^ perr_name e); emit ("A:" ^ repr_list p1.args)
       | Panic -> emit "R:panic"; emit ("A:" ^ repr_list p1.args)
       | OutOfFuel -> emit "R:outoffuel"; emit ("A:" ^ repr_list p1.args)) in
  go (new_parser (z_of_int cap)) chunks;
  String.concat " " (List.rev !out)

let cerr_name = function
  | EArgsCount -> "Command_Parse_Args_Count_Error" | EFlag -> "Command_Parse_FLAG_Error"
  | ETimeout -> "Command_Parse_TIMEOUT_Error" | EExpried -> "Command_Parse_EXPRIED_Error"
  | ECount -> "Command_Parse_COUNT_Error" | ERcount -> "Command_Parse_RCOUNT_Error"
  | EWill -> "Command_Parse_WILL_Error" | EIncr -> "Command_Parse_INCR_Error" | EShift -> "Command_Parse_SHIFT_Error"
  | EEXValue -> "Command_Parse_EX_Value_Error" | EPXValue -> "Command_Parse_PX_Value_Error"
  | ETXValue -> "Command_Parse_TX_Value_Error"

let id_repr = function IdBytes b -> hex_of_string (string_of_bytes b) | IdRequest -> "REQID" | IdConn -> "CONNID" | IdGen -> "GEN"

let rec data_repr = function
  | DNone -> "nil"
  | DRaw (st, ty, fl, frame) -> Printf.sprintf "raw(%d,%d,%d,%s)" (int_of_n st) (int_of_n ty) (int_of_n fl) (repr frame)
  | DExec (st, fl, dl, inner) ->
    let d = int_of_n dl in
    let h = Printf.sprintf "%02x%02x%02x%02x%02x%02x" (d land 255) ((d lsr 8) land 255) ((d lsr 16) land 255) ((d lsr 24) land 255)
        (((int_of_n st) lsl 6) lor 5) (int_of_n fl) in
    Printf.sprintf "exec(%d,%d,%d,%s,{%s})" d (int_of_n st) (int_of_n fl) h (cmd_repr inner)
and cmd_repr c =
  Printf.sprintf "type=%d flag=%d db=%d lockid=%s key=%s tflag=%d timeout=%d eflag=%d expried=%d count=%d rcount=%d data=%s"
    (int_of_n c.commandType) (int_of_n c.flag) (int_of_n c.dbId) (id_repr c.lockId) (hex_of_string (string_of_bytes c.lockKey))
    (int_of_n c.timeoutFlag) (int_of_n c.timeout) (int_of_n c.expriedFlag) (int_of_n c.expried) (int_of_n c.count)
    (int_of_n c.rcount) (data_repr c.data)

let cres_repr r =
  let s = match r with
    | CErr e -> "err=" ^ cerr_name e
    | CPanic -> "panic"
    | COk c -> "ok " ^ cmd_repr c in
  if !md5_missing then (md5_missing := false; "md5-digest-not-supplied " ^ s) else s

let upper s = String.uppercase_ascii s

let () =
  try
    while true do
      let line = input_line stdin in
      let line = String.trim line in
      if line <> "" then begin
        let f = String.split_on_char ' ' line in
        (match f with
         | ["V"; a; b; c] -> variant := { fix_cargidx = (a = "1"); fix_msgend = (b = "1") }; fixed_bound := (c = "1")
         | "E" :: msgs -> error_msgs := List.map bytes_of_hex msgs
         | ["M"; s; d] -> Hashtbl.replace md5_table (string_of_bytes (bytes_of_hex s)) (bytes_of_hex d)
         | "P" :: r :: cap :: chunks ->
           print_endline (run_parse (r = "1") (int_of_string cap) (List.map bytes_of_hex chunks))
         | "G" :: r :: chunks -> print_endline (if good_chunking (r = "1") (List.map bytes_of_hex chunks) then "good" else "bad")
         | "BR" :: a -> print_endline (repr (build_request (List.map bytes_of_hex a)))
         | "BS" :: s :: m :: res -> print_endline (repr (build_response (s = "1") (bytes_of_hex m) (List.map bytes_of_hex res)))
         | ["K"; s] ->
           let r = hex_of_string (string_of_bytes (arg2id md5 (bytes_of_hex s))) in
           print_endline ((if !md5_missing then (md5_missing := false; "md5-digest-not-supplied ") else "") ^ r ^ " " ^ r)
         | "T" :: a -> print_endline (cres_repr (convert_lock md5 (n_of_int 3) (List.map bytes_of_hex a)))
         | "F" :: a ->
           let a = List.map bytes_of_hex a in
           (match a with
            | name :: _ when (let u = upper (string_of_bytes name) in u = "SET" || u = "GETSET") ->
              print_endline (cres_repr (convert_set md5 (n_of_int 3) !fixed_bound (n_of_int 7) a))
            | _ -> print_endline "unmodelled")
         | "W" :: res :: fl :: id :: lc :: c :: lrc :: rc :: rest ->
           let d = match rest with [] | ["nil"] -> None | h :: _ -> Some (bytes_of_hex h) in
           let (dflag, dtype) = match d with
             | Some (_ :: _ :: _ :: _ :: t :: fg :: _) -> (fg, n_of_int ((int_of_n t) land 63))
             | _ -> (N0, N0) in
           let r = { r_Result = n_of_int (int_of_string res); r_Flag = n_of_int (int_of_string fl); r_LockId = bytes_of_hex id;
                     r_Lcount = n_of_int (int_of_string lc); r_Count = n_of_int (int_of_string c);
                     r_Lrcount = n_of_int (int_of_string lrc); r_Rcount = n_of_int (int_of_string rc);
                     r_DataFlag = dflag; r_DataType = dtype; r_Data = d } in
           (match render !error_msgs r with
            | RBytes b -> print_endline ("ok " ^ hex_of_string (string_of_bytes b))
            | RPanic -> print_endline "panic"
            | RNotModelled -> print_endline "unmodelled")
         | _ -> print_endline "badcase")
      end
    done
  with End_of_file -> ()
