(* Extraction of the text-protocol model.  ExtrOcamlBasic only; N/Z/positive stay Coq datatypes. *)
From Coq Require Import Extraction ExtrOcamlBasic.
From Slock Require Import Text.TextParse Text.TextSpec Text.KeyNorm Text.TextCmd.
Extraction Language OCaml.
Extraction "model.ml" new_parser feed feed_all build_request build_response
  stage cargIndex cargLen argsCount bufIndex bufLen argsType args lenZ mkVariant
  arg2id convert_lock convert_set args2flag render mkRes good_chunking.
