(* Line-oriented driver for the extracted C20 models; same case/observation format as the Go harness
   (see harness/queue/inj/server/zz_verif_queue.go). *)
open Model

let rec pos_of_int n = if n = 1 then XH else if n land 1 = 0 then XO (pos_of_int (n lsr 1)) else XI (pos_of_int (n lsr 1))
let z_of_int n = if n = 0 then Z0 else if n > 0 then Zpos (pos_of_int n) else Zneg (pos_of_int (-n))
let n_of_int n = if n = 0 then N0 else Npos (pos_of_int n)
let rec int_of_pos = function XH -> 1 | XO p -> 2 * int_of_pos p | XI p -> 2 * int_of_pos p + 1
let int_of_z = function Z0 -> 0 | Zpos p -> int_of_pos p | Zneg p -> - (int_of_pos p)
let int_of_n = function N0 -> 0 | Npos p -> int_of_pos p

let slot_of_arg s = if s = "-" then None else Some (n_of_int (int_of_string s))
let rest s = String.sub s 1 (String.length s - 1)

let op_of_string s =
  match s.[0] with
  | 'P' -> OpPush (slot_of_arg (rest s))
  | 'L' -> OpPushLeft (slot_of_arg (rest s))
  | 'p' -> OpPop | 'r' -> OpPopRight | 'h' -> OpHead | 't' -> OpTail | 'n' -> OpLen | 'i' -> OpIter
  | 'z' -> OpResize | 'c' -> OpRellac | 's' -> OpRestructuring | 'S' -> OpRestructuringLong | 'e' -> OpReset
  | 'k' -> OpShrink (z_of_int (int_of_string (rest s)))
  | 'f' -> OpFree
  | 'x' -> OpHole (z_of_int (int_of_string (rest s)))
  | 'd' -> OpDump
  | _ -> failwith ("bad op " ^ s)

let zs l = String.concat "," (List.map (fun z -> string_of_int (int_of_z z)) l)

let print_obs b = function
  | OUnit -> Buffer.add_string b " ok"
  | OFull -> Buffer.add_string b " full"
  | OSkip -> Buffer.add_string b " skip"
  | OVal None -> Buffer.add_string b " nil"
  | OVal (Some v) -> Buffer.add_string b (" v" ^ string_of_int (int_of_n v))
  | OInt z -> Buffer.add_string b (" n" ^ string_of_int (int_of_z z))
  | ONodes l ->
    let node n = String.concat "," (List.map (function None -> "-" | Some v -> string_of_int (int_of_n v)) n) in
    Buffer.add_string b (" i" ^ string_of_int (List.length l) ^ "[" ^ String.concat ";" (List.map node l) ^ "]")
  | ODump d ->
    Buffer.add_string b (" d{" ^ zs d.d_ints ^ ";" ^ zs d.d_sizes ^ ";" ^ zs d.d_lens ^ ";"
                         ^ string_of_int (int_of_z d.d_halias) ^ ";" ^ string_of_int (int_of_z d.d_talias) ^ "}")

let finish b e =
  (match e with EDone -> () | EPanic -> Buffer.add_string b " PANIC" | EFuel -> Buffer.add_string b " FUEL")

(* ---- key queues of lock.go (model coq/Queue/KeyQueues.v; format: harness/queue/inj/server/zz_verif_keyqueue.go) ---- *)
let rec nat_of_int n = if n <= 0 then O else S (nat_of_int (n - 1))
let int_of_nat n = let rec go acc = function O -> acc | S m -> go (acc + 1) m in go 0 n

let kop_of_string s =
  let id () = n_of_int (int_of_string (rest s)) in
  match s.[0] with
  | 'P' ->
    let a = rest s in
    if a = "-" then KPush (None, N0)
    else (match String.index_opt a '.' with
        | None -> KPush (Some (n_of_int (int_of_string a)), N0)
        | Some j ->
          KPush (Some (n_of_int (int_of_string (String.sub a 0 j))),
                 n_of_int (int_of_string (String.sub a (j + 1) (String.length a - j - 1)))))
  | 'p' -> KPop | 'h' -> KHead | 'n' -> KLen | 'i' -> KIter | 'm' -> KMaxPrio | 'e' -> KReset | 'y' -> KRePush
  | 'z' -> KResize
  | 'g' -> KGetLock (id ()) | 'x' -> KRemoveLock (id ())
  | 'T' -> KMarkTimeouted (id ()) | 'A' -> KMarkAck (id ()) | 'U' -> KMarkUnlocked (id ())
  | 'd' -> KDump | 'r' -> KRefs
  | _ -> failwith ("bad op " ^ s)

let ns l = String.concat "," (List.map (fun n -> string_of_int (int_of_n n)) l)
let rd_str (RD (l, c, i)) = string_of_int (int_of_nat l) ^ "," ^ string_of_int (int_of_nat c) ^ "," ^ string_of_int (int_of_nat i)
let ringdump_str = function
  | RDNone -> "N"
  | RDPlain r -> "R" ^ rd_str r
  | RDPrio l -> "Q" ^ String.concat "|" (List.map (fun (p, r) -> string_of_int (int_of_n p) ^ ":" ^ rd_str r) l)
let fast_str = function
  | None -> "F-"
  | Some (l, c) -> "F" ^ string_of_int (int_of_nat l) ^ "," ^ string_of_int (int_of_nat c)

let print_kobs b = function
  | KOk caps -> Buffer.add_string b (" ok/" ^ zs caps)
  | KUnit -> Buffer.add_string b " ok"
  | KSkip -> Buffer.add_string b " skip"
  | KVal None -> Buffer.add_string b " nil"
  | KVal (Some v) -> Buffer.add_string b (" v" ^ string_of_int (int_of_n v))
  | KInt z -> Buffer.add_string b (" n" ^ string_of_int (int_of_z z))
  | KPrioVal n -> Buffer.add_string b (" m" ^ string_of_int (int_of_n n))
  | KNodes l ->
    let node n = String.concat "," (List.map (function None -> "-" | Some v -> string_of_int (int_of_n v)) n) in
    Buffer.add_string b (" i" ^ string_of_int (List.length l) ^ "[" ^ String.concat ";" (List.map node l) ^ "]")
  | KDumpObs (DRing r) -> Buffer.add_string b (" d{" ^ ringdump_str r ^ "}")
  | KDumpObs (DWait (f, i, r)) ->
    Buffer.add_string b (" d{W;" ^ fast_str f ^ ";" ^ string_of_int (int_of_z i) ^ ";" ^ ringdump_str r ^ "}")
  | KDumpObs (DLock (f, i, s)) ->
    let sc = match s with
      | None -> "S-"
      | Some (d, m) ->
        "S" ^ zs d.d_ints ^ "/" ^ zs d.d_sizes ^ "/" ^ zs d.d_lens ^ "/" ^ string_of_int (int_of_z d.d_halias) ^ "/"
        ^ string_of_int (int_of_z d.d_talias) ^ "/" ^ ns m in
    Buffer.add_string b (" d{K;" ^ fast_str f ^ ";" ^ string_of_int (int_of_z i) ^ ";" ^ sc ^ "}")
  | KRefsObs l ->
    Buffer.add_string b (" r[" ^ String.concat "," (List.map (fun (i, r) ->
        string_of_int (int_of_n i) ^ ":" ^ string_of_int (int_of_n r)) l) ^ "]")

let key_case f b =
  let param = int_of_string f.(2) in
  let t = match f.(1) with
    | "R" -> TRing (nat_of_int param)
    | "Q" -> TPrio (nat_of_int param)
    | "W" -> TWait (param = 1)
    | "K" -> TLock
    | _ -> failwith ("bad queue type " ^ f.(1)) in
  let ops = List.map kop_of_string (Array.to_list (Array.sub f 3 (Array.length f - 3))) in
  let (obs, e) = run_key t ops in
  List.iter (print_kobs b) obs;
  finish b e

(* ---- long-wait tables of db.go (model coq/Queue/LongWait.v; format: harness/queue/inj/server/zz_verif_longwait.go) ---- *)
let gop_of_string s =
  let a = rest s in
  let two () =
    match String.index_opt a '.' with
    | None -> failwith ("bad op " ^ s)
    | Some j -> (z_of_int (int_of_string (String.sub a 0 j)),
                 n_of_int (int_of_string (String.sub a (j + 1) (String.length a - j - 1)))) in
  let t () = z_of_int (int_of_string a) in
  match s.[0] with
  | 'N' -> GInstall (t ())
  | 'A' -> let (t, x) = two () in GAdd (t, x)
  | 'X' -> let (t, x) = two () in GRemove (t, x)
  | 'R' -> let (t, x) = two () in GRawRemove (t, x)
  | 'S' -> GRestructure (t ())
  | 'p' -> GPop (t ()) | 'n' -> GLen (t ()) | 'C' -> GConsume (t ())
  | 'f' -> GFreeLen | 'F' -> GFreePop
  | 'w' -> GIndex (n_of_int (int_of_string a))
  | 'm' -> GKeys
  | 'd' -> GDump (t ())
  | _ -> failwith ("bad op " ^ s)

let print_gobs b = function
  | GUnit -> Buffer.add_string b " ok"
  | GUnitS -> Buffer.add_string b " ok+S"
  | GSkip -> Buffer.add_string b " skip"
  | GVal None -> Buffer.add_string b " nil"
  | GVal (Some v) -> Buffer.add_string b (" v" ^ string_of_int (int_of_n v))
  | GLens (n, c, f) ->
    Buffer.add_string b (" n" ^ string_of_int (int_of_z n) ^ "/" ^ string_of_int (int_of_z c) ^ "/" ^ string_of_int (int_of_z f))
  | GList l -> Buffer.add_string b (" c[" ^ ns l ^ "]")
  | GInt n -> Buffer.add_string b (" n" ^ string_of_int (int_of_z n))
  | GBool true -> Buffer.add_string b " ok"
  | GBool false -> Buffer.add_string b " nil"
  | GIdx i -> Buffer.add_string b (" w" ^ string_of_int (int_of_z i))
  | GKeyList l -> Buffer.add_string b (" m[" ^ zs l ^ "]")
  | GDumpObs (d, t, c, f) ->
    Buffer.add_string b (" d{" ^ zs d.d_ints ^ ";" ^ zs d.d_sizes ^ ";" ^ zs d.d_lens ^ ";"
                         ^ string_of_int (int_of_z d.d_halias) ^ ";" ^ string_of_int (int_of_z d.d_talias) ^ ";"
                         ^ string_of_int (int_of_z t) ^ ";" ^ string_of_int (int_of_z c) ^ ";" ^ string_of_int (int_of_z f) ^ "}")

let long_case f b =
  let zi i = z_of_int (int_of_string f.(i)) in
  (* f.(2) = kind T|E: the two tables run the same (textually identical) code; the model has one *)
  let ops = List.map gop_of_string (Array.to_list (Array.sub f 7 (Array.length f - 7))) in
  let (obs, e) = run_long (zi 3) (zi 4) (zi 5) (zi 6) ops in
  List.iter (print_gobs b) obs;
  finish b e

let () =
  let b = Buffer.create 65536 in
  (try
     while true do
       let line = String.trim (input_line stdin) in
       if line <> "" then begin
         let f = Array.of_list (List.filter (fun s -> s <> "") (String.split_on_char ' ' line)) in
         Buffer.clear b;
         Buffer.add_string b f.(0);
         (match f.(1) with
          | "L" | "C" | "M" ->
            let zi i = z_of_int (int_of_string f.(i)) in
            let ops = List.map op_of_string (Array.to_list (Array.sub f 5 (Array.length f - 5))) in
            let ((obs, e), _) = run_new (zi 2) (zi 3) (zi 4) ops in
            List.iter (print_obs b) obs;
            finish b e
          | "G" -> long_case f b
          | _ -> key_case f b);
         Buffer.add_char b '\n';
         print_string (Buffer.contents b)
       end
     done
   with End_of_file -> ())
