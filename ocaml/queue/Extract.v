(* Extraction of the C20 queue models.  ExtrOcamlBasic only: N/Z/positive/nat stay Coq datatypes. *)
From Slock Require Import Queue.SegQueue.
From Slock Require Import Queue.KeyQueues.
From Slock Require Import Queue.LongWait.
Require Import ExtrOcamlBasic.
Extraction "model.ml" run_new run_key run_long.
